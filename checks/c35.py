"""C35 - Compiled mass properties match the geometry.

Domain : a free body with 1-4 geoms (every primitive type, inline closed meshes: tetrahedron, box, icosphere, UV cylinder,
         random convex hulls with explicit faces) with arbitrary pos/quat, density or explicit mass, shellinertia on
         primitives, mesh inertia modes convex/exact/legacy/shell, geom groups with compiler inertiagrouprange, and a child
         body (its geoms must not leak into the parent); plus meshes that tessellate a sphere/ellipsoid/cylinder/box at three
         resolutions.
Oracle : vf/oracle/inertia.py - textbook volume/area, COM and inertia of each primitive (solid and shell; ellipsoid shell by
         Gauss-Legendre surface quadrature), polyhedral mass properties by signed tetrahedra / triangle moments, parallel-axis
         composition in the body frame; compared with body_mass, body_ipos and R(body_iquat) diag(body_inertia) R^T.
Non-trivial : >= 2 geoms with different orientations on the body, or a mesh geom.
"""
import math

import numpy as np
from hypothesis import strategies as st

from vf import gen_geom as gg
from vf.oracle import inertia as ir
from vf.runner import Violation

# relative tolerances: the compiler works in double precision on the same closed forms; the eigen-decomposition
# (mju_eig3) converges to ~1e-12 relative. Worst observed: mass 4e-16, com 2e-15*L, inertia 3e-13 -> x100 and more.
K_MASS = 1e-11
K_COM = 1e-11
K_INERTIA = 1e-5     # the compiler's Jacobi eigen-solver stops when a rotation is < ~1.4e-6 rad (cos > 1-1e-12): the stored
                     # principal axes reproduce the tensor to ~1e-6 relative (worst observed 1.5e-7)
# ellipsoid shell: the compiler uses Thomsen's area approximation (|error| <= 1.061 %) and a thin layer between the
# ellipsoid and the ellipsoid with semi-axes + 1e-6 (not a uniform-thickness layer): documented in the source only.
# Measured against exact surface quadrature for aspect ratios <= 4: worst observed mass error 0.08 %, inertia error 0.5 %.
K_ELL_SHELL_MASS = 0.012
K_ELL_SHELL_INERTIA = 0.05

K_MESH = 3e-6        # float32 vertex pipeline (eps 6e-8); worst observed 1.7e-8

PRIMS = ('sphere', 'capsule', 'ellipsoid', 'cylinder', 'box')


def f32(v):
  return np.asarray(v, dtype=np.float32).astype(np.float64)


def make_mesh(rng, kind, scale):
  if kind == 'tetra':
    v, f = gg.tetra_mesh()
  elif kind == 'box':
    v, f = gg.box_mesh()
  elif kind == 'ico':
    v, f = gg.icosphere(rng.randint(0, 2))
  elif kind == 'cyl':
    v, f = gg.uv_cylinder(rng.randint(5, 14))
  else:
    v = gg.random_hull_points(rng, rng.randint(5, 14))
    f = hull_triangles(v)
  v = v * (scale * gg.rand_size(rng, 'box', 1.0, aniso=3.0))
  if rng.rand() < 0.6:
    v = v + scale * rng.uniform(-1, 1, 3)          # off-centre mesh frame: the compiler must re-centre it
  if rng.rand() < 0.5:
    v = v @ gg.quat2mat(gg.rand_quat(rng)).T       # principal axes not aligned with the mesh frame
  return f32(v), np.asarray(f, dtype=int)


def hull_triangles(v):
  """Outward triangulation of the convex hull of points in general position (brute force)."""
  f = gg.hull_faces(v)
  c = v.mean(axis=0)
  out = []
  for a, b, cc in f:
    n = np.cross(v[b] - v[a], v[cc] - v[a])
    out.append((a, b, cc) if n @ (v[a] - c) > 0 else (a, cc, b))
  return np.array(out)


def body_strategy():
  return st.fixed_dictionaries(dict(ngeom=st.integers(1, 4), nchild=st.integers(0, 2), logscale=st.integers(-30, 5),
                                    grouprange=st.booleans(), seed=st.integers(0, 2 ** 31 - 1)))


def main(ck):
  lib = ck.lib('rel')
  from vf import mj
  ck.rule = ('Hypothesis draws #geoms (1-4), #geoms of a child body, scale (0.001..3), inertiagrouprange on/off, seed; types, sizes, '
             'poses, density/mass, shellinertia, mesh kind and inertia mode from the seed; non-trivial = >=2 geoms with '
             'different orientations or a mesh geom; distinct by xml. Second family: tessellations of primitives at 3 resolutions')
  ck.assumptions = ['compiler flags boundmass/boundinertia/balanceinertia/settotalmass off (defaults)',
                    'mesh vertices are float32 in the spec: the oracle uses the float32-rounded coordinates',
                    'ellipsoid shell: compiler approximations (Thomsen area, non-uniform thin layer) accepted within '
                    '1.2 % (mass) / 5 % (inertia) of the exact uniform shell, see K_ELL_SHELL_*']
  worst = dict(mass=0.0, com=0.0, inertia=0.0, ell_shell_mass=0.0, ell_shell_inertia=0.0, mesh_mass=0.0, mesh_inertia=0.0)

  def finding(fp, msg, info):
    stats['finding:' + fp] = stats.get('finding:' + fp, 0) + 1
    ck.violation(msg, info, bucket='known:' + fp, fingerprint='C35:' + fp)
  stats = {}

  def geom_spec(rng, name, scale, assets, allow_mesh=True):
    typ = (PRIMS + ('mesh', 'mesh'))[rng.randint(len(PRIMS) + (2 if allow_mesh else 0))]
    pos = scale * rng.uniform(-1, 1, 3) * (rng.rand() < 0.85)
    okind = rng.randint(4)
    R = np.eye(3) if okind == 0 else (gg.signed_perm(rng) if okind == 1 else gg.quat2mat(gg.rand_quat(rng)))
    quat = gg.mat2quat(R)
    R = gg.quat2mat(quat)
    g = dict(name=name, typ=typ, pos=pos, R=R, quat=quat, group=int(rng.randint(0, 6)), shell=False)
    a = ' name="%s" pos="%s" quat="%s" group="%d"' % (name, gg.fmt(pos), gg.fmt(quat), g['group'])
    if typ == 'mesh':
      kind = ['tetra', 'box', 'ico', 'cyl', 'hull'][rng.randint(5)]
      v, f = make_mesh(rng, kind, scale * 0.5)
      mode = ['convex', 'exact', 'legacy', 'shell', None][rng.randint(5)]
      mname = 'm_' + name
      assets.append(gg.mesh_asset(mname, v, f, '' if mode is None else ' inertia="%s"' % mode))
      a += ' type="mesh" mesh="%s"' % mname
      g.update(verts=v, faces=f, mode=mode, kind=kind, shell=(mode == 'shell'))
      if rng.rand() < 0.3:
        a += ' shellinertia="true"' if False else ''   # (documented as ignored for meshes; the parser rejects it)
    else:
      s = gg.rand_size(rng, typ, 0.5 * scale)
      g['size'] = s
      a += ' type="%s" size="%s"' % (typ, gg.fmt(s[:gg.NSIZE[typ]]))
      if rng.rand() < 0.35:
        g['shell'] = True
        a += ' shellinertia="true"'
    if rng.rand() < 0.5:
      g['density'] = float(rng.randint(50, 3000))
      a += ' density="%s"' % gg.fmt(g['density'])
    elif rng.rand() < 0.6:
      g['mass'] = float(np.round(10 ** rng.uniform(-2, 1), 4))
      a += ' mass="%s"' % gg.fmt(g['mass'])
    else:
      g['density'] = 1000.0
    g['xml'] = '<geom%s/>' % a
    return g

  def reference(geoms, lo, hi):
    parts = []
    approx = False
    tmin = [math.inf]
    for g in geoms:
      if not (lo <= g['group'] <= hi):
        continue
      if g['typ'] == 'mesh':
        vb = g['verts'] @ g['R'].T + g['pos']
        meas, com, I = (ir.shell_mesh if g['shell'] else ir.solid_mesh)(vb, g['faces'])
        tmin[0] = min(tmin[0], float(np.trace(I)))      # the compiler diagonalises the unit-density mesh inertia
      else:
        meas, _, Il = ir.primitive(g['typ'], g['size'], g['shell'])
        com, I = g['pos'], g['R'] @ Il @ g['R'].T
        if g['typ'] == 'ellipsoid' and g['shell']:
          approx = True
      m = g['mass'] if 'mass' in g else g['density'] * meas
      parts.append((m, com, I * (m / meas)))
    if not parts:
      return None
    return ir.combine(parts) + (approx, any(g['typ'] == 'mesh' and lo <= g['group'] <= hi for g in geoms), tmin[0])

  def compare(m, b, ref, L, what, xml):
    M, com, I, approx, hasmesh, tmin = ref
    tmin = min(tmin, float(np.trace(I)))
    em = abs(float(m.body_mass[b]) - M) / M
    ec = float(np.max(np.abs(np.array(m.body_ipos[b]) - com))) / L
    R = gg.quat2mat(np.array(m.body_iquat[b]))
    di = np.array(m.body_inertia[b])
    Ie = R @ np.diag(di) @ R.T
    ei = float(np.max(np.abs(Ie - I))) / float(np.trace(I))
    km, ki = (K_ELL_SHELL_MASS, K_ELL_SHELL_INERTIA) if approx else (K_MASS, K_INERTIA)
    kc = 0.05 if approx else K_COM
    if hasmesh and not approx:
      km, kc = K_MESH, K_MESH     # mesh vertices are re-centred/rotated and stored in float32 by the compiler
    key = ('ell_shell_' if approx else ('mesh_' if hasmesh else ''))
    worst[key + 'mass'] = max(worst[key + 'mass'], em)
    worst[key + 'inertia'] = max(worst[key + 'inertia'], ei)
    if not approx and not hasmesh:
      worst['com'] = max(worst['com'], ec)
    if em > km:
      raise Violation('%s: body_mass %.17g, reference %.17g (rel %.3g) xml=%s' % (what, m.body_mass[b], M, em, xml),
                      bucket='mass')
    if ec > kc:
      raise Violation('%s: body_ipos %s, reference COM %s xml=%s' % (what, np.array(m.body_ipos[b]).tolist(), com.tolist(),
                                                                      xml), bucket='com')
    # (small inertias used to keep their off-diagonal terms because mjuu_eig3 stopped on an absolute threshold; repaired by a
    # fix: commit, so there is no allowance any more)
    if ei > ki:
      raise Violation('%s: R diag(I) R^T =\n%s\nreference inertia about the COM =\n%s\n(rel %.3g) xml=%s' % (
          what, Ie, I, ei, xml), bucket='inertia')
    if np.any(di <= 0):
      raise Violation('%s: non-positive principal moment %s xml=%s' % (what, di.tolist(), xml), bucket='positive')
    s = np.sort(di)
    if s[0] + s[1] < s[2] * (1 - 1e-9):
      raise Violation('%s: principal moments %s violate the triangle inequality xml=%s' % (what, di.tolist(), xml),
                      bucket='triangle')
    if abs(np.linalg.norm(m.body_iquat[b]) - 1) > 1e-12:
      raise Violation('%s: body_iquat not unit xml=%s' % (what, xml), bucket='iquat')

  def test(case):
    rng = np.random.RandomState(case['seed'])
    scale = 10 ** (case['logscale'] / 10.0)
    assets = []
    geoms = [geom_spec(rng, 'g%d' % i, scale, assets) for i in range(case['ngeom'])]
    child = [geom_spec(rng, 'c%d' % i, scale, assets) for i in range(case['nchild'])]
    lo, hi = 0, 5
    comp = ''
    if case['grouprange']:
      lo = int(rng.randint(0, 4))
      hi = int(rng.randint(lo, 6))
      comp = '<compiler inertiagrouprange="%d %d"/>' % (lo, hi)
    cpos = scale * rng.uniform(-1, 1, 3)
    cq = gg.rand_quat(rng)
    childx = ''
    if child:
      childx = '<body name="c" pos="%s" quat="%s"><joint type="hinge" axis="0 0 1"/>%s</body>' % (
          gg.fmt(cpos), gg.fmt(cq), ''.join(g['xml'] for g in child))
    xml = ('<mujoco>%s<asset>%s</asset><worldbody><body name="b" pos="%s" quat="%s"><freejoint/>%s%s</body></worldbody>'
           '</mujoco>' % (comp, ''.join(assets), gg.fmt(scale * rng.uniform(-1, 1, 3)), gg.fmt(gg.rand_quat(rng)),
                          ''.join(g['xml'] for g in geoms), childx))
    refb = reference(geoms, lo, hi)
    refc = reference(child, lo, hi) if child else None
    try:
      m = lib.model_from_xml(xml)
    except mj.MjError as e:
      msg = str(e)
      if refb is None or (child and refc is None):
        ck.discard('no-inertia-geoms(expected compile error)')      # mass and inertia of moving bodies must be positive
        return
      if 'qhull' in msg:
        ck.discard('hull')
        return
      raise Violation('valid body does not compile: %s xml=%s' % (msg, xml), bucket='compile')
    if refb is None or (child and refc is None):
      raise Violation('body without any geom in inertiagrouprange compiled (mass %s) xml=%s' % (m.body_mass, xml),
                      bucket='compile')
    L = 3 * scale
    compare(m, 1, refb, L, 'body b', xml)
    if child:
      compare(m, 2, refc, L, 'child body c', xml)
    used = [g for g in geoms if lo <= g['group'] <= hi]
    orient = {tuple(np.round(g['quat'], 6)) for g in used}
    hasmesh = any(g['typ'] == 'mesh' for g in used)
    labels = ['ngeom=%d' % len(used)] + ['geom:%s%s' % (g['typ'], '/shell' if g['shell'] else '') for g in used]
    labels += ['mesh:%s/%s' % (g['kind'], g['mode']) for g in used if g['typ'] == 'mesh']
    if case['grouprange'] and len(used) < len(geoms):
      labels.append('inertiagrouprange-excludes-geom')
    if any('mass' in g for g in used):
      labels.append('explicit-mass')
    ck.case(nontrivial=(len(used) >= 2 and len(orient) >= 2) or hasmesh, key=xml,
            sample=dict(xml=xml, body_mass=float(m.body_mass[1]), ref_mass=refb[0], ipos=np.array(m.body_ipos[1]),
                        ref_com=refb[1], inertia=np.array(m.body_inertia[1])), labels=labels)

  ck.run_hypothesis(test, body_strategy(), ck.budget(400, 10000), name='bodies', shrink=False)

  # ---- tessellations of primitives: properties converge to the primitive's from below, within the geometric bound
  def tess(case):
    rng = np.random.RandomState(case)
    kind = ['sphere', 'cylinder', 'box'][rng.randint(3)]
    s = gg.rand_size(rng, 'box', 0.3, aniso=3.0)
    prev = None
    for level in range(3):
      if kind == 'sphere':
        v, f = gg.icosphere(level)
        prim = ir.solid_ellipsoid(*s)
      elif kind == 'cylinder':
        v, f = gg.uv_cylinder(8 * 2 ** level)
        s[1] = s[0]
        prim = ir.solid_cylinder(s[0], s[2])
      else:
        v, f = gg.box_mesh()
        prim = ir.solid_box(*s)
      # inscribed: every face plane at distance >= rho from the origin of the UNIT shape
      rho = min(abs(float(np.dot(np.cross(v[b] - v[a], v[c] - v[a]) / np.linalg.norm(np.cross(v[b] - v[a], v[c] - v[a])), v[a])))
                for a, b, c in f) if kind != 'box' else 1.0
      if kind == 'cylinder':
        rho = math.cos(math.pi / (8 * 2 ** level))
      vv = f32(v * s)
      mode = ['convex', 'exact', 'legacy'][rng.randint(3)]
      xml = ('<mujoco><asset>%s</asset><worldbody><body><freejoint/><geom type="mesh" mesh="t" density="1"/></body>'
             '</worldbody></mujoco>' % gg.mesh_asset('t', vv, f, ' inertia="%s"' % mode))
      m = lib.model_from_xml(xml)
      mass = float(m.body_mass[1])
      I = np.sort(np.array(m.body_inertia[1]))
      Ip = np.sort(np.diag(prim[2]))
      rm = mass / prim[0]
      ri = I / Ip
      lo_m = rho ** 3 if kind == 'sphere' else rho ** 2
      lo_i = rho ** 5 if kind == 'sphere' else rho ** 4
      if not (lo_m * (1 - 1e-6) <= rm <= 1 + 1e-6) or np.any(ri > 1 + 1e-6) or np.any(ri < lo_i * (1 - 1e-6)):
        raise Violation('tessellated %s level %d (%s): mass ratio %.6g (bound [%.6g,1]), inertia ratios %s (bound [%.6g,1]) '
                        'xml=%s' % (kind, level, mode, rm, lo_m, ri.tolist(), lo_i, xml), bucket='tessellation')
      if kind == 'box' and (abs(rm - 1) > 1e-6 or np.max(np.abs(ri - 1)) > 1e-6):
        raise Violation('box mesh is not exact: mass ratio %.9g inertia ratios %s' % (rm, ri.tolist()), bucket='tessellation')
      if prev is not None and kind != 'box' and not (rm > prev[0] and np.all(ri > prev[1])):
        raise Violation('tessellated %s: error does not decrease with resolution (%s -> %s)' % (kind, prev, (rm, ri)),
                        bucket='tessellation')
      prev = (rm, ri)
      ck.case(nontrivial=True, key=('tess', kind, level, tuple(s), mode),
              sample=dict(kind=kind, level=level, mode=mode, mass_ratio=rm, inertia_ratio=ri),
              labels=['tessellation:%s/%d/%s' % (kind, level, mode)])
  ck.run_hypothesis(tess, st.integers(0, 2 ** 31 - 1), ck.budget(40, 600), name='tessellation', shrink=False)
  ck.extra['tolerances'] = dict(K_MASS=K_MASS, K_COM=K_COM, K_INERTIA=K_INERTIA, K_ELL_SHELL_MASS=K_ELL_SHELL_MASS,
                                K_ELL_SHELL_INERTIA=K_ELL_SHELL_INERTIA)
  ck.extra['worst_observed'] = worst
  ck.extra['stats'] = stats


LEVEL = 'exploration'
TECHNIQUE = ('property-based testing: generated bodies (primitives, shells, closed meshes, explicit mass, group ranges) against '
             'closed-form / polyhedral mass properties and parallel-axis composition; convergence test on tessellated primitives')
LEVEL_TEXT = '''Random bodies with 1-4 geoms of every type (solid and shell primitives, closed meshes in the four mesh inertia modes,
density or explicit mass, off-centre and rotated mesh frames, inertiagrouprange) plus a child body; body_mass, body_ipos and the
tensor reconstructed from body_iquat/body_inertia are compared with an independent analytic reference; principal moments must be
positive and satisfy the triangle inequality. Tessellated spheres/ellipsoids/cylinders/boxes at three resolutions must approach
the primitive's mass and inertia monotonically from below within the inscribed-polyhedron bound, the box mesh exactly.
Sampled, not exhaustive.'''
LEVEL_NOTE = '''Ellipsoid shells are only checked within the accuracy of the compiler's own approximations (Thomsen area formula, thin layer
of non-uniform thickness): 1.2 % mass / 5 % inertia. Non-convex meshes are not generated (only "exact" promises them, and the
convex hull shim is a stand-in for qhull); hfield geoms are skipped; explicit <inertial>, boundmass/boundinertia/balanceinertia/
settotalmass are left to C36.'''
