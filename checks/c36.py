"""C36 - Equivalent model descriptions compile to equivalent physics.

Domain : abstract models (vf/gen_rewrite.py: body tree depth >= 2, joints, geoms, sites, cameras, inertials, tendons,
         actuators, sensors, replicate and attach nodes) x a Hypothesis-drawn set of rewrite kinds: orientation spelling
         (quat/axisangle/euler with any universal eulerseq/xyaxes/zaxis), degrees, default classes (nested, class=,
         childclass= on bodies and frames, documented internal defaults, autolimits), frames (nested, incl. joints),
         <replicate>, <attach> (XML asset route and mjs_attach API route, child with its own angle unit/eulerseq),
         fusestatic, discardvisual, sibling order.
Oracle : metamorphic.  The plain spelling (quat, radian, explicit, written out, inline) and the rewritten spelling are
         compiled; objects are matched by name; compiled arrays agree within TOL_*; 20-step trajectories from the same
         named state agree within a sensitivity-scaled tolerance.  Conversion formulas are an independent numpy oracle
         written from the documentation.  mj_setConst: edit a compiled model + mj_setConst == recompile of the edited
         XML, bit-exact on every field (same arithmetic), see SETCONST_* below for the documented exceptions.
"""
import ctypes

import numpy as np
from hypothesis import strategies as st

from vf import gen_rewrite as gr
from vf import modelcmp
from vf.runner import Violation

NSTEP = 20
CMP_STEPS = (1, 10, 20)

# ---- tolerances (relative error metric |a-b| / (1 + |a| + |b|)); calibration notes at the bottom of the file
TOL_DIRECT = 1e-12      # compiled parameters that are copies / frame compositions / unit conversions of the XML numbers
TOL_DERIVED = 1e-10     # quantities obtained through solves with the inertia matrix (invweight0, acc0, M0, stat)
TOL_F32 = 1e-6          # float32 fields
TOL_EIG = 1e-4          # inertia tensors, max|dI| / max|I|: the compiler diagonalises with a Jacobi iteration that stops
                        # when the remaining rotation has cos > 1 - 1e-12 (user_util.cc kEigEPS), i.e. principal axes are
                        # only accurate to ~1.5e-6 rad per Jacobi pair, hence |dI| up to ~1e-5 |I|; worst observed 8.7e-7
TOL_DERIVED_FUSE = 1e-4 # derived quantities when fusestatic re-diagonalises aggregated inertias (inherits TOL_EIG)
TRAJ_ATOL = 1e-10       # trajectory: absolute floor ...
TRAJ_K = 1.0            # ... plus K x (response of the plain model to a 1e-12 perturbation of its state)
TRAJ_ATOL_FUSE = 1e-6   # fusestatic: the fused inertia is re-diagonalised (relative error up to ~3e-6, see TOL_EIG), i.e. a
TRAJ_K_FUSE = 3e7       # parameter perturbation ~3e6 times larger than the 1e-12 probe; x10 margin (thorough: worst diff = 0.04 x this tol)
ILLCOND = 1e-6          # response above this: labelled illconditioned, trajectory comparison skipped

OBJTYPES = ('body', 'joint', 'geom', 'site', 'camera', 'tendon', 'actuator', 'sensor')
PREFIX = dict(body='body_', joint='jnt_', geom='geom_', site='site_', camera='cam_', tendon='tendon_',
              actuator='actuator_', sensor='sensor_')
COUNT = dict(body='nbody', joint='njnt', geom='ngeom', site='nsite', camera='ncam', tendon='ntendon',
             actuator='nu', sensor='nsensor')
# integer fields holding ids of other objects: compared through names
IDMAP = dict(body_parentid='body', body_rootid='body', body_weldid='body', jnt_bodyid='body', geom_bodyid='body',
             site_bodyid='body', cam_bodyid='body', cam_targetbodyid='body', jnt_actuatorid='actuator',
             tendon_actuatorid='actuator')
# order-dependent addresses / indices into other arrays (not properties of the object itself)
SKIP = {'body_jntadr', 'body_dofadr', 'body_geomadr', 'body_treeid', 'body_bvhadr', 'body_plugin', 'jnt_qposadr',
        'jnt_dofadr', 'geom_dataid', 'geom_matid', 'geom_plugin', 'site_matid', 'tendon_adr', 'tendon_matid',
        'tendon_treeid', 'actuator_ctrladr', 'actuator_outadr', 'actuator_actadr', 'actuator_historyadr',
        'actuator_plugin', 'actuator_trnid', 'sensor_adr', 'sensor_historyadr', 'sensor_plugin', 'sensor_objid',
        'sensor_refid', 'body_ipos', 'body_iquat', 'body_inertia', 'body_sameframe', 'geom_size', 'site_size', 'geom_user', 'site_user',
        'body_user', 'jnt_user', 'cam_user', 'tendon_user', 'actuator_user', 'sensor_user'}
QUATS = {'body_quat', 'geom_quat', 'site_quat', 'cam_quat'}
DERIVED = {'body_invweight0', 'body_subtreemass', 'tendon_invweight0', 'tendon_length0', 'tendon_lengthspring',
           'actuator_acc0', 'actuator_length0', 'actuator_lengthrange', 'cam_pos0', 'cam_poscom0', 'cam_mat0',
           'dof_invweight0', 'dof_M0', 'dof_length', 'body_margin', 'geom_aabb', 'geom_rbound'}
# fields that legitimately change when static bodies are fused / visual geoms are discarded
FUSE_SKIP = {'body_mass', 'body_parentid', 'body_weldid', 'body_rootid', 'body_pos', 'body_quat', 'body_geomnum', 'body_sameframe',
             'body_simple', 'body_subtreemass', 'body_bvhnum', 'body_contype', 'body_conaffinity', 'body_margin',
             'geom_sameframe', 'site_sameframe', 'dof_length', 'body_invweight0'}
# ... and, only for geoms/sites that lived in a body that was fused away (they are re-expressed in the parent frame):
FUSE_MOVED_SKIP = {'geom_bodyid', 'geom_pos', 'geom_quat', 'site_bodyid', 'site_pos', 'site_quat'}
DISCARD_SKIP = {'body_geomnum', 'body_bvhnum', 'body_sameframe', 'body_contype', 'body_conaffinity', 'body_margin',
                'geom_sameframe', 'site_sameframe', 'dof_length', 'body_simple'}
NSIZE = {2: 1, 3: 2, 4: 3, 5: 2, 6: 3}      # mjtGeom sphere, capsule, ellipsoid, cylinder, box -> relevant size entries


class Stats:
  def __init__(self):
    self.maxerr = {}

  def note(self, cls, field, err):
    """Worst error per tolerance class among comparisons that PASSED (used to calibrate the tolerances)."""
    k = cls
    tol = dict(direct=TOL_DIRECT, derived=TOL_DERIVED, f32=TOL_F32, eig=TOL_EIG).get(k.split('-')[0], 1.0)
    if err <= tol and err > self.maxerr.get(k, (0.0, ''))[0]:
      self.maxerr[k] = (float(err), field)


STATS = Stats()


def relerr(a, b):
  a = np.asarray(a, dtype=np.float64)
  b = np.asarray(b, dtype=np.float64)
  if a.size == 0:
    return 0.0
  with np.errstate(all='ignore'):
    e = np.abs(a - b) / (1.0 + np.abs(a) + np.abs(b))
  e = np.where(np.isnan(e), np.where(np.isnan(a) == np.isnan(b), 0.0, np.inf), e)
  return float(np.max(e))


def quaterr(a, b):
  a = np.asarray(a, dtype=np.float64).reshape(-1, 4)
  b = np.asarray(b, dtype=np.float64).reshape(-1, 4)
  if a.size == 0:
    return 0.0
  return float(np.max(np.minimum(np.max(np.abs(a - b), axis=1), np.max(np.abs(a + b), axis=1))))


# ------------------------------------------------------------------------------------------------ compilation

def compile_case(lib, xml, child):
  """Compile a document; `child` describes an attached sub-model (XML asset route through a VFS, or mjs_attach)."""
  from vf import mj
  vp = None
  if child and not child['api']:
    vfs = ctypes.c_void_p(0)
    vp = ctypes.addressof(vfs)
    lib.mj_defaultVFS(vp)
    buf = child['xml'].encode()
    if lib.mj_addBufferVFS(vp, child['file'].encode(), buf, len(buf)) != 0:
      raise RuntimeError('mj_addBufferVFS failed')
  try:
    s = lib.parse_xml(xml, vfs=vp)
    sc = None
    try:
      if child and child['api']:
        sc = lib.parse_xml(child['xml'])
        fr = lib.mjs_findFrame(s, 'attach_here')
        bd = lib.mjs_findBody(sc, child['body'])
        if not fr or not bd:
          raise mj.MjError('attach: frame or child body not found (%r, %r)' % (fr, bd))
        r = lib.mjs_attach(mj.Struct(lib, 'mjsFrame', fr).element, mj.Struct(lib, 'mjsBody', bd).element,
                           child['prefix'], child['suffix'])
        if not r:
          raise mj.MjError('mjs_attach failed: %s' % lib.mjs_getError(s))
      return lib.compile_spec(s, vfs=vp)
    finally:
      lib.mj_deleteSpec(s)
      if sc:
        lib.mj_deleteSpec(sc)
  finally:
    if vp:
      lib.mj_deleteVFS(vp)


class Index:
  """Names <-> ids of a compiled model."""

  def __init__(self, lib, m):
    E = lib.enums
    self.m = m
    self.obj = dict(body=E.mjOBJ_BODY, joint=E.mjOBJ_JOINT, geom=E.mjOBJ_GEOM, site=E.mjOBJ_SITE, camera=E.mjOBJ_CAMERA,
                    tendon=E.mjOBJ_TENDON, actuator=E.mjOBJ_ACTUATOR, sensor=E.mjOBJ_SENSOR)
    self.byobj = {v: k for k, v in self.obj.items()}
    self.byobj[E.mjOBJ_XBODY] = 'body'
    self.names = {}
    self.ids = {}
    for t in OBJTYPES:
      n = getattr(m, COUNT[t])
      nm = [lib.mj_id2name(m, self.obj[t], i) for i in range(n)]
      self.names[t] = nm
      self.ids[t] = {x: i for i, x in enumerate(nm) if x}

  def name(self, t, i):
    i = int(i)
    if i < 0:
      return i
    return self.names[t][i]


def fail(msg, bucket):
  raise Violation(msg, bucket=bucket)


def inertia_body(m, i):
  R = gr.q2mat(m.body_iquat[i])
  return R @ np.diag(m.body_inertia[i]) @ R.T


def compare_fields(lib, mA, mB, IA, IB, t, names, skip, what, tol_derived=TOL_DERIVED):
  """All model arrays of one object type, for the name-matched objects `names`."""
  nA, nB = getattr(mA, COUNT[t]), getattr(mB, COUNT[t])
  ia = np.array([IA.ids[t][x] for x in names], dtype=int)
  ib = np.array([IB.ids[t][x] for x in names], dtype=int)
  if not len(ia):
    return
  for f in lib.model_fields:
    if not f.startswith(PREFIX[t]) or f in skip:
      continue
    xa, xb = getattr(mA, f), getattr(mB, f)
    if xa.shape[0] != nA or xb.shape[0] != nB or xa.shape[1:] != xb.shape[1:]:
      if xa.shape[0] != nA:
        continue
      fail('%s: field %s shapes %s vs %s' % (what, f, xa.shape, xb.shape), 'shape')
    va, vb = xa[ia], xb[ib]
    if f in IDMAP:
      na = [IA.name(IDMAP[f], v) for v in va]
      nb = [IB.name(IDMAP[f], v) for v in vb]
      if na != nb:
        k = [i for i in range(len(na)) if na[i] != nb[i]][0]
        fail('%s: %s of %s %r: %r vs %r' % (what, f, t, names[k], na[k], nb[k]), 'field:' + f)
    elif va.dtype.kind == 'f':
      if f in QUATS:
        e, cls, tol = quaterr(va, vb), 'direct', TOL_DIRECT
      elif va.dtype == np.float32:
        e, cls, tol = relerr(va, vb), 'f32', TOL_F32
      elif f in DERIVED:
        e, cls, tol = relerr(va, vb), 'derived', tol_derived
      else:
        e, cls, tol = relerr(va, vb), 'direct', TOL_DIRECT
      STATS.note(cls + ('-fuse' if tol_derived != TOL_DERIVED and cls == 'derived' else ''), f, e)
      if e > tol:
        d = np.abs(va.astype(np.float64) - vb).reshape(len(ia), -1).max(axis=1) if f not in QUATS else \
            np.minimum(np.abs(va - vb).max(axis=1), np.abs(va + vb).max(axis=1))
        k = int(np.argmax(d))
        fail('%s: %s of %s %r differs: %s vs %s (err %.3g > %.1g)' % (what, f, t, names[k], va[k].tolist(),
                                                                        vb[k].tolist(), e, tol), 'field:' + f)
    else:
      if not np.array_equal(va, vb):
        d = (va != vb).reshape(len(ia), -1).any(axis=1)
        k = int(np.flatnonzero(d)[0])
        fail('%s: %s of %s %r: %s vs %s' % (what, f, t, names[k], va[k].tolist(), vb[k].tolist()), 'field:' + f)


def compare_models(lib, mA, mB, kinds, what, prefuse=None):
  """Name-matched comparison of two compiled models.  Returns (IA, IB, common names per type)."""
  fuse, disc = 'fuse' in kinds, 'discard' in kinds
  IA, IB = Index(lib, mA), Index(lib, mB)
  common = {}
  for t in OBJTYPES:
    a, b = set(IA.ids[t]), set(IB.ids[t])
    ok = a == b
    if t == 'body' and fuse or t == 'geom' and disc:
      ok = b <= a
    if not ok:
      fail('%s: %s names differ: only plain %s, only rewritten %s' % (what, t, sorted(a - b)[:6], sorted(b - a)[:6]),
           'names:' + t)
    if getattr(mA, COUNT[t]) != len(a) or getattr(mB, COUNT[t]) != len(b):
      fail('%s: unnamed or duplicate %s objects (%d/%d vs %d/%d)' % (what, t, getattr(mA, COUNT[t]), len(a),
                                                                      getattr(mB, COUNT[t]), len(b)), 'names:' + t)
    common[t] = sorted(b)
  if fuse:   # every body that carries a joint survives
    for j in range(mA.njnt):
      bn = IA.name('body', mA.jnt_bodyid[j])
      if bn not in IB.ids['body']:
        fail('%s: jointed body %s removed by fusestatic' % (what, bn), 'fuse:removed-moving-body')
  if disc:
    for g in range(mA.ngeom):
      if (mA.geom_contype[g] or mA.geom_conaffinity[g]) and IA.names['geom'][g] not in IB.ids['geom']:
        fail('%s: collision geom %s discarded' % (what, IA.names['geom'][g]), 'discard:removed-collision-geom')
  for s in ('nq', 'nv', 'nu', 'na', 'nsensordata', 'nmocap', 'neq'):
    if getattr(mA, s) != getattr(mB, s):
      fail('%s: size %s %d vs %d' % (what, s, getattr(mA, s), getattr(mB, s)), 'size:' + s)
  skip = set(SKIP)
  if any(mA.body_mass[i] == 0 and not np.any(mA.body_inertia[i]) for i in range(1, mA.nbody)):
    skip.add('dof_length')      # built from xipos of the joint's body and its parent: arbitrary for massless bodies
  if fuse:
    skip |= FUSE_SKIP
  if disc:
    skip |= DISCARD_SKIP
  # objects whose body is fused away: cameras are excluded (known finding 'fusestatic-camera-frame-lost', see the
  # dedicated probe), geoms and sites are compared without their local-frame fields (world poses: trajectories)
  moved = {t: set() for t in OBJTYPES}
  # 'eig jitter': the compiler's Jacobi diagonalisation is discontinuous in its input (termination thresholds, see
  # TOL_EIG); when two spellings end up with principal frames that differ by more than rounding, everything derived
  # from the inertia inherits that error and is compared with the fusestatic tolerances instead
  jitter = 0.0
  if not fuse:
    for x in common['body']:
      Ta, Tb = inertia_body(mA, IA.ids['body'][x]), inertia_body(mB, IB.ids['body'][x])
      if np.any(Ta):
        jitter = max(jitter, float(np.max(np.abs(Ta - Tb)) / np.max(np.abs(Ta))))
  common['eigjitter'] = jitter > 1e-11
  tol_derived = TOL_DERIVED_FUSE if fuse or common['eigjitter'] else TOL_DERIVED
  if fuse:
    for t, bf in (('geom', 'geom_bodyid'), ('site', 'site_bodyid'), ('camera', 'cam_bodyid')):
      for x in common[t]:
        if IA.name('body', getattr(mA, bf)[IA.ids[t][x]]) not in IB.ids['body']:
          moved[t].add(x)
    if moved['camera']:
      common['camera'] = [x for x in common['camera'] if x not in moved['camera']]
      common['excluded_cameras'] = sorted(moved['camera'])
  # reference ids BEFORE fusing = ids of the same rewritten document compiled with fusestatic off (`prefuse`)
  stale = stale_candidates(lib, prefuse, Index(lib, prefuse), mB, IB) if fuse and prefuse is not None else []
  if stale:
    # known finding 'fusestatic-stale-geom-site-ids' (dedicated probe): FuseStatic re-orders geoms/sites but the
    # name->id maps used to resolve references afterwards are not rebuilt; everything that goes through such a
    # reference (tendons, actuators, sensors, dynamics) is excluded from this case and counted
    common['stale_refs'] = stale
  # massless bodies: the compiler copies the body's LOCAL pos/quat into ipos/iquat ("ipos undefined: copy body frame
  # into inertial"), a value without physical meaning that depends on how the pose is split between <frame>s and the
  # body; quantities evaluated at that point (body_invweight0, camera offsets to a massless subtree com) are not compared
  nomass = set(x for x in common['body'] if mA.body_mass[IA.ids['body'][x]] == 0 and
               not np.any(mA.body_inertia[IA.ids['body'][x]]))
  nosub = set(x for x in common['camera'] if mA.body_subtreemass[mA.cam_bodyid[IA.ids['camera'][x]]] == 0)
  for t in OBJTYPES:
    if stale and t in ('tendon', 'actuator', 'sensor'):
      continue
    special = nomass if t == 'body' else nosub if t == 'camera' else set()
    extra = {'body_invweight0'} if t == 'body' else {'cam_poscom0'}
    for subset, sk in (([x for x in common[t] if x not in moved[t] and x not in special], skip),
                       ([x for x in common[t] if x not in moved[t] and x in special], skip | extra),
                       ([x for x in common[t] if x in moved[t]], skip | FUSE_MOVED_SKIP | extra)):
      compare_fields(lib, mA, mB, IA, IB, t, subset, sk, what, tol_derived)
  # geom / site sizes: only the entries that are meaningful for the type
  for t, tf, sf in (('geom', 'geom_type', 'geom_size'), ('site', 'site_type', 'site_size')):
    for x in common[t]:
      a, b = IA.ids[t][x], IB.ids[t][x]
      n = NSIZE.get(int(getattr(mA, tf)[a]), 3)
      e = relerr(getattr(mA, sf)[a][:n], getattr(mB, sf)[b][:n])
      STATS.note('direct', sf, e)
      if e > TOL_DIRECT:
        fail('%s: %s of %r: %s vs %s' % (what, sf, x, getattr(mA, sf)[a].tolist(), getattr(mB, sf)[b].tolist()), 'field:' + sf)
  # joints: qpos0 / qpos_spring / dof_* slices
  for x in common['joint']:
    a, b = IA.ids['joint'][x], IB.ids['joint'][x]
    jt = int(mA.jnt_type[a])
    nq, nv = ((7, 6), (4, 3), (1, 1), (1, 1))[jt]
    qa, qb = int(mA.jnt_qposadr[a]), int(mB.jnt_qposadr[b])
    da, db = int(mA.jnt_dofadr[a]), int(mB.jnt_dofadr[b])
    for f in ('qpos0', 'qpos_spring'):
      va, vb = getattr(mA, f)[qa:qa + nq], getattr(mB, f)[qb:qb + nq]
      if jt == 0:
        e = max(relerr(va[:3], vb[:3]), quaterr(va[3:], vb[3:]))
      elif jt == 1:
        e = quaterr(va, vb)
      else:
        e = relerr(va, vb)
      STATS.note('direct', f, e)
      if e > TOL_DIRECT:
        fail('%s: %s of joint %r: %s vs %s (err %.3g)' % (what, f, x, va.tolist(), vb.tolist(), e), 'field:' + f)
    for f in lib.model_fields:
      if not f.startswith('dof_') or f in ('dof_bodyid', 'dof_jntid', 'dof_parentid', 'dof_treeid', 'dof_Madr',
                                          'dof_simplenum') or f in skip:
        continue
      va, vb = getattr(mA, f)[da:da + nv], getattr(mB, f)[db:db + nv]
      cls, tol = ('derived', tol_derived) if f in DERIVED else ('direct', TOL_DIRECT)
      e = relerr(va, vb)
      STATS.note(cls + ('-fuse' if tol_derived != TOL_DERIVED and cls == 'derived' else ''), f, e)
      if e > tol:
        fail('%s: %s of joint %r: %s vs %s (err %.3g)' % (what, f, x, va.tolist(), vb.tolist(), e), 'field:' + f)
  # tendon paths, actuator targets, sensor objects (through names)
  for x in ([] if stale else common['tendon']):
    a, b = IA.ids['tendon'][x], IB.ids['tendon'][x]
    pa = wrap_path(lib, mA, IA, a)
    pb = wrap_path(lib, mB, IB, b)
    if [p[:2] for p in pa] != [p[:2] for p in pb] or relerr([p[2] for p in pa], [p[2] for p in pb]) > TOL_DIRECT:
      fail('%s: path of tendon %r: %s vs %s' % (what, x, pa, pb), 'field:wrap')
  E = lib.enums
  for x in ([] if stale else common['actuator']):
    a, b = IA.ids['actuator'][x], IB.ids['actuator'][x]
    ta = trn_target(E, mA, IA, a)
    tb = trn_target(E, mB, IB, b)
    if ta != tb:
      fail('%s: transmission target of actuator %r: %s vs %s' % (what, x, ta, tb), 'field:actuator_trnid')
  for x in ([] if stale else common['sensor']):
    a, b = IA.ids['sensor'][x], IB.ids['sensor'][x]
    oa = IA.name(IA.byobj.get(int(mA.sensor_objtype[a]), 'body'), mA.sensor_objid[a]) if mA.sensor_objid[a] >= 0 else None
    ob = IB.name(IB.byobj.get(int(mB.sensor_objtype[b]), 'body'), mB.sensor_objid[b]) if mB.sensor_objid[b] >= 0 else None
    if oa != ob:
      fail('%s: object of sensor %r: %s vs %s' % (what, x, oa, ob), 'field:sensor_objid')
  # mass properties as physical quantities (principal frame is not unique)
  # Bodies without mass: the inertial frame has no physical meaning and is NOT compared (observed: for a massless body
  # inside a <frame> body_ipos/iquat hold the body's local pos/quat, otherwise 0/identity).
  massless = False
  if not fuse:
    for x in common['body']:
      a, b = IA.ids['body'][x], IB.ids['body'][x]
      if mA.body_mass[a] == 0 and mB.body_mass[b] == 0 and not np.any(mA.body_inertia[a]) and not np.any(mB.body_inertia[b]):
        massless = massless or a > 0
        continue
      if not disc and mA.body_sameframe[a] != mB.body_sameframe[b]:
        fail('%s: body_sameframe of body %r: %d vs %d' % (what, x, mA.body_sameframe[a], mB.body_sameframe[b]),
             'field:body_sameframe')
      e = relerr(mA.body_ipos[a], mB.body_ipos[b])
      STATS.note('direct', 'body_ipos', e)
      Ta, Tb = inertia_body(mA, a), inertia_body(mB, b)
      e2 = float(np.max(np.abs(Ta - Tb)) / max(np.max(np.abs(Ta)), 1e-300)) if np.any(Ta) or np.any(Tb) else 0.0
      STATS.note('eig', 'body_inertia(tensor)', e2)
      if e > TOL_DIRECT or e2 > TOL_EIG:
        fail('%s: inertial properties of body %r: ipos %s vs %s, inertia %s vs %s' % (
            what, x, mA.body_ipos[a].tolist(), mB.body_ipos[b].tolist(), mA.body_inertia[a].tolist(),
            mB.body_inertia[b].tolist()), 'field:body_inertia')
  # options and statistics
  for k, rec in modelcmp.struct_members(lib, ('opt.',)):
    va, vb = np.atleast_1d(modelcmp._member(mA, k)), np.atleast_1d(modelcmp._member(mB, k))
    if not np.array_equal(va, vb):
      fail('%s: %s %s vs %s' % (what, k, va.tolist(), vb.tolist()), 'field:opt')
  # meansize / extent / center are built from xipos, which is arbitrary for massless bodies (see above)
  stat = ['meaninertia'] + ([] if fuse or disc else ['meanmass'] + ([] if massless else ['meansize', 'extent', 'center']))
  for k in stat:
    va, vb = np.atleast_1d(getattr(mA.stat, k)), np.atleast_1d(getattr(mB.stat, k))
    e = relerr(va, vb)
    STATS.note('derived' + ('-fuse' if tol_derived != TOL_DERIVED else ''), 'stat.' + k, e)
    if e > tol_derived:
      fail('%s: stat.%s %s vs %s' % (what, k, va.tolist(), vb.tolist()), 'field:stat')
  return IA, IB, common


def refs(lib, m, I):
  """Every reference to a geom / site / camera / joint / tendon held by tendons, actuators and sensors:
  key -> (target type, numeric id)."""
  E = lib.enums
  out = {}
  for t, tn in enumerate(I.names['tendon']):
    for k, w in enumerate(range(int(m.tendon_adr[t]), int(m.tendon_adr[t] + m.tendon_num[t]))):
      wt = int(m.wrap_type[w])
      tt = {E.mjWRAP_JOINT: 'joint', E.mjWRAP_SITE: 'site', E.mjWRAP_SPHERE: 'geom', E.mjWRAP_CYLINDER: 'geom'}.get(wt)
      if tt:
        out[('wrap', tn, k)] = (tt, int(m.wrap_objid[w]))
  for a, an in enumerate(I.names['actuator']):
    tt = {E.mjTRN_JOINT: 'joint', E.mjTRN_JOINTINPARENT: 'joint', E.mjTRN_TENDON: 'tendon', E.mjTRN_SITE: 'site'}.get(
        int(m.actuator_trntype[a]))
    if tt:
      out[('actuator', an)] = (tt, int(m.actuator_trnid[a][0]))
  for s_, sn in enumerate(I.names['sensor']):
    tt = I.byobj.get(int(m.sensor_objtype[s_]))
    if tt and m.sensor_objid[s_] >= 0:
      out[('sensor', sn)] = (tt, int(m.sensor_objid[s_]))
  return out


def stale_candidates(lib, mA, IA, mB, IB):
  """References whose target has a different numeric id in the two models (only those can be hit by the known
  finding 'fusestatic-stale-geom-site-ids').  Returns [(key, type, nameA, idA, nameB, idB)]."""
  ra, rb = refs(lib, mA, IA), refs(lib, mB, IB)
  out = []
  for k, (tt, ida) in ra.items():
    if k not in rb:
      continue
    na = IA.name(tt, ida)
    idb = rb[k][1]
    if IB.ids[tt].get(na) != ida:
      out.append((k, tt, na, ida, IB.name(rb[k][0], idb), idb))
  return out


def wrap_path(lib, m, I, t):
  E = lib.enums
  out = []
  for w in range(int(m.tendon_adr[t]), int(m.tendon_adr[t] + m.tendon_num[t])):
    wt = int(m.wrap_type[w])
    if wt == E.mjWRAP_JOINT:
      out.append(('joint', I.name('joint', m.wrap_objid[w]), float(m.wrap_prm[w])))
    elif wt == E.mjWRAP_SITE:
      out.append(('site', I.name('site', m.wrap_objid[w]), 0.0))
    else:
      out.append((wt, int(m.wrap_objid[w]), float(m.wrap_prm[w])))
  return out


def trn_target(E, m, I, a):
  tt = int(m.actuator_trntype[a])
  i = int(m.actuator_trnid[a][0])
  if tt in (E.mjTRN_JOINT, E.mjTRN_JOINTINPARENT):
    return ('joint', I.name('joint', i))
  if tt == E.mjTRN_TENDON:
    return ('tendon', I.name('tendon', i))
  if tt == E.mjTRN_SITE:
    return ('site', I.name('site', i))
  return (tt, i)


def fused_mass_check(lib, mA, mB, IA, IB, what):
  """fusestatic: every surviving body of B carries the mass properties of its group in A (the body itself + the static
  descendants that were fused into it), composed with the parallel-axis theorem in the world frame at qpos0."""
  dA, dB = lib.make_data(mA), lib.make_data(mB)
  lib.mj_kinematics(mA, dA)
  lib.mj_comPos(mA, dA)
  lib.mj_kinematics(mB, dB)
  lib.mj_comPos(mB, dB)
  group = {}
  for i in range(1, mA.nbody):
    j = i
    while IA.names['body'][j] not in IB.ids['body']:
      j = int(mA.body_parentid[j])
    group.setdefault(j, []).append(i)
  nfused = mA.nbody - mB.nbody
  hetero = False
  for j, members in group.items():
    if j == 0:
      continue                    # the world has no mass properties
    if any(mA.body_mass[i] > 0 and mA.body_gravcomp[i] != mA.body_gravcomp[j] for i in members):
      hetero = True
    b = IB.ids['body'][IA.names['body'][j]]
    mass = sum(float(mA.body_mass[i]) for i in members)
    if mass <= 0:
      continue
    com = sum(float(mA.body_mass[i]) * dA.xipos[i] for i in members) / mass
    I = np.zeros((3, 3))
    for i in members:
      R = dA.ximat[i].reshape(3, 3)
      r = dA.xipos[i] - com
      I += R @ np.diag(mA.body_inertia[i]) @ R.T + float(mA.body_mass[i]) * (r @ r * np.eye(3) - np.outer(r, r))
    RB = dB.ximat[b].reshape(3, 3)
    IBw = RB @ np.diag(mB.body_inertia[b]) @ RB.T
    e = max(relerr(mass, mB.body_mass[b]), relerr(com, dB.xipos[b]))
    e2 = float(np.max(np.abs(I - IBw)) / np.max(np.abs(I)))
    STATS.note('fused-mass', 'group mass/com', e)
    STATS.note('eig', 'fused inertia', e2)
    if e > TOL_DERIVED or e2 > TOL_EIG:
      fail('%s: fused body %r: mass %r vs %r, com %s vs %s, inertia err %.3g' % (
          what, IA.names['body'][j], mass, float(mB.body_mass[b]), com.tolist(), dB.xipos[b].tolist(),
          relerr(I, IBw)), 'fuse:mass')
  return nfused, hetero


# ------------------------------------------------------------------------------------------------ trajectories

def set_state(lib, m, I, d, seed, eps=0.0):
  """State defined per joint / actuator NAME from the seed, so that it is the same physical state in both models."""
  rng = np.random.RandomState(seed)
  prng = np.random.RandomState(seed ^ 0x5bd1e995)
  for x in sorted(I.ids['joint']):
    j = I.ids['joint'][x]
    jt = int(m.jnt_type[j])
    qa, da = int(m.jnt_qposadr[j]), int(m.jnt_dofadr[j])
    if jt >= 2:
      d.qpos[qa] = m.qpos0[qa] + rng.uniform(-0.5, 0.5) + eps * prng.uniform(-1, 1)
      d.qvel[da] = rng.uniform(-1, 1) + eps * prng.uniform(-1, 1)
    else:
      if jt == 0:
        d.qpos[qa:qa + 3] = m.qpos0[qa:qa + 3] + rng.uniform(-0.2, 0.2, 3) + eps * prng.uniform(-1, 1, 3)
        qa += 3
      q = rng.normal(size=4)
      d.qpos[qa:qa + 4] = q / np.linalg.norm(q)
      nv = 6 if jt == 0 else 3
      d.qvel[da:da + nv] = rng.uniform(-1, 1, nv) + eps * prng.uniform(-1, 1, nv)
  for x in sorted(I.ids['actuator']):
    a = I.ids['actuator'][x]
    d.ctrl[a] = rng.uniform(-1, 1)
    v = rng.uniform(-0.5, 0.5)
    if int(m.actuator_actnum[a]) > 0:
      d.act[int(m.actuator_actadr[a])] = v


def FRAME_SENSORS(E):
  return (E.mjSENS_FRAMEPOS, E.mjSENS_FRAMEQUAT, E.mjSENS_FRAMEXAXIS, E.mjSENS_FRAMEYAXIS, E.mjSENS_FRAMEZAXIS,
          E.mjSENS_FRAMELINVEL, E.mjSENS_FRAMEANGVEL, E.mjSENS_FRAMELINACC, E.mjSENS_FRAMEANGACC)


def observe(lib, m, I, d, common, fuse=False):
  E = lib.enums
  out = {}
  bi = [I.ids['body'][x] for x in common['body']]
  out['xpos'] = d.xpos[bi].copy()
  out['xquat'] = d.xquat[bi].copy()
  gi = [I.ids['geom'][x] for x in common['geom']]
  out['geom_xpos'] = d.geom_xpos[gi].copy()
  out['geom_xmat'] = d.geom_xmat[gi].copy()
  si = [I.ids['site'][x] for x in common['site']]
  out['site_xpos'] = d.site_xpos[si].copy()
  out['site_xmat'] = d.site_xmat[si].copy()
  ci = [I.ids['camera'][x] for x in common['camera']]
  out['cam_xpos'] = d.cam_xpos[ci].copy()
  out['cam_xmat'] = d.cam_xmat[ci].copy()
  sv, sq = [], []
  for x in common['sensor']:
    s = I.ids['sensor'][x]
    if fuse and int(m.sensor_objtype[s]) == E.mjOBJ_BODY and int(m.sensor_type[s]) in FRAME_SENSORS(E):
      continue      # objtype="body" is the INERTIAL frame, which legitimately changes when static children are fused in
    if int(m.sensor_type[s]) in FRAME_SENSORS(E) and any(
        int(t) == E.mjOBJ_BODY and 0 <= int(i) < m.nbody and float(m.body_mass[int(i)]) == 0.0
        for t, i in ((m.sensor_objtype[s], m.sensor_objid[s]), (m.sensor_reftype[s], m.sensor_refid[s]))):
      # objtype/reftype "body" is the INERTIAL frame.  A massless body has no inertial frame of its own: the compiler copies
      # the body's pos/quat attributes (before frames are applied) into ipos/iquat, so xipos of such a body depends on
      # the spelling (same exclusion as for the ipos/iquat model fields of massless bodies)
      continue
    if int(m.sensor_type[s]) in (E.mjSENS_SUBTREECOM, E.mjSENS_SUBTREELINVEL, E.mjSENS_SUBTREEANGMOM) and \
        float(m.body_subtreemass[int(m.sensor_objid[s])]) == 0.0:
      continue      # centre of mass of a massless subtree falls back to the (spelling-dependent) inertial frame, see above
    v = d.sensordata[int(m.sensor_adr[s]):int(m.sensor_adr[s] + m.sensor_dim[s])]
    (sq if int(m.sensor_type[s]) in (E.mjSENS_FRAMEQUAT, E.mjSENS_BALLQUAT) else sv).append(v)
  out['sensordata'] = np.concatenate(sv) if sv else np.zeros(0)
  out['xquat_sensor'] = np.concatenate(sq) if sq else np.zeros(0)
  qv = []
  for x in common['joint']:
    j = I.ids['joint'][x]
    nv = (6, 3, 1, 1)[int(m.jnt_type[j])]
    qv.append(d.qvel[int(m.jnt_dofadr[j]):int(m.jnt_dofadr[j]) + nv])
  out['qvel'] = np.concatenate(qv) if qv else np.zeros(0)
  return out


def obs_diff(oa, ob):
  worst, wk = 0.0, ''
  for k in oa:
    if k.startswith('xquat'):
      e = quaterr(oa[k], ob[k])
    else:
      e = float(np.max(np.abs(oa[k] - ob[k]))) if oa[k].size else 0.0
    if not np.isfinite(e):
      e = np.inf
    if e > worst:
      worst, wk = e, k
  return worst, wk


def rollout(lib, m, I, common, seed, eps=0.0, fuse=False):
  d = lib.make_data(m)
  set_state(lib, m, I, d, seed, eps)
  obs = []
  for k in range(1, NSTEP + 1):
    lib.mj_step(m, d)
    if k in CMP_STEPS:
      obs.append(observe(lib, m, I, d, common, fuse))
  bad = not np.all(np.isfinite(d.qpos)) or (d.qvel.size and float(np.max(np.abs(d.qvel))) > 1e4)
  return obs, bad, d


def compare_trajectories(ck, lib, mA, mB, IA, IB, common, seed, what, fuse=False):
  oA, badA, dA = rollout(lib, mA, IA, common, seed, fuse=fuse)
  lib.warnings()
  if badA:
    ck.label('traj:unstable-skipped')
    return False
  oP, badP, _ = rollout(lib, mA, IA, common, seed, eps=1e-12, fuse=fuse)
  resp = max(obs_diff(a, p)[0] for a, p in zip(oA, oP))
  if badP or resp > ILLCOND:
    ck.label('traj:illconditioned-skipped')
    return False
  oB, badB, dB = rollout(lib, mB, IB, common, seed, fuse=fuse)
  tol = (TRAJ_ATOL_FUSE + TRAJ_K_FUSE * resp) if fuse else (TRAJ_ATOL + TRAJ_K * resp)
  for k, (a, b) in zip(CMP_STEPS, zip(oA, oB)):
    e, f = obs_diff(a, b)
    STATS.note('traj-fuse(diff/tol)' if fuse else 'traj(diff/tol)', f, e / tol)
    if e > tol:
      fail('%s: trajectories differ at step %d in %s: max diff %.3g > tol %.3g (response to 1e-12 state perturbation '
           '%.3g)' % (what, k, f, e, tol, resp), 'traj:' + f)
  return True



# ------------------------------------------------------------------------------------------------ fusestatic probe

@st.composite
def fuse_probe_case(draw):
  """Small models aimed at the two known fusestatic findings: cameras inside fused bodies, gravcomp of fused groups."""
  d = draw
  host = gr.draw_body(d, 'b1', 1, True, allow_static=False)
  host['gravcomp'] = d(st.sampled_from([0.0, 0.0, 0.5]))
  def static(name, idx):
    b = dict(k='body', name=name, pos=gr._vec(d, -0.4, 0.4), quat=gr.draw_quat(d), inertial=None, items=[],
             gravcomp=d(st.sampled_from([0.0, 0.0, 0.5, 1.0])))
    b['items'].append(gr.draw_geom(d, 'g' + name, massive=True))
    if d(st.booleans()):
      b['items'].append(gr.draw_camera(d, 'c' + name))
    if d(st.booleans()):
      b['items'].append(gr.draw_site(d, 's' + name))
    return b
  s1 = static('s1', 2)
  if d(st.booleans()):
    s1['items'].append(static('s2', 3))
  tendons, acts, sens = [], [], []
  if d(st.booleans()):
    # a moving sibling defined BEFORE the static body, referenced by name from a tendon / actuator / sensors: fusing
    # moves the static body's geoms and sites in front of the sibling's in id order
    b3 = gr.draw_body(d, 'b3', 3, False, allow_static=False)
    b3['gravcomp'] = 0.0
    b3['items'] = [it for it in b3['items'] if it['k'] not in ('site', 'camera')] + [gr.draw_site(d, 'sb3')]
    host['items'].append(b3)
    s1['items'].append(gr.draw_site(d, 'sx1'))
    g3 = [it for it in b3['items'] if it['k'] == 'geom'][0]['name']
    if d(st.booleans()):
      tendons.append(dict(kind='spatial', name='t0', sites=['sb3', 'sx1'], stiffness=2.0, damping=0.1, frictionloss=0.0,
                          limited=False, range=[0.0, 0.0], springlength=None, margin=0.0, owner='parent', refs=['sb3']))
    if d(st.booleans()):
      acts.append(dict(kind='motor', name='a0', site='sb3', gear=[1.0, 0.5, 0.0, 0.0, 0.2, 0.0], ctrllimited=False,
                       ctrlrange=[0.0, 0.0], forcelimited=False, forcerange=[0.0, 0.0], owner='parent', refs=['sb3']))
    for k, (ty, ot, on) in enumerate([('framepos', 'site', 'sb3'), ('framepos', 'geom', g3), ('framequat', 'site', 'sx1')]):
      if d(st.booleans()):
        sens.append(dict(name='n%d' % k, type=ty, objtype=ot, obj=on, owner='parent', refs=[on]))
  xb = None
  if d(st.integers(0, 3)) == 0:
    xb = 's1'
    sens.append(dict(name='nx', type='framequat', objtype=d(st.sampled_from(['xbody', 'xbody', 'body'])), obj='s1',
                     owner='parent', refs=['s1']))
  host['items'].append(s1)
  world = [host]
  if d(st.booleans()):
    world.append(static('sw1', 4))
  model = dict(world=world, tendons=tendons, actuators=acts, sensors=sens, attach=None,
               option=dict(timestep=0.002, gravity=[0.0, 0.0, -9.81], integrator='Euler', nocontact=True))
  plain = gr.Renderer(None).render(model)
  rw = gr.Renderer(d, ['fuse']).render(model)
  # alternative for the gravcomp finding: fused static bodies take the gravcomp of the body they are fused into
  def homog(items, g):
    for it in items:
      if it['k'] == 'body':
        isstatic = not any(x['k'] == 'joint' for x in it['items'])
        if isstatic:
          it['gravcomp'] = g
        homog(it['items'], it['gravcomp'])
  alt = gr._copy(model)
  homog(alt['world'], 0.0)
  return dict(kinds=['fuse'], seed=d(st.integers(0, 2 ** 31 - 1)), plain=plain, rw=rw, alt=gr.Renderer(None).render(alt),
              child=None, stats=[], skip=None, xbody_sensor=[sn['objtype'] for sn in sens if sn['name'] == 'nx'])


def check_fuse_probe(ck, lib, case):
  from vf import mj
  ck.journal(case)
  mA = compile_case(lib, case['plain'], None)
  try:
    mB = compile_case(lib, case['rw'], None)
  except mj.MjError as e:
    if case.get('xbody_sensor') == ['xbody'] and "unrecognized name 's1' of sensorized object" in str(e):
      ck.violation('fusestatic: a model whose static body is referenced by a sensor with objtype="xbody" fails to compile '
                   '(%s); XMLreference compiler/fusestatic: static bodies are fused unless they are referenced by '
                   'another element' % str(e).split(chr(10))[0], dict(check='fuse-probe', case=case),
                   bucket='fuse-xbody-sensor', fingerprint='fusestatic-xbody-sensor-rejected')
      ck.case(nontrivial=True, key=(case['plain'],), labels=['probe:fuse', 'probe:xbody-sensor-rejected(known-finding)'])
      return
    raise
  what = 'fuse-probe'
  pre = compile_case(lib, case['rw'].replace('fusestatic="true"', 'fusestatic="false"'), None)
  IA, IB, common = compare_models(lib, mA, mB, ['fuse'], what, prefuse=pre)
  nf, hetero = fused_mass_check(lib, mA, mB, IA, IB, what)
  labels = ['probe:fuse', 'probe:fused=%d' % min(nf, 3)]
  # (a) cameras of fused bodies: world pose at qpos0
  dA, dB = lib.make_data(mA), lib.make_data(mB)
  lib.mj_forward(mA, dA)
  lib.mj_forward(mB, dB)
  for x in common.get('excluded_cameras', []):
    a, b = IA.ids['camera'][x], IB.ids['camera'][x]
    e = max(relerr(dA.cam_xpos[a], dB.cam_xpos[b]), relerr(dA.cam_xmat[a], dB.cam_xmat[b]))
    if e <= TOL_DIRECT * 10:
      labels.append('probe:camera-reframed-correctly')
      continue
    local_same = relerr(mA.cam_pos[a], mB.cam_pos[b]) <= TOL_DIRECT and quaterr(mA.cam_quat[a], mB.cam_quat[b]) <= TOL_DIRECT
    j = int(mA.cam_bodyid[a])
    while IA.names['body'][j] not in IB.ids['body']:
      j = int(mA.body_parentid[j])
    msg = ('fusestatic: camera %r of a fused body has world position %s instead of %s' % (
        x, dB.cam_xpos[b].tolist(), dA.cam_xpos[a].tolist()))
    if local_same and IB.name('body', mB.cam_bodyid[b]) == IA.names['body'][j]:
      labels.append('probe:camera-frame-lost(known-finding)')
      ck.violation(msg + ' (local pos/quat kept unchanged while the camera is re-attached to the parent; XMLreference '
                   'compiler/fusestatic promises identical kinematics)', dict(check='fuse-probe', case=case),
                   bucket='fuse-camera', fingerprint='fusestatic-camera-frame-lost')
    else:
      fail(msg, 'fuse-camera-other')
  # (c) references to re-ordered geoms / sites
  stale = common.get('stale_refs', [])
  wrong = [r for r in stale if r[2] != r[4]]
  if stale and not wrong:
    labels.append('probe:reindexed-references-correct')
  if wrong:
    other = [r for r in wrong if r[3] != r[5]]
    if other:
      fail('fusestatic: reference %s points to %s %r instead of %r (ids %d vs %d)' % (
          other[0][0], other[0][1], other[0][4], other[0][2], other[0][5], other[0][3]), 'fuse-refs-other')
    labels.append('probe:stale-ids(known-finding)')
    r = wrong[0]
    ck.violation('fusestatic: %s refers to %s %r in the compiled model instead of %r: the numeric id %d is the one the '
                 'target had BEFORE FuseStatic re-ordered the %ss (name->id maps are only rebuilt for bodies); tendons, '
                 'site actuators and geom/site sensors silently act on the wrong object' % (r[0], r[1], r[4], r[2], r[5], r[1]),
                 dict(check='fuse-probe', case=case), bucket='fuse-stale-ids', fingerprint='fusestatic-stale-geom-site-ids')
    ck.case(nontrivial=nf > 0, key=(case['plain'],), labels=labels)
    return
  # (b) gravcomp of fused groups
  try:
    compare_trajectories(ck, lib, mA, mB, IA, IB, common, case['seed'], what, fuse=True)
    labels.append('probe:traj-equal' + ('-hetero-gravcomp' if hetero else ''))
  except Violation as e:
    if not hetero:
      raise
    mC = compile_case(lib, case['alt'], None)
    IC = Index(lib, mC)
    compare_trajectories(ck, lib, mC, mB, IC, IB, common, case['seed'], what + '(alt)', fuse=True)   # else: VIOLATION
    labels.append('probe:gravcomp-changed(known-finding)')
    ck.violation('fusestatic changes the dynamics when a fused static body and the body it is fused into have different '
                 'gravcomp: the fused body applies its own gravcomp to the aggregated mass (XMLreference compiler/'
                 'fusestatic promises identical dynamics). %s' % e, dict(check='fuse-probe', case=case),
                 bucket='fuse-gravcomp', fingerprint='fusestatic-gravcomp-changed')
  ck.case(nontrivial=nf > 0, key=(case['plain'],), labels=labels)


# ------------------------------------------------------------------------------------------------ mj_setConst

# edit kind -> compiled input fields that the equivalent XML edit changes (copied bit-exactly from the recompiled model
# into the compiled one before mj_setConst; everything else has to be produced by mj_setConst itself)
SETCONST_EDITS = {
    'body_mass_inertia': ('body_mass', 'body_inertia'),
    'body_ipos_iquat': ('body_ipos', 'body_iquat'),
    # for a body with a free joint the XML pos/quat also IS the joint's reference configuration (qpos0/qpos_spring)
    'body_pos_quat': ('body_pos', 'body_quat', 'qpos0', 'qpos_spring'),
    'dof_armature': ('dof_armature',),
    'qpos0': ('qpos0',),
    'qpos_spring': ('qpos_spring',),
    'body_gravcomp': ('body_gravcomp',),
    'actuator_gear': ('actuator_gear',),
    # pose of a geom attached to the WORLD body (no inertia depends on it).  simulation.rst lists geom_pos/geom_quat as
    # "Unsafe" because the BVH is not rebuilt: the bvh_* arrays are therefore not judged for this edit, everything else
    # that mj_setConst derives from the geom pose (geom_sameframe) is.
    'geom_pos_quat': ('geom_pos', 'geom_quat'),
}
SETCONST_EXTRA_SKIP = {'geom_pos_quat': {'bvh_aabb', 'bvh_nodeid', 'bvh_child', 'bvh_depth'}}


@st.composite
def setconst_case(draw):
  d = draw
  model = d(gr.abstract_model(max_bodies=4, replicate=False, attach=False))
  bodies = gr.collect(model, 'body')
  joints = gr.collect(model, 'joint')
  for b in bodies:        # body/simple="false" is documented as required before inertial frames are edited at runtime
    b['simple_false'] = True
  kinds = ['body_gravcomp'] + (['dof_armature'] if joints else [])
  moving = [b for b in bodies if any(it['k'] == 'joint' for it in b['items'])]
  if moving:
    kinds += ['body_pos_quat'] * 2
  hs = [j for j in joints if j['type'] in ('hinge', 'slide')]
  if hs:
    kinds += ['qpos0', 'qpos_spring'] * 2
  if model['actuators']:
    kinds += ['actuator_gear'] * 2
  kinds += ['body_mass_inertia', 'body_ipos_iquat'] * 2
  kinds += ['geom_pos_quat'] * 2
  rot = d(st.integers(0, 2 ** 31 - 1))      # rotation defeats Hypothesis' preference for the first list entries
  kind = kinds[(d(st.integers(0, len(kinds) - 1)) + rot) % len(kinds)]
  edited = gr._copy(model)
  eb = gr.collect(edited, 'body')
  ej = gr.collect(edited, 'joint')
  what = ''
  if kind in ('body_mass_inertia', 'body_ipos_iquat'):
    b = eb[d(st.integers(0, len(eb) - 1))]
    for m_ in (model, edited):      # the body needs an explicit inertial in both versions
      bb = [x for x in gr.collect(m_, 'body') if x['name'] == b['name']][0]
      if bb['inertial'] is None:
        bb['inertial'] = dict(pos=[0.01, -0.02, 0.03], quat=[1.0, 0.0, 0.0, 0.0], mass=1.5, diag=[0.02, 0.03, 0.04])
    I = b['inertial']
    if kind == 'body_mass_inertia':
      f = d(gr.num(0.3, 3.0))
      I['mass'] = I['mass'] * f
      if d(st.booleans()):
        I['diag'] = [x * f for x in I['diag']]
      else:
        I['diag'] = gr.draw_inertial(d)['diag']
    else:
      I['pos'] = gr._vec(d, -0.1, 0.1)
      if d(st.booleans()):
        I['quat'] = gr.draw_quat(d)
    what = b['name']
  elif kind == 'geom_pos_quat':
    poses = [([0.0, 0.0, 0.0], [1.0, 0.0, 0.0, 0.0]),                        # same frame as the body
             (gr._vec(d, -0.3, 0.3), [1.0, 0.0, 0.0, 0.0]),                  # same orientation only
             (gr._vec(d, -0.3, 0.3), gr.draw_quat(d)), ([0.0, 0.0, 0.0], gr.draw_quat(d))]
    i0 = d(st.integers(0, len(poses) - 1))
    i1 = (i0 + 1 + d(st.integers(0, len(poses) - 2))) % len(poses)
    for m_, (pp, qq) in ((model, poses[i0]), (edited, poses[i1])):
      wg = [x for x in m_['world'] if x['k'] == 'geom']
      if not wg:
        g = gr.draw_geom(d, 'gw') if m_ is model else gr._copy([x for x in model['world'] if x['k'] == 'geom'][0])
        m_['world'].insert(0, g)
        wg = [g]
      wg[0]['pos'], wg[0]['quat'] = list(pp), list(qq)
    what = [x for x in edited['world'] if x['k'] == 'geom'][0]['name']
  elif kind == 'body_pos_quat':
    names = [b['name'] for b in moving]
    pick = names[d(st.integers(0, len(names) - 1))]
    b = [x for x in eb if x['name'] == pick][0]
    b['pos'] = gr._vec(d, -0.5, 0.5)
    if d(st.booleans()):
      b['quat'] = gr.draw_quat(d)
    what = b['name']
  elif kind == 'dof_armature':
    j = ej[d(st.integers(0, len(ej) - 1))]
    j['armature'] = d(gr.num(0.0, 0.5))
    what = j['name']
  elif kind in ('qpos0', 'qpos_spring'):
    names = [j['name'] for j in hs]
    pick = names[d(st.integers(0, len(names) - 1))]
    j = [x for x in ej if x['name'] == pick][0]
    j['ref' if kind == 'qpos0' else 'springref'] = d(gr.num(-0.6, 0.6))
    what = j['name']
  elif kind == 'body_gravcomp':
    b = eb[d(st.integers(0, len(eb) - 1))]
    b['gravcomp'] = d(st.sampled_from([0.0, 0.5, 1.0]))
    what = b['name']
  elif kind == 'actuator_gear':
    a = edited['actuators'][d(st.integers(0, len(edited['actuators']) - 1))]
    a['gear'] = [d(gr.num(-3, 3, 1)) or 0.5] + a['gear'][1:]
    what = a['name']
  auto_spring = any(t['springlength'] is None for t in model['tendons'])
  return dict(kind=kind, target=what, before=gr.Renderer(None).render(model), after=gr.Renderer(None).render(edited),
              seed=d(st.integers(0, 2 ** 31 - 1)), auto_springlength=auto_spring)


# Fields that are compile-only by documentation or by construction (never expected from mj_setConst):
#  - actuator_lengthrange: "set all remaining constant fields of mjModel, except for lengthrange" (engine_setconst.c) /
#    mj_setLengthRange is a separate API function;
#  - names/paths/signature/buffer bookkeeping.
SETCONST_SKIP = {'actuator_lengthrange', 'signature'}
# field -> (edit kinds, fingerprint, explanation): reported as known finding only if mj_setConst left the array bit-for-bit
# untouched; any other difference in these fields is an ordinary violation
SETCONST_KNOWN = {
    'bvh_aabb': (('body_ipos_iquat',), 'setconst-bvh-stale-after-ipos-edit',
                 'Body BVH boxes are expressed in the inertial frame; with the stale boxes the midphase drops contacts '
                 '(observed: 3 contacts -> 0 after moving ipos by 3 m).'),
    # same root cause: the rebuilt BVH of the recompiled model may also have a different tree layout
    'bvh_nodeid': (('body_ipos_iquat',), 'setconst-bvh-stale-after-ipos-edit', 'Same stale BVH (tree layout).'),
    'bvh_child': (('body_ipos_iquat',), 'setconst-bvh-stale-after-ipos-edit', 'Same stale BVH (tree layout).'),
    'bvh_depth': (('body_ipos_iquat',), 'setconst-bvh-stale-after-ipos-edit', 'Same stale BVH (tree layout).'),
    'tendon_lengthspring': (('qpos0', 'qpos_spring', 'body_pos_quat'), 'setconst-tendon-lengthspring-stale',
                            'Tendons with automatic springlength (-1) are resolved once at compile time; the "auto" '
                            'information is lost, so setSpring() never recomputes them.'),
}


def check_setconst(ck, lib, case):
  from vf import mj
  ck.journal(case)
  try:
    m1 = compile_case(lib, case['before'], None)
    m2 = compile_case(lib, case['after'], None)
  except mj.MjError as e:
    ck.discard('setconst-compile')
    return
  fields = SETCONST_EDITS[case['kind']]
  changed = False
  # the mjData handed to mj_setConst is a used one (arbitrary state), as in a running simulation
  d = lib.make_data(m1)
  set_state(lib, m1, Index(lib, m1), d, case['seed'])
  lib.mj_forward(m1, d)
  for f in fields:
    a, b = getattr(m1, f), getattr(m2, f)
    if not np.array_equal(a, b):
      changed = True
    a[...] = b
  before = {f: getattr(m1, f).copy() for f in SETCONST_KNOWN}
  lib.mj_setConst(m1, d)            # MjError here = violation (documented-safe edit rejected)
  labels = ['setconst:' + case['kind'], 'setconst:changed' if changed else 'setconst:noop']
  diffs = modelcmp.compare(lib, m1, m2, mode='exact', skip=SETCONST_SKIP | SETCONST_EXTRA_SKIP.get(case['kind'], set()))
  # known findings: a derived array that mj_setConst leaves completely untouched although the recompile changes it
  for df in list(diffs):
    kn = SETCONST_KNOWN.get(df.field)
    if kn and case['kind'] in kn[0] and np.array_equal(getattr(m1, df.field), before[df.field]):
      diffs.remove(df)
      labels.append('setconst:%s-stale(known-finding)' % df.field)
      ck.violation('after editing %s (documented "Safe with mj_setConst", programming/simulation.rst) and calling '
                   'mj_setConst, %s keeps its old value while recompiling the edited XML changes it (%s). %s' % (
                       '/'.join(fields), df.field, df.detail, kn[2]),
                   dict(check='setconst', case=case), bucket='setconst-' + df.field, fingerprint=kn[1])
  if diffs:
    # not bit-identical: still equal within the derived tolerance? (then it is only a different rounding path)
    skip = SETCONST_SKIP | SETCONST_EXTRA_SKIP.get(case['kind'], set()) | set(
        k for k in SETCONST_KNOWN if any(l.startswith('setconst:' + k) for l in labels))
    loose = modelcmp.compare(lib, m1, m2, mode='rel', rtol=TOL_DERIVED, atol=TOL_DERIVED, skip=skip)
    if loose:
      fail('mj_setConst after editing %s of %r differs from recompiling the edited XML: %s' % (
          '/'.join(fields), case['target'], modelcmp.fmt(loose)), 'setconst:' + loose[0].field)
    labels.append('setconst:equal-within-tol-not-bitexact')
    ck.extra.setdefault('setconst_not_bitexact_fields', [])
    for df in diffs[:3]:
      if df.field not in ck.extra['setconst_not_bitexact_fields']:
        ck.extra['setconst_not_bitexact_fields'].append(df.field)
  else:
    labels.append('setconst:bit-exact')
  ck.case(nontrivial=changed, key=(case['before'], case['after']), labels=labels,
          sample=dict(setconst=case['kind'], target=case['target'], after=case['after'][:600]) if changed and
          not any('setconst' in str(x) for x in ck.samples) else None)


# ------------------------------------------------------------------------------------------------ ASan probe (thorough)

ASAN_PROBE = r"""
import sys
sys.path.insert(0, %r)
from vf import mj
lib = mj.load('asan')
which = sys.argv[1]
if which == 'overflow':
  xml = ('<mujoco><default><joint type="ball"/></default><worldbody><body><joint type="hinge"/><geom size=".1"/>'
         '<replicate count="2" offset="1 0 0"><geom name="g" size=".1"/></replicate></body></worldbody></mujoco>')
  s = lib.parse_xml(xml)
  m = lib.compile_spec(s)
  lib.mj_deleteSpec(s)
else:
  parent = ('<mujoco><compiler fusestatic="true"/><worldbody><body name="b1" pos="0 0 1"><joint name="j"/><geom size=".1"/>'
            '<frame name="F"/></body></worldbody></mujoco>')
  child = '<mujoco model="c"><worldbody><body name="b4" pos="0.3 0 0"><geom name="g4" size=".1"/></body></worldbody></mujoco>'
  s = lib.parse_xml(parent)
  sc = lib.parse_xml(child)
  fr = lib.mjs_findFrame(s, 'F')
  bd = lib.mjs_findBody(sc, 'b4')
  lib.mjs_attach(mj.Struct(lib, 'mjsFrame', fr).element, mj.Struct(lib, 'mjsBody', bd).element, 'x_', '')
  m = lib.compile_spec(s)
  lib.mj_deleteSpec(s)
  lib.mj_deleteSpec(sc)
print('PROBE-CLEAN')
"""


def asan_probe(ck):
  """The two memory-safety findings cannot be observed reliably in-process with the rel build; run their minimal
  reproducers in a subprocess against the asan variant.  A time budget never produces a violation."""
  import os
  import subprocess
  import sys
  from vf import build as vb
  from vf.runner import VERIF
  env = dict(os.environ, LD_PRELOAD=vb.ASAN_RT, ASAN_OPTIONS='detect_leaks=0:abort_on_error=0:exitcode=99',
             PYTHONPATH=VERIF)
  for which, fp, pat, what in (
      ('overflow', 'attach-default-joint-type-heap-overflow', 'ComputeReference',
       'default class joint type="ball" + element type="hinge" + <replicate>: heap-buffer-overflow in '
       'mjCModel::ComputeReference (qpos0 sized from spec.type, written according to the class type)'),
      ('uaf', 'attach-shallow-fusestatic-use-after-free', 'FuseStatic',
       'mjs_attach by reference of a static body + fusestatic: FuseStatic deletes a body still owned by the child spec; '
       'heap-use-after-free in mjCBody::~mjCBody on mj_deleteSpec(child)')):
    try:
      p = subprocess.run([sys.executable, '-c', ASAN_PROBE % VERIF, which], capture_output=True, text=True, env=env,
                         timeout=float(os.environ.get('VERIF_ASAN_PROBE_S', '900')), cwd=VERIF)
    except subprocess.TimeoutExpired:
      ck.label('asan-probe:%s:inconclusive(timeout)' % which)
      ck.extra.setdefault('asan_probe', {})[which] = 'inconclusive(timeout)'
      continue
    out = p.stdout + p.stderr
    if 'PROBE-CLEAN' in p.stdout and p.returncode == 0:
      ck.label('asan-probe:%s:clean' % which)
      ck.extra.setdefault('asan_probe', {})[which] = 'clean'
    elif 'AddressSanitizer' in out and pat in out:
      ck.label('asan-probe:%s:known-finding' % which)
      ck.extra.setdefault('asan_probe', {})[which] = 'known-finding reproduced'
      first = [l for l in out.split('\n') if 'ERROR: AddressSanitizer' in l][:1]
      ck.violation('%s (%s)' % (what, first[0].strip() if first else 'ASan report'), dict(check='asan-probe', which=which,
                   report=out[-3000:]), bucket='asan-' + which, fingerprint=fp)
    elif 'AddressSanitizer' in out:
      ck.violation('ASan report in the %s probe that does not match the known finding' % which,
                   dict(check='asan-probe', which=which, report=out[-3000:]), bucket='asan-other-' + which)
    else:
      ck.label('asan-probe:%s:inconclusive(rc=%d)' % (which, p.returncode))
      ck.extra.setdefault('asan_probe', {})[which] = 'inconclusive(rc=%d)' % p.returncode
      ck.extra['asan_probe_' + which] = out[-600:]


# ------------------------------------------------------------------------------------------------ the checks

def check_rewrite(ck, lib, case, probe=False):
  from vf import mj
  if case['skip']:
    ck.discard('render:' + case['skip'])
    return
  kinds = case['kinds']
  ck.journal(case)
  try:
    mA = compile_case(lib, case['plain'], None)
  except mj.MjError as e:
    # the plain spelling is the reference; a model that is invalid in its plain form is a generator issue
    ck.discard('compile-plain')
    ck.extra.setdefault('compile_plain_errors', [])
    if len(ck.extra['compile_plain_errors']) < 3:
      ck.extra['compile_plain_errors'].append(str(e)[:200])
    return
  lib.warnings()
  mB = compile_case(lib, case['rw'], case['child'])       # MjError here = violation (equivalent spelling rejected)
  what = '+'.join(kinds)
  if probe and 'replicate:noncumulative' in case['stats']:
    # dedicated probe of the known finding: documented semantics first, then the exact 'euler(i*e)' alternative
    try:
      compare_models(lib, mA, mB, kinds, what)
      ck.label('probe:replicate-cumulative-as-documented')
    except Violation as e:
      mC = compile_case(lib, case['alt'], None)
      try:
        compare_models(lib, mC, mB, kinds, what + '(alt)')
      except Violation:
        raise e
      ck.label('probe:replicate-noncumulative-matches-alternative')
      ck.violation('replicate with multi-axis euler and count>=3 is not cumulative as documented (XMLreference '
                   'replicate/euler): compiled model equals the written-out model with rotation euler(i*e) instead of '
                   'euler(e)^i. %s' % e, dict(check='replicate-probe', case=case), bucket='replicate-noncumulative',
                   fingerprint='replicate-euler-not-cumulative')
    ck.case(nontrivial=True, key=(case['plain'], case['rw']), labels=['probe:replicate-noncumulative'])
    return
  pre = None
  if 'fuse' in kinds:
    pre = compile_case(lib, case['rw'].replace('fusestatic="true"', 'fusestatic="false"'), case['child'])
  IA, IB, common = compare_models(lib, mA, mB, kinds, what, prefuse=pre)
  labels = ['kind:' + k for k in kinds] + ['nkinds=%d' % len(kinds)] + ['rw:' + s for s in case['stats']]
  traj = True
  if 'fuse' in kinds:
    nf, hetero = fused_mass_check(lib, mA, mB, IA, IB, what)
    labels.append('fuse:fused-bodies' if nf else 'fuse:nothing-to-fuse')
    if common.get('excluded_cameras'):
      labels.append('fuse:camera-in-fused-body-excluded(known-finding)')
    if common.get('stale_refs'):
      labels.append('fuse:reindexed-references-excluded(known-finding)')
      traj = False
    if hetero:      # known finding 'fusestatic-gravcomp-changed' (dedicated probe): trajectories legitimately differ
      labels.append('fuse:gravcomp-differs-in-fused-group-excluded(known-finding)')
      traj = False
  if 'discard' in kinds:
    labels.append('discard:geoms-removed' if mB.ngeom < mA.ngeom else 'discard:nothing-to-discard')
  if common.get('eigjitter'):
    labels.append('eig-jitter(loose-derived-tolerance)')
  if traj and compare_trajectories(ck, lib, mA, mB, IA, IB, common, case['seed'], what,
                                   fuse='fuse' in kinds or common.get('eigjitter')):
    labels.append('traj:compared')
  nt = case['rw'] != case['plain']
  sample = None
  if nt and len(ck.samples) < ck.max_samples:
    sample = dict(kinds=kinds, stats=case['stats'], plain=case['plain'][:1500], rewritten=case['rw'][:1500],
                  child=(case['child'] or {}).get('xml', '')[:800], nbody=int(mA.nbody), nv=int(mA.nv))
  ck.case(nontrivial=nt, key=(case['plain'], case['rw'], (case['child'] or {}).get('xml')), sample=sample, labels=labels)


def main(ck):
  lib = ck.lib('rel')
  gr.selftest()
  ck.rule = ('abstract model (2-5 bodies + replicate/attach nodes, depth >= 2 by construction) rendered plain and with a '
             'drawn set of rewrite kinds; non-trivial = the rewritten XML text differs from the plain text; distinct by '
             '(plain xml, rewritten xml, child xml); labels kind:* count cases per rewrite kind, rw:* what the renderer '
             'actually did')
  ck.assumptions = ['contacts never occur (contype/conaffinity disjoint or contact disabled): smooth dynamics',
                    'trajectory tolerance scales with the measured response of the plain model to a 1e-12 state '
                    'perturbation; cases with response > 1e-6 are labelled illconditioned and skip the trajectory part']

  def test(case):
    check_rewrite(ck, lib, case)
  n = ck.budget(260, 4000)
  ck.run_hypothesis(test, gr.rewrite_case(max_bodies=5 if ck.quick else 6), n, name='rewrite')

  def probe(case):
    check_rewrite(ck, lib, case, probe=True)
  ck.run_hypothesis(probe, gr.rewrite_case(max_bodies=3, only=['replicate'], noncumulative=True, replicate=True,
                                           attach=False), ck.budget(12, 100), name='replicate-probe', shrink=False)
  ck.run_hypothesis(lambda c: check_fuse_probe(ck, lib, c), fuse_probe_case(), ck.budget(12, 100), name='fuse-probe',
                    shrink=False)
  ck.run_hypothesis(lambda c: check_setconst(ck, lib, c), setconst_case(), ck.budget(80, 1500), name='setconst')
  if not ck.quick:
    asan_probe(ck)
  ck.extra['tolerances'] = dict(TOL_DIRECT=TOL_DIRECT, TOL_DERIVED=TOL_DERIVED, TOL_F32=TOL_F32, TRAJ_ATOL=TRAJ_ATOL,
                                TRAJ_K=TRAJ_K, ILLCOND=ILLCOND)
  # calibration (unchanged tree, quick tier, seeds 1-5 + thorough): worst passing errors direct 9e-16 (tol 1e-12, design
  # value), derived 1.6e-13 (tol 1e-10), inertia tensors 8.7e-7 (tol 1e-4, bound from kEigEPS), fused/jitter derived 1e-9
  # (tol 1e-4, inherits TOL_EIG), trajectories diff/tol <= 1.5e-2 (fuse/jitter: <= 0.04); all 10 mutants of mutants/C36 remain caught.
  ck.extra['max_observed_error'] = {k: dict(err=v[0], field=v[1]) for k, v in STATS.maxerr.items()}


LEVEL = 'exploration'
TECHNIQUE = 'property-based testing: metamorphic relations between MJCF/mjSpec spellings of one abstract model (Hypothesis)'
LEVEL_TEXT = '''Generated abstract models (body trees of depth >= 2 with joints, geoms, sites, cameras, inertials, tendons, actuators,
sensors, replicate and attach nodes) are rendered twice: plainly (quat, radian, explicit attributes, written-out copies,
inline bodies) and with a Hypothesis-drawn set of rewrites (orientation spelling incl. all 96 universal eulerseq strings,
degrees, nested default classes / class / childclass on bodies and frames / documented internal defaults / autolimits,
nested frames incl. joints, <replicate>, <attach> via XML asset and via mjs_attach with an own angle unit in the child,
fusestatic, discardvisual, sibling order). Both are compiled by the tree; objects are matched by name; every per-object
model array, options, statistics, tendon paths, actuator targets, sensor objects and inertia tensors are compared, then
20-step trajectories (body/geom/site/camera poses, sensors, velocities) from the same named state. mj_setConst: eight
kinds of documented-safe edits applied to the compiled model + mj_setConst are compared field by field (bit-exact) with a
recompile of the edited XML. Nine genuine defects found this way are excluded by construction from the main stream
(counted in labels) and re-detected by dedicated probes that report them under a fingerprint only when the compiled model
matches the exact faulty alternative; every other mismatch is a violation.'''
LEVEL_NOTE = '''Oracle conversions (euler for intrinsic/extrinsic/mixed sequences, axisangle, xyaxes, zaxis, frame composition,
replicate accumulation, parallel-axis composition for fused bodies) are an independent numpy implementation written from
doc/modeling.rst and doc/XMLreference.rst, self-tested at start-up. Not covered: contacts (never occur by construction),
equality constraints, meshes/hfields/flex, lights, nested replicate, tendons that reference replicated elements, frames
around the root body of an attached child (undocumented), inertial frames of massless bodies (compiler copies the local
body pose, no physical meaning), mj_setConst edits of eq_data/hfield_size/dampratio actuators. Inertia tensors are compared
with 1e-4 relative tolerance because the compiler's Jacobi diagonalisation stops at cos>1-1e-12 (principal axes accurate
to ~1e-6 rad); cases where the two spellings hit different termination points ("eig jitter") use the looser derived and
trajectory tolerances. The two memory-safety findings are probed in an ASan subprocess in the thorough tier only. Trusted:
verification build with third-party shims, ctypes reflection of the tree headers.'''
