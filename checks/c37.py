"""C37 - Model loading never crashes and enforces the schema.

Domain : (a) byte strings near valid MJCF/URDF: libFuzzer (ASan + fuzzer instrumentation of the whole library) on
             mj_parseXMLString + mj_compile + mj_saveXMLString (+ mj_loadXML through a VFS on every 4th input), seeded with
             modelgen documents, schema-generated documents (conforming and with one violation), small shipped models,
             URDF documents and meta-element documents; dictionary = element/attribute names and enum keywords of
             src/xml/mjcf.schema.
         (b) documents generated from src/xml/mjcf.schema (vf/gen_schema.py): a conforming base document D with a
             conforming instance of a chosen element context grafted in, and D' = D with exactly one labelled violation
             injected at that instance.  All violation sites of the small kinds are enumerated once per run; the big
             kinds (arity / non-numeric, thousands of sites) are sampled.
Oracle : (a)+(b) the loader returns a spec/model or NULL with a non-empty message; no sanitizer report with a frame in
             src/, no mju_error reaching the process-global handler (the default one calls exit()), no C++ exception leaving
             the C API (std::terminate for a C caller), handlers restored, mj_loadXML agrees with parse+compile.
         (b) D' is rejected by mj_parseXMLString (out-of-range facets: or by mj_compile when D compiles);
             D is accepted, or rejected with a message that is not a schema/type-layer phrase (PHRASES below, collected from
             xml_util.cc / mjXSchema / ReadAttrTableCore and verified against the source at run time).
Non-trivial : (a) the input reached mjXReader/mjXURDF (well-formed XML with root mujoco/robot), distinct by content hash;
              (b) the violation sits at depth >= 2 below the root and the base document D was accepted by the parser (so the
              injected violation is the only reason for a rejection), distinct by document text.
"""
import collections
import glob
import hashlib
import json
import os
import random
import re
import select
import shutil
import struct
import subprocess
import threading
import time

from hypothesis import strategies as st

from vf import build as vb
from vf import gen_schema as gs
from vf.runner import WORK

WD = os.path.join(WORK, 'C37')
SRC = os.path.join(vb.NATIVE, 'C37', 'fuzz_xml.cc')
MAX_LEN = 16384

# ---------------------------------------------------------------------------------------------------------------------
# Fixed phrases of the schema / typed-reading layer.  (regex on the error text, file that must contain the literal,
# literal).  "Schema violation" wraps everything mjXSchema::Check/CheckConstraints reports (unrecognized element /
# attribute, unique element found N times, element is required, at most one of, must be specified together, requires
# attribute, one of ... must be specified).
PHRASES = [
    (r'Schema violation', 'src/xml/xml_native_reader.cc', 'Schema violation: %s'),
    (r"invalid keyword", 'src/xml/xml_util.cc', "invalid keyword: '%s'"),
    (r"duplicate keyword", 'src/xml/xml_util.cc', "duplicate keyword: '%s'"),
    (r"problem reading attribute", 'src/xml/xml_util.cc', "problem reading attribute '%s'"),
    (r"bad format in attribute", 'src/xml/xml_util.cc', "bad format in attribute '%s'"),
    (r"unknown error in attribute", 'src/xml/xml_util.cc', "unknown error in attribute '%s'"),
    (r"does not have enough data", 'src/xml/xml_util.cc', "attribute '%s' does not have enough data"),
    (r"has too much data", 'src/xml/xml_util.cc', "attribute '%s' has too much data"),
    (r"required attribute missing", 'src/xml/xml_util.cc', "required attribute missing: '%s'"),
    (r"repeated element", 'src/xml/xml_util.cc', "repeated element: '%s'"),
    (r"missing element", 'src/xml/xml_util.cc', "missing element: '%s'"),
    (r"must have exactly \d+ characters", 'src/xml/xml_native_reader.cc', "must have exactly %d "),
    (r"may have at most \d+ characters", 'src/xml/xml_native_reader.cc', "may have at most %d "),
]
PHRASE_RE = re.compile('|'.join('(?:%s)' % p[0] for p in PHRASES))
# violation kinds that only mjXSchema::Check enforces (the reader does not look at them again)
SCHEMA_CHECK_KINDS = ('unknown_attr', 'unknown_child', 'dup_optional', 'missing_required_child', 'exclusive', 'together',
                      'requires', 'oneof')
BIG_KINDS = ('too_many', 'too_few', 'non_numeric')


def verify_phrases(repo):
  for rx, f, lit in PHRASES:
    p = os.path.join(repo, f)
    if lit not in open(p, errors='replace').read():
      raise RuntimeError('schema-layer phrase %r no longer present in %s: the pattern list is stale' % (lit, f))


def layer_of(msg):
  if 'Schema violation' in msg:
    return 'schema-check'
  if PHRASE_RE.search(msg):
    return 'typed-reader'
  return 'semantic'


def norm_msg(msg):
  m = msg.replace('XML Error: ', '').strip()
  el = re.search(r"Element '([^']*)'", m)
  m = re.sub(r"\n?Element '[^']*', line \d+\n?", '', m)
  m = re.sub(r'line \d+', 'line N', m)
  m = re.sub(r'\s+', ' ', m).strip()
  return m, (el.group(1) if el else '')


# ---------------------------------------------------------------------------------------------------------------------
# native worker

class Res:
  __slots__ = ('parse', 'compile', 'save', 'load', 'reached', 'perr', 'cerr', 'serr', 'lerr', 'escapes', 'oracle', 'died',
               'report', 'timeout')

  def __init__(self):
    self.parse = 0; self.compile = -1; self.save = -2; self.load = -1; self.reached = 0
    self.perr = self.cerr = self.serr = self.lerr = ''
    self.escapes = []; self.oracle = []; self.died = False; self.report = ''; self.timeout = False

  def brief(self):
    return dict(parse=self.parse, compile=self.compile, perr=self.perr[:300], cerr=self.cerr[:300],
                escapes=self.escapes[:3], oracle=self.oracle[:3], died=self.died, report=self.report[:1500])


def unesc(s):
  return re.sub(r'\\(x[0-9a-f]{2}|.)', lambda m: {'n': '\n', 't': '\t', 'r': '\r', '\\': '\\'}.get(
      m.group(1), chr(int(m.group(1)[1:], 16)) if m.group(1)[0] == 'x' and len(m.group(1)) == 3 else m.group(1)), s)


def asan_env(extra=''):
  env = dict(os.environ)
  env['LD_PRELOAD'] = vb.ASAN_RT
  env['ASAN_OPTIONS'] = ('detect_leaks=0:abort_on_error=1:symbolize=0:handle_abort=1:allocator_may_return_null=0:'
                         'max_allocation_size_mb=2048:hard_rss_limit_mb=4096:detect_stack_use_after_return=0' + extra)
  env.pop('MUJOCO_LOG_TOPICS', None)
  return env


def limit_memory(pid):
  """rel worker: 4 GB address space (the machine is shared; allocations beyond that fail and are inconclusive) and no
  core dumps. Set from outside with prlimit so that subprocess can use vfork (a fork of this Python process costs ~1 s)."""
  import resource
  try:
    resource.prlimit(pid, resource.RLIMIT_AS, (4 << 30, 4 << 30))
    resource.prlimit(pid, resource.RLIMIT_CORE, (0, 0))
  except (OSError, ValueError):
    pass


class Worker:
  """Supervised native worker (native/C37/fuzz_xml.cc, worker mode). Process creation is slow on this machine
  (fork ~50 ms), so a spare process is always kept ready and a document that kills the worker costs only the swap."""
  counter = [0]

  def __init__(self, exe, asan, cwd, spares=1):
    self.exe, self.asan, self.cwd = exe, asan, cwd
    self.cur = None
    self.pool = []
    self.nspares = spares
    self.starts = 0
    self._next()

  def _spawn(self):
    r1, w1 = os.pipe()
    r2, w2 = os.pipe()
    env = asan_env() if self.asan else dict(os.environ)
    Worker.counter[0] += 1
    errpath = os.path.join(self.cwd, 'worker_%s_%d.err' % ('asan' if self.asan else 'rel', Worker.counter[0]))
    errf = open(errpath, 'wb')
    p = subprocess.Popen([self.exe, '--vf-worker=%d,%d' % (r1, w2)], pass_fds=(r1, w2), stdin=subprocess.DEVNULL,
                         stdout=errf, stderr=errf, env=env, cwd=self.cwd)
    if not self.asan:
      limit_memory(p.pid)
    errf.close()
    os.close(r1)
    os.close(w2)
    return dict(p=p, rfd=r2, wfd=w1, errpath=errpath, ready=False, buf=b'')

  def _close(self, rec):
    for fd in (rec['rfd'], rec['wfd']):
      try:
        os.close(fd)
      except OSError:
        pass
    try:
      rec['p'].kill()
    except OSError:
      pass
    try:
      rec['p'].wait(timeout=30)
    except Exception:
      pass
    try:
      os.unlink(rec['errpath'])
    except OSError:
      pass

  def _next(self):
    if self.cur is not None:
      self._close(self.cur)
    while len(self.pool) < self.nspares + 1:
      self.pool.append(self._spawn())
    self.cur = self.pool.pop(0)
    self.starts += 1
    if not self.cur['ready']:
      line = self._readline(120)
      if line != b'READY':
        raise RuntimeError('C37 worker did not start: %r %s' % (line, self._stderr()))
      self.cur['ready'] = True

  def stop(self):
    for rec in [self.cur] + self.pool:
      if rec is not None:
        self._close(rec)
    self.cur = None
    self.pool = []

  def _stderr(self, off=0):
    try:
      with open(self.cur['errpath'], 'rb') as f:
        f.seek(off)
        return f.read().decode(errors='replace')
    except Exception:
      return ''

  def _readline(self, timeout):
    rec = self.cur
    deadline = time.time() + timeout
    while b'\n' not in rec['buf']:
      left = deadline - time.time()
      if left <= 0:
        return None
      r, _, _ = select.select([rec['rfd']], [], [], left)
      if not r:
        return None
      chunk = os.read(rec['rfd'], 65536)
      if not chunk:
        return b''
      rec['buf'] += chunk
    line, rec['buf'] = rec['buf'].split(b'\n', 1)
    return line

  def run(self, text, load=False, parse_only=False, timeout=90):
    """Execute one document. If it kills the worker: died=True and the process's stderr (sanitizer report / stack
    printed by the rel worker's signal handler) in .report; a spare worker takes over."""
    data = text if isinstance(text, bytes) else text.encode('utf-8', errors='surrogateescape')
    res = Res()
    rec = self.cur
    try:
      off = os.path.getsize(rec['errpath'])
    except OSError:
      off = 0
    try:
      os.write(rec['wfd'], struct.pack('<II', len(data), (1 if load else 0) | (2 if parse_only else 0)))
      p = 0
      while p < len(data):
        p += os.write(rec['wfd'], data[p:p + 65536])
      line = self._readline(timeout)
    except (BrokenPipeError, OSError):
      line = b''
    if line is None:
      res.timeout = True
      res.died = True
      self._next()
      return res
    if line == b'':
      try:
        rc = rec['p'].wait(timeout=60)
      except Exception:
        rc = None
      res.died = True
      rep = self._stderr(off)
      if len(rep) > 40000:       # keep the header and the innermost frames (deep recursion prints hundreds of frames)
        rep = rep[:30000] + '\n[...]\n' + rep[-6000:]
      res.report = rep + '\n[worker ended: return code %s]' % rc
      if rc is not None and rc > 0 and 'ERROR: AddressSanitizer' not in res.report and 'VF-ORACLE' not in res.report:
        res.report += '\nfuzz target exited'      # the library called exit(): same wording as libFuzzer, see classify_report
      self._next()
      return res
    f = line.decode('utf-8', errors='replace').split('\t')
    if f[0] != 'R' or len(f) < 12:
      raise RuntimeError('C37 worker protocol error: %r' % line[:200])
    res.parse, res.compile, res.save, res.load, res.reached = (int(x) for x in f[1:6])
    res.perr, res.cerr, res.serr, res.lerr = (unesc(x) for x in f[6:10])
    ne, no = int(f[10]), int(f[11])
    k = 12
    for _ in range(ne):
      res.escapes.append(tuple(unesc(x) for x in f[k:k + 4]))
      k += 4
    for _ in range(no):
      res.oracle.append(unesc(f[k]))
      k += 1
    if any(e[1] == 'mju_error' for e in res.escapes):
      self._next()      # the worker leaves after an abandoned call (undefined library state)
    return res


# ---------------------------------------------------------------------------------------------------------------------
# sanitizer / libFuzzer report classification

FRAME_RE = re.compile(r'^\s*#(\d+) 0x[0-9a-f]+ in (.+?) (/[^\s:]+)(?::(\d+))?(?::\d+)?\s*$|^\s*#(\d+) 0x[0-9a-f]+ (?:in (.+?) )?\((.+?)\+0x[0-9a-f]+\)',
                      re.M)


def short_fn(fn):
  fn = re.sub(r'\(anonymous namespace\)::', '', fn)
  fn = re.sub(r'<[^<>]*>', '', fn)
  fn = re.sub(r'<[^<>]*>', '', fn)
  fn = fn.split('(')[0].strip()
  fn = re.sub(r'\[abi:\w+\]', '', fn)
  return fn.split(' ')[-1]


class Symbolizer:
  """One persistent llvm-symbolizer process. The sanitizer runs with symbolize=0 (an in-process symbolizer would be
  started by every crashing child and load the DWARF of the whole library each time; MuJoCo's own ASan-mode
  mark/free check also calls the symbolizer on the hot path), reports are symbolized here."""
  inst = None

  def __init__(self):
    exe = shutil.which('llvm-symbolizer') or shutil.which('llvm-symbolizer-14')
    if not exe:
      raise RuntimeError('llvm-symbolizer not found')
    self.p = subprocess.Popen([exe, '--demangle', '--inlines', '--functions=linkage'], stdin=subprocess.PIPE,
                              stdout=subprocess.PIPE, stderr=subprocess.DEVNULL, text=True, bufsize=1)
    self.cache = {}

  @classmethod
  def get(cls):
    if cls.inst is None or cls.inst.p.poll() is not None:
      cls.inst = Symbolizer()
    return cls.inst

  @classmethod
  def close(cls):
    if cls.inst is not None:
      try:
        cls.inst.p.stdin.close()
        cls.inst.p.wait(timeout=10)
      except Exception:
        cls.inst.p.kill()
      cls.inst = None

  def lookup(self, module, off):
    key = (module, off)
    if key in self.cache:
      return self.cache[key]
    out = []
    try:
      self.p.stdin.write('%s %s\n' % (module, off))
      self.p.stdin.flush()
      lines = []
      while True:
        line = self.p.stdout.readline()
        if not line or not line.strip():
          break
        lines.append(line.rstrip('\n'))
      for i in range(0, len(lines) - 1, 2):
        fn, loc = lines[i], lines[i + 1]
        m = re.match(r'(.*?):(\d+)(?::\d+)?$', loc)
        out.append((fn, m.group(1) if m else loc, m.group(2) if m else '0'))
    except Exception:
      out = []
    self.cache[key] = out
    return out


def symbolize_report(text):
  """Rewrite unsymbolized sanitizer frames '#N 0xPC (module+0xOFF)' as '#N 0xPC in FUNC FILE:LINE' (inlined frames expanded)."""
  if '+0x' not in text:
    return text
  sym = None
  out = []
  nfr = 0
  for line in text.split('\n'):
    m = re.match(r'(\s*#\d+ 0x[0-9a-f]+) +\((/[^\s()]+)\+(0x[0-9a-f]+)\)', line)
    if m and nfr < 60 and os.path.exists(m.group(2)) and ('libmujoco_vf' in m.group(2) or '/.cache/bin/' in m.group(2)):
      nfr += 1
      if sym is None:
        sym = Symbolizer.get()
      res = sym.lookup(m.group(2), m.group(3))
      if res and res[0][0] != '??':
        for fn, f, ln in res:
          out.append('%s in %s %s:%s' % (m.group(1), fn, f, ln))
        continue
    out.append(line)
  return '\n'.join(out)


def is_repo_path(path, repo):
  """Source file of the tree under test? The object cache is content-addressed, so debug info may name the checkout in
  which an identical file was compiled first (/repo or a mutation worktree that no longer exists)."""
  if path.startswith(repo + '/') or path.startswith('/repo/'):
    return True
  if path.startswith(vb.VERIF + '/') or path.startswith('/usr/'):
    return False
  m = re.search(r'/(src|include|plugin)/(.*)$', path)
  return bool(m) and os.path.exists(os.path.join(repo, m.group(1), m.group(2)))


def classify_report(text):
  """-> dict(kind, where, frames, bucket, fingerprint, summary). where: repo | shim | harness | none | inconclusive"""
  text = symbolize_report(text)
  repo = os.path.realpath(vb.REPO)
  out = dict(kind='unknown', where='none', frames=[], bucket='', fingerprint='', summary='', text=text)
  m = re.search(r'VF-ORACLE: (.*)', text)
  if m:
    out.update(kind='oracle', where='repo', summary=m.group(1)[:400])
    key = re.sub(r'[^A-Za-z ]+', ' ', m.group(1))[:60].strip()
    out['bucket'] = out['fingerprint'] = 'oracle:' + key
    return out
  if re.search(r'ERROR: libFuzzer: timeout|ALARM: working on the last Unit', text):
    out.update(kind='timeout', where='inconclusive')
    return out
  if re.search(r'ERROR: libFuzzer: out-of-memory|AddressSanitizer: (?:out-of-memory|allocation-size-too-big|requested allocation size)|'
               r'AddressSanitizer failed to allocate|rss limit exhausted|std::bad_alloc', text):
    out.update(kind='oom', where='inconclusive')
    return out
  if 'fuzz target exited' in text:
    out.update(kind='exit', where='repo', summary='the library terminated the process (exit) on this input')
    out['bucket'] = out['fingerprint'] = 'process-exit'
    return out
  m = re.search(r'ERROR: AddressSanitizer: ([\w-]+)', text)
  if m:
    out['kind'] = m.group(1)
  elif 'terminate called' in text or 'deadly signal' in text or 'SIGABRT' in text:
    out['kind'] = 'abort'
    t = re.search(r"terminate called after throwing an instance of '([^']+)'", text)
    if t:
      out['kind'] = 'uncaught:' + t.group(1)
  elif re.search(r'return code -11\b|SEGV|Segmentation', text):
    out['kind'] = 'SEGV'
  elif re.search(r'return code -(6|4|7|8)\b', text):
    out['kind'] = 'abort'
  # first stack trace only
  start = text.find('    #0 ')
  frames = []
  if start >= 0:
    for line in text[start:].split('\n'):
      if not line.strip():
        break
      fm = re.match(r'\s*#\d+ 0x[0-9a-f]+ in (.+?) (/[^\s:]+)(?::(\d+))?', line)
      if fm:
        frames.append((fm.group(1), os.path.realpath(fm.group(2)) if os.path.exists(fm.group(2)) else fm.group(2)))
      else:
        fm = re.match(r'\s*#\d+ 0x[0-9a-f]+ (?:in (\S+) )?\((/[^\s+]+)\+', line)
        if fm:
          frames.append((fm.group(1) or '?', fm.group(2)))
  out['frames'] = frames[:12]
  frames = frames[:60]
  names = []
  for fn, path in frames:
    if is_repo_path(path, repo):
      if out['where'] == 'none':
        out['where'] = 'repo'
      if out['where'] == 'repo':
        names.append(short_fn(fn))
    elif path.startswith(vb.SHIMS + '/'):
      if out['where'] == 'none':
        out['where'] = 'shim'
        names.append(short_fn(fn))
    elif path.startswith(os.path.join(vb.NATIVE, 'C37')) or 'fuzz_xml' in os.path.basename(path) or 'c37_worker' in path:
      if out['where'] == 'none':
        out['where'] = 'harness'
        names.append(short_fn(fn))
    elif 'libmujoco_vf' in path and out['where'] == 'none':
      out['where'] = 'repo'       # unsymbolized frame inside the library under test
      names.append(short_fn(fn))
  if out['kind'] == 'stack-overflow' and out['where'] == 'none':
    out['where'] = 'repo'
  if out['where'] == 'shim' and out['kind'] == 'SEGV' and re.search(r'zero page|unknown address 0x0{8}[0-9a-f]{1,4}\b', text):
    # a DOM accessor (XMLElement::Attribute, FirstChildElement, ...) called on a NULL element: the real tinyxml2 faults in
    # exactly the same way, the defect is in the caller. Attribute it to the first non-shim frame.
    rest = [(fn, path) for fn, path in frames if not path.startswith(vb.SHIMS + '/')]
    if rest and is_repo_path(rest[0][1], repo):
      out['where'] = 'repo'
      names = ['null-element'] + [short_fn(fn) for fn, path in rest if is_repo_path(path, repo)]
  key = '|'.join(names[:2])       # the two innermost frames of the tree: the call path above them varies for one defect
  if out['kind'] == 'stack-overflow':
    # the innermost frames of a runaway recursion are arbitrary: use the functions of the cycle instead
    cyc = collections.Counter(short_fn(fn) for fn, path in frames if is_repo_path(path, repo))
    rec = sorted(n for n, c in cyc.items() if c >= 3)[:3]
    key = '|'.join(rec or [n for n, c in cyc.most_common(1)])
  out['bucket'] = out['fingerprint'] = 'asan:%s:%s' % (out['kind'], key)
  out['fingerprint3'] = 'asan:%s:%s' % (out['kind'], '|'.join(names[:3]))     # older, longer form (still accepted if listed)
  out['summary'] = '%s in %s' % (out['kind'], ' <- '.join(names[:4]))
  return out


def escape_fp(esc):
  phase, kind, msg, site = esc
  m = re.sub(r'\d+', 'N', msg)
  m = re.sub(r"'[^']*'", "'X'", m)[:80]
  return 'escape:%s:%s@%s' % (kind, m, site)


# ---------------------------------------------------------------------------------------------------------------------
# seeds and dictionary

URDF_SEEDS = [
    '''<robot name="r1"><link name="base"><inertial><origin xyz="0 0 0.1" rpy="0 0 0"/><mass value="1"/>
<inertia ixx="0.1" ixy="0" ixz="0" iyy="0.1" iyz="0" izz="0.1"/></inertial>
<visual><origin xyz="0 0 0"/><geometry><box size="0.1 0.2 0.3"/></geometry><material name="red"><color rgba="1 0 0 1"/></material></visual>
<collision><geometry><cylinder radius="0.05" length="0.2"/></geometry></collision></link>
<link name="l1"><inertial><mass value="0.5"/><inertia ixx="0.01" ixy="0" ixz="0" iyy="0.01" iyz="0" izz="0.01"/></inertial>
<collision><geometry><sphere radius="0.05"/></geometry></collision></link>
<joint name="j1" type="revolute"><parent link="base"/><child link="l1"/><origin xyz="0 0 0.2" rpy="0 0.1 0"/><axis xyz="0 0 1"/>
<limit lower="-1" upper="1" effort="10" velocity="1"/><dynamics damping="0.1" friction="0.01"/></joint></robot>''',
    '''<robot name="r2"><mujoco><compiler discardvisual="false" fusestatic="false" balanceinertia="true"/><option timestep="0.01"/><size memory="2M"/></mujoco>
<link name="a"/><link name="b"><collision><geometry><capsule radius="0.02" length="0.1"/></geometry></collision></link>
<link name="c"><visual><geometry><mesh filename="package://x/y.stl" scale="1 1 1"/></geometry></visual></link>
<joint name="p" type="prismatic"><parent link="a"/><child link="b"/><axis xyz="1 0 0"/><limit lower="0" upper="1"/></joint>
<joint name="f" type="fixed"><parent link="b"/><child link="c"/></joint></robot>''',
    '''<robot name="r3"><link name="w"/><link name="x"><inertial><mass value="1"/><inertia ixx="1" ixy="0" ixz="0" iyy="1" iyz="0" izz="1"/></inertial></link>
<link name="y"><inertial><mass value="1"/><inertia ixx="1" ixy="0" ixz="0" iyy="1" iyz="0" izz="1"/></inertial></link>
<joint name="fl" type="floating"><parent link="w"/><child link="x"/></joint>
<joint name="co" type="continuous"><parent link="x"/><child link="y"/><axis xyz="0 1 0"/></joint>
<joint name="pl" type="planar"><parent link="w"/><child link="y"/></joint></robot>''',
    '<robot><link name="only"/></robot>',
    '<robot name="bad"><joint name="j" type="spherical"><parent link="nope"/><child link="none"/></joint></robot>',
]

META_SEEDS = [
    '<mujoco><size memory="2M"/><worldbody><frame name="f" pos="0 0 1" euler="0 0 30"><geom size="0.1"/><body name="b"><joint/>'
    '<geom size="0.1"/><frame><site name="s"/></frame></body></frame></worldbody></mujoco>',
    '<mujoco><size memory="2M"/><worldbody><replicate count="3" offset="0.3 0 0" euler="0 0 10" sep="-"><body name="r"><joint type="slide"/>'
    '<geom size="0.05" name="g"/></body></replicate></worldbody></mujoco>',
    '<mujoco><size memory="2M"/><include file="@INC@"/><worldbody><geom size="0.1"/></worldbody></mujoco>',
    '<mujoco><size memory="2M"/><asset><model name="sub" file="@SUB@"/></asset><worldbody><attach model="sub" body="sb" prefix="p_"/>'
    '<frame name="fr"><attach model="sub" prefix="q_"/></frame></worldbody></mujoco>',
    '<mujoco><size memory="2M"/><worldbody><body name="a"><geom size="0.1"/></body><attach body="a" prefix="c_"/></worldbody></mujoco>',
    '<mujoco><size memory="2M"/><default><default class="c1"><geom size="0.1" rgba="1 0 0 1"/><joint damping="1"/></default></default>'
    '<worldbody><body childclass="c1"><joint/><geom/></body></worldbody><actuator><motor joint="j"/></actuator></mujoco>',
    '<mujoco><size memory="2M"/><worldbody><body><composite type="cable" curve="s" count="4 1 1" size="1" initial="none">'
    '<joint kind="main" damping="0.01"/><geom type="capsule" size="0.005"/></composite></body></worldbody></mujoco>',
    '<mujoco><size memory="2M"/><worldbody><body name="fb"><flexcomp name="fc" type="grid" count="3 3 1" spacing="0.1 0.1 0.1" radius="0.01" dim="2">'
    '<edge equality="true"/><pin id="0"/></flexcomp></body></worldbody></mujoco>',
    '<mujoco><size memory="2M"/><asset><texture name="t" type="2d" builtin="checker" width="8" height="8"/><material name="m"><layer role="rgb" texture="t"/>'
    '</material><hfield name="h" nrow="2" ncol="2" size="1 1 1 1" elevation="0 1 1 0"/><mesh name="me" vertex="0 0 0 1 0 0 0 1 0 0 0 1"/></asset>'
    '<worldbody><geom type="hfield" hfield="h"/><geom type="mesh" mesh="me" material="m"/></worldbody></mujoco>',
    '<mujoco><size memory="2M"/><custom><numeric name="n" size="3" data="1 2 3"/><text name="t" data="x"/><tuple name="u"><element objtype="body" objname="world"/>'
    '</tuple></custom><keyframe><key name="k" time="1"/></keyframe><extension><plugin plugin="mujoco.pid"><instance name="i"><config key="kp" value="1"/>'
    '</instance></plugin></extension></mujoco>',
]


def write_dictionary(g, path):
  toks = set()
  for e in g.schema.elements.values():
    t = e.xml_name()
    toks.update(['<' + t, '</' + t + '>', '<' + t + '/>', t])
    for a in g.schema.expanded_attrs(e):
      toks.update([' ' + a.name + '="', a.name])
  for en in g.schema.enums.values():
    toks.update(en.keywords())
  toks.update(['<include file="', '<frame', '</frame>', '<replicate count="', '</replicate>', '<robot', '</robot>', '<link name="',
               '<joint name="', '<parent link="', '<child link="', '<origin xyz="', 'rpy="', '<geometry>', '<inertia ixx="',
               '%s%s%s%s', '%n', '%d%d%d', '-1', '1e308', '1e-320', 'nan', 'inf', '2147483647', '-2147483648', '4294967296',
               '0 0 0', '1 0 0 0', 'true', 'false', '"/>', '">', 'class="', 'childclass="', '&#10;', '<!--', '-->',
               '99999999', ' 1 1 1 1 1 1 1 1 1 1 1 1 1 1 1 1'])
  with open(path, 'w') as f:
    for i, t in enumerate(sorted(toks)):
      f.write('k%d="%s"\n' % (i, ''.join('\\x%02x' % b if b < 32 or b > 126 or chr(b) in '"\\' else chr(b) for b in t.encode())))
  return len(toks)


def add_memory(xml):
  """Most seeds ask for a 1 MB arena: the default heuristic allocates 13 MB per mjData, which dominates the cost of an
  execution under ASan (measured 3x, arena poisoning)."""
  if '<size' in xml or '<mujoco' not in xml:
    return xml
  m = re.search(r'<mujoco[^>]*?(/?)>', xml)
  if not m:
    return xml
  if m.group(1):
    return xml[:m.start()] + m.group(0)[:-2] + '><size memory="2M"/></mujoco>' + xml[m.end():]
  return xml[:m.end()] + '<size memory="2M"/>' + xml[m.end():]


def build_seeds(ck, S, g, seeds_dir, exe_rel, exe_fuzz):
  os.makedirs(seeds_dir, exist_ok=True)
  counts = collections.Counter()
  sub = os.path.join(WD, 'sub.xml')
  inc = os.path.join(WD, 'inc.xml')
  with open(sub, 'w') as f:
    f.write('<mujoco model="sub"><worldbody><body name="sb"><joint name="sj"/><geom name="sg" size="0.1"/></body></worldbody></mujoco>')
  with open(inc, 'w') as f:
    f.write('<mujoco><option timestep="0.005"/><worldbody><geom name="inc_g" size="0.2"/></worldbody></mujoco>')

  def put(kind, text):
    data = text.encode() if isinstance(text, str) else text
    if not data or len(data) > MAX_LEN:
      return
    name = '%s_%s' % (kind, hashlib.sha1(data).hexdigest()[:12])
    with open(os.path.join(seeds_dir, name), 'wb') as f:
      f.write(data)
    counts[kind] += 1

  # modelgen documents (Hypothesis)
  from vf import modelgen as mg
  xmls = []

  def collect(gm):
    xmls.append(gm.xml)
  ck.run_hypothesis(collect, mg.models(max_bodies=3, sensors=True, defaults=True, keyframes=True, cameras=True, lights=True,
                                       mocap=True, userdata=True), ck.budget(12, 40), name='seed-modelgen', shrink=False)
  for x in xmls:
    put('modelgen', add_memory(x))
  # schema documents
  rng = random.Random(ck.seed * 7919 + 1)
  small = [k for k in gs.KINDS if g.sites[k]]
  for i in range(ck.budget(45, 150)):
    doc = g.conforming(rng, rng.randint(1, 6))
    if i % 3 == 0:
      kind = rng.choice(small)
      site = rng.choice(g.sites[kind])
      node = g.graft(rng, doc, site.ctx)
      g.violate(rng, doc, node, site)
      put('schemaviol', add_memory(doc.render()))
    else:
      put('schema', add_memory(doc.render()))
  # shipped models (small ones)
  from vf import corpus
  files = [f for f in corpus.xml_files() if os.path.getsize(f) <= 4000]
  rng.shuffle(files)
  for f in files[:ck.budget(25, 100)]:
    put('corpus', add_memory(open(f, 'r', errors='replace').read()))
  # URDF: the tree ships no URDF sample (searched test/**/testdata and model/ for '<robot' and *.urdf), so they are written here
  for f in glob.glob(os.path.join(vb.REPO, 'test', '**', '*.urdf'), recursive=True) + glob.glob(os.path.join(vb.REPO, 'model', '**', '*.urdf'), recursive=True):
    put('urdf', open(f, 'rb').read())
  for x in URDF_SEEDS:
    put('urdf', x)
  for x in META_SEEDS:
    put('meta', x.replace('@INC@', inc).replace('@SUB@', sub))
  # every seed is executed once on the rel worker: a seed that kills the loader, escapes or is slow would stop libFuzzer while it
  # loads the corpus (and is a finding of its own); slow seeds only cost executions (the ASan build is ~100x slower)
  w = Worker(exe_rel, False, WD, spares=1)
  wa = None
  dropped = collections.Counter()
  for f in sorted(os.listdir(seeds_dir)):
    path = os.path.join(seeds_dir, f)
    data = open(path, 'rb').read()
    t0 = time.time()
    r = w.run(data, load=True, timeout=30)
    dt = time.time() - t0
    why = None
    if r.died or r.escapes or r.oracle:
      why = 'crash-or-escape'
      if r.died and not r.timeout:
        if wa is None:
          wa = Worker(exe_fuzz, True, WD, spares=0)
        r = wa.run(data, load=True, timeout=200)
      if not r.timeout:
        handle_common(S, r, data, 'seed:' + f.split('_')[0])
    elif dt > 0.05:
      why = 'slow'
    if why:
      os.unlink(path)
      dropped[why] += 1
      counts[f.split('_')[0]] -= 1
  w.stop()
  if wa is not None:
    wa.stop()
  counts['dropped_' + 'crash-or-escape'] = dropped['crash-or-escape']
  counts['dropped_slow'] = dropped['slow']
  return dict(counts), sub


# ---------------------------------------------------------------------------------------------------------------------
# (a) libFuzzer runs

class FuzzSlot(threading.Thread):
  def __init__(self, exe, slot, seed, seconds, dirs, dictionary, asan=True):
    threading.Thread.__init__(self, daemon=True)
    self.exe, self.slot, self.seed, self.seconds, self.dirs, self.dictionary = exe, slot, seed, seconds, dirs, dictionary
    self.asan = asan      # False: libFuzzer linked against the uninstrumented rel library (blind mutation, ~100x faster)
    self.runs = []     # (iteration, returncode, logpath)
    self.proc = None
    self.error = None

  def run(self):
    try:
      deadline = time.time() + self.seconds
      it = 0
      while time.time() < deadline - 4 and it < 40:
        remaining = max(3, int(deadline - time.time()))
        log = os.path.join(self.dirs['logs'], 's%d_%d.log' % (self.slot, it))
        cmd = [self.exe, self.dirs['corpus' if self.asan else 'corpus_rel'], self.dirs['seeds'], '-max_total_time=%d' % remaining,
               '-seed=%d' % ((self.seed * 1000 + self.slot * 100 + it) % (2 ** 31) + 1), '-dict=' + self.dictionary,
               '-max_len=%d' % MAX_LEN, '-timeout=20', '-rss_limit_mb=3072', '-malloc_limit_mb=2048',
               '-artifact_prefix=%s/s%d_%d_' % (self.dirs['artifacts'], self.slot, it), '-print_final_stats=1',
               '-reload=1', '-len_control=50', '-use_value_profile=0']
        env = asan_env() if self.asan else dict(os.environ)
        env['VF_C37_DIR'] = WD
        env['VF_C37_TAG'] = 'asan' if self.asan else 'rel'
        with open(log, 'wb') as lf:
          self.proc = subprocess.Popen(cmd, stdin=subprocess.DEVNULL, stdout=lf, stderr=subprocess.STDOUT, env=env, cwd=WD)
          try:
            rc = self.proc.wait(timeout=remaining + 20)
          except subprocess.TimeoutExpired:
            self.proc.kill()
            rc = self.proc.wait()
            with open(log, 'ab') as lf2:
              lf2.write(b'\n[driver] killed after max_total_time + 20 s\nERROR: libFuzzer: timeout\n')
        self.runs.append((it, rc, log))
        # an input that stops the fuzzer must not be loaded again: remove it from the seed / corpus directories
        for art in glob.glob('%s/s%d_%d_*' % (self.dirs['artifacts'], self.slot, it)):
          if os.path.basename(art).split('_', 2)[2].startswith('slow-unit'):
            continue
          try:
            h = hashlib.sha1(open(art, 'rb').read()).hexdigest()
            for d in (self.dirs['seeds'], self.dirs['corpus']):
              for f in os.listdir(d):
                pth = os.path.join(d, f)
                if f == h or (d == self.dirs['seeds'] and hashlib.sha1(open(pth, 'rb').read()).hexdigest() == h):
                  os.unlink(pth)
          except OSError:
            pass
        it += 1
    except Exception as e:   # reported by the main thread as harness error
      self.error = e


def read_fuzz_stats():
  tot = collections.Counter()
  per = {}
  for f in glob.glob(os.path.join(WD, 'stats', '*.txt')):
    tag = os.path.basename(f).split('_')[0]
    for line in open(f):
      k, v = line.split()
      tot[k] += int(v)
      per.setdefault(tag, collections.Counter())[k] += int(v)
  hashes = set()
  for f in glob.glob(os.path.join(WD, 'stats', '*.hashes')):
    data = open(f, 'rb').read()
    for i in range(0, len(data) - 7, 8):
      hashes.add(data[i:i + 8])
  return tot, hashes, {k: dict(v) for k, v in per.items()}


def show(data, n=600):
  if isinstance(data, str):
    data = data.encode('utf-8', errors='replace')
  try:
    t = data.decode('utf-8')
    if all(c.isprintable() or c in '\n\t\r' for c in t):
      return dict(text=t[:n * 8])
  except UnicodeDecodeError:
    pass
  return dict(hex=data[:n * 4].hex())


# ---------------------------------------------------------------------------------------------------------------------

ROOT_CAUSES = [
    (r'^conforming-rejected:required attribute missing', 'mjcf.schema omits the `required` facet on an attribute that the reader (and XMLreference.rst) requires'),
    (r'^conforming-rejected:bad format in attribute', 'mjcf.schema declares double[] for an attribute that the reader parses as int'),
    (r'^conforming-rejected:', 'reader rejects a schema-conforming document with a schema/type-layer message'),
    (r'^schema-check-skipped:', 'mjXSchema::Check never descends into <frame>/<replicate>: their attributes and whole subtrees are not validated'),
    (r'^accepted:bad_enum:composite_joint\.limited', 'OneComposite reads `limited` from the composite element instead of its joint child: the keyword is never checked'),
    (r'^accepted:required_missing:config\.key', 'plugin <config> children are not read when the plugin element references an instance'),
    (r'^accepted:out_of_range:', 'min/max facet of mjcf.schema not enforced by reader or compiler'),
    (r'^accepted:', 'a document with a schema violation is accepted'),
    (r'^escape:mju_error:Requested index in mjs_setInStringVec', 'OneMaterial passes FindKey()==-1 for an unknown layer role to mjs_setInStringVec -> mju_error outside any handler'),
    (r'^escape:exception:std::bad_optional_access.*mjXReader::Asset', 'Asset: <model> without file calls .value() on an empty optional; SpecFromXML only catches mjXError'),
    (r'^escape:', 'mju_error / C++ exception leaves the C API'),
    (r'GetClass|sprintf_arr\|mjXError::mjXError', 'user text is passed as the printf format of mjXError (GetClass: unknown default class name)'),
    (r'memcpy-param-overlap:mju_copy\|mj_advance', 'sensor nsample*dim overflows int: overlapping copy in mj_advance during the compile-time test step'),
    (r'mjXReader::Custom', 'Custom: negative numeric size is passed as length to ReadAttr into double data[500]'),
    (r'heap-buffer-overflow:mjXReader::Asset', 'Asset/hfield: nrow*ncol overflows int'),
    (r'CopyPlugin', 'attach of a frame holding plugin elements (replicate count>=2 around a cable composite): stale plugin pointer'),
    (r'ComputeReference', 'ComputeReference uses a stale joint type when keyframes are stored during attach'),
    (r'mjCPlugin::Compile|mjCBody::Compile', 'plugin element without plugin name and instance: null plugin dereferenced at compile'),
    (r'^asan:stack-overflow', 'self-attach with an empty body name attaches the world to itself: unbounded recursion'),
    (r'^asan:|^crash', 'memory error / crash in the loader'),
    (r'^oracle:', 'API contract (NULL without message, handlers, loadXML vs parse+compile)'),
]


def root_cause(fp):
  for rx, what in ROOT_CAUSES:
    if re.search(rx, fp):
      return what
  return 'unclassified'


class Ctx37:
  """State of one run of the check."""

  def __init__(self, ck):
    self.ck = ck
    self.findings = collections.Counter()
    self.finding_what = {}
    self.inconclusive = collections.Counter()
    self.minimized = 0
    self.family_reported = collections.Counter()
    self.suppressed = collections.Counter()
    self.suppressed_fps = set()

  def finding(self, fp, msg, replay):
    fp = fp[:150]
    msg = '[root cause: %s] %s' % (root_cause(fp), msg)
    first = fp not in self.findings
    self.findings[fp] += 1
    if fp not in self.finding_what:
      self.finding_what[fp] = msg[:300]
    if self.ck.known(fp) is None:
      # one systematic defect (e.g. a mutant of the typed reader) shows up at hundreds of sites: report the first three
      # sites of a family (fingerprint up to the second ':'), count the others in the evidence only
      fam = ':'.join(fp.split(':')[:2])
      if first:
        self.family_reported[fam] += 1
        if self.family_reported[fam] > 3:
          self.suppressed_fps.add(fp)
          self.suppressed[fam] += 1
      if fp in self.suppressed_fps:
        return
    self.ck.violation(msg, replay, bucket=fp, fingerprint=fp)
    self.ck.label('finding' if self.ck.known(fp) is None else 'known-finding')


def handle_common(S, res, xml, origin, info=None):
  """Crash / escape / oracle part of the verdict for one executed document. Returns True if the document produced such a
  finding (its accept/reject verdict is then not judged)."""
  ck = S.ck
  bad = False
  if res.timeout:
    S.inconclusive['worker-timeout'] += 1
    return True
  if res.died:
    c = classify_report(res.report)
    if c['where'] == 'inconclusive':
      S.inconclusive[c['kind']] += 1
      return True
    if c['where'] in ('shim', 'harness'):
      raise RuntimeError('C37 harness error: crash with innermost frame in %s (%s)\nframes=%s\ninput=%s\n%s' % (
          c['where'], c['summary'], c['frames'][:6], xml[:1500], res.report[-3000:]))
    if c['where'] == 'none':
      c['fingerprint'] = 'crash-unclassified:' + c['kind']
    elif ck.known(c['fingerprint']) is None and c.get('fingerprint3') and ck.known(c['fingerprint3']) is not None:
      c['fingerprint'] = c['fingerprint3']
    S.finding(c['fingerprint'], 'loader crashed (%s): %s' % (origin, c['summary']),
              dict(origin=origin, xml=show(xml), info=info, report=c['text'][-4000:], frames=c['frames'][:8]))
    return True
  for esc in res.escapes:
    phase, kind, msg, site = esc
    if kind == 'exception' and re.search(r'bad_alloc|length_error|bad_array_new_length', msg):
      S.inconclusive['oom-exception'] += 1      # memory exhaustion (huge counts/sizes): inconclusive by design
      bad = True
      continue
    what = ('mju_error reached the process-global handler (the default handler exits the process)' if kind == 'mju_error'
            else 'C++ exception propagated out of the C API (std::terminate in a C caller)')
    S.finding(escape_fp(esc), '%s during %s: %s [site %s] (%s)' % (what, phase, msg, site, origin),
              dict(origin=origin, xml=show(xml), info=info, escape=dict(phase=phase, kind=kind, msg=msg, site=site)))
    bad = True
  for o in res.oracle:
    key = re.sub(r'[^A-Za-z ]+', ' ', o)[:60].strip()
    S.finding('oracle:' + key, 'oracle: %s (%s)' % (o[:500], origin), dict(origin=origin, xml=show(xml), info=info))
    bad = True
  return bad


def main(ck):
  t_start = time.time()
  S = Ctx37(ck)
  verify_phrases(vb.REPO)
  if os.path.isdir(WD):
    shutil.rmtree(WD, ignore_errors=True)
  dirs = {k: os.path.join(WD, k) for k in ('seeds', 'corpus', 'corpus_rel', 'artifacts', 'logs', 'stats', 'escapes')}
  for d in dirs.values():
    os.makedirs(d, exist_ok=True)
  exe_fuzz = vb.build_exe('fuzz_xml', [SRC], variant='fuzz', extra_ldflags=['-fsanitize=fuzzer', '-rdynamic'])
  exe_rel = vb.build_exe('c37_worker', [SRC], variant='rel', extra_cflags=['-DVF_PLAIN_MAIN', '-g'], extra_ldflags=['-rdynamic'])
  sub_path = os.path.join(WD, 'sub.xml')
  g = gs.Generator(vb.REPO, submodel_path=sub_path)
  ndict = write_dictionary(g, os.path.join(WD, 'mjcf.dict'))
  seed_counts, _ = build_seeds(ck, S, g, dirs['seeds'], exe_rel, exe_fuzz)
  ck.extra['seed_corpus'] = seed_counts
  ck.extra['dictionary_tokens'] = ndict
  ck.extra['schema'] = dict(contexts=len(g.ctx_list), sites={k: len(v) for k, v in g.sites.items()},
                            kinds_without_sites=[k for k in gs.KINDS if not g.sites[k]])

  # ------------------------------------------------------------------ (a) start the fuzzers in the background
  nslots = 2 if ck.quick else 4
  parts = os.environ.get('VERIF_C37_PARTS', 'ab')     # development aid: run only one part
  if 'a' not in parts:
    nslots = 0
  fuzz_seconds = ck.budget(32, 540)
  # half of the fuzzer processes use the ASan + coverage build (guided, finds memory errors, a few executions per second on
  # this machine), the other half the rel library without instrumentation (blind mutation of the same seeds, hundreds of
  # executions per second; its crashes are re-run under ASan for the report)
  exe_blind = vb.build_exe('fuzz_xml_rel', [SRC], variant='rel', extra_cflags=['-g', '-fsanitize=fuzzer'],
                           extra_ldflags=['-fsanitize=fuzzer', '-rdynamic'])
  slots = [FuzzSlot(exe_fuzz if i % 2 == 0 else exe_blind, i, ck.seed, fuzz_seconds, dirs, os.path.join(WD, 'mjcf.dict'),
                    asan=(i % 2 == 0)) for i in range(nslots)]
  for s in slots:
    s.start()

  # ------------------------------------------------------------------ (b) schema documents
  try:
    if 'b' in parts:
      part_b(ck, S, g, exe_rel, exe_fuzz)
  finally:
    for s in slots:
      s.join(timeout=fuzz_seconds + 60)
  for s in slots:
    if s.error is not None:
      raise RuntimeError('fuzz driver failed: %r' % (s.error,))
  if slots:
    part_a_collect(ck, S, slots, exe_fuzz)

  ck.extra['findings'] = dict(S.findings)
  ck.extra['inconclusive'] = dict(S.inconclusive)
  ck.extra['unreported_sites_of_reported_families'] = dict(S.suppressed)
  ck.rule = ('(a) libFuzzer inputs (mutations of modelgen/schema/corpus/URDF/meta-element seeds, max_len %d): non-trivial = '
             'reached the MJCF/URDF reader (well-formed XML with root mujoco/robot), distinct by content hash. '
             '(b) schema-generated pairs (conforming D, D + one labelled violation): all sites of the small violation kinds '
             'enumerated, big kinds sampled; non-trivial = violation at depth >= 2 and D accepted by mj_parseXMLString, '
             'distinct by document text' % MAX_LEN)
  ck.assumptions = [
      'XML lexical layer is the tinyxml2-compatible shim on expat (/verif/shims): crashes whose innermost frame is there are harness errors, not verdicts',
      'mju_error reaching the process-global log handler and C++ exceptions leaving the C API are counted as process termination '
      '(that is what the default handler / a C caller would do); the target intercepts them only to keep running',
      'time-outs, rss/malloc limits and bad_alloc are inconclusive (counted), never violations',
      'schema semantics are those stated in doc/generate/mjcf_schema.py and the header of src/xml/mjcf.schema; <default> rows are the defaultable projection',
      'fuzz variant has ASan but no UBSan (vf/build.py)']
  # suggested known-findings entries for the lead (work file only)
  with open(os.path.join(WD, 'suggested_known_findings.json'), 'w') as f:
    json.dump(dict(findings=[dict(property='C37', status='known', fingerprint=fp, what=S.finding_what[fp], hits=n)
                             for fp, n in sorted(S.findings.items())]), f, indent=1)
  ck.extra['wall_parts'] = dict(total=round(time.time() - t_start, 1))
  Symbolizer.close()


# ---------------------------------------------------------------------------------------------------------------------

def minimize(doc, keep, pred, budget=40):
  """Greedy reduction of a document: remove child subtrees and optional attributes that are not needed for pred(xml).
  `keep` = node that carries the violation (its ancestors are kept). Only removals that keep the rest conforming."""
  calls = [0]

  def ok():
    calls[0] += 1
    return pred(doc.render())

  protected = set()
  n = keep
  while n is not None:
    protected.add(id(n))
    n = n.parent
  changed = True
  while changed and calls[0] < budget:
    changed = False
    nodes = sorted(doc.root.walk(), key=lambda x: -x.count())
    for node in nodes:
      if calls[0] >= budget:
        break
      if id(node) in protected or node.parent is None:
        continue
      par = node.parent
      if node not in par.children:
        continue
      idx = par.children.index(node)
      par.children.pop(idx)
      if ok():
        changed = True
      else:
        par.children.insert(idx, node)
  for node in list(doc.root.walk()):
    if node.ctx is None:
      continue
    for a in list(node.attrs):
      if calls[0] >= budget:
        return doc
      spec = node.ctx.attr.get(a[0])
      if spec is None or spec.facets.get('required') or (node is keep):
        continue
      if any(a[0] in b for _, bundles in node.ctx.constraints for b in bundles):
        continue
      node.attrs.remove(a)
      if not ok():
        node.attrs.append(a)
  return doc


def part_b(ck, S, g, exe_rel, exe_fuzz):
  t_b = time.time()
  fast = Worker(exe_rel, False, WD, spares=2)
  slow = Worker(exe_fuzz, True, WD, spares=1)
  stats = collections.Counter()
  per_kind = {k: collections.Counter() for k in gs.KINDS}

  asan_budget = [float(ck.budget(4, 120))]      # seconds of extra ASan executions of sampled random documents
  asan_budget_hostile = [float(ck.budget(10, 300))]   # ... of hostile-value documents (rotating start context per seed)

  t_asan = [0.0]
  t_crash = [0.0]
  rel_sites = {}      # crash site in the rel worker -> (symbolized) ASan report of the first document that died there
  max_reruns = ck.budget(12, 300)

  def rel_site(report):
    i = report.find('VF-CRASH')
    names = []
    if i >= 0:
      for line in report[i:].split('\n')[1:]:
        m = re.match(r'\S*libmujoco_vf\S*\(([^+()]+)\+0x', line)
        if m:
          names.append(m.group(1))
    sig = re.search(r'return code (-?\d+)', report[report.rfind('[worker ended'):])
    return (sig.group(1) if sig else '?',) + tuple(names[:4])

  def run(xml, parse_only, load=False, both=False, timeout=60, budget=None):
    """Run on the fast (rel) worker. A document that kills its child there is re-run under ASan for a report; the
    re-run is done once per crash site of the rel build (stack printed by the worker's signal handler)."""
    t0 = time.time()
    r = fast.run(xml, load=load, parse_only=parse_only, timeout=timeout)
    if r.died:
      t_crash[0] += time.time() - t0
    if r.died and not r.timeout:
      stats['rel_child_deaths'] += 1
      site = rel_site(r.report)
      if site not in rel_sites:
        if len(rel_sites) >= max_reruns:
          S.inconclusive['rel-crash-not-rerun'] += 1
          r.timeout = True
          return r
        t1 = time.time()
        r2 = slow.run(xml, load=load, parse_only=parse_only, timeout=200)
        t_asan[0] += time.time() - t1
        stats['asan_reruns'] += 1
        if not r2.died:
          S.finding('rel-crash-unreproduced:' + '|'.join(site)[:80],
                    'the rel build died on a document that the ASan build handles: %s' % r.report[-600:], dict(xml=show(xml)))
          rel_sites[site] = None
          return r2
        rel_sites[site] = symbolize_report(r2.report)
        return r2
      if rel_sites[site] is None:
        r.timeout = True
        return r
      r.report = rel_sites[site] + '\n[report of the first document that crashed at the same site of the rel build: %s]' % (site,)
      return r
    budget = budget if budget is not None else asan_budget
    if both and budget[0] > 0 and not r.died and time.time() - t0 < 0.3:   # (not for documents that are slow even in rel)
      t0 = time.time()
      r3 = slow.run(xml, load=load, parse_only=False, timeout=12)
      budget[0] -= time.time() - t0
      t_asan[0] += time.time() - t0
      handle_common(S, r3, xml, 'schema-doc/asan')
      stats['asan_runs'] += 1
    return r

  # ---- deterministic differential sweep: every element context, minimal instance, then every optional attribute alone.
  # Finds systematically where the typed reader is stricter than the schema (attribute required by the reader but optional
  # in the schema; schema type double, reader wants int; ...), independent of the random documents below.
  def conforming_verdict(doc, rb, xml, labels, where):
    if rb.parse == 1:
      labels.append('b:conf:accepted')
      return None
    lay = layer_of(rb.perr)
    labels.append('b:conf:rejected-' + lay)
    if lay == 'semantic':
      return None
    msg, el = norm_msg(rb.perr)
    if el == 'numeric' and "'data' has too much data" in msg:
      # documented value-dependent rule, not a schema reason (XMLreference custom-numeric-data: "If size is specified, the
      # length of the array given here cannot exceed the specified size"); the reader words it with the arity phrase
      labels[-1] = 'b:conf:rejected-semantic'
      return None
    am = re.search(r"'(\w+)'", msg)
    if am and any(n.tag == el and n.ctx is not None and am.group(1) in n.ctx.attr and
                  n.ctx.attr[am.group(1)].facets.get('reading') == 'custom' for n in doc.root.walk()):
      # attributes declared reading=custom have hand-written read semantics by the schema's own definition
      # ("reading=custom: hand-written read semantics; no typed binding is generated"): their rules are not schema rules
      labels[-1] = 'b:conf:rejected-semantic'
      return None
    fp = 'conforming-rejected:%s@%s' % (re.sub(r'\d+', 'N', msg)[:90], el)
    rep_doc = doc
    if ck.known(fp) is None and fp not in S.findings and S.minimized < ck.budget(3, 12):
      S.minimized += 1
      d2, memo = doc.clone()
      tgt = re.sub(r'\d+', 'N', msg)

      def pred(x):
        r = fast.run(x, parse_only=True)
        return (not r.died) and r.parse == 0 and re.sub(r'\d+', 'N', norm_msg(r.perr)[0]) == tgt
      rep_doc = minimize(d2, d2.root, pred)
    S.finding(fp, 'schema-conforming document rejected with a schema/type-layer message: %r (%s)' % (rb.perr[:300], where),
              dict(xml=show(rep_doc.render()), message=rb.perr, conformance_errors=g.doc_errors(rep_doc)))
    return msg

  # ---- hostile values (b1): an accepted minimal instance with one attribute (or all attributes of one type) set to a value
  # at the edge of / outside its type. Only "never crashes / never terminates" is judged here, not the accept/reject verdict.
  LONGLIST = ' '.join(['1'] * 600)
  HOSTILE = dict(
      text=['%s%s%s%s%s%s%s%s%n', 'A' * 3000, ''],
      int=['-1', '2147483647', '-2147483648', '65536', '99999999999', '0'],
      real=['1e308', '-1e308', '1e-320', 'nan', 'inf', '1e999', '0'],
      key=['', ' '])
  hostile_stats = collections.Counter()

  def hostile_class(a):
    if a.type in ('string', 'ref', 'id', 'file', 'chars'):
      return 'text'
    if a.type == 'int':
      return 'int'
    if a.type in ('double', 'float'):
      return 'real'
    return 'key'

  crashy = collections.Counter()    # (attribute name / element, value) that already crashed twice: same defect, skip

  def hostile_run(d2, what, key, asan=False):
    if crashy[key] >= 2:
      hostile_stats['skipped-same-crash'] += 1
      return
    xml = d2.render()
    r = run(xml, parse_only=(hostile_stats['docs'] % 4 != 0), timeout=2, both=asan, budget=asan_budget_hostile)
    hostile_stats['docs'] += 1
    if handle_common(S, r, xml, 'schema-doc/hostile:' + what):
      hostile_stats['crash-or-escape'] += 1
      crashy[key] += 1
    ck.case(nontrivial=False, labels=['b1:hostile'])

  def hostile_sweep(ctx, doc, node):
    full = not ck.quick
    attrs = list(ctx.attrs)
    if not full and len(attrs) > 3:
      attrs = sweep_rng.sample(attrs, 3)
    for a in attrs:
      vals = HOSTILE[hostile_class(a)]
      if not full:
        vals = [vals[(sweep_rng.randrange(len(vals)))]]
        if a.type in ('double', 'float', 'int') and sweep_rng.random() < 0.2:
          vals = [LONGLIST]
      elif a.type in ('double', 'float', 'int'):
        vals = vals + [LONGLIST]
      for v in vals:
        d2, memo = doc.clone()
        n = a.arity.lo if a.type in ('double', 'float', 'int') and v != LONGLIST else 1
        memo[id(node)].set(a.name, ' '.join([v] * max(1, n)))
        hostile_run(d2, '%s.%s' % (ctx.elemkey(), a.name), (a.name, v[:20]))
    # all attributes of one class at once (sizes that overflow when multiplied, size/data pairs, ...)
    for cls, v in (('int', '-1'), ('int', '65536'), ('int', '2147483647'), ('real', '1e308'), ('real', 'nan')):
      tg = [a for a in ctx.attrs if hostile_class(a) == cls]
      if len(tg) < 2 and cls == 'real':
        continue
      d2, memo = doc.clone()
      n2 = memo[id(node)]
      for a in tg:
        n2.set(a.name, ' '.join([v] * max(1, a.arity.lo)))
      for a in ctx.attrs:
        if a.type == 'string' and cls == 'int':
          n2.set(a.name, LONGLIST)
      hostile_run(d2, '%s.all-%s=%s' % (ctx.elemkey(), cls, v), (ctx.name, cls, v), asan=True)

  sweep_rng = random.Random(ck.seed * 31 + 5)
  nsweep = 0
  rot = (ck.seed * 97) % len(g.ctx_list)
  for ctx in g.ctx_list[rot:] + g.ctx_list[:rot]:
    if ctx is g.root:
      continue
    for mode in ('pure', 'recipe'):     # required attributes only; if that is rejected semantically: with gen_schema.RECIPES
      doc = g.new_doc(sweep_rng)
      node = g.graft(sweep_rng, doc, ctx, dense=False, minimal=mode)
      if g.doc_errors(doc):
        raise RuntimeError('gen_schema: minimal instance of %s is not conforming: %s' % (ctx.key, g.doc_errors(doc)))
      rb = None
      for _ in range(8):      # complete the attributes the reader insists on, recording each as a finding
        xml = doc.render()
        rb = run(xml, parse_only=True)
        nsweep += 1
        labels = ['b0:minimal-' + mode]
        if handle_common(S, rb, xml, 'schema-doc/minimal'):
          break
        msg = conforming_verdict(doc, rb, xml, labels, 'minimal instance of ' + ctx.key)
        ck.case(nontrivial=False, labels=labels)
        m = re.search(r"required attribute missing: '(\w+)'", msg or '')
        if not m:
          break
        tgt = [n for n in doc.root.walk() if n.ctx is not None and m.group(1) in n.ctx.attr and not n.has(m.group(1))
               and n.tag == norm_msg(rb.perr)[1]]
        if not tgt:
          break
        g._add_attr(sweep_rng, tgt[0], m.group(1), doc)
      if rb is not None and not rb.died and not rb.escapes and rb.parse == 1:
        break
    else:
      stats['b0_contexts_never_accepted'] += 1
      continue
    hostile_sweep(ctx, doc, node)
    for a in ctx.attrs:
      if node.has(a.name):
        continue
      d2, memo = doc.clone()
      n2 = memo[id(node)]
      v = g.value(sweep_rng, ctx, a, d2)
      if v is None:
        continue
      if a.type in ('double', 'float') and not any(f in a.facets for f in ('min', 'max', 'positive')):
        toks = v.split()
        toks[-1] = '0.5'
        v = ' '.join(toks)
      n2.set(a.name, v)
      if not g.repair(sweep_rng, n2, d2) or g.doc_errors(d2):
        continue
      xml = d2.render()
      r1 = run(xml, parse_only=True)
      nsweep += 1
      labels = ['b0:one-attribute']
      if handle_common(S, r1, xml, 'schema-doc/one-attribute'):
        continue
      conforming_verdict(d2, r1, xml, labels, 'attribute %s added to a minimal %s' % (a.name, ctx.key))
      ck.case(nontrivial=False, labels=labels)
  stats['b0_documents'] = nsweep

  # ---- URDF documents (b3): generated robots (links, joints of every type with origin/axis/limit/dynamics/mimic children in
  # every combination, inertial/visual/collision with primitive geometry).  Oracle: never crashes / escapes; accepted or
  # rejected with a message.
  urng = random.Random(ck.seed * 7919 + 13)
  nurdf = 0
  JT = ['fixed', 'revolute', 'prismatic', 'continuous', 'floating', 'planar', 'spherical', 'bogus']

  def urdf_doc():
    nl = urng.randint(1, 5)
    out = ['<robot name="r%d">' % urng.randint(0, 9)]
    if urng.random() < 0.3:
      out.append('<mujoco><compiler fusestatic="%s" discardvisual="%s"/></mujoco>' % (
          urng.choice(['true', 'false']), urng.choice(['true', 'false'])))
    if urng.random() < 0.3:
      out.append('<material name="mat"><color rgba="%.1f %.1f %.1f 1"/></material>' % (urng.random(), urng.random(), urng.random()))
    for i in range(nl):
      parts = []
      if urng.random() < 0.7:
        parts.append('<inertial><origin xyz="%.2f 0 %.2f" rpy="0 %.2f 0"/><mass value="%.2f"/><inertia ixx="0.01" ixy="0" ixz="0" '
                     'iyy="0.01" iyz="0" izz="%.3f"/></inertial>' % (urng.uniform(-.2, .2), urng.uniform(-.2, .2),
                                                                   urng.uniform(-1, 1), urng.uniform(0.1, 3), urng.uniform(0.005, 0.02)))
      for tag in ('visual', 'collision'):
        if urng.random() < 0.6:
          geo = urng.choice(['<box size="0.1 0.2 0.3"/>', '<sphere radius="0.1"/>', '<cylinder radius="0.05" length="0.3"/>',
                             '<capsule radius="0.05" length="0.2"/>'])
          mat = '<material name="mat"/>' if tag == 'visual' and urng.random() < 0.3 else ''
          parts.append('<%s><origin xyz="0 %.2f 0"/><geometry>%s</geometry>%s</%s>' % (tag, urng.uniform(-.2, .2), geo, mat, tag))
      out.append('<link name="l%d">%s</link>' % (i, ''.join(parts)))
    for i in range(1, nl):
      jt = urng.choice(JT)
      kids = ['<parent link="l%d"/>' % urng.randint(0, i - 1), '<child link="l%d"/>' % i]
      if urng.random() < 0.6:
        kids.append('<origin xyz="%.2f %.2f %.2f" rpy="%.2f 0 %.2f"/>' % tuple(urng.uniform(-1, 1) for _ in range(5)))
      if urng.random() < 0.6:
        kids.append('<axis xyz="%d %d %d"/>' % (urng.randint(-1, 1), urng.randint(-1, 1), urng.randint(0, 1)))
      if urng.random() < 0.6:
        kids.append('<limit %s/>' % ' '.join(urng.sample(['lower="-1"', 'upper="1.5"', 'effort="10"', 'velocity="2"'],
                                                            urng.randint(0, 4))))
      if urng.random() < 0.5:
        kids.append('<dynamics %s/>' % ' '.join(urng.sample(['damping="0.1"', 'friction="0.05"'], urng.randint(0, 2))))
      if urng.random() < 0.2:
        kids.append('<mimic joint="j%d" multiplier="2" offset="0.1"/>' % urng.randint(1, nl))
      if urng.random() < 0.15:
        kids.append('<safety_controller k_velocity="1"/><calibration rising="0"/>')
      urng.shuffle(kids)
      out.append('<joint name="j%d" type="%s">%s</joint>' % (i, jt, ''.join(kids)))
    out.append('</robot>')
    return ''.join(out)
  for _ in range(ck.budget(400, 6000)):
    xml = urdf_doc()
    r = run(xml, parse_only=(nurdf % 3 != 0), timeout=5)
    nurdf += 1
    bad = handle_common(S, r, xml, 'urdf-doc')
    ck.case(nontrivial=False, labels=['b3:urdf', 'b3:urdf-crash-or-escape' if bad else ('b3:urdf-accepted' if r.parse == 1 else 'b3:urdf-rejected')])
  stats['b3_urdf_documents'] = nurdf
  stats['t_sweeps_s'] = round(time.time() - t_b, 1)
  stats['b1_hostile_documents'] = hostile_stats['docs']
  stats['b1_hostile_crash_or_escape'] = hostile_stats['crash-or-escape']
  stats['b1_hostile_skipped_same_crash'] = hostile_stats['skipped-same-crash']

  # ---- order of violation tests: every site of the small kinds once, then samples of the big kinds
  order_rng = random.Random(ck.seed)
  sweep = [s for k in gs.KINDS if k not in BIG_KINDS for s in g.sites[k]]
  nsites_small = len(sweep)
  if ck.quick:
    # quick tier: one of the two unknown-child variants per context, 60% of the enum/bool keyword sites; everything else
    # (unknown attributes, duplicated ? children, required attributes, presence constraints, facets) completely
    sweep = [s for s in sweep if not (s.kind == 'unknown_child' and (s.detail == 'foreign') == (order_rng.random() < 0.5))]
    sweep = [s for s in sweep if not (s.kind in ('bad_enum', 'bad_bool') and order_rng.random() < 0.4)]
  order_rng.shuffle(sweep)
  nbig = ck.budget(450, 6000)
  big = []
  for k in BIG_KINDS:
    sites = list(g.sites[k])
    order_rng.shuffle(sites)
    big += sites[:max(1, nbig // len(BIG_KINDS))] if len(sites) > nbig // len(BIG_KINDS) else sites
  plan = sweep + big
  if not ck.quick:
    plan = plan + sweep      # two different base documents per small-kind site
  ck.extra['plan'] = dict(small_kind_sites=nsites_small, small_kind_sites_enumerated=len(sweep), big_kind_sites_sampled=len(big), total=len(plan))
  pos = [0]

  def test(seed):
    i = pos[0]
    pos[0] += 1
    site = plan[i % len(plan)]
    # a rejection with a semantic message cannot be attributed to the injected violation (the reader may have stopped at
    # something else first): such a site gets up to two more base documents
    for attempt in range(1 if site.kind in BIG_KINDS else 3):
      if one_pair(i, site, (seed + 104729 * attempt) % (2 ** 32)) != 'rejected-by-semantic':
        break
      stats['retries_after_semantic_rejection'] += 1

  def one_pair(i, site, seed):
    rng = random.Random(seed)
    doc = g.conforming(rng, rng.randint(0, 5))
    node = g.graft(rng, doc, site.ctx, dense=rng.random() < 0.3)
    errs = g.doc_errors(doc)
    if errs:
      raise RuntimeError('gen_schema produced a non-conforming base document: %s\n%s' % (errs, doc.render()))
    base_xml = doc.render()
    want_compile = (i % 10 == 0) or site.kind == 'out_of_range'
    rb = run(base_xml, parse_only=not want_compile, load=(i % 10 == 0), both=(i % 25 == 0))
    stats['base_docs'] += 1
    labels = []
    base_bad = handle_common(S, rb, base_xml, 'schema-doc/conforming')
    if base_bad:
      labels.append('b:conf:crash-or-escape')
    else:
      conforming_verdict(doc, rb, base_xml, labels, 'random document')
      if rb.compile == 1:
        labels.append('b:conf:compiled')
    # ---- the violation
    vdoc, memo = doc.clone()
    vnode = memo[id(node)]
    info = g.violate(rng, vdoc, vnode, site)
    if info is None:
      ck.discard('site-not-applicable')
      ck.case(nontrivial=False, labels=labels)
      return None
    if not info['errors']:
      raise RuntimeError('gen_schema: injected violation %s is not seen by the reference validator\n%s' % (info, vdoc.render()))
    vx = vdoc.render()
    rv = run(vx, parse_only=True, both=(i % 50 == 7))
    stats['violation_docs'] += 1
    kind = site.kind
    per_kind[kind]['tried'] += 1
    labels.append('b:viol:' + kind)
    vbad = handle_common(S, rv, vx, 'schema-doc/violation:' + kind, info)
    alias = site.ctx.under_alias()
    verdict = None
    if vbad:
      verdict = 'crash-or-escape'
    elif rv.parse == 0:
      verdict = 'rejected-by-' + layer_of(rv.perr)
      if base_bad is False and rb.parse == 1:
        per_kind[kind]['rejected_after_accepted_base'] += 1
    else:
      # accepted by the parser: out-of-range facets may be deferred to the compiler
      deferred = False
      if kind == 'out_of_range' and base_bad is False and rb.parse == 1:
        if rb.compile == 1:
          rc = run(vx, parse_only=False)
          if not handle_common(S, rc, vx, 'schema-doc/violation:' + kind, info) and rc.compile == 0:
            deferred = True
            verdict = 'rejected-by-compiler'
        else:
          deferred = True
          verdict = 'inconclusive-base-does-not-compile'
      # (the detail of a value-level violation is "<attr>=<text> (<how>)": the attribute name is its first token)
      cr_attr = re.split(r'[=: ]', str(info.get('detail') or site.detail or ''))[0]
      custom_read = (kind in ('non_numeric', 'too_many', 'too_few') and cr_attr in site.ctx.attr and
                     site.ctx.attr[cr_attr].facets.get('reading') == 'custom')
      if not deferred and custom_read:
        # attributes declared reading=custom have hand-written read semantics by the schema's own definition ("no typed
        # binding is generated"): whether and when their text is parsed is the reader's rule, not a schema rule (e.g.
        # mesh.params is only read when builtin= is present).  Acceptance is counted, not judged; crashes still are.
        verdict = 'accepted-custom-reading(not-judged)'
      elif not deferred:
        verdict = 'ACCEPTED'
        if alias and kind in SCHEMA_CHECK_KINDS:
          fp = 'schema-check-skipped:%s-%s' % ('frame-replicate-element' if alias == 'self' else 'inside-frame-replicate',
                                                 'attrs' if kind == 'unknown_attr' or kind in ('exclusive', 'together', 'oneof', 'requires') else 'children')
        else:
          d = info['detail'] or ''
          attr = re.split(r'[=: ]', str(d))[0]
          if kind in ('exclusive', 'together', 'requires', 'oneof', 'variant'):
            attr = re.sub(r'[^A-Za-z0-9_]+', '_', str(d))[:40]
          fp = 'accepted:%s:%s.%s' % (kind, site.ctx.elemkey(), attr)
        rep = vdoc
        if ck.known(fp) is None and fp not in S.findings and S.minimized < ck.budget(3, 12):
          S.minimized += 1
          d2, memo2 = vdoc.clone()
          keep = memo2[id(vnode)]

          def pred2(x):
            r = fast.run(x, parse_only=True)
            return (not r.died) and r.parse == 1
          rep = minimize(d2, keep, pred2)
        S.finding(fp, 'document with one schema violation (%s at %s: %s) was accepted by mj_parseXMLString' % (
            kind, info['path'], info['detail']), dict(xml=show(rep.render()), violation=info, base_accepted=rb.parse == 1))
    per_kind[kind][verdict] += 1
    labels.append('b:' + verdict)
    nt = info['depth'] >= 2 and base_bad is False and rb.parse == 1
    if info['depth'] >= 2:
      stats['depth_ge2'] += 1
    sample = dict(kind=kind, element=info['element'], path=info['path'], detail=info['detail'], depth=info['depth'],
                  verdict=verdict, message=rv.perr[:160], xml=vx[:700]) if nt else None
    ck.case(nontrivial=nt, key=vx, sample=sample, labels=labels)
    return verdict

  n = len(plan) if ck.quick else len(plan)
  n = max(1, int(n * float(os.environ.get('VERIF_SCALE', '1'))))
  ck.run_hypothesis(test, st.integers(0, 2 ** 32 - 1), n, name='schema-docs', shrink=False)
  fast.stop()
  slow.stop()
  stats['t_total_s'] = round(time.time() - t_b, 1)
  stats['t_asan_s'] = round(t_asan[0], 1)
  stats['t_rel_crash_s'] = round(t_crash[0], 1)
  ck.extra['schema_docs'] = dict(stats)
  ck.extra['per_kind'] = {k: dict(v) for k, v in per_kind.items() if v}
  ck.extra['worker_starts'] = dict(rel=fast.starts, asan=slow.starts)
  acc = ck.labels.get('b:conf:accepted', 0)
  if stats['base_docs'] >= 50 and acc < 0.3 * stats['base_docs']:
    raise RuntimeError('C37 generator health: only %d of %d conforming documents get past the reader' % (acc, stats['base_docs']))
  reached = [k for k in gs.KINDS if g.sites[k] and per_kind[k]['tried'] == 0]
  if reached:
    raise RuntimeError('C37: violation kinds never exercised: %s' % reached)


def part_a_collect(ck, S, slots, exe_fuzz):
  tot, hashes, per = read_fuzz_stats()
  execs = tot.get('execs', 0)
  ck.extra['fuzz'] = dict(tot)
  ck.extra['fuzz']['per_build'] = per
  ck.extra['fuzz']['distinct_inputs_reaching_reader'] = len(hashes)
  ck.extra['fuzz']['processes'] = sum(len(s.runs) for s in slots)
  ck.extra['fuzz']['corpus_files'] = len(os.listdir(os.path.join(WD, 'corpus')))
  ck.extra['fuzz']['slots'] = ['asan+coverage' if s.asan else 'rel-blind' for s in slots]
  ck.evaluations += execs
  ck.nontrivial.update('fz' + h.hex() for h in hashes)
  ck.labels['a:execs'] += execs
  ck.labels['a:reached-mjcf'] += tot.get('reached_mjcf', 0)
  ck.labels['a:reached-urdf'] += tot.get('reached_urdf', 0)
  ck.labels['a:parsed'] += tot.get('parsed', 0)
  ck.labels['a:compiled'] += tot.get('compiled', 0)
  ck.labels['a:schema-rejected'] += tot.get('schema_rejected', 0)
  # a few corpus samples that reach the reader
  ns = 0
  for f in sorted(glob.glob(os.path.join(WD, 'corpus', '*')))[:400]:
    data = open(f, 'rb').read()
    if re.search(rb'<\s*(mujoco|robot)', data[:400], re.I) and ns < 2 and len(ck.samples) < ck.max_samples + 2:
      ck.samples.append(dict(fuzz_corpus_unit=show(data, 60)))
      ns += 1
  # escapes recorded by the target
  seen = {}
  for lf in glob.glob(os.path.join(WD, 'escapes', 'log.*.txt')):
    for line in open(lf, errors='replace'):
      f = line.rstrip('\n').split('\t')
      if len(f) < 6:
        continue
      kh, ih = f[0], f[1]
      esc = tuple(unesc(x) for x in f[2:6])
      fp = escape_fp(esc)
      if fp in seen:
        continue
      seen[fp] = True
      path = os.path.join(WD, 'escapes', '%s_%s.xml' % (kh, ih))
      data = open(path, 'rb').read() if os.path.exists(path) else b''
      r = Res()
      r.escapes = [esc]
      handle_common(S, r, data, 'fuzz')
  # terminations of fuzzer processes
  nterm = collections.Counter()
  rerun = [None]
  for s in slots:
    for it, rc, log in s.runs:
      text = open(log, errors='replace').read()
      if rc == 0 and 'ERROR:' not in text:
        nterm['finished'] += 1
        continue
      c = classify_report(text)
      arts = sorted(a for a in glob.glob('%s/s%d_%d_*' % (os.path.join(WD, 'artifacts'), s.slot, it)) if 'slow-unit' not in a)
      data = open(arts[0], 'rb').read() if arts else b''
      if not s.asan and c['where'] not in ('inconclusive',) and c['kind'] != 'oracle' and arts:
        # blind (rel) fuzzer: no sanitizer report; the artifact is re-run under ASan
        if rerun[0] is None:
          rerun[0] = Worker(exe_fuzz, True, WD, spares=0)
        r2 = rerun[0].run(data, load=True, timeout=200)
        nterm['rel-crash-rerun'] += 1
        if handle_common(S, r2, data, 'fuzz/rel') is False:
          S.finding('rel-crash-unreproduced:fuzz', 'the rel build died under the fuzzer on an input that the ASan build handles: %s' % text[-400:],
                    dict(origin='fuzz/rel', xml=show(data), artifact=arts[:1]))
        continue
      if c['where'] == 'inconclusive':
        S.inconclusive[c['kind']] += 1
        nterm[c['kind']] += 1
        continue
      if c['where'] in ('shim', 'harness'):
        raise RuntimeError('C37 harness error: fuzz crash with innermost frame in %s (%s)\nframes=%s\nartifact=%s\n%s' % (
            c['where'], c['summary'], c['frames'][:6], arts[:1], text[-3000:]))
      if c['where'] == 'none':
        if rc == 0:
          nterm['finished'] += 1
          continue
        raise RuntimeError('C37: fuzzer process ended with rc=%s and no classifiable report (log %s)\n%s' % (rc, log, text[-2500:]))
      nterm['crash'] += 1
      if len(data) > 65536 and c['kind'] == 'stack-overflow':
        S.inconclusive['stack-overflow-large-input'] += 1
        continue
      if ck.known(c['fingerprint']) is None and c.get('fingerprint3') and ck.known(c['fingerprint3']) is not None:
        c['fingerprint'] = c['fingerprint3']
      S.finding(c['fingerprint'], 'loader crashed under the fuzzer: %s' % c['summary'],
                dict(origin='fuzz', xml=show(data), artifact=arts[:1], frames=c['frames'][:8], report=c['text'][c['text'].find('ERROR:'):][:4000]))
  if rerun[0] is not None:
    rerun[0].stop()
  ck.extra['fuzz']['process_endings'] = dict(nterm)
  # (the machine is shared and the ASan build is slow: the thresholds only catch a fuzzer that did not run at all)
  if execs < 10:
    raise RuntimeError('C37: fuzzers executed only %d inputs' % execs)
  if len(hashes) < 3:
    raise RuntimeError('C37: only %d fuzz inputs reached the reader' % len(hashes))


def regressions(ck):
  """Re-run the committed minimal reproducers (replays/C37). A reproducer whose defect is still present reports through
  ck.violation with the fingerprint of the finding (-> KNOWN-FINDING when listed); a repaired one simply passes."""
  d = os.path.join(vb.VERIF, 'replays', 'C37')
  idxf = os.path.join(d, 'index.json')
  if not os.path.exists(idxf):
    return
  os.makedirs(WD, exist_ok=True)
  S = Ctx37(ck)
  exe_fuzz = vb.build_exe('fuzz_xml', [SRC], variant='fuzz', extra_ldflags=['-fsanitize=fuzzer', '-rdynamic'])
  exe_rel = vb.build_exe('c37_worker', [SRC], variant='rel', extra_cflags=['-DVF_PLAIN_MAIN', '-g'], extra_ldflags=['-rdynamic'])
  w = Worker(exe_fuzz, True, WD, spares=1)
  wr = Worker(exe_rel, False, WD, spares=1)
  res = collections.Counter()
  try:
    for e in json.load(open(idxf))['replays']:
      data = open(os.path.join(d, e['file']), 'rb').read()
      if e['expect'] == 'crash':
        r = w.run(data, load=True, timeout=120)       # memory errors need the ASan build
      else:
        r = wr.run(data, load=True, timeout=30)
        if r.died:
          r = w.run(data, load=True, timeout=120)
      origin = 'regression:' + e['file']
      before = sum(S.findings.values())
      if handle_common(S, r, data, origin):
        pass
      elif e['expect'].startswith('must_reject'):
        rejected = r.parse == 0 or (e['expect'].endswith('fail_compile') and r.compile == 0)
        if not rejected:
          S.finding(e['fingerprint_when_found'], 'document with a schema violation is accepted (%s)' % origin, dict(xml=show(data)))
      elif e['expect'] == 'conforming' and r.parse == 0 and layer_of(r.perr) != 'semantic':
        msg, el = norm_msg(r.perr)
        S.finding('conforming-rejected:%s@%s' % (re.sub(r'\d+', 'N', msg)[:90], el),
                  'schema-conforming document rejected with a schema/type-layer message: %r (%s)' % (r.perr[:300], origin),
                  dict(xml=show(data), message=r.perr))
      res['still-present' if sum(S.findings.values()) > before else 'passes'] += 1
      ck.label('regression:' + ('still-present' if sum(S.findings.values()) > before else 'passes'))
  finally:
    w.stop()
    wr.stop()
  ck.extra['regressions'] = dict(res)


def replay(ck, body):
  """Re-run the document of a replay file on both workers and print what happens."""
  os.makedirs(WD, exist_ok=True)
  case = body.get('case', {})
  x = case.get('xml', {})
  data = x.get('text').encode() if 'text' in x else bytes.fromhex(x.get('hex', ''))
  exe_fuzz = vb.build_exe('fuzz_xml', [SRC], variant='fuzz', extra_ldflags=['-fsanitize=fuzzer', '-rdynamic'])
  w = Worker(exe_fuzz, True, WD)
  r = w.run(data, load=True, timeout=120)
  w.stop()
  print(json.dumps(r.brief(), indent=1))
  S = Ctx37(ck)
  handle_common(S, r, data, 'replay')
  ck.case(nontrivial=True, key=data.hex())


LEVEL = 'exploration'
TECHNIQUE = ('coverage-guided fuzzing (libFuzzer + ASan on mj_parseXMLString/mj_compile/mj_saveXMLString/mj_loadXML with an in-target oracle) '
             '+ grammar-based generation from src/xml/mjcf.schema: conforming documents and enumerated single-violation documents, '
             'judged through a supervised native worker')
LEVEL_TEXT = '''(a) libFuzzer mutates seeds generated at run time (modelgen, schema documents, small shipped models, URDF, meta elements)
with a dictionary extracted from mjcf.schema: half of the processes use the ASan + coverage build (guided), half the
uninstrumented rel library (blind, ~100x more executions; crashes re-run under ASan). The target checks "spec/model or NULL +
message", handler restoration and mj_loadXML == parse+compile, and records mju_error calls that reach the global handler and C++
exceptions that leave the C API.
(b) through a supervised native worker: (b0) every element context of the schema as a minimal instance and with every optional
attribute added alone (differential schema vs typed reader); (b1) hostile attribute values (format strings, huge/negative
numbers, long lists) on accepted instances, crash/escape oracle only, sampled under ASan; (b2) for every violation site of the
schema (unknown attribute/child, duplicated ? child, bad enum/bool keyword, required attribute missing, presence constraints
exclusive/together/oneof/variant, out-of-range facets: enumerated; arity and non-numeric tokens: sampled) a conforming base
document and the same document with exactly that violation: the violation must be rejected, the base must not be rejected with a
schema/type-layer phrase. Sampled in the document dimension, enumerated in the site dimension for the small kinds.
Committed reproducers of reported findings (replays/C37) are re-run first.'''
LEVEL_NOTE = '''Trusted: the verification build, the tinyxml2-on-expat shim (lexical XML edge cases are not judged), the tree's own
schema-language parser (doc/generate/mjcf_schema.py). No `requires` constraint and no `!` child exist in this schema, so these
two kinds have no sites. Time-outs/OOM are inconclusive. UBSan is not part of the fuzz variant.'''
