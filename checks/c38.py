"""C38 - The asset cache behaves as a bounded priority cache.

Domain : operation lists over the tree's mjCCache (C++ class, driven through the C ABI wrapper native/C38/cache_wrap.cc
         that is compiled against the headers of the tree under test): insert(model in 3, id in 5, size 0..64, timestamp
         in 3), populate(id, timestamp, with/without a resource provider), has(id), deleteAsset, removeModel,
         reset(model), reset(), setCapacity(0..200).  One list = one history on a fresh cache; interpreted against the
         real object and the reference model in one test function.  Second part: the same operation mix from 4 real
         threads on one cache (native driver), invariants checked at quiescence; in the thorough tier also under TSan.
Oracle : Python reference model written from the comments in user_cache.h: Size() == sum of the sizes of held assets
         <= Capacity() after every operation; HasAsset <=> held, with the stored timestamp; PopulateData succeeds iff the
         asset is held and the resource is unmodified w.r.t. the stored timestamp, then hands out exactly the data of the
         insert that last updated the asset ("updated only if the timestamps disagree"); SetCapacity drops assets in
         ascending (access count, insertion number) order until the size fits; RemoveModel deletes exactly the assets
         referenced by no other model; Reset(model) wipes every asset of the model; Reset() wipes everything.  Data
         blobs are reference counted by the wrapper: live blobs == held assets after every operation (no leak, no
         premature free), and blob bytes are verified on every lookup.
Non-trivial : the history contains an eviction (SetCapacity dropped >= 1 asset) and an asset shared by two models.
"""
import ctypes as C
import hashlib
import os
import subprocess

from hypothesis import strategies as st

from vf import build as vb
from vf.runner import Violation

MODELS = ['m0', 'm1', 'm2']
IDS = ['id0', 'id1', 'id2', 'id3', 'id4']
STAMPS = ['t0', 't1', 't2']


# ---------------------------------------------------------------- native wrapper

def build_wrapper(lib, variant='rel'):
  src = os.path.join(vb.NATIVE, 'C38', 'cache_wrap.cc')
  v = vb.VARIANTS[variant]
  key = hashlib.sha256((open(src).read() + vb.header_digest(vb.REPO) + lib.path + variant).encode()).hexdigest()[:16]
  outdir = os.path.join(vb.CACHE, 'native')
  os.makedirs(outdir, exist_ok=True)
  out = os.path.join(outdir, 'c38_cache_wrap_%s_%s.so' % (variant, key))
  if not os.path.exists(out):
    tmp = out + '.tmp%d' % os.getpid()
    cmd = [vb.CLANGXX, '-std=c++20'] + vb.COMMON_DEFS + v['cflags'] + vb.includes(vb.REPO) + [
        '-shared', '-o', tmp, src, lib.path, '-Wl,-rpath,' + os.path.dirname(lib.path), '-lpthread']
    p = subprocess.run(cmd, capture_output=True, text=True)
    if p.returncode:
      raise vb.BuildError('cache_wrap.cc failed to build:\n' + p.stderr[-3000:])
    os.replace(tmp, out)
  w = C.CDLL(out, mode=C.RTLD_GLOBAL)
  w.vfc_new.restype = C.c_void_p
  w.vfc_new.argtypes = [C.c_size_t]
  w.vfc_delete.argtypes = [C.c_void_p]
  w.vfc_live.restype = C.c_long
  w.vfc_size.restype = C.c_size_t
  w.vfc_size.argtypes = [C.c_void_p]
  w.vfc_capacity.restype = C.c_size_t
  w.vfc_capacity.argtypes = [C.c_void_p]
  w.vfc_set_capacity.argtypes = [C.c_void_p, C.c_size_t]
  w.vfc_insert.argtypes = [C.c_void_p, C.c_char_p, C.c_char_p, C.c_char_p, C.c_uint64, C.c_size_t]
  w.vfc_populate.argtypes = [C.c_void_p, C.c_char_p, C.c_char_p, C.c_int, C.c_void_p, C.c_void_p, C.c_void_p, C.c_void_p]
  w.vfc_has.argtypes = [C.c_void_p, C.c_char_p, C.c_char_p, C.c_size_t]
  for n in ('vfc_delete_asset', 'vfc_remove_model', 'vfc_reset_model'):
    getattr(w, n).argtypes = [C.c_void_p, C.c_char_p]
  w.vfc_reset.argtypes = [C.c_void_p]
  w.vfc_stress.restype = C.c_long
  w.vfc_stress.argtypes = [C.c_void_p, C.c_uint64, C.c_int, C.c_int, C.c_int, C.c_int, C.c_void_p, C.c_int, C.c_size_t,
                           C.c_size_t]
  return w


# ---------------------------------------------------------------- reference model (from the header comments)

class Asset:
  __slots__ = ('ts', 'size', 'tag', 'ins', 'acc', 'refs')

  def __init__(self, ts, size, tag, ins, model):
    self.ts, self.size, self.tag, self.ins, self.acc, self.refs = ts, size, tag, ins, 0, {model}


class Model:
  def __init__(self, capacity):
    self.cap = capacity
    self.assets = {}      # id -> Asset
    self.counter = 0      # running insertion number

  def size(self):
    return sum(a.size for a in self.assets.values())

  def trim(self):
    """low-priority assets are dropped until the memory requirement is met; priority = (access count, insert number)"""
    dropped = []
    order = sorted(self.assets, key=lambda i: (self.assets[i].acc, self.assets[i].ins))
    for i in order:
      if self.size() <= self.cap:
        break
      del self.assets[i]
      dropped.append(i)
    return dropped


def ops_strategy(maxops):
  mo = st.sampled_from(MODELS)
  idd = st.sampled_from(IDS)
  ts = st.sampled_from(STAMPS)
  size = st.one_of(st.integers(0, 64), st.sampled_from([0, 1, 16, 64]))
  op = st.one_of(
      st.tuples(st.just('insert'), mo, idd, size, ts),
      st.tuples(st.just('insert'), mo, idd, size, ts),
      st.tuples(st.just('insert'), mo, idd, size, ts),
      st.tuples(st.just('populate'), idd, ts, st.integers(0, 7).map(lambda k: int(k != 0))),
      st.tuples(st.just('populate'), idd, ts, st.just(1)),
      st.tuples(st.just('hit'), st.integers(0, 4)),       # lookup of the k-th held asset with its stored timestamp
      st.tuples(st.just('hit'), st.integers(0, 4)),
      st.tuples(st.just('shrink'), st.integers(1, 3)),    # capacity := current size * q/4 (forces a partial eviction)
      st.tuples(st.just('has'), idd),
      st.tuples(st.just('delete'), idd),
      st.tuples(st.just('remove_model'), mo),
      st.integers(0, 3).flatmap(lambda k: st.tuples(st.just('reset_model'), mo) if k == 0 else
                                st.tuples(st.just('remove_model'), mo)),
      st.integers(0, 7).flatmap(lambda k: st.tuples(st.just('reset_all')) if k == 0 else st.tuples(st.just('has'), idd)),
      st.tuples(st.just('capacity'), st.one_of(st.integers(0, 200), st.sampled_from([0, 40, 64, 100, 200]))),
  )
  body = st.integers(1, maxops).flatmap(lambda n: st.lists(op, min_size=n, max_size=n))
  return st.tuples(st.sampled_from([64, 100, 150, 200]), body)


def main(ck):
  lib = ck.lib('rel')
  w = build_wrapper(lib)
  obs = ck.extra.setdefault('observations', {})

  def note(k):
    obs[k] = obs.get(k, 0) + 1

  ck.rule = ('histories of insert/populate/has/delete/removeModel/reset/setCapacity over 3 models x 5 ids x 3 timestamps, '
             'sizes 0..64, capacities 0..200, on a fresh mjCCache; non-trivial = history contains an eviction by '
             'SetCapacity and an asset referenced by two models; distinct by (initial capacity, op list)')
  ck.assumptions = [
      'a resource is "unmodified" when its timestamp string equals the stored one (provider callback of the wrapper); a '
      'resource without provider counts as modified (mju_isModifiedResource default)',
      'an Insert of a new asset that does not fit is rejected without evicting (upstream tests Limit3/Limit4); eviction '
      'happens only in SetCapacity',
      'a data update by re-insert keeps the asset\'s insertion number and access count (header: "number when asset was '
      'inserted")',
      'unspecified by the header, therefore only observed: result of re-inserting an existing asset with the SAME '
      'timestamp and a size that would not fit (the model follows the real return value, size accounting is still checked)']

  def check_state(c, m, what):
    sz, cap = w.vfc_size(c), w.vfc_capacity(c)
    if cap != m.cap:
      raise Violation('%s: Capacity()=%d, model %d' % (what, cap, m.cap), bucket='capacity')
    if sz != m.size():
      raise Violation('%s: Size()=%d but held assets sum to %d (%s)' % (
          what, sz, m.size(), {i: a.size for i, a in m.assets.items()}), bucket='size-accounting')
    if sz > cap:
      raise Violation('%s: Size()=%d exceeds Capacity()=%d' % (what, sz, cap), bucket='over-capacity')
    buf = C.create_string_buffer(64)
    for i in IDS:
      h = w.vfc_has(c, i.encode(), buf, 64)
      if bool(h) != (i in m.assets):
        raise Violation('%s: HasAsset(%s)=%d, model says %s' % (what, i, h, i in m.assets), bucket='membership')
      if h and buf.value.decode() != m.assets[i].ts:
        raise Violation('%s: HasAsset(%s) timestamp %r, model %r' % (what, i, buf.value.decode(), m.assets[i].ts),
                        bucket='timestamp')

  def run(case):
    cap0, ops = case
    live0 = w.vfc_live()
    c = w.vfc_new(cap0)
    m = Model(cap0)
    tagc = 0
    labels = set()
    evicted = shared = False
    try:
      for k, op in enumerate(ops):
        kind = op[0]
        what = 'op %d %r' % (k, op)
        if kind == 'hit':            # model-directed lookup: resolves to a populate of a held asset
          if not m.assets:
            continue
          i = sorted(m.assets)[op[1] % len(m.assets)]
          op = ('populate', i, m.assets[i].ts, 1)
          kind = 'populate'
        elif kind == 'shrink':
          op = ('capacity', m.size() * op[1] // 4)
          kind = 'capacity'
        if kind == 'insert':
          _, mo, i, size, ts = op
          tagc += 1
          r = w.vfc_insert(c, mo.encode(), i.encode(), ts.encode(), tagc, size)
          a = m.assets.get(i)
          if a is None:
            fits = m.size() + size <= m.cap
            if bool(r) != fits:
              raise Violation('%s: Insert of a new asset returned %d, size %d + %d vs capacity %d' % (
                  what, r, m.size(), size, m.cap), bucket='insert-new')
            if r:
              m.assets[i] = Asset(ts, size, tagc, m.counter, mo)
              m.counter += 1
            labels.add('insert:new' if r else 'insert:new-rejected')
          else:
            fits = m.size() - a.size + size <= m.cap
            if a.ts == ts:
              # data must not be updated; return value unspecified when the (unused) new size would not fit
              if fits and not r:
                raise Violation('%s: re-insert with equal timestamp returned false although it fits' % what,
                                bucket='insert-same-ts')
              if not fits:
                note('re-insert, same timestamp, size would not fit -> returned %d' % r)
              if r:
                a.refs.add(mo)
              labels.add('insert:same-ts')
            else:
              if bool(r) != fits:
                raise Violation('%s: replacing insert returned %d, size %d - %d + %d vs capacity %d' % (
                    what, r, m.size(), a.size, size, m.cap), bucket='insert-replace')
              if r:
                a.ts, a.size, a.tag = ts, size, tagc
                a.refs.add(mo)
              labels.add('insert:replace' if r else 'insert:replace-rejected')
            if len(a.refs) >= 2:
              shared = True
              labels.add('shared-asset')
        elif kind == 'populate':
          _, i, ts, prov = op
          tag, size, ok, ncalls = C.c_uint64(), C.c_size_t(), C.c_int(), C.c_int()
          r = w.vfc_populate(c, i.encode(), ts.encode(), prov, C.byref(tag), C.byref(size), C.byref(ok), C.byref(ncalls))
          a = m.assets.get(i)
          want = a is not None and prov and a.ts == ts
          if bool(r) != bool(want):
            raise Violation('%s: PopulateData returned %d, model expects %s (held=%s stored ts=%s)' % (
                what, r, want, a is not None, a.ts if a else None), bucket='populate-result')
          if want:
            if ncalls.value != 1 or not ok.value or tag.value != a.tag or size.value != a.size:
              raise Violation('%s: PopulateData handed out blob tag=%d size=%d intact=%d calls=%d, expected tag=%d '
                              'size=%d (data of the last updating insert)' % (
                                  what, tag.value, size.value, ok.value, ncalls.value, a.tag, a.size),
                              bucket='populate-data')
            a.acc += 1
            labels.add('populate:hit')
          else:
            if ncalls.value:
              raise Violation('%s: callback invoked although lookup must fail' % what, bucket='populate-result')
            labels.add('populate:miss' if a is None else 'populate:modified' if prov else 'populate:no-provider')
        elif kind == 'has':
          pass   # membership of every id is checked after each op
        elif kind == 'delete':
          w.vfc_delete_asset(c, op[1].encode())
          if m.assets.pop(op[1], None) is not None:
            labels.add('delete:held')
        elif kind == 'remove_model':
          mo = op[1]
          w.vfc_remove_model(c, mo.encode())
          for i in list(m.assets):
            a = m.assets[i]
            if mo in a.refs:
              a.refs.discard(mo)
              if not a.refs:
                del m.assets[i]
                labels.add('removeModel:deletes')
              else:
                labels.add('removeModel:shared-survives')
        elif kind == 'reset_model':
          mo = op[1]
          w.vfc_reset_model(c, mo.encode())
          for i in list(m.assets):
            if mo in m.assets[i].refs:
              labels.add('resetModel:deletes' + (':shared' if len(m.assets[i].refs) > 1 else ''))
              del m.assets[i]
        elif kind == 'reset_all':
          w.vfc_reset(c)
          m.assets.clear()
          m.counter = 0
          labels.add('reset')
        elif kind == 'capacity':
          m.cap = op[1]
          w.vfc_set_capacity(c, op[1])
          dropped = m.trim()
          if dropped:
            evicted = True
            labels.add('evict:%d' % min(len(dropped), 3))
            if m.assets:
              labels.add('evict:partial')
        check_state(c, m, what)
        live = w.vfc_live() - live0
        if live != len(m.assets):
          raise Violation('%s: %d data blobs alive but %d assets held (leak or premature free)' % (
              what, live, len(m.assets)), bucket='blob-lifetime')
      # closing sweep: every held asset hands out its data
      for i, a in m.assets.items():
        tag, size, ok, ncalls = C.c_uint64(), C.c_size_t(), C.c_int(), C.c_int()
        r = w.vfc_populate(c, i.encode(), a.ts.encode(), 1, C.byref(tag), C.byref(size), C.byref(ok), C.byref(ncalls))
        if not r or tag.value != a.tag or size.value != a.size or not ok.value:
          raise Violation('final: asset %s hands out tag=%d size=%d intact=%d (r=%d), expected tag=%d size=%d' % (
              i, tag.value, size.value, ok.value, r, a.tag, a.size), bucket='populate-data')
    finally:
      w.vfc_delete(c)
    if w.vfc_live() != live0:
      raise Violation('%d data blobs still alive after the cache was destroyed' % (w.vfc_live() - live0),
                      bucket='blob-lifetime')
    return evicted, shared, labels

  def test(case):
    evicted, shared, labels = run(case)
    nt = evicted and shared
    ck.case(nontrivial=nt, key=case, sample=dict(capacity0=case[0], ops=case[1]),
            labels=sorted(labels) + (['nt:evict+shared'] if nt else []))

  ck.run_hypothesis(test, ops_strategy(ck.budget(40, 80)), ck.budget(1500, 40000), name='cache-history')

  # ---- concurrent histories: 4 real threads, invariants at quiescence (sizes are a function of the id so that the
  # expected Size() can be recomputed from HasAsset alone)
  id_size = (C.c_size_t * len(IDS))(5, 0, 17, 64, 33)

  def stress(case):
    seed, capchg, cap0 = case
    live0 = w.vfc_live()
    c = w.vfc_new(cap0)
    try:
      bad = w.vfc_stress(c, seed, 4, 400, len(MODELS), len(IDS), id_size, capchg, 0, 150)
      if bad:
        raise Violation('concurrent: %d lookups handed out a blob of another id / damaged bytes' % bad,
                        bucket='concurrent-data')
      held = [k for k, i in enumerate(IDS) if w.vfc_has(c, i.encode(), None, 0)]
      want = sum(id_size[k] for k in held)
      sz, cap = w.vfc_size(c), w.vfc_capacity(c)
      if sz != want or sz > cap:
        raise Violation('concurrent: at quiescence Size()=%d, held assets %s sum to %d, capacity %d' % (
            sz, [IDS[k] for k in held], want, cap), bucket='concurrent-size')
      if w.vfc_live() - live0 != len(held):
        raise Violation('concurrent: %d blobs alive, %d assets held' % (w.vfc_live() - live0, len(held)),
                        bucket='concurrent-lifetime')
      w.vfc_reset(c)
      if w.vfc_size(c) != 0 or w.vfc_live() != live0:
        raise Violation('concurrent: Reset() left size %d, %d blobs' % (w.vfc_size(c), w.vfc_live() - live0),
                        bucket='concurrent-lifetime')
    finally:
      w.vfc_delete(c)
    ck.label('concurrent:4threads' + (':capchg' if capchg else ''))
    ck.evaluations += 1

  ck.run_hypothesis(stress, st.tuples(st.integers(1, 2 ** 40), st.integers(0, 1), st.sampled_from([60, 100, 150])),
                    ck.budget(150, 3000), name='cache-concurrent', shrink=False)

  # ---- the same concurrent histories under ThreadSanitizer (native driver linked against the tsan build of the tree).
  # Building the tsan variant of a tree takes minutes, so this part runs in the thorough tier (or with VERIF_C38_TSAN=1).
  if not ck.quick or os.environ.get('VERIF_C38_TSAN') == '1':
    src = os.path.join(vb.NATIVE, 'C38', 'cache_tsan_main.cc')
    exe = vb.build_exe('c38_cache_tsan', [src], variant='tsan', extra_cflags=['-I' + os.path.join(vb.NATIVE, 'C38')])
    env = dict(os.environ, TSAN_OPTIONS='halt_on_error=0 exitcode=66 report_signal_unsafe=0')
    rounds = ck.budget(40, 400)
    p = subprocess.run([exe, str(ck.seed), str(rounds), '4', '300'], capture_output=True, text=True, env=env, timeout=1500)
    ok_rounds = p.stdout.count(' OK ')
    ck.extra['tsan'] = dict(rounds=rounds, ok_rounds=ok_rounds, returncode=p.returncode)
    ck.evaluations += ok_rounds
    ck.label('tsan:rounds-ok')
    if 'ThreadSanitizer' in p.stderr:
      rep = p.stderr[p.stderr.index('WARNING: ThreadSanitizer') if 'WARNING: ThreadSanitizer' in p.stderr else 0:][:3000]
      ck.violation('ThreadSanitizer report while 4 threads use one mjCCache:\n' + rep,
                   dict(cmd=[exe, str(ck.seed), str(rounds), '4', '300']), bucket='tsan-race')
    elif p.returncode != 0 or ' BAD ' in p.stdout:
      bad = [l for l in p.stdout.split('\n') if ' BAD ' in l][:3]
      ck.violation('concurrent mjCCache driver (tsan build): rc=%d %s %s' % (p.returncode, bad, p.stderr[-500:]),
                   dict(cmd=[exe, str(ck.seed), str(rounds), '4', '300']), bucket='concurrent-size')



def replay(ck, body):
  """./verif <ID> --replay <violation file>: run exactly the recorded case through the same test function."""
  from vf import mj
  rec = body.get('case') or {}
  if 'case' not in rec or 'check' not in rec:
    raise NotImplementedError('replay file carries no generated case (bucket %s)' % body.get('bucket'))

  def run_one(test, strategy, max_examples, name='main', **kw):
    if name != rec['check']:
      return True
    try:
      test(rec['case'])
      return True
    except (Violation, AssertionError, mj.MjError) as e:
      ck.violation('%s: %s' % (type(e).__name__, e), rec, bucket=getattr(e, 'bucket', None) or name)
      return False
  ck.run_hypothesis = run_one
  main(ck)


LEVEL = 'exploration'
TECHNIQUE = ('model-based property testing: Hypothesis-generated operation histories interpreted against the tree\'s '
             'mjCCache (through a C ABI wrapper) and a Python reference model; plus a 4-thread native stress driver with '
             'invariants at quiescence')
LEVEL_TEXT = '''Generated histories of inserts, lookups, deletions, model removals, resets and capacity changes are run against
the tree's mjCCache and against a reference model written from the header comments. After every operation the reported size,
capacity, membership and timestamp of every id, the identity and integrity of looked-up data and the number of live data blobs
are compared; eviction order on SetCapacity is compared with (access count, insertion number). A second part applies the same
operation mix from 4 real threads and checks size accounting, data identity and blob lifetime at quiescence.'''
LEVEL_NOTE = '''Sampled histories, not exhaustive. Concurrent part: quick tier on the uninstrumented build (detects corrupted
accounting, wrong data or crashes); thorough tier additionally under ThreadSanitizer (native driver native/C38/cache_tsan_main.cc
against the tsan build; detects data races in the schedules the OS happens to produce - no schedule control). HasAsset returns
a pointer into the cache that another thread may invalidate; the concurrent drivers therefore never dereference it. Behaviour the
header leaves open (same-timestamp re-insert whose new size would not fit) is recorded as an observation and only checked for
internal consistency. The global cache used by the compiler (mj_getCache) is exercised only through the class. Trusted: the
wrapper native/C38/cache_wrap.cc, ctypes, the verification build.'''
