"""C39 - Virtual file system operations have set semantics.

Domain : operation lists (add buffer / add file / delete / contains / open+read+close / held handles / delete+re-create
         the whole VFS) over a small name alphabet with names that differ only in case, in path separator, or by '.'/'..'
         components, and payloads of 0 bytes .. 1 MB (with NULs).  The list is interpreted against the real mjVFS
         (public C API) and against a Python dict model in one test function.
Oracle : dict model keyed by the documented normalised path (user_util.h FilePath: separators unified, '.' dropped,
         'x/..' reduced; buffers are case sensitive - test/user/user_vfs_test.cc ContainsBuffer), files added with
         mj_addFileVFS keyed by the stripped, lower-cased file name (user_vfs.h ContainsFile / legacy note in
         user_vfs.cc).  add of a present key -> 2 and contents unchanged; delete of an absent key -> -1; contains <=>
         key present; reading a present key returns exactly its bytes; a successful read of an ABSENT name is never
         asserted to fail (documented legacy fallback: case-insensitive basename match, directory mounts, then the disk)
         but whatever it returns must be the bytes of one of those candidates (no invented bytes).
Non-trivial : the history contains an add-delete-add of one key, or successful/attempted adds through two different
         spellings that normalise to the same key.
"""
import ctypes as C
import os
import shutil
import subprocess

from hypothesis import strategies as st

from vf import build as vb
from vf.runner import Violation

# ---------------------------------------------------------------- reference model (written from the documentation)


def norm(path):
  """Documented normal form of a VFS path: '/' and '\\' are both separators, '.' components vanish, 'x/..' cancels."""
  prefix = ''
  if path[:1] in ('/', '\\'):
    prefix, path = path[:1], path[1:]
  parts = path.replace('\\', '/').split('/')
  out = []
  for p in parts[:-1]:
    if p == '..' and out and out[-1] != '..':
      out.pop()
    elif p != '.':
      out.append(p)
  out.append(parts[-1])
  return prefix + '/'.join(out)


def join(d, name):
  if not d:
    return name
  if name[:1] in ('/', '\\'):
    return name
  return d + name if d[-1] in '/\\' else d + '/' + name


def filekey(d, name):
  """mj_addFileVFS / mj_containsFileVFS: path stripped, lower case."""
  return norm(join(d, name)).replace('\\', '/').rsplit('/', 1)[-1].lower()


def basekey(path):
  return path.replace('\\', '/').rsplit('/', 1)[-1].lower()


FP_CONTAINS = 'C39:containsBuffer-unnormalised'
FP_ADDFILE = 'C39:addFile-missing-returns-0'

# ---------------------------------------------------------------- alphabet

BUFNAMES = ['a.xml', 'A.xml', 'd/a.xml', 'd\\a.xml', './a.xml', 'd/../a.xml', 'b.bin', 'd/b.bin', 'D/a.xml',
            'd/./b.bin', 'e/../d/a.xml', 'd', 'f.txt', 'x\\y/../a.xml', 'g.bin', 'sub/F.txt']
# names used for delete / contains / read only (never added): exercise the legacy stripped-lower-case fallback
PROBES = BUFNAMES + ['zz/A.XML', 'F.TXT', 'q/f.txt', 'nothere.bin', 'D/B.BIN', 'd/a.xml/..', 'G.BIN']
# (dir kind, file name) for mj_addFileVFS; dir kinds are resolved against the private temp dir
FILES = [('root', 'F.txt'), ('root/', 'F.txt'), ('sub', 'F.txt'), (None, 'ABS/g.bin'), ('', 'ABS/g.bin'),
         ('root', 'A.xml'), ('root', 'sub/../g.bin'), ('root', 'missing.txt'), ('sub', '../F.txt')]
DISK = {'F.txt': b'file F\n', 'sub/F.txt': b'file sub/F (different)\x00\x01', 'g.bin': bytes(range(256)) * 3,
        'A.xml': b'<mujoco model="disk A"/>'}


def payload(k):
  """Deterministic payloads: empty, tiny, with NULs, 1 MB."""
  if k == 0:
    return b''
  if k == 1:
    return b'\x00'
  if k == 2:
    return b'<mujoco/>'
  if k == 3:
    return b'abc\x00def\x00'
  if k == 4:
    return bytes((i * 7 + 3) & 255 for i in range(1000))
  if k == 5:
    return (b'0123456789abcdef' * 65536)[:1 << 20]     # 1 MB
  return ('payload-%d' % k).encode() * (k % 5 + 1)


def ops_strategy(maxops):
  nm = st.sampled_from(BUFNAMES)
  pr = st.sampled_from(PROBES)
  pay = st.integers(0, 12)    # 5 = 1 MB payload: probability 1/13 per add
  fl = st.integers(0, len(FILES) - 1)
  op = st.one_of(
      st.tuples(st.just('addbuf'), nm, pay),
      st.tuples(st.just('addbuf'), nm, pay),
      st.tuples(st.just('addfile'), fl),
      st.tuples(st.just('del'), pr),
      st.tuples(st.just('del'), nm),
      st.tuples(st.just('hasbuf'), pr),
      st.tuples(st.just('hasfile'), st.sampled_from([None, '', 'some/dir/', 'root']), pr),
      st.tuples(st.just('read'), st.sampled_from([None, '', 'd', 'root']), pr),
      st.tuples(st.just('hold'), nm),
      st.tuples(st.just('release'), st.integers(0, 3)),
      st.integers(0, 5).map(lambda k: ('reset',) if k == 0 else ('hasbuf', BUFNAMES[k])),   # reset is rare
  )
  # length drawn first (uniform) so that long histories are as likely as short ones; shrinks towards short lists
  return st.integers(1, maxops).flatmap(lambda n: st.lists(op, min_size=n, max_size=n))


# ---------------------------------------------------------------- driver

def sizeof_vfs(repo):
  """sizeof(mjVFS) evaluated by the compiler on the tree's headers (cached per header digest)."""
  gen = os.path.join(vb.CACHE, 'gen')
  os.makedirs(gen, exist_ok=True)
  path = os.path.join(gen, 'sizeof_mjvfs_%s.txt' % vb.header_digest(repo)[:16])
  if not os.path.exists(path):
    exe = path + '.exe%d' % os.getpid()
    src = '#include <stdio.h>\n#include <mujoco/mujoco.h>\nint main(void){printf("%zu\\n", sizeof(mjVFS));return 0;}\n'
    p = subprocess.run(['clang', '-x', 'c', '-w', '-I' + os.path.join(repo, 'include'), '-o', exe, '-'], input=src,
                       capture_output=True, text=True)
    if p.returncode:
      raise vb.BuildError('sizeof(mjVFS) helper failed: ' + p.stderr[-1000:])
    out = subprocess.run([exe], capture_output=True, text=True).stdout.strip()
    os.unlink(exe)
    with open(path + '.tmp%d' % os.getpid(), 'w') as f:
      f.write(out)
    os.replace(path + '.tmp%d' % os.getpid(), path)
  return int(open(path).read())


class Real:
  """The real mjVFS through the public C API."""

  def __init__(self, lib, nbytes):
    self.lib = lib
    self.mem = C.create_string_buffer(nbytes + 64)   # slack is never touched by a correct tree (checked at the end)
    self.nbytes = nbytes
    C.memset(C.addressof(self.mem) + nbytes, 0xA5, 64)
    self.ptr = C.addressof(self.mem)
    lib.mj_defaultVFS(self.ptr)

  def add_buffer(self, name, data):
    return self.lib.mj_addBufferVFS(self.ptr, name, data, len(data))

  def add_file(self, d, name):
    return self.lib.mj_addFileVFS(self.ptr, d, name)

  def delete(self, name):
    return self.lib.mj_deleteFileVFS(self.ptr, name)

  def has_buffer(self, name):
    return self.lib.mj_containsBufferVFS(self.ptr, name)

  def has_file(self, d, name):
    return self.lib.mj_containsFileVFS(self.ptr, d, name)

  def open(self, d, name):
    err = C.create_string_buffer(300)
    return self.lib.mju_openResource(d, name, self.ptr, C.addressof(err), 300)

  def read(self, res):
    p = C.c_void_p()
    n = self.lib.mju_readResource(res, C.addressof(p))
    if n < 0:
      return n, None
    return n, (C.string_at(p.value, n) if n else b'')

  def close(self, res):
    self.lib.mju_closeResource(res)

  def destroy(self):
    self.lib.mj_deleteVFS(self.ptr)
    if self.mem.raw[self.nbytes:] != b'\xa5' * 64:
      raise Violation('bytes after the mjVFS struct were modified', bucket='struct-overrun')
    if self.mem.raw[:8] != b'\0' * 8:
      raise Violation('mj_deleteVFS left a non-null impl_ pointer', bucket='deleteVFS')


def main(ck):
  lib = ck.lib('rel')
  nvfs = sizeof_vfs(vb.REPO)
  root = os.path.join('/verif/work/C39', 'p%d' % os.getpid())
  shutil.rmtree(root, ignore_errors=True)
  os.makedirs(os.path.join(root, 'sub'))
  for rel, data in DISK.items():
    with open(os.path.join(root, rel), 'wb') as f:
      f.write(data)

  def resolve_dir(kind):
    if kind is None or kind == '':
      return kind
    return {'root': root, 'root/': root + '/', 'sub': root + '/sub', 'some/dir/': 'some/dir/', 'd': 'd'}[kind]

  def resolve_name(n):
    return n.replace('ABS', root)

  obs = ck.extra.setdefault('observations', {})

  def note(k):
    obs[k] = obs.get(k, 0) + 1

  ck.rule = ('operation lists over 16 buffer names (case / separator / dot-component variants of a few keys), 9 file '
             'specs and 23 probe names, interpreted against the real mjVFS and a dict model; non-trivial = history has '
             'add-delete-add of one key or adds through two different spellings of the same key; distinct by op list')
  ck.assumptions = [
      'key normal form as documented by FilePath (user_util.h) and test/user/user_vfs_test.cc: separators unified, "." '
      'and "x/.." reduced, buffers case-sensitive, files keyed by stripped lower-case name',
      'mj_deleteFileVFS falls back to the stripped lower-case (file) key when the exact key is absent (legacy file '
      'semantics); a read of an absent name is only required to return bytes of a documented fallback candidate',
      'main stream: mj_containsBufferVFS is asserted only for names already in normal form, and the return code of '
      'mj_addFileVFS for a missing disk file is followed, not asserted (both counted under observations); the two classes '
      'are exercised by dedicated probes that report through ck.violation with fingerprints %s / %s' % (FP_CONTAINS,
                                                                                                      FP_ADDFILE),
      'resources are closed before their entry is deleted (lifetime of a resource past its mount is undocumented)']

  def run(ops):
    real = Real(lib, nvfs)
    model = {}            # key -> bytes
    held = []             # (resource, key, bytes at open time)
    deleted_once = set()  # keys deleted at least once after having been present
    spellings = {}        # key -> set of names used in add attempts
    labels = set()
    nt_ada = nt_alias = False

    def close_held(key=None):
      for h in list(held):
        if key is None or h[1] == key:
          real.close(h[0])
          held.remove(h)

    def check_read(d, name, what):
      full = norm(join(d, name))
      res = real.open(d, name)
      if full in model:
        if not res:
          raise Violation('%s: open(%r, %r) failed but key %r is present' % (what, d, name, full), bucket='read-present')
        n, data = real.read(res)
        real.close(res)
        if n != len(model[full]) or data != model[full]:
          raise Violation('%s: read of present key %r returned %d bytes, expected %d; content %s' % (
              what, full, n, len(model[full]), 'differs' if n == len(model[full]) else 'n/a'), bucket='read-content')
        labels.add('read:present')
        return
      if not res:
        labels.add('read:absent-fails')
        return
      n, data = real.read(res)
      real.close(res)
      # documented fallbacks: a mounted directory prefix, case-insensitive basename match, the disk
      cands = []
      parts = full.split('/')
      for i in range(1, len(parts)):
        k = '/'.join(parts[:i])
        if k in model:
          cands.append(model[k])
      cands += [v for k, v in model.items() if basekey(k) == basekey(full)]
      try:
        with open(full, 'rb') as f:
          cands.append(f.read())
      except OSError:
        pass
      if n < 0 or data not in cands:
        raise Violation('%s: open(%r, %r) of absent key %r returned %d bytes that belong to no fallback candidate' % (
            what, d, name, full, n), bucket='read-absent')
      labels.add('read:absent-fallback')

    for op in ops:
      kind = op[0]
      if kind == 'addbuf':
        _, name, pk = op
        data = payload(pk)
        key = norm(name)
        r = real.add_buffer(name, data)
        sp = spellings.setdefault(key, set())
        sp.add(name)
        if len(sp) >= 2:
          nt_alias = True
          labels.add('alias-spellings')
        if key in model:
          if r != 2:
            raise Violation('mj_addBufferVFS(%r) returned %d for present key %r (expected 2)' % (name, r, key),
                            bucket='add-repeat')
          labels.add('add:repeat' + (':alias' if name != key else ''))
        else:
          if r != 0:
            raise Violation('mj_addBufferVFS(%r) returned %d for absent key %r (expected 0)' % (name, r, key),
                            bucket='add-new')
          model[key] = data
          if key in deleted_once:
            nt_ada = True
            labels.add('add-delete-add')
          labels.add('add:new' + (':1MB' if len(data) >= 1 << 20 else ':empty' if not data else ''))
        check_read(None, name, 'after add')
      elif kind == 'addfile':
        dk, fname = FILES[op[1]]
        d, fname = resolve_dir(dk), resolve_name(fname)
        key = filekey(d, fname)
        path = norm(join(d, fname))
        exists = os.path.isfile(path)
        r = real.add_file(d, fname)
        sp = spellings.setdefault(key, set())
        sp.add(join(d, fname))
        if len(sp) >= 2:
          nt_alias = True
          labels.add('alias-spellings')
        if key in model:
          if r != 2 and not (r == -1 and not exists):
            raise Violation('mj_addFileVFS(%r, %r) returned %d for present key %r (expected 2)' % (d, fname, r, key),
                            bucket='addfile-repeat')
          labels.add('addfile:repeat')
        elif exists:
          if r != 0:
            raise Violation('mj_addFileVFS(%r, %r) returned %d for an existing file, absent key' % (d, fname, r),
                            bucket='addfile-new')
          model[key] = open(path, 'rb').read()
          if key in deleted_once:
            nt_ada = True
            labels.add('add-delete-add')
          labels.add('addfile:new')
        else:
          # documented: -1 failed to load.  Observed on the unchanged tree: 0 and an empty entry.  Not asserted.
          if r == 0:
            note('addFileVFS(missing file) returned 0 (documented -1); empty entry created')
            model[key] = b''
          elif r != -1:
            raise Violation('mj_addFileVFS of a missing file returned %d' % r, bucket='addfile-missing')
          labels.add('addfile:missing')
        if key in model:
          check_read(None, key, 'after addfile')
      elif kind == 'del':
        name = op[1]
        key = norm(name)
        k2 = basekey(key)
        target = key if key in model else k2 if k2 in model else None
        if target is not None:
          close_held(target)
        r = real.delete(name)
        if target is None:
          if r != -1:
            raise Violation('mj_deleteFileVFS(%r) returned %d for an absent file (expected -1)' % (name, r),
                            bucket='delete-absent')
          labels.add('del:absent')
        else:
          if r != 0:
            raise Violation('mj_deleteFileVFS(%r) returned %d but key %r is present (expected 0)' % (name, r, target),
                            bucket='delete-present')
          del model[target]
          deleted_once.add(target)
          labels.add('del:present' + (':legacy-key' if target != key else ':alias' if name != key else ''))
        # whatever happened, the exact key must now be gone and every other entry intact
        if real.has_buffer(key):
          raise Violation('key %r still contained after mj_deleteFileVFS(%r) returned %d' % (key, name, r),
                          bucket='delete-incomplete')
      elif kind == 'hasbuf':
        name = op[1]
        key = norm(name)
        r = real.has_buffer(name)
        want = int(key in model)
        if name == key:
          if r != want:
            raise Violation('mj_containsBufferVFS(%r) = %d, model says %d' % (name, r, want), bucket='contains-buffer')
          labels.add('hasbuf:%d' % want)
        else:
          if r != want:
            note('containsBufferVFS(un-normalised name) disagrees with add/open/delete of the same name')
          else:
            note('containsBufferVFS(un-normalised name) agrees')
          if r not in (0, 1):
            raise Violation('mj_containsBufferVFS returned %d' % r, bucket='contains-buffer')
          labels.add('hasbuf:unnormalised')
      elif kind == 'hasfile':
        d, name = resolve_dir(op[1]), op[2]
        key = filekey(d, name)
        r = real.has_file(d, name)
        want = int(key in model)
        if r != want:
          raise Violation('mj_containsFileVFS(%r, %r) = %d, model says %d (key %r)' % (d, name, r, want, key),
                          bucket='contains-file')
        labels.add('hasfile:%d' % want)
      elif kind == 'read':
        check_read(resolve_dir(op[1]), op[2], 'read')
      elif kind == 'hold':
        name = op[1]
        key = norm(name)
        if key in model and len(held) < 4:
          res = real.open(None, name)
          if not res:
            raise Violation('open(%r) failed but key %r is present' % (name, key), bucket='read-present')
          held.append((res, key, model[key]))
          labels.add('hold')
      elif kind == 'release':
        if held:
          res, key, data = held.pop(op[1] % len(held))
          n, got = real.read(res)
          real.close(res)
          if n != len(data) or got != data:
            raise Violation('held resource of key %r read %d bytes, expected %d (other entries were added/deleted '
                            'meanwhile)' % (key, n, len(data)), bucket='held-read')
          labels.add('release')
      elif kind == 'reset':
        close_held()
        real.destroy()
        real = Real(lib, nvfs)
        model.clear()
        labels.add('deleteVFS')
        for n in BUFNAMES[:4]:
          if real.has_buffer(n):
            raise Violation('fresh VFS after mj_deleteVFS contains %r' % n, bucket='deleteVFS')
    # final sweep: every present key readable with exact bytes, every name in the alphabet consistent
    close_held()
    for key in list(model):
      check_read(None, key, 'final')
      if not real.has_buffer(key):
        raise Violation('final: present key %r not contained' % key, bucket='contains-buffer')
    for n in BUFNAMES:
      if norm(n) == n and n not in model and real.has_buffer(n):
        raise Violation('final: absent key %r contained' % n, bucket='contains-buffer')
    real.destroy()
    w = [x for x in lib.warnings() if 'open resources' in x or 'did you forget' in x]
    if w:
      raise Violation('VFS warned although every resource was closed: %s' % w[0], bucket='warnings')
    return nt_ada, nt_alias, labels

  def test(ops):
    nt_ada, nt_alias, labels = run(ops)
    ck.case(nontrivial=nt_ada or nt_alias, key=ops, sample=dict(ops=ops, add_delete_add=nt_ada, alias=nt_alias),
            labels=sorted(labels) + (['nt:add-delete-add'] if nt_ada else []) + (['nt:alias'] if nt_alias else []))

  def probes():
    """Dedicated probes for the two classes the main stream does not assert (known findings, see assumptions)."""
    real = Real(lib, nvfs)
    try:
      for name in ('./x.xml', 'd\\x.xml', 'e/../x2.xml'):
        r = real.add_buffer(name, b'abc')
        h = real.has_buffer(name)
        res = real.open(None, name)
        opened = bool(res)
        if res:
          real.close(res)
        ck.evaluations += 1
        if r == 0 and opened and h != 1:
          ck.violation('mj_addBufferVFS(%r) returned 0 and mju_openResource(%r) succeeds, but mj_containsBufferVFS(%r) '
                       'returns %d: contains does not normalise its argument like add/open/delete do' % (name, name, name, h),
                       dict(ops=[['addbuf', name, 'abc'], ['hasbuf', name], ['read', None, name]]),
                       bucket='contains-unnormalised', fingerprint=FP_CONTAINS)
      r = real.add_file(root, 'missing.txt')
      ck.evaluations += 1
      if r != -1:
        ck.violation('mj_addFileVFS(dir, "missing.txt") for a file that does not exist returned %d (documented: -1 failed '
                     'to load); contains=%d' % (r, real.has_file(root, 'missing.txt')),
                     dict(ops=[['addfile', 'root', 'missing.txt']]), bucket='addfile-missing', fingerprint=FP_ADDFILE)
    finally:
      real.destroy()

  try:
    ck.run_hypothesis(test, ops_strategy(ck.budget(30, 60)), ck.budget(600, 15000), name='vfs-history')
    probes()
  finally:
    shutil.rmtree(root, ignore_errors=True)



def replay(ck, body):
  """./verif <ID> --replay <violation file>: run exactly the recorded case through the same test function."""
  from vf import mj
  rec = body.get('case') or {}
  if 'case' not in rec or 'check' not in rec:
    raise NotImplementedError('replay file carries no generated case (bucket %s)' % body.get('bucket'))

  def run_one(test, strategy, max_examples, name='main', **kw):
    if name != rec['check']:
      return True
    try:
      test(rec['case'])
      return True
    except (Violation, AssertionError, mj.MjError) as e:
      ck.violation('%s: %s' % (type(e).__name__, e), rec, bucket=getattr(e, 'bucket', None) or name)
      return False
  ck.run_hypothesis = run_one
  main(ck)


LEVEL = 'exploration'
TECHNIQUE = ('model-based property testing: Hypothesis-generated operation histories interpreted against the real mjVFS '
             '(public C API + resource API) and a Python dict reference model')
LEVEL_TEXT = '''Generated histories of add-buffer / add-file / delete / contains / open-read-close / held-handle / delete-VFS
operations over names that differ only in case, path separator or dot components are run against the tree's mjVFS and a dict
model keyed by the documented normal form. Return codes, membership, and the exact bytes read (0 bytes .. 1 MB, with NULs) are
compared after every operation and for every key at the end of the history.'''
LEVEL_NOTE = '''Sampled histories, not exhaustive. Two classes fail on the unchanged tree and are excluded from the main stream
(counted under observations) but exercised by dedicated probes reported with fingerprints: mj_containsBufferVFS for names not in
normal form (C39:containsBuffer-unnormalised) and the return code of mj_addFileVFS for a missing disk file
(C39:addFile-missing-returns-0). A read of an absent name is only required to return bytes of a documented fallback
candidate. Leak checking of mj_deleteVFS under LSan is not done (the harness runs ASan children with detect_leaks=0); mount /
unmount of custom providers is not covered. Trusted: ctypes binding, the verification build.'''
