"""C40 - Extension registries stay consistent under concurrent use.

(a) sequential histories on the REAL plugin registry through the public API (mjp_registerPlugin, mjp_pluginCount,
    mjp_getPlugin, mjp_getPluginAtSlot) against a Python model (ordered list of unique lower-cased keys); >= 16 objects per
    history so that the first table block (15) overflows; keys differing only in case; identical / conflicting re-registration.
(b) the UNMODIFIED mujoco::GlobalTable<T> (engine_global_table.h) instantiated for a harness object whose CopyObject copies
    field by field with scheduling points in between, compiled against the controlled scheduler (std::mutex / std::atomic
    redirected): 1-3 writers and 0-2 readers, generated schedules + bounded exhaustive enumeration, operations straddling
    slot 14 -> 15. Oracle: a reader that obtained n = count() sees a fully copied object at every slot < n and lookups by key
    and by slot agree; at quiescence the table equals the list model (dense, stable slots, one slot per case-insensitive key,
    identical re-registration returns the slot, conflicting one fails).
"""
import ctypes
import json
import os
import subprocess

import numpy as np
from hypothesis import strategies as st

from vf import build as vb
from vf import schedbuild as sb
from vf.runner import Violation
from checks.c03 import Driver

N = os.path.join(vb.NATIVE, 'C40')
NAMES = ['a', 'A', 'b', 'B', 'c', 'd', 'ab', 'Ab', 'e']


def build_exe():
  return sb.build('c40', [], [os.path.join(N, 'c40_main.cc')], prelude_sources=[os.path.join(N, 'c40_table.cc')])


def writers_strategy():
  tok = st.tuples(st.sampled_from(NAMES), st.integers(1, 3)).map(lambda t: '%s.%d' % t)
  w = st.lists(tok, min_size=1, max_size=3).map(','.join)
  return st.lists(w, min_size=1, max_size=3).map('|'.join)


_keep = []
_uid = [0]


def seq_registry(ck, lib, case):
  """(a) sequential model-based test on the real plugin table."""
  ops, = case
  _uid[0] += 1
  prefix = 'vf%d_%d_' % (os.getpid(), _uid[0])
  base = lib.mjp_pluginCount()
  model = []          # list of (lower key, exact name, payload)
  for name, payload, kind in ops:
    full = prefix + name
    p = lib.new_struct('mjpPlugin')
    lib.mjp_defaultPlugin(p)
    buf = ctypes.create_string_buffer(full.encode())
    _keep.append((p, buf))
    p.name = ctypes.addressof(buf)
    p.capabilityflags = payload
    p.needstage = payload % 3
    low = full.lower()
    hit = [i for i, e in enumerate(model) if e[0] == low]
    before = lib.mjp_pluginCount()
    if before != base + len(model):
      raise Violation('plugin count %d != base %d + model %d' % (before, base, len(model)), bucket='seq:count')
    try:
      slot = lib.mjp_registerPlugin(p)
      err = None
    except Exception as e:
      slot, err = None, str(e)
    after = lib.mjp_pluginCount()
    if after < before:
      raise Violation('plugin count decreased', bucket='seq:count')
    if not hit:
      if err is not None:
        raise Violation('registration of a new key failed: %s' % err, bucket='seq:new-key')
      if slot != before or after != before + 1:
        raise Violation('slot of a new key %s != previous count %d (count after %d)' % (slot, before, after), bucket='seq:slot')
      model.append((low, full, payload))
    else:
      e = model[hit[0]]
      if after != before:
        raise Violation('re-registration changed the count', bucket='seq:count')
      if e[1] == full and e[2] == payload:
        if err is not None or slot != base + hit[0]:
          raise Violation('identical re-registration did not return the existing slot (%s, %s)' % (slot, err), bucket='seq:identical')
      elif e[2] != payload:
        if err is None:
          raise Violation('conflicting re-registration succeeded with slot %s' % slot, bucket='seq:conflict')
      # same payload but different spelling: documentation does not say whether this is "identical"; only no new slot
    # lookups
    for i, (lowk, exact, pl) in enumerate(model):
      for q in (exact, exact.upper(), exact.lower()):
        sl = ctypes.c_int(-7)
        r = lib.mjp_getPlugin(q, ctypes.addressof(sl))
        if not r or sl.value != base + i:
          raise Violation('lookup of %r returned slot %d, expected %d' % (q, sl.value, base + i), bucket='seq:lookup')
        r2 = lib.mjp_getPluginAtSlot(base + i)
        if r2 != r:
          raise Violation('lookup by name and by slot disagree for %r' % q, bucket='seq:lookup')
    if lib.mjp_getPluginAtSlot(base + len(model)) is not None and lib.mjp_pluginCount() == base + len(model):
      raise Violation('object visible at slot == count', bucket='seq:lookup')
    sl = ctypes.c_int(-7)
    if lib.mjp_getPlugin(prefix + 'absent', ctypes.addressof(sl)) is not None or sl.value != -1:
      raise Violation('lookup of an unregistered name succeeded', bucket='seq:lookup')
  crossed = base + len(model) > 15 and base < 15 or len(model) >= 16
  nt = any(k == 'dup' for _, _, k in ops) and len(model) >= 2
  ck.case(nontrivial=nt, key=('seq', tuple(ops)), sample=dict(part='sequential', ops=[list(o) for o in ops[:8]], registered=len(model)) if nt else None,
          labels=['seq', 'seq-crossed-block' if crossed else 'seq-one-block'])


def seq_strategy():
  # mostly fresh names with occasional duplicates (identical / case variant / conflicting payload)
  @st.composite
  def ops(draw):
    n = draw(st.integers(2, 20))
    out, names = [], []
    for i in range(n):
      if names and draw(st.integers(0, 3)) == 0:
        nm, pl = draw(st.sampled_from(names))
        v = draw(st.sampled_from(['same', 'case', 'conflict']))
        if v == 'same':
          out.append((nm, pl, 'dup'))
        elif v == 'case':
          out.append((nm.upper() if nm.islower() else nm.lower(), pl, 'dup'))
        else:
          out.append((nm, pl + 1, 'dup'))
      else:
        nm = 'P%d%s' % (i, draw(st.sampled_from(['x', 'Y', 'zz'])))
        pl = draw(st.integers(1, 5))
        names.append((nm, pl))
        out.append((nm, pl, 'new'))
    return out
  return st.tuples(ops())


def main(ck):
  lib = ck.lib('rel')
  ck.rule = ('(a) sequential op lists on the real plugin registry (fresh key prefix per case); non-trivial = contains a duplicate '
             'registration; (b) (prefill, writer programs, readers, schedule bytes, PRNG tail) on GlobalTable<T> under the controlled '
             'scheduler; non-trivial = a reader observation overlapped a registration in flight (overlap>0) and >=1 preemption; '
             'plus bounded exhaustive schedule enumeration; distinct by the whole case')
  ck.assumptions = ['sequentially consistent interleavings only', 'process-global real tables cannot be reset: every sequential case uses fresh key prefixes',
                    'behaviour for "same content, different spelling of the key" is not asserted beyond "no new slot" (not documented)']
  ck.run_hypothesis(lambda c: seq_registry(ck, lib, c), seq_strategy(), ck.budget(80, 3000), name="sequential-registry")

  exe = build_exe()
  drv = Driver(exe)

  def test(case):
    prefill, writers, nreaders, sched, tail, psw = case
    r = drv.run('R %d %s %d %s %d %d' % (prefill, writers, nreaders, bytes(sched).hex() or '-', tail, psw))
    if 'ok' not in r:
      raise Violation('%s (prefill %d writers %s readers %d)' % (r.get('violation') or r.get('verdict'), prefill, writers, nreaders),
                      bucket='sched:' + (r.get('violation') or r.get('verdict') or '?')[:40])
    nt = r['overlap'] > 0 and r['preempt'] > 0
    ck.case(nontrivial=nt, key=('sched',) + tuple(map(str, case)),
            sample=dict(part='scheduled', prefill=prefill, writers=writers, readers=nreaders, schedule=bytes(sched).hex()[:40], tail_seed=tail,
                        pswitch=psw, preemptions=r['preempt'], overlap_observations=r['overlap'], crossed_block=r['crossed']) if nt else None,
            labels=['sched', 'crossed-block' if r['crossed'] else 'one-block', 'overlap' if r['overlap'] else 'no-overlap'])

  strat = st.tuples(st.sampled_from([0, 13, 14, 14, 15]), writers_strategy(), st.integers(0, 2),
                    st.lists(st.integers(0, 255), max_size=40), st.integers(0, 1 << 30), st.sampled_from([8, 32, 64, 128, 200]))
  ck.run_hypothesis(test, strat, ck.budget(1200, 100000), name="scheduled-table")

  configs = [(14, 'a.1,b.2', 1, 2), (14, 'a.1|A.1', 1, 1), (15, 'a.1|a.2', 1, 1), (0, 'a.1,a.1|A.2', 1, 1)]
  if not ck.quick:
    configs += [(14, 'a.1,b.2|c.3', 1, 2), (14, 'a.1|b.2', 2, 1), (13, 'a.1,b.2,c.3', 1, 2), (14, 'a.1|a.1|a.2', 1, 1)]
  ex = []
  for prefill, writers, nreaders, maxpre in configs:
    r = drv.run('E %d %s %d %d %d' % (prefill, writers, nreaders, maxpre, 300000))
    if 'ok' not in r:
      ck.violation('%s in exhaustive enumeration (prefill %d writers %s readers %d, <=%d preemptions)' % (
          r.get('violation') or r.get('verdict'), prefill, writers, nreaders, maxpre),
          dict(mode='exhaustive', prefill=prefill, writers=writers, readers=nreaders, maxpreempt=maxpre, result=r),
          bucket='exhaustive:' + (r.get('violation') or r.get('verdict') or '?')[:30])
      continue
    ex.append(dict(prefill=prefill, writers=writers, readers=nreaders, max_preemptions=maxpre, schedules=r['runs'], complete=bool(r['complete'])))
    ck.evaluations += r['runs']
    ck.nontrivial.update('ex/%s/%d' % (writers, i) for i in range(min(r['runs_with_overlap'], 50)))
  ck.extra['exhaustive_configs'] = ex
  drv.close()


def replay(ck, body):
  c = body['case']
  drv = Driver(build_exe())
  if c.get('mode') == 'exhaustive':
    r = drv.run('E %d %s %d %d 300000' % (c['prefill'], c['writers'], c['readers'], c['maxpreempt']))
  elif c.get('check') == 'scheduled-table':
    prefill, writers, nreaders, sched, tail, psw = c['case']
    r = drv.run('R %d %s %d %s %d %d' % (prefill, writers, nreaders, bytes(sched).hex() or '-', tail, psw))
  else:
    lib = ck.lib('rel')
    try:
      seq_registry(ck, lib, ([tuple(o) for o in c['case'][0]],))
      r = dict(ok=1)
    except Violation as e:
      r = dict(violation=str(e))
  if 'ok' not in r:
    ck.violation(str(r), c, bucket='replay')
  ck.nontrivial.update(['a', 'b'])
  drv.close()


LEVEL = 'exploration'
TECHNIQUE = 'model-based testing of the real registry (sequential histories) + schedule fuzzing and bounded exhaustive schedule enumeration of the unmodified GlobalTable template under a controlled scheduler'
LEVEL_TEXT = '''Sequential histories on the real plugin registry are compared with a list model after every operation. The concurrent clause is
decided on the unmodified GlobalTable<T> template instantiated for a harness type whose copy is interruptible between fields; writers and
readers run under a controlled scheduler with Hypothesis-generated and exhaustively enumerated (preemption-bounded) schedules; readers must
never see a torn or missing object below count(), and the quiescent table must equal the model.'''
LEVEL_NOTE = '''Sequential consistency assumed. The scheduled part instantiates the template for a harness type (the production specialisations'
CopyObject/ObjectEqual for plugins are exercised only sequentially in part (a); resource providers, decoders and encoders share the template
and are not driven separately). mju_error is replaced by a C++ exception in the scheduled harness.'''
