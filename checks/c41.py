"""C41 - The MJCF schema-language parser is total and its checks sound.

Domain : schemalang (vf/gen_schemalang.py): schemas valid by construction (grammar-based, nested `use` up to a safe
         depth), 34 labelled one-rule mutations, token soup (vocabulary streams, arbitrary unicode text, punctuation soup),
         token/line edits of valid texts, `use` chains of depth 1..2000, long inputs.
Oracle : totality - only SchemaError escapes, with 1 <= line <= number of lines of the text, path preserved, message
         format "path:line: message"; acceptance - every valid-by-construction schema is accepted and the returned
         Schema equals the generated model (names, declaration order, types, arities, defaults, facets, docs, lines,
         group expansion); soundness - every Schema accepted from ANY source satisfies an independent, iterative
         re-implementation of the documented rules (rules()), and every one-rule mutation is rejected.
Non-trivial : schema has a group used through >= 2 levels, or the input is a labelled mutation.
"""
import os
import re
import shutil
import subprocess
import sys

from hypothesis import strategies as st

from vf import gen_pytree as pt
from vf import gen_schemalang as sl
from vf.runner import Violation

CHAIN_SAFE = 200      # `use` chains deeper than this are excluded from the main streams by construction (known finding
                      # 'use-chain-recursion': RecursionError from ~sys.getrecursionlimit() links); probed separately


# ------------------------------------------------------------------------------------------------ rule checker
def rules(S, schema):
  """Independent re-statement of the documented rules on a returned Schema.  Returns list of (rule, message).
  Sources: grammar in the module docstring of mjcf_schema.py, syntax reference at the top of src/xml/mjcf.schema, the
  property statement.  Iterative (no recursion), never raises on cyclic or dangling input."""
  bad = []
  groups, elements, enums = schema.groups, schema.elements, schema.enums
  namespaces = set()
  conts = [('group', g) for g in groups.values()] + [('element', e) for e in elements.values()]
  for _, c in conts:
    for m in c.members:
      if isinstance(m, S.Attr) and m.type == 'id':
        namespaces.add(m.target)
  # references
  for kind, c in conts:
    for m in c.members:
      if isinstance(m, S.Use) and m.group not in groups:
        bad.append(('dangling-use', '%s %s uses undeclared group %r' % (kind, c.name, m.group)))
      if isinstance(m, S.Child) and m.name not in elements:
        bad.append(('dangling-child', '%s child %r' % (c.name, m.name)))
      if isinstance(m, S.Child) and m.card not in ('?', '!', '*', 'R'):
        bad.append(('cardinality', '%s child %r card %r' % (c.name, m.name, m.card)))
      if isinstance(m, (S.Child, S.Const)) and kind == 'group':
        bad.append(('group-member', 'group %s contains child/set' % c.name))
  for e in elements.values():
    al = e.facets.get('alias')
    if 'alias' in e.facets and (not isinstance(al, str) or al not in elements):
      bad.append(('dangling-alias', 'element %s alias %r' % (e.name, al)))
    if 'xml' in e.facets and not isinstance(e.facets['xml'], str):
      bad.append(('element-facet', 'element %s xml facet %r' % (e.name, e.facets['xml'])))
    for f in e.facets:
      if f not in ('xml', 'alias', 'field'):
        bad.append(('element-facet', 'element %s unknown facet %r' % (e.name, f)))
    seen = set()
    for ch in e.children():
      if ch.name in seen:
        bad.append(('dup-child', 'element %s child %r twice' % (e.name, ch.name)))
      seen.add(ch.name)
  # acyclic use graph: iterative three-colour DFS
  colour = {}
  for root in groups:
    if root in colour:
      continue
    stack = [(root, iter([m.group for m in groups[root].members if isinstance(m, S.Use)]))]
    colour[root] = 1
    while stack:
      node, it = stack[-1]
      nxt = next(it, None)
      if nxt is None:
        colour[node] = 2
        stack.pop()
      elif nxt in groups:
        if colour.get(nxt) == 1:
          bad.append(('use-cycle', 'cycle through %r' % nxt))
        elif nxt not in colour:
          colour[nxt] = 1
          stack.append((nxt, iter([m.group for m in groups[nxt].members if isinstance(m, S.Use)])))
  cyclic = any(b[0] in ('use-cycle', 'dangling-use') for b in bad)

  def expand(members):
    out = []
    work = [iter(members)]
    guard = 0
    while work:
      m = next(work[-1], None)
      guard += 1
      if guard > 200000:
        return None
      if m is None:
        work.pop()
      elif isinstance(m, S.Attr):
        out.append(m)
      elif isinstance(m, S.Use) and m.group in groups:
        work.append(iter(groups[m.group].members))
    return out
  exp = {}
  if not cyclic:
    for e in elements.values():
      attrs = expand(e.members)
      exp[e.name] = attrs
      names = [a.name for a in attrs]
      dup = sorted(set(n for n in names if names.count(n) > 1))
      if dup:
        bad.append(('dup-attr', 'element %s has duplicate attributes after expansion: %s' % (e.name, dup)))
  # containers
  for g in groups.values():
    if not g.members:
      bad.append(('empty', 'group %s is empty' % g.name))
    if g.variant:
      for m in g.members:
        if isinstance(m, S.Use):
          bad.append(('variant', 'variant group %s contains use' % g.name))
        if isinstance(m, S.Attr) and m.facets.get('required'):
          bad.append(('variant', 'variant group %s has required attribute %s' % (g.name, m.name)))
  for en in enums.values():
    keys = [k for k, _ in en.items]
    if not keys:
      bad.append(('empty', 'enum %s is empty' % en.name))
    if len(set(keys)) != len(keys):
      bad.append(('dup-keyword', 'enum %s repeats a keyword' % en.name))
  # constraints
  for kind, c in conts:
    if kind == 'group':
      known = set(m.name for m in c.members if isinstance(m, S.Attr))
    else:
      known = None if cyclic else set(a.name for a in exp[c.name])
    for m in c.members:
      if not isinstance(m, S.Constraint):
        continue
      if m.kind not in ('exclusive', 'together', 'requires', 'oneof') or len(m.bundles) < 2:
        bad.append(('constraint', '%s %s: %s with %d bundles' % (kind, c.name, m.kind, len(m.bundles))))
      if known is not None:
        for bd in m.bundles:
          for n in bd:
            if n not in known:
              bad.append(('constraint-unknown', '%s %s: constraint names unknown attribute %r' % (kind, c.name, n)))
      if m.kind == 'requires' and (len(m.bundles) != 2 or any(len(bd) != 1 for bd in m.bundles)):
        bad.append(('requires-arity-' + kind, "%s %s: 'requires' with bundles %r" % (kind, c.name, m.bundles)))
  # attributes
  for kind, c in conts:
    for a in c.members:
      if not isinstance(a, S.Attr):
        continue
      w = '%s %s.%s' % (kind, c.name, a.name)
      lo, hi = a.arity.lo, a.arity.hi
      if a.type not in ('double', 'float', 'int', 'bool', 'string', 'file', 'chars', 'enum', 'flags', 'id', 'ref'):
        bad.append(('type', '%s: type %r' % (w, a.type)))
        continue
      if not isinstance(lo, int) or isinstance(lo, bool) or lo < 0 or not (hi is None or isinstance(hi, (int, str))) or (
          isinstance(hi, int) and hi < lo):
        bad.append(('arity', '%s: arity (%r,%r)' % (w, lo, hi)))
      if a.type in ('enum', 'flags') and a.target not in enums:
        bad.append(('dangling-enum', '%s -> enum %r' % (w, a.target)))
      if a.type == 'ref' and a.target not in namespaces:
        bad.append(('dangling-ref', '%s -> namespace %r' % (w, a.target)))
      if a.type in ('enum', 'flags', 'id', 'ref', 'bool', 'file') and (lo, hi) != (1, 1):
        bad.append(('vector-forbidden', '%s: %s with arity (%r,%r)' % (w, a.type, lo, hi)))
      if a.type == 'chars' and not (isinstance(hi, int) and not isinstance(hi, bool)):
        bad.append(('chars-unbounded', w))
      numeric = a.type in ('double', 'float', 'int')
      for f, v in a.facets.items():
        if f not in sl.ATTR_FACETS:
          bad.append(('facet-unknown', '%s: facet %r' % (w, f)))
      if 'pattern' in a.facets and a.type not in ('string', 'chars'):
        bad.append(('facet-pattern', w))
      for f in ('min', 'max'):
        if f in a.facets:
          v = a.facets[f]
          if not numeric or isinstance(v, str):
            bad.append(('facet-minmax', '%s: %s=%r on %s' % (w, f, v, a.type)))
          elif isinstance(v, bool):
            bad.append(('facet-minmax-bare', '%s: facet %s without a value' % (w, f)))
      if 'min' in a.facets and 'max' in a.facets and all(
          isinstance(a.facets[f], (int, float)) and not isinstance(a.facets[f], bool) for f in ('min', 'max')):
        if a.facets['min'] > a.facets['max']:
          bad.append(('facet-minmax', '%s: min %r > max %r' % (w, a.facets['min'], a.facets['max'])))
      if a.facets.get('positive') and not numeric:
        bad.append(('facet-positive', w))
      d = a.default
      if d is not None and a.facets.get('required'):
        bad.append(('required-default', w))
      if d is None:
        continue
      if a.type == 'enum':
        if not isinstance(d, str) or (a.target in enums and d not in [k for k, _ in enums[a.target].items]):
          bad.append(('default-enum', '%s: default %r' % (w, d)))
      elif a.type in ('ref', 'id', 'chars'):
        bad.append(('default-forbidden', '%s: %s with default %r' % (w, a.type, d)))
      elif a.type == 'bool':
        if d not in ('true', 'false'):
          bad.append(('default-bool', '%s: default %r' % (w, d)))
      elif a.type in ('string', 'file'):
        if not isinstance(d, str):
          bad.append(('default-string', '%s: default %r' % (w, d)))
      elif numeric:
        if isinstance(d, str):
          bad.append(('default-numeric', '%s: default %r' % (w, d)))
        else:
          n = len(d) if isinstance(d, tuple) else 1
          if isinstance(d, tuple) and (lo, hi) == (1, 1):
            bad.append(('default-arity', '%s: vector default on scalar' % w))
          if n < lo or (isinstance(hi, int) and n > hi):
            bad.append(('default-arity', '%s: %d default values for arity (%r,%r)' % (w, n, lo, hi)))
  return bad


KNOWN_RULES = {'facet-minmax-bare': 'bare-minmax-facet', 'requires-arity-group': 'group-requires-arity'}


def chain_text(n, style=0):
  t = ['group g0 {\n  a : int\n}']
  for i in range(1, n):
    t.append('group g%d {\n  use g%d\n  b%d : int\n}' % (i, i - 1, i) if style else 'group g%d {\n  use g%d\n}' % (i, i - 1))
  t.append('element e {\n  use g%d\n}' % (n - 1))
  return '\n'.join(t)


def main(ck):
  S = pt.docgen('mjcf_schema')
  ck.rule = ('schemalang grammar: valid-by-construction schemas (<=4 enums, <=6 groups with nested use, <=6 elements, all '
             'attribute types/arity forms/facets/constraints), 34 labelled one-rule mutations, token soup, token edits, use '
             'chains; non-trivial = valid schema with a group used through >=2 levels, or a labelled mutation; distinct by text')
  ck.assumptions = ['`use` chains deeper than %d links are excluded from the main streams by construction (counted as '
                    'excluded:deep-chain) and probed separately (known finding use-chain-recursion)' % CHAIN_SAFE,
                    'bare min/max facets and `requires` arity inside groups are never generated as valid or as mutations '
                    '(counted when they arise through token edits); each has one dedicated probe',
                    'lines(text) = text.count("\\n") + 1']
  counts = dict(valid=0, mutated=0, soup=0, edits=0, accepted_soup=0, accepted_edits=0)

  def parse(text, what, allow_recursion_fp=False):
    """Total call: returns Schema or the SchemaError; anything else is a violation."""
    nlines = text.count('\n') + 1
    try:
      sch = S.parse_string(text, 'p.schema')
    except S.SchemaError as e:
      if not isinstance(e.line, int) or isinstance(e.line, bool) or not (1 <= e.line <= nlines):
        raise Violation('%s: SchemaError line %r outside the text (1..%d): %s' % (what, e.line, nlines, e), bucket='error-line')
      if e.path != 'p.schema' or str(e) != 'p.schema:%d: %s' % (e.line, e.message):
        raise Violation('%s: SchemaError not formatted as path:line: message: %r' % (what, str(e)), bucket='error-format')
      return e
    except RecursionError as e:
      if allow_recursion_fp:
        raise
      raise Violation('%s: RecursionError escaped from parse_string' % what, bucket='escaped-RecursionError')
    except Exception as e:
      raise Violation('%s: %s escaped from parse_string: %s' % (what, type(e).__name__, e), bucket='escaped-' + type(e).__name__)
    if not isinstance(sch, S.Schema):
      raise Violation('%s: parse_string returned %r' % (what, type(sch)), bucket='return-type')
    return sch

  def check_rules(sch, what, text):
    try:
      bad = rules(S, sch)
      for e in sch.elements.values():      # the public accessor must work on every accepted schema
        sch.expanded_attrs(e)
    except RecursionError:
      raise
    except Exception as e:
      raise Violation('%s: accepted schema breaks expanded_attrs/rule evaluation: %s: %s' % (what, type(e).__name__, e),
                      bucket='accepted-unusable')
    for rule, msg in bad:
      if rule in KNOWN_RULES:
        ck.label('known:' + KNOWN_RULES[rule])
        ck.violation('accepted schema violates a documented rule: %s' % msg, dict(text=text, rule=rule), bucket=rule,
                     fingerprint=KNOWN_RULES[rule])
      else:
        raise Violation('%s: accepted schema violates a documented rule (%s): %s' % (what, rule, msg), bucket='unsound-' + rule)

  # ---------------------------------------------------------------- dedicated probes (known-finding candidates)
  lim = sys.getrecursionlimit()
  for n in (lim + 1000,):
    try:
      r = parse(chain_text(n), 'use chain of %d groups' % n, allow_recursion_fp=True)
      ck.extra['probe_deep_chain'] = 'accepted' if isinstance(r, S.Schema) else 'SchemaError'
    except RecursionError:
      ck.extra['probe_deep_chain'] = 'RecursionError'
      ck.violation('valid schema with a `use` chain of %d groups: RecursionError escapes from parse_string '
                   '(recursion limit %d)' % (n, lim), dict(generator='chain_text(%d)' % n, recursionlimit=lim),
                   bucket='escaped-RecursionError', fingerprint='use-chain-recursion')
  for text, rule in (('element a {\n  x : int (min)\n}', 'facet-minmax-bare'),
                     ('group g {\n  x : int\n  y : int\n  z : int\n  requires x y+z\n}', 'requires-arity-group')):
    r = parse(text, 'probe')
    ck.extra['probe_' + KNOWN_RULES[rule]] = 'accepted' if isinstance(r, S.Schema) else 'rejected'
    if isinstance(r, S.Schema):
      check_rules(r, 'probe', text)

  # ---------------------------------------------------------------- valid schemas: accepted + equal to the model
  def compare(model, text, lines, sch):
    def eq(what, got, want):
      if got != want or type(got) != type(want) and not (isinstance(got, (int, float)) and isinstance(want, (int, float))):
        raise Violation('parsed %s is %r, the text says %r' % (what, got, want), bucket='parse-mismatch')
    order = dict(enum=[], group=[], element=[])
    for what, i in model['order']:
      order[what].append(model[what + 's'][i]['name'])
    eq('enum order', list(sch.enums), order['enum'])
    eq('group order', list(sch.groups), order['group'])
    eq('element order', list(sch.elements), order['element'])
    for e in model['enums']:
      p = sch.enums[e['name']]
      eq('enum %s' % e['name'], (p.name, p.ctype, p.items, p.doc, p.line, p.keywords()),
         (e['name'], e['ctype'], [(k, v) for k, q, v in e['items']], e['doc'], lines[('enum', e['name'])],
          [k for k, q, v in e['items']]))

    def members(kind, c, p):
      eq('%s %s member count' % (kind, c['name']), len(p.members), len(c['members']))
      for j, (m, q) in enumerate(zip(c['members'], p.members)):
        w = '%s %s member %d' % (kind, c['name'], j)
        ln = lines[(kind, c['name'], j)]
        if m['kind'] == 'attr':
          if not isinstance(q, S.Attr):
            raise Violation('%s parsed as %r' % (w, type(q).__name__), bucket='parse-mismatch')
          lo, hi = sl.expected_arity(m)
          eq(w, (q.name, q.type, q.target, q.arity.lo, q.arity.hi, q.default, q.facets, q.doc, q.line),
             (m['name'], m['type'], m['target'], lo, hi, sl.expected_value(m['default']),
              dict((k, sl.expected_value(v)) for k, v in m['facets']), m['doc'], ln))
        elif m['kind'] == 'use':
          eq(w, (type(q).__name__, q.group, q.line), ('Use', m['group'], ln))
        elif m['kind'] == 'child':
          eq(w, (type(q).__name__, q.name, q.card, q.doc, q.line), ('Child', m['name'], m['card'], m['doc'], ln))
        elif m['kind'] == 'set':
          eq(w, (type(q).__name__, q.field, q.value, q.doc, q.line), ('Const', m['field'], m['value'], m['doc'], ln))
        else:
          eq(w, (type(q).__name__, q.kind, q.bundles, q.doc, q.line), ('Constraint', m['verb'], m['bundles'], m['doc'], ln))
    for g in model['groups']:
      p = sch.groups[g['name']]
      eq('group %s' % g['name'], (p.name, p.variant, p.doc, p.line), (g['name'], g['variant'], g['doc'], lines[('group', g['name'])]))
      members('group', g, p)
    for e in model['elements']:
      p = sch.elements[e['name']]
      fac = dict((k, sl.expected_value(v)) for k, v in e['facets'])
      eq('element %s' % e['name'], (p.name, p.spec, p.facets, p.doc, p.line, p.xml_name()),
         (e['name'], e['spec'], fac, e['doc'], lines[('element', e['name'])], str(fac.get('xml', e['name']))))
      members('element', e, p)
      want = []
      for m in e['members']:
        if m['kind'] == 'use':
          want += model['expanded'][m['group']]
        elif m['kind'] == 'attr':
          want.append(m['name'])
      eq('expanded attributes of %s' % e['name'], [a.name for a in sch.expanded_attrs(p)], want)
      eq('children of %s' % e['name'], [(c.name, c.card) for c in p.children()],
         [(m['name'], m['card']) for m in e['members'] if m['kind'] == 'child'])

  corpus = []

  def test_valid(case):
    model, style = case
    text, lines = sl.render(model, style)
    r = parse(text, 'valid schema')
    if not isinstance(r, S.Schema):
      raise Violation('valid-by-construction schema rejected: %s\n%s' % (r, text), bucket='valid-rejected')
    compare(model, text, lines, r)
    check_rules(r, 'valid schema', text)
    maxdepth = max([0] + [model['depth'][m['group']] + 1 for e in model['elements'] for m in e['members'] if m['kind'] == 'use'])
    labels = ['valid', 'use-depth=%d' % min(maxdepth, 4), 'groups=%d' % min(len(model['groups']), 6)]
    kinds = set()
    for c in model['groups'] + model['elements']:
      for m in c['members']:
        kinds.add(m['kind'] if m['kind'] != 'attr' else 'attr:' + m['type'])
    labels += ['has:' + k for k in sorted(kinds)]
    counts['valid'] += 1
    if len(corpus) < 40:
      corpus.append(text)
    nt = maxdepth >= 2
    ck.case(nontrivial=nt, key=text, labels=labels, sample=dict(kind='valid', use_depth=maxdepth, text=text[:1500]) if nt else None)

  ck.run_hypothesis(test_valid, st.tuples(sl.valid_schema('lang'), st.integers(0, 59)), ck.budget(300, 6000), name='valid')

  # ---------------------------------------------------------------- one-rule mutations: rejected
  names = sorted(sl.MUTATIONS)

  def make_test(name):
    def test_mutation(case):
      model, seed, style = case
      mut = sl.mutate(model, name, seed)
      text, _ = sl.render(mut, style)
      r = parse(text, 'mutation ' + name)
      if isinstance(r, S.Schema):
        raise Violation('schema with one broken rule (%s) was accepted:\n%s' % (name, text), bucket='mutation-accepted-' + name)
      counts['mutated'] += 1
      ck.case(nontrivial=True, key=text, labels=['mutation:' + name],
              sample=dict(kind='mutation', mutation=name, error=str(r), text=text[-600:]))
    return test_mutation

  per = max(8, ck.budget(850, 8500) // len(names))       # every mutation kind gets the same share of the budget
  for name in names:
    ck.run_hypothesis(make_test(name), st.tuples(sl.valid_schema('lang', max_groups=3, max_elements=3),
                                                 st.integers(0, 10 ** 6), st.integers(0, 59)), per, name='mutation-' + name)

  # ---------------------------------------------------------------- token soup and token edits: total + sound
  def test_soup(text):
    r = parse(text, 'token soup')
    counts['soup'] += 1
    if isinstance(r, S.Schema):
      counts['accepted_soup'] += 1
      check_rules(r, 'token soup', text)
    ck.case(nontrivial=False, key=text, labels=['soup:' + ('accepted' if isinstance(r, S.Schema) else 'rejected')])

  ck.run_hypothesis(test_soup, sl.token_soup(), ck.budget(800, 40000), name='token-soup')

  def test_edit(case):
    model, style, seed, nedits = case
    text0, _ = sl.render(model, style)
    text, ops = sl.edit_text(text0, seed, nedits)
    r = parse(text, 'edited schema')
    counts['edits'] += 1
    if isinstance(r, S.Schema):
      counts['accepted_edits'] += 1
      check_rules(r, 'edited schema', text)
    ck.case(nontrivial=False, key=text, labels=['edit:' + ('accepted' if isinstance(r, S.Schema) else 'rejected')] +
            ['editop:' + o for o in ops])

  ck.run_hypothesis(test_edit, st.tuples(sl.valid_schema('lang', max_groups=3, max_elements=3), st.integers(0, 59),
                                         st.integers(0, 10 ** 6), st.integers(1, 3)), ck.budget(300, 6000), name='token-edits')

  # ---------------------------------------------------------------- use chains and long inputs
  def test_chain(case):
    n, style = case
    if n > CHAIN_SAFE:
      ck.discard('excluded:deep-chain')       # known finding class, excluded by construction; see probe above
      return
    text = chain_text(n, style)
    r = parse(text, 'use chain %d' % n)
    if not isinstance(r, S.Schema):
      raise Violation('valid use chain of %d groups rejected: %s' % (n, r), bucket='valid-rejected')
    got = [a.name for a in r.expanded_attrs(r.elements['e'])]
    want = ['a'] + (['b%d' % i for i in range(1, n)] if style else [])
    if got != want:
      raise Violation('use chain %d: expanded attributes %r' % (n, got[:5]), bucket='parse-mismatch')
    check_rules(r, 'use chain', text)
    ck.case(nontrivial=n >= 3, key=(n, style), labels=['chain', 'chain:' + ('<=20' if n <= 20 else '<=%d' % CHAIN_SAFE)])

  ck.run_hypothesis(test_chain, st.tuples(st.one_of(st.integers(1, CHAIN_SAFE), st.integers(1, 2000)), st.integers(0, 1)),
                    ck.budget(60, 600), name='use-chains')
  # long flat input: many declarations, long lines
  n = 3000 if ck.quick else 30000
  big = '\n'.join('element e%d {\n  a : double[3] = {1, 2, 3}  # d\n  child e%d *\n}' % (i, max(i - 1, 0)) for i in range(n))
  r = parse(big, 'long input')
  if not isinstance(r, S.Schema) or len(r.elements) != n:
    raise Violation('long valid input (%d elements) rejected: %s' % (n, r), bucket='valid-rejected')
  r = parse(big + '\nelement e0 {}', 'long input + duplicate')
  if isinstance(r, S.Schema) or r.line != 4 * n + 1:
    raise Violation('duplicate element at the end of a long input: %r' % (r,), bucket='mutation-accepted-dup_element')
  ck.case(nontrivial=False, key='long', labels=['long-input'])
  ck.extra['counts'] = counts
  ck.extra['mutation_kinds'] = len(names)

  # ---------------------------------------------------------------- coverage-guided byte fuzzing (atheris / libFuzzer)
  deps = '/verif/.deps'
  if not os.path.isdir(os.path.join(deps, 'atheris')):
    ck.extra['atheris'] = 'not installed (/verif/.deps/atheris missing): coverage-guided part skipped'
    return
  work = '/verif/work/C41'
  tag = '%d-%d' % (ck.seed, os.getpid())       # several runs (mutants) may share /verif/work
  cdir = os.path.join(work, 'corpus_' + tag)
  shutil.rmtree(cdir, ignore_errors=True)
  os.makedirs(cdir)
  for i, t in enumerate(corpus):
    with open(os.path.join(cdir, 'valid%02d' % i), 'w') as f:
      f.write(t)
  secs = ck.budget(15, 300)
  env = dict(os.environ, PYTHONPATH='/verif:' + deps)
  cmd = [sys.executable, '/verif/native/C41/atheris_parse.py', cdir, '-max_total_time=%d' % secs, '-max_len=4096',
         '-seed=%d' % ck.seed, '-dict=/verif/native/C41/schema.dict', '-artifact_prefix=%s/crash-%s-' % (work, tag),
         '-print_final_stats=1']
  p = subprocess.run(cmd, capture_output=True, text=True, env=env, cwd='/verif', timeout=secs + 120)
  out = p.stderr + p.stdout
  m = re.search(r'stat::number_of_executed_units:\s*(\d+)', out)
  covs = re.findall(r'cov: (\d+) ft: (\d+)', out)
  ck.extra['atheris'] = dict(seconds=secs, executions=int(m.group(1)) if m else None, final_cov=int(covs[-1][0]) if covs else None,
                            final_features=int(covs[-1][1]) if covs else None, rc=p.returncode, max_len=4096,
                            seed_corpus=len(corpus))
  if p.returncode != 0:
    crashes = [f for f in os.listdir(work) if f.startswith('crash-%s-' % tag)]
    data = open(os.path.join(work, crashes[0]), 'rb').read() if crashes else b''
    tail = [l for l in out.splitlines() if 'FuzzViolation' in l or 'Error' in l or 'Exception' in l][-5:]
    if not crashes and 'FuzzViolation' not in out and 'Traceback' not in out:
      raise RuntimeError('atheris run failed without a crash artifact:\n' + out[-1500:])
    ck.violation('coverage-guided fuzzing of parse_string found a violating input: %s' % tail,
                 dict(text=data.decode('utf-8', 'replace'), hex=data.hex(), log=out[-1500:]), bucket='atheris')
  shutil.rmtree(cdir, ignore_errors=True)
  ck.case(nontrivial=False, key='atheris', labels=['atheris-run'])


LEVEL = 'exploration'
TECHNIQUE = ('grammar-based property testing (Hypothesis): valid-by-construction schemas compared field by field with the '
             'parse result, 34 labelled one-rule mutations that must be rejected, token soup and token-edit fuzzing with an '
             'independent rule checker on everything accepted; coverage-guided byte fuzzing (atheris/libFuzzer) with the same oracle')
LEVEL_TEXT = '''Texts of the schema language are generated from its documented grammar. Valid schemas must be accepted and the
returned Schema must equal the generated model (order, types, arities, defaults, facets, docs, line numbers, group
expansion); each of 34 one-rule mutations must raise SchemaError; token soup, unicode text and token/line edits of valid
texts must either raise SchemaError with a line inside the text or return a Schema that satisfies an independent iterative
re-implementation of the documented rules; `use` chains up to 200 links and a 3000-element input are accepted.'''
LEVEL_NOTE = '''Trusted: the generator's reading of the grammar (module docstring of mjcf_schema.py, header of
src/xml/mjcf.schema). Coverage-guided byte fuzzing uses atheris 3.1 from /verif/.deps (15 s quick / 300 s thorough, seed
corpus = generated valid schemas, max_len 4096 so deep use chains are out of reach by construction). Known-finding probes: use-chain-recursion (RecursionError beyond the interpreter recursion limit),
bare-minmax-facet (`(min)` without value accepted because True is an int), group-requires-arity (`requires x y+z` accepted
inside a group; only validated in elements).'''
