"""C42 - Schema generators faithfully translate any valid schema.

Domain : F1 - synthetic valid schemas with root `mujoco` from schemalang (profile 'gen': tree-shaped child graph with self
         recursion, nested `use`, variant groups, aliases, xml= tags, optional default / default_* / plugin / body+worldbody
         special contexts) for generate_xsd, generate_mjcf_table, generate_mjcf_map, generate_dmcontrol;
         F2 - edits of the REAL src/xml/mjcf.schema that keep it valid and bound (delete / reorder attributes, change numeric
         defaults, toggle required/nodefault/writing facets) for generate_read_table, generate_default_table (they resolve
         fields in mjspec.h) and generate_schema (reads the generated table + XMLreference.rst).
Oracle : parse-back against the generated abstract model (never the Schema object computed by the code under test):
         XSD via ElementTree, interpreted semantically (item type, min/max count, enumeration, facets, default tokens);
         MJCF[] table and constraint table via a row parser, and for some cases additionally compiled with clang++ and
         dumped; keyword maps; dm_control XML tree.  Determinism: generate() twice in-process and in subprocesses under 3
         PYTHONHASHSEED values, byte-identical.  F2: metamorphic relations between the outputs for the real schema and for
         the edited schema (exactly the touched rows change, in the documented way).
Non-trivial : F1 schema has groups (use), an aliased element or a default context; F2 edit touches a bound attribute.
"""
import hashlib
import json
import os
import re
import shutil
import subprocess
import sys
import xml.etree.ElementTree as ET

from hypothesis import strategies as st

from vf import build as vb
from vf import gen_pytree as pt
from vf import gen_schemalang as sl
from vf.runner import Violation

WORK = '/verif/work/C42'
XS = '{http://www.w3.org/2001/XMLSchema}'
GENS_F1 = ['generate_xsd', 'generate_mjcf_table', 'generate_mjcf_map', 'generate_dmcontrol']
KIND_CHAR = {'exclusive': 'e', 'together': 't', 'requires': 'r', 'oneof': 'o'}    # legend printed in the generated table


def V(msg, bucket):
  return Violation(msg, bucket=bucket)


# ----------------------------------------------------------------------------------------------- model helpers
class M:
  """Expected facts derived from the abstract model only."""

  def __init__(self, model, dims):
    self.model = model
    self.dims = dims
    self.enums = {e['name']: e for e in model['enums']}
    self.groups = {g['name']: g for g in model['groups']}
    self.elements = {e['name']: e for e in model['elements']}
    self.order = dict(enum=[], group=[], element=[])
    for what, i in model['order']:
      self.order[what].append(model[what + 's'][i]['name'])

  def group_attrs(self, gname):
    out = []
    for m in self.groups[gname]['members']:
      if m['kind'] == 'attr':
        out.append(m)
      elif m['kind'] == 'use':
        out += self.group_attrs(m['group'])
    return out

  def attrs(self, ename, projected=False):
    out = []
    for m in self.elements[ename]['members']:
      if m['kind'] == 'attr':
        out.append(m)
      elif m['kind'] == 'use':
        out += self.group_attrs(m['group'])
    if projected:
      out = [a for a in out if a['name'] not in ('name', 'class') and not self.facet(a, 'nodefault')]
    return out

  def constraints(self, ename):
    e = self.elements[ename]
    cons = [m for m in e['members'] if m['kind'] == 'con']
    seen, todo = set(), [m['group'] for m in e['members'] if m['kind'] == 'use']
    while todo:
      g = todo.pop()
      if g in seen:
        continue
      seen.add(g)
      for m in self.groups[g]['members']:
        if m['kind'] == 'con':
          cons.append(m)
        elif m['kind'] == 'use':
          todo.append(m['group'])
    return cons

  def children(self, ename):
    return [m for m in self.elements[ename]['members'] if m['kind'] == 'child']

  @staticmethod
  def facet(a, name):
    for k, v in a['facets']:
      if k == name:
        return sl.expected_value(v)
    return None

  def efacet(self, ename, name):
    for k, v in self.elements[ename]['facets']:
      if k == name:
        return sl.expected_value(v)
    return None

  def tag(self, ename):
    return self.efacet(ename, 'xml') or ename

  def arity(self, a):
    lo, hi = sl.expected_arity(a)
    if isinstance(hi, str):
      hi = self.dims[hi]
    return lo, hi

  def default_tokens(self, a):
    d = sl.expected_value(a['default'])
    if d is None:
      return None
    if isinstance(d, tuple):
      return list(d)
    return [d]


def num_token_ok(tok, value):
  """Documented formatting: 'the shortest exact way: 2.0 -> "2"'; exactness is what matters."""
  try:
    if float(tok) != value:
      return False
  except ValueError:
    return False
  if value == int(value) and abs(value) < 1e15:
    return tok == str(int(value))
  return True


def check_default(a, text, mm, where, bucket):
  want = mm.default_tokens(a)
  if want is None:
    if text is not None:
      raise V('%s: default %r emitted but the schema declares none' % (where, text), bucket)
    return
  if text is None:
    raise V('%s: declared default %r missing' % (where, want), bucket)
  if isinstance(want[0], str):
    if text != want[0]:
      raise V('%s: default %r, schema says %r' % (where, text, want[0]), bucket)
    return
  toks = text.split()
  if len(toks) != len(want) or not all(num_token_ok(t, v) for t, v in zip(toks, want)):
    raise V('%s: default %r, schema says %r' % (where, text, want), bucket)


# ----------------------------------------------------------------------------------------------- XSD
def xsd_sem(root, simple, node):
  """Semantics of an xs:attribute: dict(kind, base, lo, hi, enum, facets)."""
  def restriction_facets(r):
    f = {}
    for ch in r:
      t = ch.tag.replace(XS, '')
      if t in ('minInclusive', 'maxInclusive', 'minExclusive', 'pattern', 'length', 'minLength', 'maxLength'):
        f[t] = ch.get('value')
    return f

  def named(tname):
    if tname.startswith('xs:'):
      return dict(kind='scalar', base=tname, facets={})
    stn = simple.get(tname)
    if stn is None:
      raise V('XSD references undefined type %r' % tname, 'xsd-dangling-type')
    return simple_sem(stn)

  def simple_sem(stn):
    lst = stn.find(XS + 'list')
    if lst is not None:
      item = named(lst.get('itemType'))
      return dict(kind='list', item=item, lo=0, hi=None)
    r = stn.find(XS + 'restriction')
    if r is None:
      raise V('XSD simpleType without list/restriction', 'xsd-shape')
    enums = [e.get('value') for e in r.findall(XS + 'enumeration')]
    if enums:
      return dict(kind='kw', base=r.get('base'), enum=enums)
    inner = r.find(XS + 'simpleType')
    f = restriction_facets(r)
    if inner is not None:
      s = simple_sem(inner)
      if s['kind'] != 'list':
        raise V('XSD restriction of a non-list anonymous type', 'xsd-shape')
      if 'length' in f:
        s['lo'] = s['hi'] = int(f['length'])
      if 'minLength' in f:
        s['lo'] = int(f['minLength'])
      if 'maxLength' in f:
        s['hi'] = int(f['maxLength'])
      return s
    return dict(kind='scalar', base=r.get('base'), facets=f)
  if node.get('type'):
    return named(node.get('type'))
  stn = node.find(XS + 'simpleType')
  if stn is None:
    raise V('xs:attribute %r without type' % node.get('name'), 'xsd-shape')
  return simple_sem(stn)


def check_xsd(text, mm):
  try:
    root = ET.fromstring(text.encode('utf-8'))
  except ET.ParseError as e:
    raise V('generated XSD is not well-formed XML: %s' % e, 'xsd-wellformed')
  simple = {n.get('name'): n for n in root.findall(XS + 'simpleType')}
  cplx = {n.get('name'): n for n in root.findall(XS + 'complexType')}
  if len(simple) != len(root.findall(XS + 'simpleType')) or len(cplx) != len(root.findall(XS + 'complexType')):
    raise V('XSD declares a type name twice', 'xsd-duplicate-type')
  tops = root.findall(XS + 'element')
  if [(t.get('name'), t.get('type')) for t in tops] != [('mujoco', 'mujoco')]:
    raise V('XSD top-level elements %r' % [(t.get('name'), t.get('type')) for t in tops], 'xsd-root')
  # keyword types
  flags_targets = set(a['target'] for e in mm.elements for a in mm.attrs(e) if a['type'] == 'flags')
  for e in mm.model['enums']:
    n = simple.get('kw_' + e['name'])
    if n is None:
      raise V('XSD lacks keyword type for enum %s' % e['name'], 'xsd-enum')
    got = [x.get('value') for x in n.iter(XS + 'enumeration')]
    if got != [k for k, q, v in e['items']]:
      raise V('XSD enum %s keywords %r, schema %r' % (e['name'], got, [k for k, q, v in e['items']]), 'xsd-enum')
    if (('kwlist_' + e['name']) in simple) != (e['name'] in flags_targets):
      raise V('XSD kwlist_%s presence wrong' % e['name'], 'xsd-enum')
  # expected complex types by walking from the root
  expected = {}
  todo = [('mujoco', False)]
  while todo:
    name, proj = todo.pop(0)
    if (name, proj) in expected:
      continue
    kids = []
    for c in mm.children(name):
      if proj and c['name'] == 'plugin':
        continue
      target, tag = c['name'], mm.tag(c['name'])
      if name == 'mujoco' and c['name'] == 'body':
        target, tag = 'worldbody', 'worldbody'
      cproj = proj or (name == 'default' and not c['name'].startswith('default_') and c['name'] != 'default')
      kids.append((tag, ('default_' if cproj else '') + target))
      todo.append((target, cproj))
    expected[(name, proj)] = kids
  want_types = set(('default_' if p else '') + n for n, p in expected) | {'include'}
  if set(cplx) != want_types:
    raise V('XSD complexTypes: missing %s, extra %s' % (sorted(want_types - set(cplx)), sorted(set(cplx) - want_types)),
            'xsd-elements')
  for (name, proj), kids in expected.items():
    tname = ('default_' if proj else '') + name
    node = cplx[tname]
    choice = node.find(XS + 'choice')
    got = [(x.get('name'), x.get('type')) for x in choice.findall(XS + 'element')] if choice is not None else []
    want = kids + [('include', 'include')] if kids else []
    if got != want:
      raise V('XSD type %s children %r, schema %r' % (tname, got, want), 'xsd-children')
    if choice is not None and (choice.get('minOccurs') != '0' or choice.get('maxOccurs') != 'unbounded'):
      raise V('XSD type %s: content model must be an unbounded choice (never reject a legal model); got minOccurs=%r '
              'maxOccurs=%r' % (tname, choice.get('minOccurs'), choice.get('maxOccurs')), 'xsd-occurs')
    attrs = mm.attrs(name, proj)
    nodes = node.findall(XS + 'attribute')
    if [n.get('name') for n in nodes] != [a['name'] for a in attrs]:
      raise V('XSD type %s attributes %r, schema (expanded%s) %r' % (tname, [n.get('name') for n in nodes],
              ', projected' if proj else '', [a['name'] for a in attrs]), 'xsd-attributes')
    docs = [d.text for d in node.findall(XS + 'annotation/' + XS + 'documentation')]
    for con in mm.constraints(name):
      spec = ', '.join('+'.join(b) for b in con['bundles'])
      if not any(d and d.startswith('constraint:') and d.endswith(': ' + spec) for d in docs):
        raise V('XSD type %s: constraint %s %s not documented' % (tname, con['verb'], spec), 'xsd-constraint-doc')
    for c in mm.children(name):
      if not any(d and ('%s (%s)' % (c['name'], c['card'])) in d for d in docs):
        raise V('XSD type %s: child cardinality %s (%s) not documented' % (tname, c['name'], c['card']), 'xsd-card-doc')
    for a, n in zip(attrs, nodes):
      w = 'XSD %s@%s' % (tname, a['name'])
      sem = xsd_sem(root, simple, n)
      t = a['type']
      lo, hi = mm.arity(a)
      if t == 'bool':
        ok = sem['kind'] == 'kw' and sorted(sem['enum']) == ['false', 'true']
      elif t == 'enum':
        ok = sem['kind'] == 'kw' and sem['enum'] == [k for k, q, v in mm.enums[a['target']]['items']]
      elif t == 'flags':
        ok = sem['kind'] == 'list' and sem['item']['kind'] == 'kw' and sem['item']['enum'] == [
            k for k, q, v in mm.enums[a['target']]['items']]
      elif t in ('string', 'file', 'ref', 'id'):
        ok = sem['kind'] == 'scalar' and sem['base'] == 'xs:string' and not (set(sem['facets']) - {'pattern'})
      elif t == 'chars':
        f = sem.get('facets', {})
        ok = sem['kind'] == 'scalar' and sem['base'] == 'xs:string'
        pat = M.facet(a, 'pattern')
        if ok and pat is not None:
          ok = f.get('pattern') == pat
        elif ok:
          flo = int(f.get('length', f.get('minLength', -1)))
          fhi = int(f.get('length', f.get('maxLength', -1)))
          ok = (flo, fhi) == (lo, hi)
      else:
        base = {'int': 'xs:int', 'double': 'xs:double', 'float': 'xs:float'}[t]
        if (lo, hi) == (1, 1):
          ok = sem['kind'] == 'scalar' and sem['base'] == base
          f = sem.get('facets', {})
          for fac, key in (('min', 'minInclusive'), ('max', 'maxInclusive')):
            v = M.facet(a, fac)
            if ok and ((v is None) != (key not in f) or (v is not None and float(f[key]) != v)):
              ok = False
          if ok and bool(M.facet(a, 'positive')) != (f.get('minExclusive') == '0'):
            ok = False
        else:
          ok = sem['kind'] == 'list' and sem['item'].get('base') == base and (sem['lo'], sem['hi']) == (lo, hi)
      if not ok:
        raise V('%s: XSD type %r does not represent %s%s facets=%r' % (w, sem, t, sl._arity_txt(a['arity']), a['facets']), 'xsd-type')
      if (n.get('use') == 'required') != bool(M.facet(a, 'required')):
        raise V('%s: use=%r but required facet is %r' % (w, n.get('use'), M.facet(a, 'required')), 'xsd-required')
      check_default(a, n.get('default'), mm, w, 'xsd-default')
      d = n.find(XS + 'annotation/' + XS + 'documentation')
      if (d.text if d is not None else None) != a['doc']:
        raise V('%s: documentation %r, schema doc %r' % (w, d.text if d is not None else None, a['doc']), 'xsd-doc')


# ----------------------------------------------------------------------------------------------- MJCF table
def parse_table(text):
  m = re.search(r'std::vector<const char\*> MJCF\[\] = \{\n(.*?)\n\};', text, re.S)
  if not m:
    raise V('MJCF[] initialiser not found', 'table-shape')
  rows = [re.findall(r'"([^"]*)"', r) for r in re.findall(r'\{([^{}]*)\}', m.group(1))]
  m2 = re.search(r'MJCF_constraints\[\] = \{\n(.*?)\n?\};', text, re.S)
  cons = [(int(a), b, c) for a, b, c in re.findall(r"\{(\d+), '(\w)', \"([^\"]*)\"\}", m2.group(1))] if m2 else None
  if cons is None:
    raise V('MJCF_constraints[] initialiser not found', 'table-shape')
  return rows, cons


def expected_table(mm):
  rows, cons = [], []

  def visit(name, card, proj):
    attrs = [a['name'] for a in mm.attrs(name, proj)]
    idx = len(rows)
    rows.append([mm.tag(name), card] + attrs)
    for con in mm.constraints(name):
      if all(n in attrs for b in con['bundles'] for n in b):
        cons.append((idx, KIND_CHAR[con['verb']], '|'.join(' '.join(b) for b in con['bundles'])))
    kids = [c for c in mm.children(name) if c['name'] != name and mm.efacet(c['name'], 'alias') is None and not (
        proj and c['name'] == 'plugin')]
    if kids:
      rows.append(['<'])
      for c in kids:
        visit(c['name'], c['card'], proj or (name == 'default' and not c['name'].startswith('default_')))
      rows.append(['>'])
  visit('mujoco', '!', False)
  return rows, cons


def check_table(text, mm):
  rows, cons = parse_table(text)
  wrows, wcons = expected_table(mm)
  if rows != wrows:
    for i, (a, b) in enumerate(zip(rows + [None] * len(wrows), wrows + [None] * len(rows))):
      if a != b:
        raise V('MJCF[] entry %d is %r, schema gives %r' % (i, a, b), 'table-rows')
  if sorted(cons) != sorted(wcons):
    raise V('MJCF_constraints: got %r, schema gives %r' % (sorted(set(cons) - set(wcons)), sorted(set(wcons) - set(cons))),
            'table-constraints')
  if not re.search(r'const int nMJCF = sizeof\(MJCF\) / sizeof\(MJCF\[0\]\);', text):
    raise V('nMJCF definition missing', 'table-shape')
  for line in text.splitlines():
    if len(line) > 100:
      raise V('table line longer than the documented wrap width 100: %r' % line[:120], 'table-wrap')
  return rows, cons


DUMP_CC = r'''
#include <cstdio>
#include <vector>
struct mjXConstraintDef { int row; char kind; const char* spec; };
#include "%s"
int main() {
  for (int i = 0; i < nMJCF; i++) { std::printf("R"); for (const char* s : MJCF[i]) std::printf("\t%%s", s); std::printf("\n"); }
  for (int i = 0; i < nMJCF_constraints; i++)
    std::printf("C\t%%d\t%%c\t%%s\n", MJCF_constraints[i].row, MJCF_constraints[i].kind, MJCF_constraints[i].spec);
  return 0;
}
'''


def compile_table(text, rows, cons, tag):
  d = os.path.join(WORK, 'cc_' + tag)
  os.makedirs(d, exist_ok=True)
  try:
    with open(os.path.join(d, 'table.inc'), 'w') as f:
      f.write(text)
    with open(os.path.join(d, 'dump.cc'), 'w') as f:
      f.write(DUMP_CC % 'table.inc')
    p = subprocess.run(['clang++', '-std=c++17', '-O0', '-w', 'dump.cc', '-o', 'dump'], cwd=d, capture_output=True, text=True)
    if p.returncode != 0:
      raise V('generated mjcf_table.inc does not compile: %s' % p.stderr[:600], 'table-compile')
    out = subprocess.run(['./dump'], cwd=d, capture_output=True, text=True).stdout.splitlines()
    got_rows = [l.split('\t')[1:] for l in out if l.startswith('R')]
    got_cons = [(int(l.split('\t')[1]), l.split('\t')[2], l.split('\t')[3]) for l in out if l.startswith('C')]
    if got_rows != rows or got_cons != cons:
      raise V('compiled MJCF[] table differs from its text-level parse', 'table-compile')
  finally:
    shutil.rmtree(d, ignore_errors=True)


# ----------------------------------------------------------------------------------------------- keyword maps
def check_map(text, mm):
  blocks = re.findall(r'// enum (\w+)\ninline constexpr mjMap (\w+)_map\[\] = \{\n(.*?)\n\};\ninline constexpr int (\w+)_sz = (\d+);',
                      text, re.S)
  got = [(b[0], b[1], b[3], re.findall(r'\{"([^"]*)",\s*([^}]*?)\}', b[2]), int(b[4])) for b in blocks]
  want = []
  for name in mm.order['enum']:
    e = mm.enums[name]
    want.append((name, name, name, [(k, v) for k, q, v in e['items']], len(e['items'])))
  if got != want:
    raise V('keyword maps: got %r, schema gives %r' % ([g for g in got if g not in want][:2], [w for w in want if w not in got][:2]),
            'map')
  if text.count('inline constexpr mjMap ') != len(want) + 1:      # + bool_map
    raise V('keyword map header declares %d maps, schema has %d enums' % (text.count('inline constexpr mjMap ') - 1, len(want)), 'map')


# ----------------------------------------------------------------------------------------------- dm_control
def check_dmcontrol(text, mm):
  try:
    root = ET.fromstring(text.encode('utf-8'))
  except ET.ParseError as e:
    raise V('generated dm_control schema is not well-formed XML: %s' % e, 'dm-wellformed')

  def first_id(name):
    for a in mm.attrs(name):
      if a['type'] == 'id':
        return a['target']
    return None

  def check_attr(a, n, w, names):
    t = a['type']
    lo, hi = mm.arity(a)
    ty = n.get('type')
    if t in ('enum', 'bool'):
      kws = ['false', 'true'] if t == 'bool' else [k for k, q, v in mm.enums[a['target']]['items']]
      ok = ty == 'keyword' and (n.get('valid_values') or '').split(' ') == kws if all(' ' not in k for k in kws) else (
          ty == 'keyword' and n.get('valid_values') == ' '.join(kws))
    elif t == 'id':
      ok = ty == 'identifier'
    elif t == 'ref':
      ok = ty == 'reference' and n.get('reference_namespace') == a['target']
    elif t == 'file':
      ok = ty == 'file'
    elif t in ('string', 'chars', 'flags'):
      ok = ty == 'string'
    else:
      base = 'int' if t == 'int' else 'float'
      if (lo, hi) == (1, 1):
        ok = ty == base
      else:
        ok = ty == 'array' and n.get('array_type') == base and n.get('array_size') == (None if hi is None else str(hi))
    if not ok:
      raise V('%s: dm_control attribute %r does not represent %s%s' % (w, n.attrib, t, sl._arity_txt(a['arity'])), 'dm-type')
    if (n.get('required') == 'true') != bool(M.facet(a, 'required')):
      raise V('%s: required=%r vs facet %r' % (w, n.get('required'), M.facet(a, 'required')), 'dm-required')
    check_default(a, n.get('default'), mm, w, 'dm-default')
    extra = set(n.attrib) - {'name', 'type', 'valid_values', 'reference_namespace', 'array_type', 'array_size', 'required',
                             'default', 'path_namespace'}
    if extra:
      raise V('%s: unexpected attribute properties %r' % (w, sorted(extra)), 'dm-extra')

  def walk(node, name, tag, card, proj, parent, path):
    w = 'dm_control ' + '/'.join(path + [tag])
    if node.tag != 'element' or node.get('name') != tag:
      raise V('%s: found <%s name=%r>' % (w, node.tag, node.get('name')), 'dm-tree')
    selfrec = any(c['name'] == name for c in mm.children(name))
    top_default = name == 'default' and parent == 'mujoco'
    if (node.get('recursive') == 'true') != (selfrec and not top_default):
      raise V('%s: recursive=%r, self child %r' % (w, node.get('recursive'), selfrec), 'dm-recursive')
    want_rep = card in ('*', 'R') and not top_default and not (parent == 'mujoco' and tag in ('default', 'worldbody'))
    if (node.get('repeated') == 'true') != want_rep:
      raise V('%s: repeated=%r for cardinality %r' % (w, node.get('repeated'), card), 'dm-repeated')
    ns = first_id(name)
    if node.get('namespace') != (ns if ns and ns != tag else None):
      raise V('%s: namespace=%r, first id<> target %r' % (w, node.get('namespace'), ns), 'dm-namespace')
    attrs = mm.attrs(name, proj)
    an = node.find('attributes')
    nodes = list(an) if an is not None else []
    if [x.get('name') for x in nodes] != [a['name'] for a in attrs]:
      raise V('%s: attributes %r, schema %r' % (w, [x.get('name') for x in nodes], [a['name'] for a in attrs]), 'dm-attributes')
    for a, x in zip(attrs, nodes):
      check_attr(a, x, w + '@' + a['name'], set(y['name'] for y in attrs))
    want = []
    for c in mm.children(name):
      if c['name'] == name:
        if top_default:
          want.append((name, tag, c['card'], proj, True))
        continue
      target, ctag = c['name'], mm.tag(c['name'])
      if name == 'mujoco' and c['name'] == 'body':
        target, ctag = 'worldbody', 'worldbody'
      if proj and c['name'] == 'plugin':
        continue
      cproj = proj or (name == 'default' and not c['name'].startswith('default_') and c['name'] != 'default')
      want.append((target, ctag, c['card'], cproj, False))
    cn = node.find('children')
    kids = list(cn) if cn is not None else []
    if len(kids) != len(want):
      raise V('%s: %d child elements, schema gives %r' % (w, len(kids), [x[1] for x in want]), 'dm-tree')
    for k, (target, ctag, ccard, cproj, nested) in zip(kids, want):
      walk(k, target, ctag, ccard, cproj, name, path + [tag])
    if set(x.tag for x in node) - {'attributes', 'children'}:
      raise V('%s: unexpected sections' % w, 'dm-tree')
  walk(root, 'mujoco', 'mujoco', '!', False, None, [])


# ----------------------------------------------------------------------------------------------- running generators
def load_generators():
  mods = {}
  for g in GENS_F1 + ['generate_read_table', 'generate_default_table']:
    mods[g] = pt.docgen(g)
  return mods


def run_gen(mod, path):
  mod.SCHEMA_PATH = path
  return mod.generate()


RUNNER = r'''
import hashlib, json, sys
sys.path.insert(0, sys.argv[1] + '/doc/generate')
out = {}
for g in sys.argv[2].split(','):
  mod = __import__(g)
  for path in sys.argv[3:]:
    mod.SCHEMA_PATH = path
    try:
      out[g + '|' + path] = mod.generate()
    except Exception as e:
      out[g + '|' + path] = 'EXC ' + type(e).__name__ + ': ' + str(e)[:200]
print(json.dumps(out))
'''


def hashseed_hashes(gens, paths, hashseed):
  env = dict(os.environ, PYTHONHASHSEED=str(hashseed))
  p = subprocess.run([sys.executable, '-c', RUNNER, vb.REPO, ','.join(gens)] + paths, capture_output=True, text=True, env=env)
  if p.returncode != 0:
    raise RuntimeError('generator subprocess failed: ' + p.stderr[-1500:])
  return json.loads(p.stdout)


def parse_dims():
  text = open(os.path.join(vb.REPO, 'include', 'mujoco', 'mjmodel.h')).read()
  return {m.group(1): int(m.group(2)) for m in re.finditer(r'^#define\s+(mjN\w+)\s+(\d+)', text, re.M)}


# ----------------------------------------------------------------------------------------------- F2: real schema edits
def split_real_schema(text):
  """Line-level view of src/xml/mjcf.schema: list of blocks (kind, name, first, last) and attribute lines."""
  lines = text.split('\n')
  blocks = []
  cur = None
  for i, l in enumerate(lines):
    m = re.match(r'^(enum|group|element)\s+(\w+)', l)
    if m and cur is None:
      cur = [m.group(1), m.group(2), i, None]
      if l.rstrip().endswith('}') and '{' in l:
        cur[3] = i
        blocks.append(tuple(cur))
        cur = None
    elif cur is not None and l.startswith('}'):
      cur[3] = i
      blocks.append(tuple(cur))
      cur = None
  return lines, blocks


ATTR_LINE = re.compile(r'^(\s+)(\w+)(\s*):(\s*)([\w<>\[\].]+)(\s*=\s*(\{[^}]*\}|"[^"]*"|[-\w.+]+))?(\s*\([^)]*\))?(\s*#.*)?$')


def parse_read_rows(text):
  """{array name: [row text, ...]} of mjcf_read_table.inc / mjcf_default_table.inc."""
  out = {}
  for m in re.finditer(r'(?:inline constexpr mjXAttr|static const mjXDefaultEntry) (\w+)\[\] = \{\n(.*?)\n\};', text, re.S):
    out[m.group(1)] = [r.strip() for r in m.group(2).split('\n') if r.strip()]
  return out


def main(ck):
  os.makedirs(WORK, exist_ok=True)
  tag = '%d-%d' % (ck.seed, os.getpid())
  tmp = os.path.join(WORK, 'run_' + tag)
  shutil.rmtree(tmp, ignore_errors=True)
  os.makedirs(tmp)
  mods = load_generators()
  dims = parse_dims()
  for s in sl.SYMS:
    if s not in dims:
      raise RuntimeError('symbolic bound %s not in mjmodel.h of the tree' % s)
  ck.rule = ('F1: schemalang profile gen (root mujoco, tree of <=6 elements + optional default/default_sub/plugin/body+worldbody '
             'contexts, <=6 groups with nested use, aliases, xml tags); F2: single edits of the real mjcf.schema; non-trivial = '
             'F1 schema with use + (alias or default context), or F2 edit of a bound attribute; distinct by schema text')
  ck.assumptions = ['generate_read_table/default_table/schema bind to mjspec.h / XMLreference.rst and therefore only run on '
                    'edits of the real schema (metamorphic oracle), not on synthetic schemas',
                    'special contexts default / default_* / plugin / body->worldbody are taken from the generators\' own '
                    'documentation comments']
  saved = []
  nsaved = dict(multi=0, other=0)
  ncompiled = [0]
  max_compile = ck.budget(4, 60)

  def test_f1(case):
    model, style = case
    text, _ = sl.render(model, style)
    mm = M(model, dims)
    path = os.path.join(tmp, 'f1_%s.schema' % hashlib.sha256(text.encode()).hexdigest()[:12])
    with open(path, 'w') as f:
      f.write(text)
    outs = {}
    for g in GENS_F1:
      try:
        a = run_gen(mods[g], path)
        b = run_gen(mods[g], path)
      except Exception as e:
        raise V('%s raised %s: %s on a valid schema:\n%s' % (g, type(e).__name__, e, text), 'generator-exception-' + g)
      if a != b:
        raise V('%s is not deterministic (two in-process runs differ)' % g, 'determinism-' + g)
      outs[g] = a
    check_xsd(outs['generate_xsd'], mm)
    rows, cons = check_table(outs['generate_mjcf_table'], mm)
    check_map(outs['generate_mjcf_map'], mm)
    check_dmcontrol(outs['generate_dmcontrol'], mm)
    uses = any(m['kind'] == 'use' for e in model['elements'] for m in e['members'])
    nested = any(model['depth'][m['group']] >= 1 for e in model['elements'] for m in e['members'] if m['kind'] == 'use')
    alias = any(k == 'alias' for e in model['elements'] for k, v in e['facets'])
    dflt = 'default' in model['special']
    nt = uses and (alias or dflt)
    if nt and ncompiled[0] < max_compile:
      ncompiled[0] += 1
      compile_table(outs['generate_mjcf_table'], rows, cons, tag)
    # shape that makes iteration order observable: one element reaching >= 2 constraint-bearing groups through `use`
    def con_groups(ename):
      seen, todo, n = set(), [m['group'] for m in mm.elements[ename]['members'] if m['kind'] == 'use'], 0
      while todo:
        g = todo.pop()
        if g in seen:
          continue
        seen.add(g)
        n += any(m['kind'] == 'con' for m in mm.groups[g]['members'])
        todo += [m['group'] for m in mm.groups[g]['members'] if m['kind'] == 'use']
      return n
    multi = max(con_groups(e) for e in mm.elements) >= 2
    quota = nsaved['multi' if multi else 'other'] < (ck.budget(8, 40) if multi else ck.budget(4, 20))
    if path in [p_ for p_, _ in saved]:
      pass
    elif quota:
      nsaved['multi' if multi else 'other'] += 1
      saved.append((path, dict(outs)))       # full texts: compared byte for byte with the subprocess outputs
    else:
      os.unlink(path)
    labels = ['f1'] + ['f1:' + x for x, on in (('use', uses), ('nested-use', nested), ('alias', alias), ('default-ctx', dflt),
                                                ('body-worldbody', 'body' in model['special']),
                                                ('constraints', any(mm.constraints(e) for e in mm.elements)),
                                                ('xml-tag', any(mm.efacet(e, 'xml') for e in mm.elements)),
                                                ('multi-constraint-groups', multi)) if on]
    ck.case(nontrivial=nt, key=text, labels=labels, sample=dict(family='F1', special=model['special'], schema=text[:1200],
                                                               table_rows=len(rows), constraints=len(cons)) if nt else None)

  ck.run_hypothesis(test_f1, st.tuples(sl.valid_schema('gen'), st.integers(0, 59)), ck.budget(150, 2500), name='f1')
  ck.extra['tables_compiled_with_clang'] = ncompiled[0]

  # ---- determinism across PYTHONHASHSEED (subprocesses)
  saved = [(p, h) for p, h in saved if os.path.exists(p)]
  paths = [p for p, _ in saved]
  real = os.path.join(vb.REPO, 'src', 'xml', 'mjcf.schema')
  seeds = [0, 1, 4242]
  for hs in seeds:
    got = hashseed_hashes(GENS_F1, paths, hs)
    for p, want in saved:
      for g in GENS_F1:
        if got.get(g + '|' + p) != want[g]:          # byte-for-byte
          a_, b_ = (got.get(g + '|' + p) or '').split('\n'), want[g].split('\n')
          first = next((i for i, (x, y) in enumerate(zip(a_, b_)) if x != y), min(len(a_), len(b_)))
          ck.violation('%s output depends on PYTHONHASHSEED (subprocess with %d vs in-process with 0): first differing line '
                       '%d: %r vs %r' % (g, hs, first + 1, a_[first:first + 1], b_[first:first + 1]),
                       dict(schema=open(p).read(), generator=g, hashseed=hs), bucket='determinism-hashseed')
  real_hashes = [hashseed_hashes(GENS_F1 + ['generate_read_table', 'generate_default_table'], [real], hs) for hs in seeds]
  if not all(h == real_hashes[0] for h in real_hashes) or any(v.startswith('EXC') for v in real_hashes[0].values()):
    differing = sorted(k.split('|')[0] for k in real_hashes[0] if any(h.get(k) != real_hashes[0][k] for h in real_hashes))
    failing = dict((k.split('|')[0], v[:200]) for k, v in real_hashes[0].items() if v.startswith('EXC'))
    ck.violation('generators are not deterministic / fail on the real schema under different PYTHONHASHSEED: differing %r, '
                 'failing %r' % (differing, failing), dict(differing=differing, failing=failing), bucket='determinism-hashseed')
  ck.extra['hashseeds'] = seeds
  ck.extra['hashseed_schemas'] = len(paths) + 1
  ck.extra['hashseed_schemas_multi_constraint_groups'] = nsaved['multi']

  # ---- F2: edits of the real schema, metamorphic relations on read/default tables
  real_text = open(real).read()
  lines, blocks = split_real_schema(real_text)
  try:
    base_read = parse_read_rows(run_gen(mods['generate_read_table'], real))
    base_def_text = run_gen(mods['generate_default_table'], real)
    base_def = parse_read_rows(base_def_text)
    run_gen(mods['generate_mjcf_table'], real)
  except (Exception, RecursionError) as e:
    ck.violation('a generator fails on the real src/xml/mjcf.schema: %s: %s' % (type(e).__name__, str(e)[:300]),
                 dict(schema='src/xml/mjcf.schema'), bucket='real-schema-generation')
    shutil.rmtree(tmp, ignore_errors=True)
    return
  S = pt.docgen('mjcf_schema')
  schema = S.parse_file(real)
  grt = mods['generate_read_table']
  table_driven = set(grt.table_driven_elements(schema))      # names only: which elements have arrays at all
  # candidate attribute lines: directly declared in table-driven elements, with a row in the base output
  cands = []
  for kind, name, a, b in blocks:
    if kind != 'element' or name not in table_driven:
      continue
    arr = grt.array_name(name)
    for i in range(a + 1, b):
      m = ATTR_LINE.match(lines[i])
      if not m or m.group(2) in ('use', 'child', 'set', 'exclusive', 'together', 'requires', 'oneof'):
        continue
      rows = [r for r in base_read.get(arr, []) if r.startswith('{"%s",' % m.group(2))]
      if len(rows) == 1:
        cands.append((name, arr, i, m.group(2), rows[0]))
  if len(cands) < 100:
    raise RuntimeError('F2: only %d editable attribute lines found in the real schema' % len(cands))

  cands_default = [c for c in cands if (lambda m: m.group(7) and re.match(r'^-?[\d.]+(e-?\d+)?$', m.group(7)) and
                                        m.group(5) in ('double', 'float', 'int'))(ATTR_LINE.match(lines[c[2]]))]
  ck.extra['f2_candidates_with_scalar_default'] = len(cands_default)

  # generate_schema.py has no SCHEMA_PATH: it reads <root>/src/xml/generated/mjcf_table.inc and <root>/doc/XMLreference.rst
  # relative to its own location, so a copy of the tree's file is loaded from a scratch root whose table is generated
  # from the (edited) schema.
  import importlib.util
  root = os.path.join(tmp, 'root')
  for d in ('doc/generate', 'src/xml/generated'):
    os.makedirs(os.path.join(root, d))
  shutil.copy(os.path.join(vb.REPO, 'doc', 'generate', 'generate_schema.py'), os.path.join(root, 'doc', 'generate'))
  shutil.copy(os.path.join(vb.REPO, 'doc', 'XMLreference.rst'), os.path.join(root, 'doc'))
  spec = importlib.util.spec_from_file_location('vf_generate_schema', os.path.join(root, 'doc', 'generate', 'generate_schema.py'))
  gs = importlib.util.module_from_spec(spec)
  spec.loader.exec_module(gs)

  def rst_for(schema_path):
    table = run_gen(mods['generate_mjcf_table'], schema_path)
    with open(os.path.join(root, 'src', 'xml', 'generated', 'mjcf_table.inc'), 'w') as f:
      f.write(table)
    return gs.generate(), parse_table(table)[0]
  base_rst, base_rows = rst_for(real)
  if base_rst != gs.generate():
    ck.violation('generate_schema is not deterministic', dict(), bucket='determinism-generate_schema')
  checked_in = os.path.join(vb.REPO, 'doc', 'XMLschema.rst')
  ck.extra['generate_schema_matches_checked_in'] = os.path.exists(checked_in) and open(checked_in).read() == base_rst

  def gen_edited(new_lines, what):
    path = os.path.join(tmp, 'f2_%s.schema' % hashlib.sha256('\n'.join(new_lines).encode()).hexdigest()[:12])
    with open(path, 'w') as f:
      f.write('\n'.join(new_lines))
    try:
      rd = parse_read_rows(run_gen(mods['generate_read_table'], path))
      df = parse_read_rows(run_gen(mods['generate_default_table'], path))
      last_rst[:] = list(rst_for(path)) if what == 'delete' else [None, None]
    except Exception as e:
      os.unlink(path)
      return None, None, '%s: %s' % (type(e).__name__, e)
    os.unlink(path)
    return rd, df, None
  last_rst = [None, None]

  def diff_rows(a, b):
    """arrays whose row lists differ"""
    return sorted(k for k in set(a) | set(b) if a.get(k) != b.get(k))

  def test_f2(case):
    idx, op, val = case
    pool = cands_default if (op == 'default' and cands_default) else cands
    name, arr, i, attr, row = pool[idx % len(pool)]
    m = ATTR_LINE.match(lines[i])
    new = list(lines)
    cols = [c.strip() for c in row.strip('{},').split(',')]
    label = 'f2:' + op
    if op == 'delete':
      # constraints naming the attribute must go as well (otherwise the schema is invalid)
      blk = [b for b in blocks if b[1] == name and b[0] == 'element'][0]
      for j in range(blk[2], blk[3]):
        if re.match(r'^\s+(exclusive|together|requires|oneof)\s', new[j]) and re.search(r'\b%s\b' % attr, new[j]):
          new[j] = ''
      new[i] = ''
      rd, df, err = gen_edited(new, op)
      if err:
        ck.discard('f2:edit-rejected')
        return
      want = dict(base_read)
      want[arr] = [r for r in base_read[arr] if r != row]
      if not want[arr]:
        ck.discard('f2:array-vanishes')
        return
      if rd != want:
        raise V('deleting %s.%s from the schema must remove exactly its row from %s; arrays that differ: %r' % (
            name, attr, arr, diff_rows(rd, want)), 'f2-read-delete')
      for k in diff_rows(df, base_def):
        gone = [r for r in base_def.get(k, []) if r not in df.get(k, [])]
        added = [r for r in df.get(k, []) if r not in base_def.get(k, [])]
        if added or any(not r.startswith('{"%s",' % attr) for r in gone):
          raise V('deleting %s.%s changed default-table rows of other attributes in %s: -%r +%r' % (name, attr, k, gone[:2], added[:2]),
                  'f2-default-delete')
      # XMLschema.rst (generate_schema): exactly the references to this attribute disappear, one per table row that lost it
      import collections
      rst, rows2 = last_rst
      b_, n_ = collections.Counter(base_rst.split('\n')), collections.Counter(rst.split('\n'))
      added_l, removed_l = list((n_ - b_).elements()), list((b_ - n_).elements())
      refs = [l for l in removed_l if ':ref:`' in l]
      other = [l for l in removed_l if l.strip() and ':ref:`' not in l and '.. grid-item::' not in l and '.. grid::' not in l
               and ':gutter:' not in l]
      tagname = schema.elements[name].xml_name()
      lost = sum(1 for r in base_rows if r and r[0] == tagname and attr in r[2:]) - sum(
          1 for r in rows2 if r and r[0] == tagname and attr in r[2:])
      if added_l or other or any(not re.search(r':ref:`%s<[^>]*-%s>`' % (attr, attr), l) for l in refs) or len(refs) != lost:
        raise V('deleting %s.%s: XMLschema.rst must lose exactly the %d references to it; removed refs %r, other removed %r, '
                'added %r' % (name, attr, lost, refs[:3], other[:3], added_l[:3]), 'f2-rst-delete')
    elif op == 'swap':
      # swap with the next attribute line of the same element, if any
      blk = [b for b in blocks if b[1] == name and b[0] == 'element'][0]
      j = next((j for j in range(i + 1, blk[3]) if ATTR_LINE.match(lines[j]) and any(c[2] == j for c in cands)), None)
      if j is None:
        ck.discard('f2:no-swap-partner')
        return
      new[i], new[j] = new[j], new[i]
      rd, df, err = gen_edited(new, op)
      if err:
        ck.discard('f2:edit-rejected')
        return
      other = [c for c in cands if c[2] == j][0]
      w = list(base_read[arr])
      a_, b_ = w.index(row), w.index(other[4])
      w[a_], w[b_] = w[b_], w[a_]
      want = dict(base_read)
      want[arr] = w
      if rd != want:
        raise V('swapping %s.%s and %s.%s must swap exactly their rows in %s; arrays that differ: %r' % (
            name, attr, name, other[3], arr, diff_rows(rd, want)), 'f2-read-order')
    elif op in ('required', 'nodefault', 'writing'):
      col = {'required': 4, 'nodefault': 5, 'writing': 6}[op]
      fac = m.group(8) or ''
      if re.search(r'\b%s\b' % op, fac) or (op == 'required' and m.group(6)) or 'kName' in row:
        ck.discard('f2:facet-present')
        return
      add = 'writing=custom' if op == 'writing' else op
      newfac = (' (' + fac.strip()[1:-1] + ', ' + add + ')') if fac.strip() else ' (%s)' % add
      new[i] = '%s%s%s:%s%s%s%s%s' % (m.group(1), m.group(2), m.group(3), m.group(4), m.group(5), m.group(6) or '', newfac,
                                      m.group(9) or '')
      rd, df, err = gen_edited(new, op)
      if err:
        ck.discard('f2:edit-rejected')
        return
      cols2 = list(cols)
      if cols2[col] != 'false':
        ck.discard('f2:facet-present')
        return
      cols2[col] = 'true'
      want = dict(base_read)
      want[arr] = [('{' + ', '.join(cols2) + '},') if r == row else r for r in base_read[arr]]
      if rd != want:
        raise V('adding facet %s to %s.%s must flip exactly column %d of its row in %s; arrays that differ: %r, row now %r' % (
            op, name, attr, col, arr, diff_rows(rd, want), [r for r in rd.get(arr, []) if r.startswith('{"%s",' % attr)]),
            'f2-read-facet')
    else:   # numeric default change
      d = m.group(7)
      if not d or not re.match(r'^-?[\d.]+(e-?\d+)?$', d) or not re.match(r'^(double|float|int)$', m.group(5)):
        ck.discard('f2:no-scalar-default')
        return
      newv = {'int': ['3', '7', '11'], 'double': ['0.125', '1e-05', '2.5'], 'float': ['0.125', '1e-05', '2.5']}[m.group(5)][val % 3]
      if float(newv) == float(d):
        ck.discard('f2:same-default')
        return
      new[i] = lines[i].replace('= ' + d, '= ' + newv, 1) if ('= ' + d) in lines[i] else None
      if new[i] is None:
        ck.discard('f2:default-spelling')
        return
      rd, df, err = gen_edited(new, op)
      if err:
        ck.discard('f2:edit-rejected')      # e.g. conflicting defaults for a field shared by several elements
        return
      if rd != base_read:
        raise V('changing the default of %s.%s changed the read table: %r' % (name, attr, diff_rows(rd, base_read)), 'f2-read-default')
      changed = [(k, r, r2) for k in diff_rows(df, base_def) for r, r2 in zip(base_def.get(k, []), df.get(k, [])) if r != r2]
      if any(len(df.get(k, [])) != len(base_def.get(k, [])) for k in diff_rows(df, base_def)) or len(changed) != 1:
        raise V('changing the default of %s.%s must change exactly one default-table row; changed: %r' % (name, attr, changed[:3]),
                'f2-default-value')
      k, r, r2 = changed[0]
      mv = re.search(r'\{([^{}]*)\}\},?$', r2)
      vals = [x.strip() for x in mv.group(1).split(',')] if mv else []
      if not r2.startswith('{"%s",' % attr) or not vals or float(vals[0]) != float(newv):
        raise V('default-table row for %s.%s is %r after setting the default to %s' % (name, attr, r2, newv), 'f2-default-value')
      if re.sub(r'\{[^{}]*\}\},?$', '', r2).rsplit(',', 3)[0] != re.sub(r'\{[^{}]*\}\},?$', '', r).rsplit(',', 3)[0]:
        raise V('default-table row for %s.%s changed outside ndecl/values: %r -> %r' % (name, attr, r, r2), 'f2-default-value')
      label += ':' + m.group(5)
    ck.case(nontrivial=True, key=(name, attr, op, val if op == 'default' else 0), labels=['f2', label],
            sample=dict(family='F2', edit=op, element=name, attribute=attr, row=row))

  ops = st.sampled_from(['delete', 'delete', 'swap', 'required', 'nodefault', 'writing', 'default', 'default'])
  ck.run_hypothesis(test_f2, st.tuples(st.integers(0, 10 ** 6), ops, st.integers(0, 2)), ck.budget(80, 1500), name='f2')
  ck.extra['f2_candidate_attributes'] = len(cands)
  shutil.rmtree(tmp, ignore_errors=True)


LEVEL = 'exploration'
TECHNIQUE = ('grammar-based property testing: generated valid schemas -> generators -> outputs parsed back (ElementTree, row '
             'parser, clang++ compile+dump) and compared with the abstract model; determinism under PYTHONHASHSEED in '
             'subprocesses; metamorphic testing of the struct-bound generators on edits of the real schema')
LEVEL_TEXT = '''F1: synthetic valid schemas (root mujoco, nested groups, aliases, default/plugin/worldbody contexts) are written
to /verif/work/C42 and fed to generate_xsd / generate_mjcf_table / generate_mjcf_map / generate_dmcontrol of the tree through
their SCHEMA_PATH; every output is parsed back and compared with the abstract model that produced the text: every element
and expanded attribute with type, arity, default, required flag, enum keywords and constants, constraints, and nothing
extra; some tables are also compiled with clang++ and dumped. Outputs must be byte-identical across runs and across three
PYTHONHASHSEED values. F2: single edits of the real mjcf.schema (delete/swap attributes, add facets, change numeric
defaults) must change exactly the corresponding rows of mjcf_read_table.inc / mjcf_default_table.inc.'''
LEVEL_NOTE = '''Trusted: the abstract model and renderer of vf/gen_schemalang.py, ElementTree, clang++. generate_read_table,
generate_default_table bind to mjspec.h and cannot run on synthetic schemas; they are judged by metamorphic relations on the
real schema only. generate_schema.py has no SCHEMA_PATH (it reads mjcf_table.inc and XMLreference.rst relative to its own
path and needs a link target per element/attribute): a copy of the tree's file runs from a scratch root on tables generated
from attribute-deleting edits of the real schema (metamorphic: exactly the references to the deleted attribute vanish).'''
