"""C43 - MJX reproduces the MuJoCo C engine.

Domain : generated models restricted to the feature set MJX-JAX accepts (vf/gen_mjx.py; doc/mjx.rst table + io.py
         gates) x batches of states/controls; integrators Euler/RK4/implicitfast, Newton solver, pyramidal/elliptic
         cones; three feature-pinned templates (capsule-capsule + elliptic/impratio, tendons, RK4 + stateful
         actuators); plus a family with exactly one deliberately unsupported feature (gate).
Oracle : differential. The same XML and state go through (a) the tree's MJX (jit+vmap, float64 CPU), (b) the tree's
         C engine (ctypes).  MJX needs mujoco.MjModel of the installed wheel: guard = every model array MJX consumes
         must equal the tree-compiled one, else the case is dropped as 'version-skew'.
         Compared: kinematics, com/inertia quantities, dense M, bias/passive/actuator forces, tendon and actuator
         lengths/moments, contacts (matched by geom pair), efc rows (matched by content), qacc_smooth, qacc,
         qfrc_constraint, sensordata, and qpos/qvel/act/time after step.
Non-trivial: nv >= 3 and (an active contact in some state, or a tendon / equality in the model).
"""
import collections
import os

import numpy as np
from hypothesis import strategies as st

from vf import gen_mjx as gx
from vf import mjxload
from vf import modelgen as mg
from vf.runner import Violation

EPS = 2.220446049250313e-16

# ---- tolerances: norm-wise relative error  max|a-b| / (1 + max(|a|,|b|)) per array.
# Calibration on the unchanged tree (quick seeds 1-3 + three thorough runs of ~100-160 models x 12 states, float64 CPU,
# XLA opt level 0); worst observed: kinematics/com 1.2e-15, cinert 1.4e-15, M 4.5e-15, forces 2.3e-14, qacc_smooth
# 1.3e-13 (cond(M) up to 4.6e4), analytic contacts 1.1e-15, efc rows 1.1e-12, sensors pos/vel 3.9e-15;
# solver-dependent (divided by cond(M)): qfrc_constraint 7e-9, step.qvel 4e-9, qacc 1e-9, acc sensors 1.8e-9 absolute.
# Constants are fixed at ~100x-1000x of those values; solver-dependent ones are multiplied by max(1, cond(M)).
TOL_KIN = 1e-12        # kinematics / com quantities: products of rotations and sums
TOL_DYN = 1e-11        # M, bias, passive, actuator forces (sums over bodies, cancellation in rne)
TOL_ACC = 1e-12        # * max(1, cond(M)): qacc_smooth = M^-1 f
TOL_CONTACT = 1e-11    # contact dist/pos/frame of analytic primitives (plane/sphere/capsule)
TOL_EFC = 1e-9         # efc rows (J, aref, D): D = 1/R amplifies impedance rounding
TOL_SOLVE = 5e-7       # * max(1, cond(M)): qacc / qfrc_constraint; Newton, tolerance=1e-15, 60 iterations in both engines;
                       # thorough run: worst err/cond(M) = 7e-9 (qfrc_constraint), 4e-9 (step.qvel)
TOL_STEP = 5e-7        # * max(1, cond(M)): next state
TOL_SENS = 1e-11       # sensordata (pos/vel stages); acc-stage sensors use 10*TOL_SOLVE*cond

ANALYTIC = {'plane', 'sphere', 'capsule'}
# capsule-capsule / sphere-capsule: math.closest_segment_to_segment_points and math.closest_segment_point divide by
# (denom + 1e-6): closest points (hence pos/normal) are only accurate to ~1e-5 relative; geometry is compared at
# TOL_CAPCAP and downstream quantities at TOL_LOOSE (candidate finding F18).
TOL_CAPCAP = 1e-3
TOL_LOOSE = 5e-2       # constraints/solver/step of states with an active capsule-capsule contact (not calibrated: bounds the
                       # propagated 1e-6..1e-5 closest-point error; feature-specific mutants change these quantities by O(0.1-1))
GEOM_NAMES = {0: 'plane', 1: 'hfield', 2: 'sphere', 3: 'capsule', 4: 'ellipsoid', 5: 'cylinder', 6: 'box', 7: 'mesh'}


def nrel(a, b):
  a = np.asarray(a, dtype=np.float64)
  b = np.asarray(b, dtype=np.float64)
  if a.shape != b.shape:
    if a.size == b.size:
      b = b.reshape(a.shape)
    else:
      return float('inf')
  if a.size == 0:
    return 0.0
  if not (np.all(np.isfinite(a)) and np.all(np.isfinite(b))):
    return 0.0 if np.array_equal(a, b, equal_nan=True) else float('inf')
  return float(np.max(np.abs(a - b)) / (1.0 + max(np.max(np.abs(a)), np.max(np.abs(b)))))


COLLECT = bool(os.environ.get('C43_COLLECT'))     # triage mode: record every discrepancy, never raise
FINDINGS = bool(os.environ.get('C43_FINDINGS'))   # developer option only: run the generators without the exclusions below
COLLECTED = {}


class Worst:
  def __init__(self):
    self.w = collections.defaultdict(float)

  def add(self, k, v):
    if v > self.w[k]:
      self.w[k] = v


def c_dense(lib, m, d, which):
  """Dense (rows x nv) versions of sparse C arrays."""
  nv = m.nv
  if which == 'ten_J':
    out = np.zeros((m.ntendon, nv))
    if m.ntendon and nv:
      lib.mju_sparse2dense(out, np.ascontiguousarray(d.ten_J).ravel(), m.ntendon, nv,
                           np.ascontiguousarray(m.ten_J_rownnz), np.ascontiguousarray(m.ten_J_rowadr),
                           np.ascontiguousarray(m.ten_J_colind))
    return out
  if which == 'actuator_moment':
    out = np.zeros((m.nu, nv))
    if m.nu and nv:
      lib.mju_sparse2dense(out, np.ascontiguousarray(d.actuator_moment).ravel(), m.nu, nv,
                           np.ascontiguousarray(d.moment_rownnz), np.ascontiguousarray(d.moment_rowadr),
                           np.ascontiguousarray(d.moment_colind))
    return out
  if which == 'efc_J':
    nefc = int(d.nefc)
    out = np.zeros((nefc, nv))
    if nefc and nv:
      if lib.mj_isSparse(m):
        lib.mju_sparse2dense(out, np.ascontiguousarray(d.efc_J).ravel(), nefc, nv,
                             np.ascontiguousarray(d.efc_J_rownnz), np.ascontiguousarray(d.efc_J_rowadr),
                             np.ascontiguousarray(d.efc_J_colind))
      else:
        out[:] = np.asarray(d.efc_J).ravel()[:nefc * nv].reshape(nefc, nv)
    return out
  raise KeyError(which)


KIN_FIELDS = ('xpos', 'xquat', 'xmat', 'xipos', 'ximat', 'xanchor', 'xaxis', 'geom_xpos', 'geom_xmat', 'site_xpos',
              'site_xmat', 'subtree_com', 'cdof', 'ten_length', 'actuator_length')
VEL_FIELDS = ('cvel', 'cdof_dot')
DYN_FIELDS = ('qfrc_bias', 'qfrc_passive', 'qfrc_actuator', 'actuator_force', 'act_dot', 'qfrc_smooth')
IMPL_KIN = ('cinert',)
IMPL_VEL = ('ten_velocity', 'actuator_velocity')


def cross_tree_tendon(tm, field):
  """True if a tendon with non-zero `field` (tendon_armature / tendon_damping) has Jacobian columns in more than one
  kinematic tree."""
  if not tm.ntendon:
    return False
  val = np.asarray(getattr(tm, field))
  tree = np.asarray(tm.dof_treeid)
  adr, nnz, col = np.asarray(tm.ten_J_rowadr), np.asarray(tm.ten_J_rownnz), np.asarray(tm.ten_J_colind)
  for t in range(tm.ntendon):
    if val[t] > 0 and len({int(tree[c]) for c in col[adr[t]:adr[t] + nnz[t]]}) > 1:
      return True
  return False


def spatial_tendon_armature(tm):
  if not tm.ntendon:
    return False
  wt = np.asarray(tm.wrap_type)
  for t in range(tm.ntendon):
    if tm.tendon_armature[t] > 0 and int(wt[int(tm.tendon_adr[t])]) != 1:     # mjWRAP_JOINT == 1: fixed tendon
      return True
  return False


def full_m_mjx(mjx, mx, dxi):
  from mujoco.mjx._src import support
  M = np.asarray(dxi._impl.M)
  if M.ndim == 2:
    return M
  return np.asarray(support.full_m(mx, dxi))


def quat_same(a, b):
  """error between unit quaternion arrays up to sign"""
  a = np.asarray(a).reshape(-1, 4)
  b = np.asarray(b).reshape(-1, 4)
  if a.size == 0:
    return 0.0
  return float(np.max(np.minimum(np.abs(a - b).max(axis=1), np.abs(a + b).max(axis=1))))


def match_contacts(tm, td, dxi, info):
  """Returns (pairs, status). pairs: list of (c_index, x_index). status: 'ok' | 'boundary' | 'deviation:<why>' |
  raises Violation for analytic pairs."""
  con = td.contact[:int(td.ncon)]
  cx = dxi._impl.contact
  xdist = np.asarray(cx.dist)
  xinc = np.asarray(cx.includemargin)
  xgeom = np.asarray(cx.geom)
  gtype = np.asarray(tm.geom_type)
  # boundary: a contact within 1e-9 of activation on either side makes the active sets incomparable
  if con.size and np.any(np.abs(con['dist'] - con['includemargin']) < 1e-9):
    return None, 'boundary'
  if xdist.size and np.any(np.abs(xdist - xinc) < 1e-9):
    return None, 'boundary'
  # candidate finding F23: filterBodyPair() of the C engine skips pairs of dof-less bodies (world geom vs geom of a mocap
  # body); MJX has no such rule and emits those contacts (their constraint rows have a zero Jacobian): ignored here
  dofless = info['body_dofless']
  gb = np.asarray(tm.geom_bodyid)
  cact = [i for i in range(con.size) if not con['exclude'][i]]
  xall = [i for i in range(xdist.size) if xdist[i] < xinc[i]]
  xact = [i for i in xall if not (dofless[gb[xgeom[i][0]]] and dofless[gb[xgeom[i][1]]])]
  # ... and they are not harmless: both bodies have zero inverse weight, so R = mjMINVAL, D = 1e15 and the constant cost
  # 0.5*D*aref^2 swamps the solver's cost comparisons (observed: MJX returns qacc_smooth, cost 905 vs optimum 529)
  static_contact = len(xall) != len(xact)
  byc = collections.defaultdict(list)
  byx = collections.defaultdict(list)
  for i in cact:
    byc[tuple(sorted(int(g) for g in con['geom'][i]))].append(i)
  for i in xact:
    byx[tuple(sorted(int(g) for g in xgeom[i]))].append(i)
  pairs = []
  status = 'ok'
  for key in sorted(set(byc) | set(byx)):
    kinds = {GEOM_NAMES[int(gtype[g])] for g in key}
    analytic = kinds <= ANALYTIC
    lc, lx = byc.get(key, []), byx.get(key, [])
    if len(lc) != len(lx):
      if analytic and kinds != {'capsule'}:   # parallel capsule-capsule: the C engine emits up to 2 contacts, MJX 1
        raise Violation('active contacts for geom pair %s (%s): C engine %d, MJX %d; C dist=%s MJX dist=%s' % (
            key, '-'.join(sorted(kinds)), len(lc), len(lx), con['dist'][lc].tolist(), xdist[lx].tolist()),
            bucket='contact-count')
      status = 'deviation:count:' + '-'.join(sorted(kinds))
      continue
    # match by nearest position
    lx = list(lx)
    for i in lc:
      j = min(lx, key=lambda j: float(np.linalg.norm(np.asarray(cx.pos[j]) - con['pos'][i])))
      lx.remove(j)
      pairs.append((i, j, analytic, '-'.join(sorted(kinds))))
  if static_contact and status == 'ok':
    status = 'deviation:dofless-pair-contact'
  return pairs, status


def compare_contacts(tm, td, dxi, pairs, worst):
  """Compare matched contacts; returns 'ok' or 'deviation:...' (non-analytic pairs whose geometry differs)."""
  con = td.contact
  cx = dxi._impl.contact
  status = 'ok'
  hard = None
  for i, j, analytic, kinds in pairs:
    cf = con['frame'][i].reshape(3, 3)
    xf = np.asarray(cx.frame[j]).reshape(3, 3)
    flip = tuple(int(g) for g in con['geom'][i]) != tuple(int(g) for g in np.asarray(cx.geom[j]))
    if flip:
      xf = xf * np.array([[-1.0], [1.0], [1.0]])
    e_dist = abs(float(con['dist'][i]) - float(cx.dist[j])) / (1 + abs(float(con['dist'][i])))
    e_pos = nrel(con['pos'][i], np.asarray(cx.pos[j]))
    e_nrm = float(np.max(np.abs(cf[0] - xf[0])))
    e_frame = float(np.max(np.abs(cf - xf))) if not flip else e_nrm
    e_par = max(nrel(con['friction'][i], np.asarray(cx.friction[j])), nrel(con['solref'][i], np.asarray(cx.solref[j])),
                nrel(con['solimp'][i], np.asarray(cx.solimp[j])),
                nrel(con['includemargin'][i], np.asarray(cx.includemargin[j])),
                nrel(con['solreffriction'][i], np.asarray(cx.solreffriction[j])),
                0.0 if int(con['dim'][i]) == int(cx.dim[j]) else float('inf'))
    geo = max(e_dist, e_pos, e_nrm)
    if kinds in ('capsule', 'capsule-sphere'):
      worst.add('contact.geom.' + ('capsule-capsule' if kinds == 'capsule' else kinds), geo)
      if geo > TOL_CAPCAP:
        raise Violation('%s contact geoms %s: dist C=%.17g MJX=%.17g, pos err %.3g, normal err %.3g' % (
            kinds, con['geom'][i].tolist(), con['dist'][i], float(cx.dist[j]), e_pos, e_nrm), bucket='contact-geometry')
      if e_frame > TOL_CAPCAP:
        hard = 'deviation:tangent-frame'       # tangent axes chosen differently: rows are not comparable at all
      elif (geo > TOL_CONTACT or e_frame > TOL_CONTACT) and status == 'ok':
        status = 'deviation:capsule-capsule-eps'
    elif analytic:
      worst.add('contact.geom', geo)
      worst.add('contact.frame', e_frame)
      if geo > TOL_CONTACT:
        raise Violation('contact %s geoms %s: dist C=%.17g MJX=%.17g, pos err %.3g, normal err %.3g' % (
            kinds, con['geom'][i].tolist(), con['dist'][i], float(cx.dist[j]), e_pos, e_nrm), bucket='contact-geometry')
      if e_frame > TOL_CONTACT:
        hard = 'deviation:tangent-frame'
    else:
      worst.add('contact.geom.' + kinds, geo)
      if geo > TOL_CONTACT or e_frame > TOL_CONTACT:
        hard = 'deviation:geometry:' + kinds
    worst.add('contact.param', e_par)
    if e_par > TOL_CONTACT:
      raise Violation('contact %s geoms %s: parameters differ (friction/solref/solimp/includemargin/dim) err %.3g: '
                      'C friction=%s MJX friction=%s C solref=%s MJX solref=%s dim C=%d MJX=%d' % (
                          kinds, con['geom'][i].tolist(), e_par, con['friction'][i].tolist(),
                          np.asarray(cx.friction[j]).tolist(), con['solref'][i].tolist(),
                          np.asarray(cx.solref[j]).tolist(), int(con['dim'][i]), int(cx.dim[j])), bucket='contact-param')
  return hard or status


def compare_efc(lib, tm, td, dxi, worst, tol=None):
  tol = TOL_EFC if tol is None else tol
  nefc = int(td.nefc)
  Jc = c_dense(lib, tm, td, 'efc_J')
  arc = np.asarray(td.efc_aref)[:nefc].copy()
  # candidate finding F1: the C engine subtracts a Jdot*v term from aref of connect/weld rows (mj_Jdotv); MJX has no
  # such term (acknowledged in mjx/_src/constraint_test.py, not in doc/mjx.rst).  Compare MJX with the uncorrected
  # aref and flag the state, so that downstream solver/step comparisons are skipped when the term is non-zero.
  jd = np.zeros(max(nefc, 1))
  if int(td.ne) > 0 and not FINDINGS:
    lib.mj_Jdotv(tm, td, jd)
    arc = arc - jd[:nefc]
  jdotv = bool(np.max(np.abs(jd)) > 1e-10 * (1 + np.max(np.abs(arc)) if nefc else 0))
  Dc = np.asarray(td.efc_D)[:nefc].copy()
  flc = np.asarray(td.efc_frictionloss)[:nefc].copy()
  Jx = np.asarray(dxi._impl.efc_J)
  act = np.flatnonzero((Jx != 0).any(axis=1)) if Jx.size else np.zeros(0, int)
  keep = np.flatnonzero((Jc != 0).any(axis=1)) if Jc.size else np.zeros(0, int)
  # rows whose Jacobian is zero up to rounding (1e-17 entries in MJX where the C engine has exact zeros) are inactive
  act = np.array([r for r in act if np.max(np.abs(Jx[r])) > 1e-13], dtype=int)
  keep = np.array([r for r in keep if np.max(np.abs(Jc[r])) > 1e-13], dtype=int)
  if len(act) != len(keep):
    raise Violation('number of active constraint rows: C engine %d (nefc=%d), MJX %d; C types=%s' % (
        len(keep), nefc, len(act), np.asarray(td.efc_type)[:nefc].tolist()), bucket='efc-count')
  arx = np.asarray(dxi._impl.efc_aref)[act]
  Dx = np.asarray(dxi._impl.efc_D)[act]
  flx = np.asarray(dxi._impl.efc_frictionloss)[act]
  Jx = Jx[act]
  free = list(range(len(act)))
  perm = []
  worstrow = 0.0
  for r in keep:
    def dist(k):
      return max(float(np.max(np.abs(Jx[k] - Jc[r]))) / (1 + float(np.max(np.abs(Jc[r])))),
                 abs(arx[k] - arc[r]) / (1 + abs(arc[r])), abs(Dx[k] - Dc[r]) / (abs(Dc[r]) + 1e-300),
                 abs(flx[k] - flc[r]) / (1 + abs(flc[r])))
    k = min(free, key=dist)
    e = dist(k)
    worstrow = max(worstrow, e)
    if e > tol:
      raise Violation('constraint row %d of the C engine (type %d id %d) has no MJX counterpart within %.1g: best '
                      'candidate differs by %.3g (J err %.3g, aref C=%.12g MJX=%.12g, D C=%.12g MJX=%.12g)' % (
                          r, int(td.efc_type[r]), int(td.efc_id[r]), tol, e,
                          float(np.max(np.abs(Jx[k] - Jc[r]))), arc[r], arx[k], Dc[r], Dx[k]), bucket='efc-rows')
    free.remove(k)
    perm.append((r, act[k]))
  worst.add('efc.rows' if tol == TOL_EFC else 'efc.rows(loose)', worstrow)
  return perm, jdotv


def compare_state(ck, lib, c, s, tf, ts, dxf, dxs, worst, info):
  """tf/ts: tree data after mj_forward / mj_step;  dxf/dxs: numpy-fied MJX data after forward / step.
  Returns dict(status=..., ncon=...)."""
  tm = c.tm
  nv = tm.nv

  def chk(name, a, b, tol, bucket):
    e = nrel(a, b)
    worst.add(name, e)
    if e > tol:
      a = np.asarray(a); b = np.asarray(b).reshape(a.shape) if np.asarray(b).size == a.size else np.asarray(b)
      if COLLECT:
        rec = COLLECTED.setdefault(bucket + '/' + name, [0, 'err %.3g C=%s MJX=%s' % (e, np.array2string(a.ravel()[:12], precision=10),
                                   np.array2string(b.ravel()[:12], precision=10)), info.get('xml'), info.get('i'), info.get('seeds')])
        rec[0] += 1
        return
      raise Violation('%s differs: rel err %.3g > %.1g\n C engine: %s\n MJX     : %s' % (
          name, e, tol, np.array2string(a.ravel()[:24], precision=12), np.array2string(b.ravel()[:24], precision=12)),
          bucket=bucket)

  for f in KIN_FIELDS:
    a = getattr(tf, f)
    b = getattr(dxf, f)
    if f == 'xquat':
      e = quat_same(a, b)
      worst.add(f, e)
      if e > TOL_KIN:
        raise Violation('xquat differs (up to sign) err %.3g' % e, bucket='kinematics')
      continue
    chk(f, a, b, TOL_KIN, 'kinematics')
  for f in IMPL_KIN:
    chk(f, getattr(tf, f), getattr(dxf._impl, f), TOL_KIN * 10, 'inertia')
  chk('ten_J', c_dense(lib, tm, tf, 'ten_J'), dxf._impl.ten_J, TOL_KIN, 'tendon')
  chk('actuator_moment', c_dense(lib, tm, tf, 'actuator_moment'), dxf._impl.actuator_moment, TOL_KIN, 'transmission')
  for f in VEL_FIELDS:
    chk(f, getattr(tf, f), getattr(dxf, f), TOL_DYN, 'velocity')
  for f in IMPL_VEL:
    if f == 'actuator_velocity' and info['dsbl_actuation'] and not FINDINGS:
      continue   # candidate finding F17: mj_fwdVelocity zeroes actuator_velocity when actuation is disabled, MJX does not
    chk(f, getattr(tf, f), getattr(dxf._impl, f), TOL_DYN, 'velocity')
  Mc = lib.fullM(tm, tf) if nv else np.zeros((0, 0))
  Mx = info['full_m'](dxf)
  chk('M', Mc, Mx, TOL_DYN, 'inertia')
  cond = float(np.linalg.cond(Mc)) if nv else 1.0
  worst.add('cond(M)', cond)
  if not np.isfinite(cond) or cond > 1e8:
    return dict(status='illconditioned')
  for f in DYN_FIELDS:
    chk(f, getattr(tf, f), getattr(dxf, f), TOL_DYN, 'forces:' + f)
  chk('qacc_smooth', tf.qacc_smooth, dxf.qacc_smooth, TOL_ACC * max(1.0, cond), 'qacc_smooth')

  # ---- contacts
  pairs, status = match_contacts(tm, tf, dxf, info)
  ncon = 0
  if pairs is not None:
    st2 = compare_contacts(tm, tf, dxf, pairs, worst)
    ncon = len(pairs)
    if status == 'ok':
      status = st2
  sens_stage = info['sens_stage']
  nsd = tm.nsensordata

  def sens(stages, tol, tag):
    if not nsd:
      return
    mask = np.isin(sens_stage, stages) & info['sens_mask']
    if mask.any():
      chk('sensordata.' + tag, np.asarray(tf.sensordata)[mask], np.asarray(dxf.sensordata)[mask], tol, 'sensor-' + tag)
  sens((1, 2), TOL_SENS, 'posvel')
  # capsule-capsule contacts carry the ~1e-6 error of MJX's regularised closest-point computation (F18): constraints,
  # solver and step are still compared, with the loose tolerance TOL_LOOSE instead of the calibrated ones
  loose = status == 'deviation:capsule-capsule-eps'      # also used for sphere-capsule
  if status != 'ok' and not loose:
    return dict(status=status, ncon=ncon)
  t_efc, t_solve, t_step, tag = (TOL_LOOSE, TOL_LOOSE, TOL_LOOSE, '(loose)') if loose else (TOL_EFC, TOL_SOLVE, TOL_STEP, '')
  okname = 'ok-loose:capsule-capsule' if loose else 'ok'

  # ---- constraints
  nefc_c = int(tf.nefc)
  if nefc_c and np.max(np.asarray(tf.efc_D)[:nefc_c]) > 1e12:
    # rows with (numerically) zero inverse weight, R clamped at mjMINVAL: the two engines clamp before / after the pyramid
    # scaling (D = 3.4e14 vs 1e15) and the problem is ill-posed either way
    return dict(status='illconditioned:efc_D', ncon=ncon)
  Jx_all = np.asarray(dxf._impl.efc_J)
  if Jx_all.size and not FINDINGS:
    zr = ~(Jx_all != 0).any(axis=1)
    if np.any(zr & (np.abs(np.asarray(dxf._impl.efc_aref)) * np.asarray(dxf._impl.efc_D) > 1e10)):
      # (F23, second form) MJX keeps equality rows between dof-less bodies (connect/weld on a mocap body): zero Jacobian,
      # R = mjMINVAL, force ~ -1e15*aref; the C engine emits no such rows.  The constant cost ~1e20 costs the MJX solver
      # its precision (observed qacc error 3e-3)
      return dict(status='deviation:dofless-equality-rows', ncon=ncon)
  perm, jdotv = compare_efc(lib, tm, tf, dxf, worst, t_efc)
  nrows = len(perm)
  if jdotv:
    return dict(status='deviation:jdotv', ncon=ncon, nrows=nrows)
  scale = max(1.0, cond)
  if nefc_c:
    # qfrc_constraint = J'f and qacc - qacc_smooth = M^-1 J'f cancel when opposing rows carry large forces: the solver
    # accuracy is relative to |f|, so the tolerance is amplified by |f|max / (1 + |J'f|max)
    scale *= max(1.0, float(np.max(np.abs(np.asarray(tf.efc_force)[:nefc_c]))) / (1.0 + float(np.max(np.abs(tf.qfrc_constraint)))))
  chk('qacc' + tag, tf.qacc, dxf.qacc, t_solve * scale, 'qacc')
  chk('qfrc_constraint' + tag, tf.qfrc_constraint, dxf.qfrc_constraint, t_solve * scale, 'qfrc_constraint')
  if perm:
    fc = np.asarray(tf.efc_force)[[p[0] for p in perm]]
    fx = np.asarray(dxf._impl.efc_force)[[p[1] for p in perm]]
    chk('efc_force' + tag, fc, fx, t_solve * scale * 10, 'efc_force')
  if info['nefc_slots'] == 0 and not FINDINGS:
    # candidate finding F3: forward() returns before sensor.sensor_acc when the model has no constraint rows
    pass
  else:
    sens((3,), t_solve * scale * 10, 'acc' + tag)
  # ---- step
  skip = info['skip_step']
  if skip is None and info['implicitfast'] and not FINDINGS:
    # candidate finding F13: mjd_actuator_vel skips actuators whose force is clamped by forcerange, MJX does not
    frc = np.asarray(tf.actuator_force)
    for i in range(tm.nu):
      if tm.actuator_forcelimited[i] and (frc[i] <= tm.actuator_forcerange[i][0] or frc[i] >= tm.actuator_forcerange[i][1]):
        skip = 'implicitfast-clamped-actuator'
      # candidate finding F12: derivative.deriv_smooth_vel multiplies the velocity gain by the *unclamped* ctrl; for a
      # damper (affine gain, gainprm[2] != 0) with ctrl outside ctrlrange this yields a positive 'damping' derivative,
      # M - h*qDeriv can become indefinite and the Cholesky based solve returns NaN
      if (tm.actuator_gainprm[i][2] != 0 and tm.actuator_ctrllimited[i]
          and not (tm.actuator_ctrlrange[i][0] <= s['ctrl'][i] <= tm.actuator_ctrlrange[i][1])):
        skip = 'implicitfast-unclamped-ctrl-derivative'
  if not (info['dsbl_actuation'] and not FINDINGS):
    # (minor, F26) with actuation disabled mj_advance leaves act untouched, MJX still clamps it to actrange
    chk('step.act', ts.act, dxs.act, TOL_DYN, 'step-act')
  chk('step.time', np.array([ts.time]), np.array([float(dxs.time)]), 1e-14, 'step')
  if skip:
    return dict(status=okname + '-nostep:' + skip, ncon=ncon, nrows=nrows)
  chk('step.qvel' + tag, ts.qvel, dxs.qvel, t_step * scale, 'step')
  chk('step.qpos' + tag, ts.qpos, dxs.qpos, t_step * scale, 'step')
  return dict(status=okname, ncon=ncon, nrows=nrows)


class Runner:
  def __init__(self, ck, lib):
    self.ck = ck
    self.lib = lib
    self.mujoco, self.mjx, self.jax, self.jp = mjxload.load()
    self.worst = Worst()
    self.status = collections.Counter()

  def run_model(self, gm, seeds, settle_list):
    ck, lib, mjx, jax = self.ck, self.lib, self.mjx, self.jax
    try:
      c = gx.build(lib, gm.xml)
    except gx.CompileDiscard as e:
      ck.discard('compile')
      return
    except gx.Unsupported as e:
      # a model from the *supported* generator that MJX rejects: generator over-reach, not a violation
      ck.discard('unsupported:' + str(e)[:60])
      return
    sk = gx.skew(c)
    if sk:
      ck.discard('version-skew')
      ck.label('skew:' + sk[0])
      return
    tm = c.tm
    if tm.nv == 0:
      ck.discard('nv=0')     # scan.py raises an explicit ValueError('Scan across Model with zero DoFs unsupported')
      return
    states = []
    for sd, settle in zip(seeds, settle_list):
      ps = gm.info.get('pos_scale', 1.0)
      s = gx.make_state(lib, tm, sd, settle=settle, pos_scale=ps)
      if s is None:      # diverged while settling: fall back to the raw state
        s = gx.make_state(lib, tm, sd, settle=0, pos_scale=ps)
      states.append(s)
    lib.warnings()
    if any(x is None for x in states):
      ck.discard('no-finite-state')
      return
    rk4 = gm.info['option']['integrator'] == 'RK4'
    import time as _t
    t0 = _t.time()
    if os.environ.get('C43_PRINT'):
      print('  XML ' + gm.xml + ' SEEDS ' + str(list(seeds)), flush=True)
    dxb = gx.batch_data(c, states)
    if c.tm.nmocap and not FINDINGS:
      par = np.asarray(c.tm.body_parentid)
      mocap = np.asarray(c.tm.body_mocapid)
      if any(mocap[par[b]] >= 0 for b in range(1, c.tm.nbody)):
        # candidate finding F16: smooth.kinematics overwrites the pose of mocap bodies after the tree scan, so bodies
        # attached to a mocap body are placed relative to the model pose of their parent, not its mocap pose
        ck.discard('finding:child-of-mocap-body-kinematics')
        return
    if 'density' in gm.info['option'] and c.tm.nbody > 1:
      I = np.asarray(c.tm.body_inertia)[1:]
      m_ = np.asarray(c.tm.body_mass)[1:]
      if np.any((I.sum(axis=1)[:, None] - 2 * I < 1e-9) & (m_[:, None] > 0)):
        # inertia on the triangle-inequality boundary (e.g. diaginertia 0.144 0.043 0.187): the equivalent fluid box has a zero
        # side; the C engine clamps it at mjMINVAL=1e-15, MJX at 1e-12 (passive._inertia_box_fluid_model), giving a 1e-7 relative
        # difference in qfrc_passive - degenerate input, not compared
        ck.discard('degenerate-inertia-box-with-fluid')
        return
    if spatial_tendon_armature(c.tm) and not FINDINGS:
      # candidate finding F29: qfrc_bias term armature*J'*(Jdot v) of a spatial tendon: the C engine matches a finite
      # difference of ten_J along qvel, smooth.tendon_dot/tendon_bias of MJX is off (factor 1.2075 in the recorded case)
      ck.discard('finding:spatial-tendon-armature-bias')
      return
    if cross_tree_tendon(c.tm, 'tendon_armature') and not FINDINGS:
      # candidate finding F21 (C engine): mj_tendonArmature adds armature*J'J only inside the tree-local sparsity pattern
      # of M, entries coupling different kinematic trees are dropped; MJX (dense M) keeps them
      ck.discard('finding:cross-tree-tendon-armature')
      return
    crash = gx.known_mjx_crash(c, gm)
    if crash and not FINDINGS:
      ck.discard(crash)        # candidate findings F2 / F15 (exceptions raised by mjx.forward on accepted models)
      return
    try:
      stepf = jax.jit(jax.vmap(mjx.step, in_axes=(None, 0)))
      outs = jax.device_get(stepf(c.mx, dxb))
      if rk4:
        fwdf = jax.jit(jax.vmap(mjx.forward, in_axes=(None, 0)))
        outf = jax.device_get(fwdf(c.mx, dxb))
      else:
        outf = outs
    except Exception as e:     # only the MJX calls are inside this try block
      msg = 'mjx.step/forward raised %s: %s on a model accepted by put_model' % (type(e).__name__, str(e)[:300])
      if COLLECT:
        rec = COLLECTED.setdefault('mjx-exception:' + type(e).__name__, [0, msg, gm.xml, -1])
        rec[0] += 1
        return
      raise Violation(msg, bucket='mjx-exception')
    if os.environ.get('C43_PRINT'):
      print('  model nv=%d nbody=%d ncon=%d nefc=%d %s: jit+run %.1fs' % (tm.nv, tm.nbody, c.dx0._impl.ncon, c.dx0._impl.nefc,
            gm.info['option']['integrator'], _t.time() - t0), flush=True)
    implicitfast = gm.info['option']['integrator'] == 'implicitfast'
    skip_step = None
    if implicitfast and not FINDINGS:
      if np.any(np.asarray(tm.jnt_type) == 0):
        # candidate finding F11: the C engine applies gyroscopic derivatives to standalone free bodies (mjd_freeMhat)
        skip_step = 'implicitfast-free-body'
      elif cross_tree_tendon(tm, 'tendon_damping'):
        # candidate finding F14: C qDeriv keeps only tree-local entries of the tendon-damping derivative, MJX is dense
        skip_step = 'implicitfast-cross-tree-tendon-damping'
    dsbl_act = 'actuation' in gm.info['option']['flags']
    sens_mask = np.ones(int(tm.nsensordata), dtype=bool)
    if 'equality' in gm.info['option']['flags'] and tm.nsensor and not FINDINGS and np.any(np.isin(np.asarray(tm.eq_type), (0, 1))):
      # finding F31: rne_postconstraint reads efc_force[:3*nconnect] as connect forces even when the equality flag is disabled:
      # cfrc-based sensors (force, torque, accelerometer, framelinacc/angacc use cacc/cfrc_int) are not comparable
      for k in range(tm.nsensor):
        if int(tm.sensor_needstage[k]) == 3:
          sens_mask[int(tm.sensor_adr[k]):int(tm.sensor_adr[k]) + int(tm.sensor_dim[k])] = False
    if dsbl_act and tm.nsensor and not FINDINGS:
      for k in range(tm.nsensor):
        if int(tm.sensor_type[k]) == lib.enums.mjSENS_ACTUATORVEL:
          sens_mask[int(tm.sensor_adr[k]):int(tm.sensor_adr[k]) + int(tm.sensor_dim[k])] = False
    par = np.asarray(tm.body_parentid)
    ndof = np.asarray(tm.body_dofnum).astype(int).copy()
    for b in range(1, tm.nbody):
      ndof[b] += ndof[par[b]]
    if rk4 and skip_step is None and c.dx0._impl.ncon:
      # RK4 evaluates forward() at three intermediate states: the next state is comparable only if no contact slot belongs
      # to a pair class whose narrow phase differs from the C engine (box/ellipsoid/cylinder, capsule-capsule, sphere-capsule)
      gt = np.asarray(tm.geom_type)
      for g1, g2 in np.asarray(outf._impl.contact.geom)[0]:
        kinds = {GEOM_NAMES[int(gt[g1])], GEOM_NAMES[int(gt[g2])]}
        if not kinds <= ANALYTIC or kinds == {'capsule'} or kinds == {'capsule', 'sphere'}:
          skip_step = 'rk4-nonanalytic-contact-slots'
    info = dict(body_dofless=(ndof == 0), skip_step=skip_step, implicitfast=implicitfast, nefc_slots=int(c.dx0._impl.nefc), dsbl_actuation=dsbl_act,
                sens_mask=sens_mask,
                full_m=lambda dxi: full_m_mjx(mjx, c.mx, dxi),
                sens_stage=np.repeat(np.asarray(tm.sensor_needstage), np.asarray(tm.sensor_dim)) if tm.nsensor else np.zeros(0))
    labels = gm.labels()
    any_contact = False
    results = []
    kept = []
    for i, s in enumerate(states):
      tf = lib.make_data(tm)
      gx.set_state(tm, tf, s)
      ts = lib.copy_data(tm, tf)
      lib.mj_forward(tm, tf)
      lib.mj_step(tm, ts)
      w = lib.warnings()
      if w:
        self.status['c-warning'] += 1
        ck.discard('c-engine-warning')
        continue
      if tm.nv and (not np.all(np.isfinite(ts.qvel)) or np.max(np.abs(ts.qvel)) > 1e3 or np.max(np.abs(tf.qacc)) > 1e7):
        ck.discard('unstable-state')       # the C engine itself is blowing up here: not a meaningful comparison point
        continue
      dxf = jax.tree_util.tree_map(lambda x: x[i], outf)
      dxs = jax.tree_util.tree_map(lambda x: x[i], outs)
      info['xml'] = gm.xml
      info['seeds'] = list(seeds)
      info['i'] = i
      try:
        r = compare_state(ck, lib, c, s, tf, ts, dxf, dxs, self.worst, info)
      except Violation as e:
        if not COLLECT:
          raise
        rec = COLLECTED.setdefault(e.bucket, [0, str(e)[:600], gm.xml, i, list(seeds)])
        rec[0] += 1
        r = dict(status='collected')
      self.status[':'.join(r['status'].split(':')[:2])] += 1
      results.append(r)
      kept.append((i, s))
      if r.get('ncon'):
        any_contact = True
    nt_model = tm.nv >= 3 and (any_contact or tm.ntendon > 0 or tm.neq > 0)
    for (i, s), r in zip(kept, results):
      full = r['status'].startswith('ok')
      ck.case(nontrivial=nt_model and full, key=(gm.xml, seeds[i], i),
              sample=dict(xml=gm.xml, state_seed=int(seeds[i]), settle_steps=int(settle_list[i]), nv=int(tm.nv),
                          active_contacts=int(r.get('ncon', 0)), efc_rows=int(r.get('nrows', 0)), status=r['status']),
              labels=['state:' + r['status']] + (['active-contact'] if r.get('ncon') else []))
    ck.label('model')
    for l in labels:
      ck.label('model:' + l)


def gate(ck, lib):
  """Every deliberately unsupported feature must be rejected with NotImplementedError by put_model/make_data."""
  mujoco, mjx, jax, jp = mjxload.load()
  for name in sorted(gx.UNSUPPORTED):
    xml = gx.unsupported_xml(name)
    try:
      mm = mujoco.MjModel.from_xml_string(xml)
    except Exception as e:
      ck.discard('gate-wheel-compile:' + name)
      continue
    try:
      mx = mjx.put_model(mm)
      dx = mjx.make_data(mm)
    except NotImplementedError:
      ck.case(nontrivial=True, key=('gate', name), sample=dict(gate=name, result='NotImplementedError'), labels=['gate:rejected'])
      continue
    except Exception as e:
      raise Violation('unsupported feature %s: put_model/make_data raised %s (%s) instead of NotImplementedError' % (
          name, type(e).__name__, str(e)[:200]), bucket='gate-wrong-exception')
    raise Violation('unsupported feature %s (documented as unsupported in doc/mjx.rst) was silently accepted by '
                    'put_model and make_data' % name, bucket='gate-accepted')


RULE = ('models: vf.gen_mjx.models (1-3 bodies, free/ball/hinge/slide joints, sphere/capsule/box or sphere/capsule/'
        'ellipsoid/cylinder geoms + plane, fixed/spatial tendons, equalities, actuators incl. stateful, sensors, mocap; '
        'Euler/RK4/implicitfast, Newton, both cones) x batch of states (odd ones settled by 5-40 C steps so contacts/limits '
        'are active); one jit(vmap(step)) per model; a case = (model, state). Non-trivial = nv>=3 and (active contact in '
        'some state of the model or tendon/equality present; one feature-pinned template per worker: capsule-capsule/elliptic, tendons, RK4) and the state was compared through constraints, solver '
        'and (unless excluded) step; distinct by (model XML, state seed). Gate family: one unsupported feature each, must '
        'raise NotImplementedError. The run is time-budgeted (jit cost depends on machine load).')
ASSUMPTIONS = [
    'MJX consumes mujoco.MjModel from the installed wheel (3.13.0), which is not the tree: cases whose wheel-compiled model '
    'arrays differ from the tree-compiled ones are dropped as version-skew',
    'mesh/hfield geoms excluded (trimesh not installed); SDF-descent and polytope narrow-phase pairs (ellipsoid/cylinder/box) and '
    'capsule-capsule (1e-6 regulariser) are documented/known to differ from the C engine: a state whose contact set or contact '
    'geometry differs on such a pair is compared only on smooth quantities',
    'states within 1e-9 of a contact activation boundary or with cond(M)>1e8 are skipped (counted)',
    'sub-domains where MJX deviates from this tree\'s C engine are excluded from the random generators by construction (counted as '
    'discards / state statuses) and each deviation is probed on its minimal input on every run (vf/mjx_findings.py, reported as '
    'KNOWN-FINDING F1 F2 F3 F4 F5 F11 F12 F13 F15 F16 F17 F23 F26 F29 F31): '
    'Jdot*v term of connect/weld rows, elliptic cone without frictional contact slot (TypeError), acc-stage sensors without '
    'constraint rows, spring/damper disable flags, actearly, implicitfast with free bodies / damped tendons / clamped actuators']


def shard_main(ck, shard, nshards):
  mjxload.load()           # the wheel must be loaded before the tree library (see vf/mjxload.py)
  lib = ck.lib('rel')
  nshards -= 1                       # the last worker runs the known-finding probes (vf/mjx_findings.py)
  if shard == nshards:
    from vf import mjx_findings
    mjx_findings.run_probes(ck, mjx_findings.BY_PROPERTY['C43'])
    return
  R = Runner(ck, lib)
  if shard == 0:
    gate(ck, lib)
  total = ck.budget(18, 400)
  nmodels = max(1, -(-total // nshards))
  nstates = 5 if ck.quick else 12
  import time as _t
  t_start = _t.time()
  t_budget = float(os.environ.get('C43_TIME', 45 if ck.quick else 1200))

  def test(case):
    gm, seeds = case
    # a time budget never produces a violation: once it is used up (and a minimum of evidence exists) the remaining
    # examples are skipped; jit compilation time per model depends heavily on machine load
    if _t.time() - t_start > t_budget and len(ck.nontrivial) >= 3:
      ck.discard('time-budget')
      return
    settle = [0 if k % 2 == 0 else (5 + 7 * k) % 41 for k in range(len(seeds))]
    R.run_model(gm, seeds, settle)
  # one feature-pinned template per worker first (see vf/gen_mjx.py), then random structures
  kind = ('contact', 'tendon', 'rk4')[shard % 3]

  def test_pinned(case):
    gm, seeds = case
    R.run_model(gm, seeds, [0 if k % 2 == 0 else 3 + k for k in range(len(seeds))])
  ck.run_hypothesis(test_pinned, st.tuples(gx.pinned(kind), st.lists(mg.state_seed(), min_size=nstates, max_size=nstates, unique=True)),
                    1 if ck.quick else 4, name='pinned-%s-%d' % (kind, shard), shrink=False)
  strat = st.tuples(gx.models(max_bodies=(2 if ck.quick else 3), extras=True),
                    st.lists(mg.state_seed(), min_size=nstates, max_size=nstates, unique=True))
  ck.run_hypothesis(test, strat, nmodels, name='mjx-vs-c-%d' % shard, shrink=False)
  ck.extra['worst'] = dict(R.worst.w)
  ck.extra['status'] = dict(R.status)
  if COLLECT:
    import json
    for k, v in sorted(COLLECTED.items()):
      print('COLLECTED %s x%d: %s' % (k, v[0], v[1]))
    json.dump(COLLECTED, open('/var/tmp/mjxagent/collected_%d.json' % shard, 'w'), indent=1)


def _gm_from_json(j):
  import re
  xml = j['xml'] if isinstance(j, dict) else str(j)
  info = dict(j.get('info', {})) if isinstance(j, dict) else {}
  m = re.search(r'<flag([^/]*)/>', xml)
  flags = {k: 'disable' for k in re.findall(r'(\w+)="disable"', m.group(1))} if m else {}
  opt = dict(integrator=(re.search(r'integrator="(\w+)"', xml) or [None, 'Euler'])[1], cone=(re.search(r'cone="(\w+)"', xml) or [None, 'pyramidal'])[1],
             solver='Newton', flags=flags)
  info.setdefault('option', opt)
  info.setdefault('labels', j.get('labels', []) if isinstance(j, dict) else [])
  if 'pinned:contact' in info['labels']:
    info['pos_scale'] = 0.004
  elif 'pinned:tendon' in info['labels']:
    info['pos_scale'] = 0.6
  elif 'pinned:rk4' in info['labels']:
    info['pos_scale'] = 0.5
  return mg.GenModel(xml, info)


def replay(ck, body):
  """./verif C43 --replay <violation.json>: re-run one (model, state batch) in process."""
  mjxload.load()
  lib = ck.lib('rel')
  R = Runner(ck, lib)
  case = body['case']['case']
  gm, seeds = _gm_from_json(case[0]), [int(x) for x in case[1]]
  pinned = any(str(l).startswith('pinned:') for l in gm.info['labels'])
  settle = [0 if k % 2 == 0 else (3 + k if pinned else (5 + 7 * k) % 41) for k in range(len(seeds))]
  try:
    R.run_model(gm, seeds, settle)
  except Violation as e:
    ck.violation('Violation: %s' % e, dict(check='replay', case=case), bucket=getattr(e, 'bucket', None))


def main(ck):
  from vf import mjxshard
  ck.rule = RULE
  ck.assumptions = ASSUMPTIONS
  nshards = int(os.environ.get('C43_SHARDS', 3 if ck.quick else 6))
  extra = mjxshard.run(ck, 'c43', nshards + 1, timeout=(1800 if ck.quick else 5400))   # + 1 probe worker
  worst = mjxshard.merge_max(extra.get('worst', []))
  ck.extra['worst_rel_err'] = {k: float('%.3g' % v) for k, v in sorted(worst.items())}
  ck.extra['state_status'] = mjxshard.merge_sum(extra.get('status', []))
  ck.extra['shards'] = nshards
  ck.extra['tolerances'] = dict(kin=TOL_KIN, dyn=TOL_DYN, acc=TOL_ACC, contact=TOL_CONTACT, capsule_capsule=TOL_CAPCAP, efc=TOL_EFC,
                                solve=TOL_SOLVE, step=TOL_STEP, sens=TOL_SENS)
  if os.environ.get('C43_PRINT'):
    for k, v in sorted(worst.items()):
      print('  worst %-28s %.3g' % (k, v))
    print('  status', ck.extra['state_status'])


LEVEL = 'exploration'
TECHNIQUE = 'differential property-based testing: generated models x state batches through the tree MJX (jit+vmap, float64) and the tree C engine (ctypes), field-by-field with scaled tolerances; feature-gate family'
LEVEL_TEXT = '''Hypothesis-generated models in MJX's supported feature set, batches of raw and settled states; every
pipeline stage output (kinematics, inertia, forces, tendons/actuation, contacts matched by geom pair, constraint rows
matched by content, qacc_smooth, solver output, sensors, next state) is compared with the tree's C engine. Unsupported
features must be rejected with NotImplementedError.'''
LEVEL_NOTE = '''MJX is fed mujoco.MjModel objects of the installed 3.13.0 wheel (the only way to construct mjx.Model); a
guard drops cases where the wheel-compiled arrays differ from the tree-compiled ones (never observed to trigger). Mesh/hfield
collisions are not covered (trimesh unavailable). Box/ellipsoid/cylinder narrow-phase is documented to differ from the C engine, so for
those pairs only agreement of matched contacts is used and mismatching states are compared on smooth quantities only; states with a
capsule-capsule contact are compared downstream with a loose 5e-2 tolerance. Only the Newton solver and dense mass matrix / Jacobian
are exercised (CG, jacobian=sparse not covered). Sub-domains in which this tree's MJX was found to deviate from this tree's C engine
are excluded from the generators, listed in `assumptions`, and probed on every run by an extra worker (vf/mjx_findings.py: a deviating
probe is reported through the known-findings mechanism, a probe that agrees prints nothing). F27 (Newton solver NaN with tolerance=0 at an
exactly converged point; the generators use tolerance=1e-15) has no standalone reproducer and is only avoided. No shrinking (each
model costs a jit compilation of 10-100 s); the run is time-budgeted and sharded over worker processes. Sampled, not exhaustive.'''
