"""C44 - MJX batching, compilation and data transfer are transparent.

Domain : models in MJX's supported set (vf/gen_mjx.py) x batches of 2-6 states x state signatures
         (all 2^14 for state_size, a sample for get/set).
Oracle : (A) jit(vmap(f))(xs)[i] == jit(f)(xs[i]) on EVERY leaf of the returned mjx.Data for f = step (solver tolerance
             1e-10: batch members leave the solver loop at different iterations) and f = forward
             without collision/constraint/solver; jit(f)(x) == eager f(x) (jax.disable_jit) for the latter on 1-2 samples
             per model and for step once per worker in the thorough tier (eager step costs minutes); scaled tolerance
             (XLA may re-associate / fuse);
         (B) get_data(put_data(d)) == d bit-exactly on every MjData field that mjx.Data carries (contacts and
             constraint rows as multisets because MJX groups contacts by condim);
         (C) make_data(m) == put_data(m, MjData(m)) leaf by leaf;
         (D) state_size / get_state / set_state agree with mj_stateSize / mj_getState / mj_setState of the tree's
             C engine for the same signature (sizes, contents, ordering, frame condition), invalid signatures raise.
Non-trivial: (A) batch > 1 whose states have distinct active contact sets (or distinct active limit sets);
             (B) data with >= 1 contact and >= 1 constraint row; (C) model with contacts and constraints slots;
             (D) signature selecting >= 2 components of which >= 1 is non-empty.
"""
import collections
import os
import time

import numpy as np
from hypothesis import strategies as st

from vf import gen_mjx as gx
from vf import mjxload
from vf import modelgen as mg
from vf.runner import Violation

# (A) tolerances: norm-wise relative error per leaf, max|a-b| / (1 + max|a|,|b|).  jit, vmap and eager evaluations differ
# by fusion / re-association only; quantities downstream of the iterative solver amplify those rounding differences
# through the line search.  Calibrated on the unchanged tree (quick seeds 1-3 + thorough): worst smooth 3.7e-15, worst
# solver-dependent 3.1e-8 (solver tolerance 1e-10, batched vs unbatched program) -> fixed at ~100x.
TOL_A = 1e-12
TOL_A_SOLVER = 3e-6
SOLVER_LEAVES = ('qacc', 'qfrc_constraint', 'efc_force', 'qacc_warmstart', 'qvel', 'qpos', 'sensordata', 'solver_niter',
                 'cacc', 'cfrc_int', 'cfrc_ext', 'act', 'time', 'qfrc_inverse', 'xpos', 'xquat', 'xmat', 'xipos', 'ximat',
                 'xanchor', 'xaxis', 'geom_xpos', 'geom_xmat', 'site_xpos', 'site_xmat', 'cam_xpos', 'cam_xmat',
                 'subtree_com', 'cinert', 'cdof', 'crb', 'M', 'qLD', 'qLDiagInv', 'ten_length', 'ten_J', 'wrap_xpos',
                 'actuator_length', 'actuator_moment', 'contact', 'efc_J', 'efc_pos', 'efc_margin', 'efc_D', 'efc_aref',
                 'efc_frictionloss', 'cvel', 'cdof_dot', 'qfrc_bias', 'qfrc_passive', 'qfrc_actuator', 'actuator_force',
                 'qfrc_smooth', 'qacc_smooth', 'act_dot', 'ten_velocity', 'actuator_velocity', 'subtree_linvel',
                 'subtree_angmom', 'qfrc_gravcomp', 'qfrc_fluid')

FINDINGS = bool(os.environ.get('C44_FINDINGS'))   # developer option only: run without the exclusions below

STATE_COMPONENTS = [  # documented order (mjtState bit i) -> mjData field
    ('TIME', 'time'), ('QPOS', 'qpos'), ('QVEL', 'qvel'), ('ACT', 'act'), ('HISTORY', 'history'),
    ('WARMSTART', 'qacc_warmstart'), ('CTRL', 'ctrl'), ('QFRC_APPLIED', 'qfrc_applied'),
    ('XFRC_APPLIED', 'xfrc_applied'), ('EQ_ACTIVE', 'eq_active'), ('MOCAP_POS', 'mocap_pos'),
    ('MOCAP_QUAT', 'mocap_quat'), ('USERDATA', 'userdata'), ('PLUGIN', 'plugin_state')]


def nrel(a, b):
  a = np.asarray(a)
  b = np.asarray(b)
  if a.shape != b.shape:
    return float('inf')
  if a.size == 0:
    return 0.0
  if a.dtype.kind in 'biu' and b.dtype.kind in 'biu':
    return 0.0 if np.array_equal(a, b) else float('inf')
  a = a.astype(np.float64)
  b = b.astype(np.float64)
  fin = np.isfinite(a) & np.isfinite(b)
  if not np.array_equal(np.isfinite(a), np.isfinite(b)):
    return float('inf')
  if not np.array_equal(a[~fin], b[~fin], equal_nan=True):
    return float('inf')
  if not fin.any():
    return 0.0
  return float(np.max(np.abs(a[fin] - b[fin])) / (1.0 + max(np.max(np.abs(a[fin])), np.max(np.abs(b[fin])))))


def leaves(jax, tree):
  out = {}
  for path, leaf in jax.tree_util.tree_flatten_with_path(tree)[0]:
    out['.'.join(str(getattr(p, 'name', p)) for p in path)] = np.asarray(leaf)
  return out


def compare_trees(jax, a, b, what, worst, post_solver):
  la, lb = leaves(jax, a), leaves(jax, b)
  if set(la) != set(lb):
    raise Violation('%s: different pytree leaves %s' % (what, sorted(set(la) ^ set(lb))[:5]), bucket='A-structure')
  for k in sorted(la):
    x, y = la[k], lb[k]
    if x.shape != y.shape or x.dtype != y.dtype:
      raise Violation('%s: leaf %s shape/dtype %s %s vs %s %s' % (what, k, x.shape, x.dtype, y.shape, y.dtype),
                      bucket='A-structure')
    e = nrel(x, y)
    last = k.split('.')[-1] if not k.startswith('_impl.contact') else 'contact'
    tol = TOL_A_SOLVER if (post_solver and last in SOLVER_LEAVES) else TOL_A
    key = ('post-solver' if tol == TOL_A_SOLVER else 'smooth')
    if e > worst[key]:
      worst[key] = e
    if e > tol:
      raise Violation('%s: leaf %s differs, rel err %.3g > %.1g\n a=%s\n b=%s' % (
          what, k, e, tol, np.array2string(x.ravel()[:12], precision=14), np.array2string(y.ravel()[:12], precision=14)),
          bucket='A-' + what.split(' ')[0])


# ---------------------------------------------------------------- (A) jit / vmap transparency

def active_signature(dxi):
  """hashable summary of which contacts / constraint rows are active in an MJX Data (numpy leaves)."""
  c = dxi._impl.contact
  act = tuple(np.flatnonzero(np.asarray(c.dist) < np.asarray(c.includemargin)).tolist())
  rows = tuple(np.flatnonzero((np.asarray(dxi._impl.efc_J) != 0).any(axis=1)).tolist()) if np.asarray(dxi._impl.efc_J).size else ()
  return act, rows


def check_transparency(ck, lib, gm, seeds, worst, eager_samples, eager_step=0):
  mujoco, mjx, jax, jp = mjxload.load()
  from mujoco.mjx._src import smooth
  try:
    c = gx.build(lib, gm.xml)
  except gx.CompileDiscard:
    ck.discard('compile'); return
  except gx.Unsupported:
    ck.discard('unsupported'); return
  crash = gx.known_mjx_crash(c, gm)
  if crash:
    ck.discard(crash); return
  states = []
  for k, sd in enumerate(seeds):
    s = gx.make_state(lib, c.tm, sd, settle=(0 if k % 2 == 0 else 10 + 9 * k))
    if s is not None:
      states.append(s)
  if len(states) < 2:
    ck.discard('no-state'); return
  B = len(states)
  dxb = gx.batch_data(c, states)

  # solver tolerance 1e-10 instead of the generated 0: batch members leave the solver while_loop at different iteration
  # counts (vmap must mask them) while the result stays converged.  (A truncated solver - few iterations - is NOT a
  # usable subject: its output is a discontinuous function of the inputs, rounding-level differences between the
  # batched and the unbatched program were observed to grow to 2e-2.)
  mx = c.mx.replace(opt=c.mx.opt.replace(tolerance=jp.asarray(1e-10, dtype=c.mx.opt.tolerance.dtype)))
  from mujoco.mjx._src import forward as fwd_mod
  from mujoco.mjx._src import sensor as sensor_mod

  def smooth_pipeline(m, d):
    """forward() without collision / constraint / solver: cheap enough for op-by-op (eager) evaluation"""
    for fn in (smooth.kinematics, smooth.com_pos, smooth.camlight, smooth.tendon, smooth.crb, smooth.tendon_armature,
               smooth.factor_m, smooth.transmission, sensor_mod.sensor_pos, fwd_mod.fwd_velocity, sensor_mod.sensor_vel,
               fwd_mod.fwd_actuation, fwd_mod.fwd_acceleration):
      d = fn(m, d)
    return d
  # (name, function, post-solver tolerance class, eager samples)
  fns = [('step', mjx.step, True, eager_step), ('smooth', smooth_pipeline, False, eager_samples)]
  sigs = None
  timing = {}
  for name, f, post, n_eager in fns:
    jf = jax.jit(f)
    jvf = jax.jit(jax.vmap(f, in_axes=(None, 0)))
    t0 = time.time()
    try:
      outb = jax.device_get(jvf(mx, dxb))
    except Exception as e:
      raise Violation('jit(vmap(%s)) raised %s: %s' % (name, type(e).__name__, str(e)[:300]), bucket='A-exception')
    timing[name + ':vmap'] = time.time() - t0
    singles = []
    t0 = time.time()
    for i in range(B):
      dxi = jax.tree_util.tree_map(lambda x: x[i], dxb)
      oi = jax.device_get(jf(mx, dxi))
      singles.append(oi)
      compare_trees(jax, jax.tree_util.tree_map(lambda x: np.asarray(x)[i], outb), oi, 'vmap %s[%d] vs jit' % (name, i),
                    worst, post)
    timing[name + ':jit'] = time.time() - t0
    t0 = time.time()
    for i in range(min(n_eager, B)):
      dxi = jax.tree_util.tree_map(lambda x: x[i], dxb)
      with jax.disable_jit():
        oe = jax.device_get(f(mx, dxi))
      compare_trees(jax, singles[i], oe, 'jit %s vs eager [%d]' % (name, i), worst, post)
    timing[name + ':eager'] = time.time() - t0
    if name == 'step':
      sigs = [active_signature(o) for o in singles]
  if os.environ.get('C44_PRINT'):
    print('  A timing', {k: round(v, 1) for k, v in timing.items()}, 'nv', c.tm.nv, flush=True)
  distinct = len(set(sigs)) if sigs else 1
  ncon_any = any(len(s[0]) for s in sigs)
  for i, s in enumerate(states):
    ck.case(nontrivial=(B > 1 and distinct > 1), key=('A', gm.xml, seeds[i]),
            sample=dict(oracle='A jit/vmap/eager', xml=gm.xml, batch=B, distinct_active_sets=distinct,
                        active_contacts=[len(x[0]) for x in sigs], active_rows=[len(x[1]) for x in sigs]),
            labels=['A:state'] + (['A:contact-active'] if sigs[i][0] else []))
  ck.label('A:model', 'A:distinct-sets=%d' % min(distinct, 4))
  for l in gm.labels():
    if l.startswith(('int:', 'cone:')):
      ck.label('A:' + l)


# ---------------------------------------------------------------- (B) put_data / get_data, (C) make_data

def wheel_data(mujoco, c, s, steps):
  md = mujoco.MjData(c.mm)
  for f in gx.STATE_FIELDS:
    if f == 'time':
      md.time = float(s['time'][0])
    else:
      a = getattr(md, f)
      if a.size:
        a[...] = s[f]
  for _ in range(steps):
    mujoco.mj_step(c.mm, md)
  mujoco.mj_forward(c.mm, md)
  return md


def rows_sorted(cols):
  """stack columns into rows and sort rows lexicographically (multiset comparison)"""
  M = np.column_stack([np.asarray(x, dtype=np.float64).reshape(len(cols[0]), -1) for x in cols]) if len(cols[0]) else np.zeros((0, 1))
  if M.shape[0] == 0:
    return M
  return M[np.lexsort(M.T[::-1])]


def bits_equal(a, b):
  a = np.ascontiguousarray(a)
  b = np.ascontiguousarray(b)
  if a.shape != b.shape:
    return False
  if a.dtype.kind == 'f' and b.dtype.kind == 'f' and a.dtype == b.dtype:
    return bool(np.array_equal(a.view(np.uint8), b.view(np.uint8)) or np.array_equal(a, b, equal_nan=True))
  return bool(np.array_equal(a, b))


EFC_FIELDS = ('efc_J', 'efc_pos', 'efc_margin', 'efc_frictionloss', 'efc_D', 'efc_aref', 'efc_force')
CONTACT_FIELDS = ('dist', 'pos', 'frame', 'includemargin', 'friction', 'solref', 'solreffriction', 'solimp', 'dim',
                  'geom1', 'geom2', 'geom')
SKIP_RT = {'contact', 'qLD', 'qLDiagInv', 'efc_type', 'solver_niter', 'actuator_moment', 'ten_J', 'M'} | set(EFC_FIELDS)


def dense(mujoco, mat, rownnz, rowadr, colind, nr, nc):
  out = np.zeros((nr, nc))
  if nr and nc:
    mujoco.mju_sparse2dense(out, mat, rownnz, rowadr, colind)
  return out


def check_roundtrip(ck, lib, c, gm, s, steps):
  mujoco, mjx, jax, jp = mjxload.load()
  mm = c.mm
  md = wheel_data(mujoco, c, s, steps)
  if md.warning.number.any():
    ck.discard('B:wheel-warning'); return
  try:
    dx = mjx.put_data(mm, md)
  except ValueError as e:
    if 'too high' in str(e) or 'unable to place' in str(e):
      # documented: MJX allocates a static number of contact slots per geom pair (collision_driver.make_condim)
      ck.discard('B:static-capacity'); return
    raise Violation('put_data raised ValueError: %s' % str(e)[:300], bucket='B-exception')
  if not gx.get_data_roundtrips_contacts(md) and not FINDINGS:
    ck.discard('B:finding-contact-in-margin'); return      # candidate finding F19
  if md.nefc and not FINDINGS:
    Jd = md.efc_J.reshape(-1, mm.nv)[:md.nefc] if not mujoco.mj_isSparse(mm) else dense(
        mujoco, md.efc_J, md.efc_J_rownnz, md.efc_J_rowadr, md.efc_J_colind, md.nefc, mm.nv)
    if not (Jd != 0).any(axis=1).all():
      # candidate finding F22: get_data keeps rows with a non-zero Jacobian only (efc_active = (efc_J != 0).any(axis=1)):
      # genuine rows whose Jacobian is exactly zero (connect/weld between rigidly attached bodies, contacts between
      # static/mocap geoms) are dropped, nefc and contact.efc_address change
      ck.discard('B:finding-zero-jacobian-rows'); return
  try:
    back = mjx.get_data(mm, dx)
  except Exception as e:
    raise Violation('get_data raised %s: %s' % (type(e).__name__, str(e)[:300]), bucket='B-exception')
  names = [f.name for f in mjx.Data.fields() if f.name != '_impl'] + [f.name for f in type(dx._impl).fields()]
  compared = 0
  for n in names:
    if n in SKIP_RT or not hasattr(md, n):
      continue
    if n in ('ne', 'nf', 'nl') and not FINDINGS:
      # candidate finding F9: get_data writes the static MJX slot counts (all equality / limit rows, active or not)
      # into ne/nf/nl while nefc and the efc arrays are compacted to active rows
      if int(getattr(md, n)) != int(getattr(back, n)):
        ck.label('B:finding-%s-static-count' % n)
      continue
    a, b = getattr(md, n), getattr(back, n)
    if isinstance(a, (int, float, np.integer, np.floating)):
      ok = (a == b)
    else:
      ok = bits_equal(np.asarray(a), np.asarray(b))
    if not ok:
      raise Violation('get_data(put_data(d)).%s != d.%s\n d   =%s\n back=%s' % (
          n, n, np.array2string(np.asarray(a).ravel()[:16], precision=17), np.array2string(np.asarray(b).ravel()[:16], precision=17)),
          bucket='B-field')
    compared += 1
  nv = mm.nv
  # sparse -> dense -> sparse conversions
  for nme, args_a, args_b, nr in (
      ('actuator_moment', (md.actuator_moment, md.moment_rownnz, md.moment_rowadr, md.moment_colind),
       (back.actuator_moment, back.moment_rownnz, back.moment_rowadr, back.moment_colind), mm.nu),
      ('ten_J', (md.ten_J, mm.ten_J_rownnz, mm.ten_J_rowadr, mm.ten_J_colind),
       (back.ten_J, mm.ten_J_rownnz, mm.ten_J_rowadr, mm.ten_J_colind), mm.ntendon)):
    if nme == 'ten_J' and not nr:
      continue
    if nme == 'ten_J' and not FINDINGS and np.any(np.asarray(md.ten_J) == 0):
      # candidate finding F25: get_data packs the dense ten_J with mju_dense2sparse (drops exact zeros) but MjData.ten_J
      # follows the static pattern m.ten_J_colind: a structural entry that is exactly 0 shifts all later values
      ck.label('B:finding-ten_J-structural-zero')
      continue
    A = dense(mujoco, *args_a, nr, nv)
    Bm = dense(mujoco, *args_b, nr, nv)
    if not bits_equal(A, Bm):
      raise Violation('get_data(put_data(d)).%s (dense) != d.%s' % (nme, nme), bucket='B-field')
    compared += 1
  if not bits_equal(md.M, back.M):
    raise Violation('get_data(put_data(d)).M != d.M\n %s\n %s' % (md.M[:12], back.M[:12]), bucket='B-field')
  if not np.allclose(md.qLD, back.qLD, rtol=1e-12, atol=1e-300) or not np.allclose(md.qLDiagInv, back.qLDiagInv, rtol=1e-12):
    raise Violation('qLD/qLDiagInv after get_data (mj_factorM of the transferred M) differ from the original', bucket='B-field')
  for n in ('ncon', 'nefc') + (('ne', 'nf', 'nl') if FINDINGS else ()):
    if int(getattr(md, n)) != int(getattr(back, n)):
      raise Violation('get_data(put_data(d)).%s = %d, original %d' % (n, int(getattr(back, n)), int(getattr(md, n))),
                      bucket='B-counts')
  # contacts as a multiset (MJX groups contacts by condim)
  ca = rows_sorted([getattr(md.contact, f) for f in CONTACT_FIELDS]) if md.ncon else np.zeros((0, 1))
  cb = rows_sorted([getattr(back.contact, f) for f in CONTACT_FIELDS]) if back.ncon else np.zeros((0, 1))
  if not bits_equal(ca, cb):
    raise Violation('contacts after get_data(put_data(d)) differ from the original as a multiset (ncon=%d)' % md.ncon,
                    bucket='B-contact')
  # efc rows as a multiset; contact <-> row association through efc_address
  if md.nefc:
    def efc_rows(d):
      J = d.efc_J.reshape(-1, nv)[:d.nefc] if not mujoco.mj_isSparse(mm) else dense(
          mujoco, d.efc_J, d.efc_J_rownnz, d.efc_J_rowadr, d.efc_J_colind, d.nefc, nv)
      return [J] + [getattr(d, f) for f in EFC_FIELDS[1:]]
    ra, rb = efc_rows(md), efc_rows(back)
    if not bits_equal(rows_sorted(ra), rows_sorted(rb)):
      raise Violation('efc rows (J,pos,margin,frictionloss,D,aref,force) after round trip differ as a multiset', bucket='B-efc')
    ne_nf_nl = md.ne + md.nf + md.nl
    for k in range(len(ra)):
      if not bits_equal(np.asarray(ra[k])[:ne_nf_nl], np.asarray(rb[k])[:ne_nf_nl]):
        raise Violation('equality/friction/limit efc rows changed order or value in round trip (%s)' % EFC_FIELDS[k], bucket='B-efc')
    # each contact still points at its own rows
    Ja, Jb = ra[0], rb[0]
    for i in range(md.ncon):
      adr = md.contact.efc_address[i]
      if adr < 0:
        continue
      j = [k for k in range(back.ncon) if bits_equal(back.contact.pos[k], md.contact.pos[i]) and
           tuple(back.contact.geom[k]) == tuple(md.contact.geom[i])]
      if not j or not any(back.contact.efc_address[k] >= 0 and bits_equal(Jb[back.contact.efc_address[k]], Ja[adr]) for k in j):
        raise Violation('contact %d: efc_address after round trip does not point at its constraint row' % i, bucket='B-efc-address')
  # mjx.Data must not alias the MjData it was made from: mutate the source (step it, overwrite inputs) and re-read dx
  snap = {k: np.array(v, copy=True) for k, v in leaves(jax, dx).items()}    # np.asarray of a CPU jax array is itself a view
  md.xfrc_applied[...] += 0.25
  md.qfrc_applied[...] -= 0.5
  if mm.nu:
    md.ctrl[...] += 0.125
  for _ in range(3):
    mujoco.mj_step(mm, md)
  now = leaves(jax, dx)
  for k in snap:
    if not np.array_equal(snap[k], now[k], equal_nan=True):
      raise Violation('put_data(m, d).%s changed after the source MjData was stepped/modified (mjx.Data aliases the MjData buffer)\n before=%s\n after =%s' % (
          k, np.array2string(snap[k].ravel()[:8], precision=10), np.array2string(now[k].ravel()[:8], precision=10)), bucket='B-alias')
  nt = md.ncon >= 1 and md.nefc >= 1
  ck.case(nontrivial=nt, key=('B', gm.xml, int(s['qpos'].view(np.uint64).sum() % (1 << 40)), steps),
          sample=dict(oracle='B put_data/get_data', xml=gm.xml, ncon=int(md.ncon), nefc=int(md.nefc), fields_compared=compared,
                      contact_dims=sorted(set(int(x) for x in md.contact.dim))),
          labels=['B:data', 'B:ncon>0' if md.ncon else 'B:ncon=0', 'B:nefc>0' if md.nefc else 'B:nefc=0'])


PLACEHOLDER = ('_impl.contact.dist', '_impl.contact.geom', '_impl.contact.geom1', '_impl.contact.geom2')


def check_make_data(ck, c, gm):
  mujoco, mjx, jax, jp = mjxload.load()
  a = mjx.make_data(c.mm)
  b = mjx.put_data(c.mm, mujoco.MjData(c.mm))
  la, lb = leaves(jax, a), leaves(jax, b)
  if set(la) != set(lb):
    raise Violation('make_data / put_data(fresh) have different leaves: %s' % sorted(set(la) ^ set(lb))[:6], bucket='C-structure')
  sa = jax.tree_util.tree_structure(a)
  sb = jax.tree_util.tree_structure(b)
  n = 0
  for k in sorted(la):
    x, y = la[k], lb[k]
    if k in PLACEHOLDER:
      # padding of empty contact slots: make_data writes dist=0/geom=-1, put_data writes dist=1e10/geom=0; both are
      # inactive (dist >= includemargin = 0) placeholders without a MuJoCo counterpart
      ck.label('C:placeholder-skipped')
      continue
    if x.shape != y.shape:
      raise Violation('make_data.%s shape %s, put_data(fresh).%s shape %s' % (k, x.shape, k, y.shape), bucket='C-shape')
    if x.dtype != y.dtype:
      raise Violation('make_data.%s dtype %s, put_data(fresh).%s dtype %s' % (k, x.dtype, k, y.dtype), bucket='C-dtype')
    if not np.array_equal(x, y, equal_nan=True):
      raise Violation('make_data.%s != put_data(fresh).%s\n make=%s\n put =%s' % (
          k, k, np.array2string(x.ravel()[:12], precision=12), np.array2string(y.ravel()[:12], precision=12)), bucket='C-value')
    n += 1
  if sa != sb:
    raise Violation('make_data and put_data(fresh) differ in static (non-array) fields: %s vs %s' % (
        str(sa)[:300], str(sb)[:300]), bucket='C-static')
  nt = a._impl.ncon > 0 and a._impl.nefc > 0
  ck.case(nontrivial=nt, key=('C', gm.xml), sample=dict(oracle='C make_data vs put_data(fresh)', xml=gm.xml, leaves=n,
                                                       ncon_slots=int(a._impl.ncon), nefc_slots=int(a._impl.nefc)),
          labels=['C:model'])


# ---------------------------------------------------------------- (D) state API

def check_state_api(ck, lib, c, gm, s, s2, rng, nsig):
  mujoco, mjx, jax, jp = mjxload.load()
  from vf import mj
  tm = c.tm
  nstate = lib.enums.mjNSTATE
  if nstate != len(STATE_COMPONENTS) or mujoco.mjtState.mjNSTATE.value != nstate:
    ck.discard('D:nstate-skew'); return
  td = lib.make_data(tm)
  gx.set_state(tm, td, s)
  td2 = lib.make_data(tm)
  gx.set_state(tm, td2, s2)
  if tm.nuserdata:
    td.userdata[:] = rng.uniform(-1, 1, tm.nuserdata)
    td2.userdata[:] = rng.uniform(-1, 1, tm.nuserdata)
  dx = gx.single_data(c, s)
  dx2 = gx.single_data(c, s2)
  if tm.nuserdata:
    dx = dx.replace(userdata=jp.asarray(np.array(td.userdata)))
    dx2 = dx2.replace(userdata=jp.asarray(np.array(td2.userdata)))
  full = (1 << nstate) - 1
  # state_size for ALL signatures
  for sig in range(full + 1):
    n = mjx.state_size(c.mx, sig)
    if n != lib.mj_stateSize(tm, sig):
      raise Violation('mjx.state_size(sig=%d)=%d, mj_stateSize=%d' % (sig, n, lib.mj_stateSize(tm, sig)), bucket='D-size')
  ck.label('D:all-sizes')
  sizes = [lib.mj_stateSize(tm, 1 << i) for i in range(nstate)]
  sigs = [full, 0] + [1 << i for i in range(nstate)] + [int(x) for x in rng.randint(0, full + 1, size=nsig)]
  for sig in sigs:
    n = lib.mj_stateSize(tm, sig)
    want = np.zeros(n)
    if n:
      lib.mj_getState(tm, td, want, sig)
    got = np.asarray(mjx.get_state(c.mx, dx, sig), dtype=np.float64)
    if got.shape != (n,) or not np.array_equal(got, want):
      raise Violation('mjx.get_state(sig=%d) != mj_getState: shape %s vs (%d,), first diff at %s\n mjx=%s\n C  =%s' % (
          sig, got.shape, n, np.flatnonzero(got != want)[:3].tolist() if got.shape == (n,) else '-',
          np.array2string(got[:16], precision=12), np.array2string(want[:16], precision=12)), bucket='D-get')
    # set_state into the other data: selected components taken, the rest untouched; same as the C API
    d3 = mjx.set_state(c.mx, dx2, jp.asarray(want), sig)
    td3 = lib.copy_data(tm, td2)
    if n:
      lib.mj_setState(tm, td3, want, sig)
    for i, (cname, field) in enumerate(STATE_COMPONENTS):
      cval = np.array([td3.time]) if field == 'time' else np.asarray(getattr(td3, field), dtype=np.float64).ravel()
      xval = np.asarray(getattr(d3, field), dtype=np.float64).ravel()
      if cval.size != xval.size or not np.array_equal(cval, xval):
        raise Violation('after set_state(sig=%d) component %s differs from mj_setState result (selected=%s)\n mjx=%s\n C  =%s' % (
            sig, cname, bool(sig >> i & 1), xval[:12], cval[:12]), bucket='D-set')
      x0 = np.asarray(getattr(dx2, field))
      x3 = np.asarray(getattr(d3, field))
      if x0.shape != x3.shape or x0.dtype != x3.dtype:
        raise Violation('set_state(sig=%d) changed shape/dtype of %s: %s %s -> %s %s' % (sig, field, x0.shape, x0.dtype, x3.shape, x3.dtype),
                        bucket='D-set-dtype')
    # nothing else changes
    l0, l3 = leaves(jax, dx2), leaves(jax, d3)
    sel = {f for i, (_, f) in enumerate(STATE_COMPONENTS) if sig >> i & 1}
    for k in l0:
      if k not in sel and not np.array_equal(l0[k], l3[k], equal_nan=True):
        raise Violation('set_state(sig=%d) modified unrelated leaf %s' % (sig, k), bucket='D-frame')
    # round trip
    back = np.asarray(mjx.get_state(c.mx, d3, sig), dtype=np.float64)
    if not np.array_equal(back, want):
      raise Violation('get_state(set_state(x, sig), sig) != x for sig=%d' % sig, bucket='D-roundtrip')
    bits = [i for i in range(nstate) if sig >> i & 1]
    nt = len(bits) >= 2 and any(sizes[i] > 0 for i in bits)
    ck.case(nontrivial=nt, key=('D', gm.xml, sig),
            sample=dict(oracle='D state API', sig=sig, components=[STATE_COMPONENTS[i][0] for i in bits],
                        sizes=[sizes[i] for i in bits]), labels=['D:signature'])
  # invalid signatures / sizes
  for bad in (1 << nstate, (1 << nstate) + 3, 1 << 20):
    for fn in ('get', 'set'):
      try:
        if fn == 'get':
          mjx.get_state(c.mx, dx, bad)
        else:
          mjx.set_state(c.mx, dx, jp.zeros(3), bad)
      except (ValueError, NotImplementedError):
        continue
      raise Violation('mjx.%s_state accepted invalid signature %d' % (fn, bad), bucket='D-invalid')
  try:
    mjx.set_state(c.mx, dx, jp.zeros(lib.mj_stateSize(tm, full) + 1), full)
    raise Violation('mjx.set_state accepted a state vector of the wrong size', bucket='D-invalid')
  except ValueError:
    pass


RULE = ('models from vf.gen_mjx.models. (A) per model a batch of 3-6 states (odd ones settled by C steps): jit(vmap(f))[i] vs '
        'jit(f)(x_i) for all i on every pytree leaf for f = step (solver tolerance 1e-10 so that batch '
        'members leave the solver loop at different iterations) and f = forward-without-collision/solver; jit(f) vs eager f for '
        '1-2 samples of the latter (eager step only in the thorough tier: minutes per call); non-trivial = batch whose states have '
        '>1 distinct (active contact set, active row set); (B) wheel MjData after 0/15/60 steps -> put_data -> '
        'get_data, bit-exact field comparison; non-trivial = ncon>=1 and nefc>=1; (C) make_data vs put_data(MjData(m)) leaf by '
        'leaf; (D) all 2^14 signatures for state_size, full/empty/single-bit + random signatures for get_state/set_state vs the '
        'tree C engine; non-trivial = >=2 components, >=1 non-empty. distinct by (oracle, model xml, state seed / signature).')
ASSUMPTIONS = ['put_data/get_data/make_data operate on mujoco.MjModel/MjData of the installed wheel (3.13.0); the C state API '
               'reference is the tree engine, guarded by the model-array skew check',
               'placeholder values in unused contact slots (dist, geom ids) are not part of the make_data/put_data comparison',
               'sub-domains excluded by construction and probed on every run by vf/mjx_findings.py (KNOWN-FINDING F8 F9 F19 F20 F22 F25): ne/nf/nl after get_data '
               '(static slot counts), data with an active contact at 0 < dist < margin (dropped by get_data), data with constraint rows whose '
               'Jacobian is exactly zero (dropped by get_data), ten_J when a structural entry is exactly zero (values shifted by get_data)']


# feature-pinned transfer model: an inactive and an active equality (MjData.ne < static MJX ne), frictionloss rows, limits that are
# active in part of the states, and contacts of two condims - the layout conversions of put_data/get_data all have work to do
PINNED_XML = ('<mujoco><option cone="%s"/><worldbody><geom name="floor" type="plane" size="3 3 .1" condim="3"/>'
              '<body name="b1" pos="0 0 .5"><joint name="h" type="hinge" axis="0 1 0" range="-8 8" limited="true" frictionloss="0.3"/>'
              '<geom type="capsule" size=".04 .15" pos="0 0 -.15"/>'
              '<body name="b2" pos="0 0 -.3"><joint name="s" type="slide" axis="0 0 1" range="-0.05 0.05" limited="true" frictionloss="0.2"/>'
              '<geom type="sphere" size=".09" pos="0 0 -.14" condim="4"/></body></body>'
              '<body name="b3" pos=".5 0 .07"><joint name="f" type="free"/><geom type="sphere" size=".08" condim="6"/></body></worldbody>'
              '<tendon><fixed name="t" frictionloss="0.1" limited="true" range="-0.02 0.02"><joint joint="h" coef="1"/><joint joint="s" coef="2"/></fixed></tendon>'
              '<equality><joint name="e0" joint1="h" joint2="s" polycoef="0 0.5 0 0 0" active="false"/><connect name="e1" body1="b3" anchor="0 0 .1"/>'
              '<weld name="e2" body1="b2" body2="b3" active="false"/></equality></mujoco>')


def shard_main(ck, shard, nshards):
  mujoco, mjx, jax, jp = mjxload.load()
  lib = ck.lib('rel')
  nshards -= 1                       # the last worker runs the known-finding probes (vf/mjx_findings.py)
  if shard == nshards:
    from vf import mjx_findings
    mjx_findings.run_probes(ck, mjx_findings.BY_PROPERTY['C44'])
    return
  worst = collections.defaultdict(float)
  nA = max(1, -(-ck.budget(3, 48) // nshards))
  nB = max(1, -(-ck.budget(12, 360) // nshards))
  batch = 3 if ck.quick else 6
  t_start = time.time()
  t_budget = float(os.environ.get('C44_TIME', 45 if ck.quick else 1200))
  first = [True]

  def testA(case):
    gm, seeds = case
    if time.time() - t_start > t_budget and ck.evaluations >= 2:
      ck.discard('time-budget'); return
    es = 1 if (not ck.quick and first[0]) else 0
    first[0] = False
    check_transparency(ck, lib, gm, seeds, worst, eager_samples=1 if ck.quick else 2, eager_step=es)
  ck.run_hypothesis(testA, st.tuples(gx.models(max_bodies=2 if ck.quick else 3, sensors=True, plane=True),
                                     st.lists(mg.state_seed(), min_size=batch, max_size=batch, unique=True)),
                    nA, name='jit-vmap-%d' % shard, shrink=False)

  def testBCD(case):
    gm, seeds, sd = case
    if gm.info.get('pinned'):
      ck.label('B:pinned')
    try:
      c = gx.build(lib, gm.xml)
    except gx.CompileDiscard:
      ck.discard('compile'); return
    except gx.Unsupported:
      ck.discard('unsupported'); return
    if gx.skew(c):
      ck.discard('version-skew'); return
    rng = np.random.RandomState(sd)
    sts = [gx.make_state(lib, c.tm, x) for x in seeds]
    if any(x is None for x in sts):
      ck.discard('no-state'); return
    check_make_data(ck, c, gm)
    for k, s in enumerate(sts):
      check_roundtrip(ck, lib, c, gm, s, steps=[0, 15, 60][k % 3])
    check_state_api(ck, lib, c, gm, sts[0], sts[1], rng, nsig=(24 if ck.quick else 160))
  if shard == 0:
    pin = st.sampled_from(['pyramidal', 'elliptic']).map(lambda cone: mg.GenModel(PINNED_XML % cone, dict(labels=['pinned:transfer'], pinned=True)))
    ck.run_hypothesis(testBCD, st.tuples(pin, st.lists(mg.state_seed(), min_size=3, max_size=3, unique=True), mg.state_seed()),
                      2 if ck.quick else 8, name='transfer-pinned', shrink=False)
  ck.run_hypothesis(testBCD, st.tuples(gx.models(max_bodies=4, sensors=True, userdata=True),
                                       st.lists(mg.state_seed(), min_size=3, max_size=3, unique=True), mg.state_seed()),
                    nB, name='transfer-%d' % shard, shrink=False)
  ck.extra['worst'] = dict(worst)


def replay(ck, body):
  """./verif C44 --replay <violation.json>"""
  from checks.c43 import _gm_from_json
  mujoco, mjx, jax, jp = mjxload.load()
  lib = ck.lib('rel')
  case = body['case']['case']
  gm = _gm_from_json(case[0])
  worst = collections.defaultdict(float)
  try:
    if str(body['case'].get('check', '')).startswith('jit-vmap'):
      check_transparency(ck, lib, gm, [int(x) for x in case[1]], worst, eager_samples=1)
    else:
      seeds, sd = [int(x) for x in case[1]], int(case[2])
      c = gx.build(lib, gm.xml)
      sts = [gx.make_state(lib, c.tm, x) for x in seeds]
      check_make_data(ck, c, gm)
      for k, s in enumerate(sts):
        check_roundtrip(ck, lib, c, gm, s, steps=[0, 15, 60][k % 3])
      check_state_api(ck, lib, c, gm, sts[0], sts[1], np.random.RandomState(sd), nsig=160)
  except Violation as e:
    ck.violation('Violation: %s' % e, dict(check='replay', case=case), bucket=getattr(e, 'bucket', None))


def main(ck):
  from vf import mjxshard
  ck.rule = RULE
  ck.assumptions = ASSUMPTIONS
  nshards = int(os.environ.get('C44_SHARDS', 3 if ck.quick else 6))
  extra = mjxshard.run(ck, 'c44', nshards + 1, timeout=(1800 if ck.quick else 5400))   # + 1 probe worker
  worst = mjxshard.merge_max(extra.get('worst', []))
  ck.extra['worst_rel_err_A'] = {k: float('%.3g' % v) for k, v in worst.items()}
  ck.extra['shards'] = nshards
  ck.extra['tolerances'] = dict(A=TOL_A, A_solver=TOL_A_SOLVER, B='bit-exact', C='exact', D='exact')


LEVEL = 'exploration'
TECHNIQUE = 'property-based testing: metamorphic (jit/vmap/eager equivalence on every pytree leaf), round-trip (put_data/get_data, get_state/set_state) and differential (state API vs the tree C engine, make_data vs put_data) oracles on generated models and state batches'
LEVEL_TEXT = '''Generated supported models and state batches: jit, vmap and eager evaluation of MJX step/forward/kinematics are
compared on every leaf of the returned Data; MjData round trips through put_data/get_data are compared bit-exactly (contacts and
constraint rows as multisets); make_data is compared with put_data of a fresh MjData; state_size is checked for all 2^14
signatures and get_state/set_state for sampled signatures against the tree C engine's state API including the frame condition.'''
LEVEL_NOTE = '''The transfer functions necessarily use MjModel/MjData of the installed 3.13.0 wheel. Eager (op-by-op) evaluation is only
affordable for the pipeline without collision/constraint/solver (1-2 states per model) and for one full step per worker in the
thorough tier; jit-vs-vmap is checked on the full step for every batch member. Unused contact-slot placeholders are ignored in
make_data vs put_data. Sub-domains where get_data was found not to return the original data are excluded and listed in
`assumptions` (ne/nf/nl static counts, contacts inside a positive margin, rows with an exactly zero Jacobian, ten_J with a
structural zero) and each is probed on its minimal input on every run by an extra worker (vf/mjx_findings.py F8 F9 F19 F20 F22 F25,
reported through the known-findings mechanism). Only impl=jax is covered
(warp / cpp back-ends cannot be loaded here). No shrinking; sharded over worker processes; time-budgeted.'''
