"""C45 - MJX dynamics have correct gradients.

Domain : smooth configurations of supported models: family S (no constraint rows at all), family K (equalities,
         joint/tendon limits and frictionloss present, contact slots present but every geom held > 1 above a plane:
         strictly inactive; solver iterations = 1 so that reverse mode is defined), states, ctrl/act and real-valued
         model parameters (body_mass, body_inertia, dof_damping, dof_armature, jnt_stiffness, actuator_gainprm[0],
         actuator_biasprm[1:3], tendon_stiffness/damping, opt.gravity).  Points within 1e-3 of a ctrl/force/act
         clamp or a limit activation boundary are excluded (the statement's "smooth configurations").
Oracle : for g(x) = (qacc, qvel', qpos', act') of mjx.step at x = (tangent-space dq, qvel, ctrl, act, params):
         jax.jacfwd(g) is finite and equals central finite differences of the *same jitted g* (median of h, 2h, 4h
         with h = 1e-6 scaled);
         jax.jacrev(g) equals jacfwd(g).
Non-trivial: nv >= 3 and (a free/ball joint or an actuator with activation dynamics).
"""
import collections
import os
import re
import time

import numpy as np
from hypothesis import strategies as st

from vf import gen_mjx as gx
from vf import mjxload
from vf import modelgen as mg
from vf.runner import Violation

# Tolerances (row-scaled: |Jad - Jfd|_rowmax / (1 + |Jad|_rowmax + |g_row|)).  Central differences with h=1e-6 have
# truncation ~ h^2 |g'''| and rounding ~ eps*cond*|g|/h ~ 1e-10*cond; worst observed on the unchanged tree over seeds
# 1-3 quick + 2 thorough runs: 5.1e-7 (FD, family S), 7.5e-8 (FD, family K), 8.5e-13 (fwd vs rev) -> fixed at ~100x.
TOL_FD = 5e-5
TOL_FD_K = 5e-5      # family K (constraint rows, no frictionloss): same constant; worst observed 7.5e-8.  With frictionloss rows
                     # the bracketing line search makes AD deviate by up to 1.7e-2 (candidate finding F24): excluded.
TOL_FWD_REV = 1e-10
H = 1e-6
CLAMP_EXCL = 1e-3

# Candidate finding F10: with cone=elliptic every gradient of forward/step is NaN as soon as the model has a contact slot, even
# when the contact is far from active (and elliptic without frictional contact slots hits the TypeError of finding F2), so
# the elliptic cone is excluded from the generated domain; F10 is probed on every run (vf/mjx_findings.py, KNOWN-FINDING).
FINDINGS = bool(os.environ.get('C45_FINDINGS'))

PARAMS = ('body_mass', 'body_inertia', 'dof_damping', 'dof_armature', 'jnt_stiffness', 'actuator_gainprm0',
          'actuator_biasprm12', 'tendon_stiffness', 'tendon_damping', 'gravity')


def strip_constraints(xml):
  """family S: remove everything that creates constraint rows."""
  xml = re.sub(r' limited="true"', '', xml)
  xml = re.sub(r' range="[^"]*"', '', xml)      # autolimits would turn a bare range into a limit
  xml = re.sub(r' frictionloss="[^"]*"', '', xml)
  xml = re.sub(r'<equality>.*?</equality>', '', xml)
  return xml


def add_far_plane(xml):
  """family K: geoms collide with a plane 4 units below only (contact slots exist, all strictly inactive)."""
  xml = xml.replace(' contype="0" conaffinity="0"', ' contype="2" conaffinity="0"', 1)    # one geom is enough
  return xml.replace('<worldbody>', '<worldbody><geom name="farplane" type="plane" size="5 5 .1" pos="0 0 -4" '
                     'contype="0" conaffinity="2"/>', 1)


@st.composite
def smooth_models(draw):
  fam = draw(st.sampled_from(['S', 'K']))
  okw = dict(flags=False, fluid=(fam == 'S'), integrators=('Euler', 'Euler', 'implicitfast', 'RK4'),
             iterations=(60 if fam == 'S' else 1), cones=('pyramidal', 'elliptic') if (fam == 'K' and FINDINGS) else ('pyramidal',))
  gm = draw(gx.models(max_bodies=2, family='A', contacts=False, sensors=False, mocap=False, plane=False,
                      equalities=(fam == 'K'), opt_kwargs=okw, spread=0.5))
  if fam == 'S':
    gm.xml = strip_constraints(gm.xml)
  else:
    # one Newton iteration with a *converged* line search (50 iterations, ls_tolerance 1e-9): a truncated line search
    # makes the solver output a discontinuous function of its inputs (observed: jumps of 1e2 in qvel' over 2e-6)
    gm.xml = add_far_plane(gm.xml)
    if not FINDINGS:
      # candidate finding F24: with frictionloss rows (piecewise cost) the bracketing line search returns bisection
      # mid-points; AD differentiates those iterates and was measured up to 1.7e-2 (relative) away from three mutually
      # consistent central differences of the same function, independently of ls_tolerance.  Without frictionloss the
      # cost is quadratic unless a limit changes state and the Newton step needs no bracketing.
      gm.xml = re.sub(r' frictionloss="[^"]*"', '', gm.xml)
  gm.info['labels'] = sorted(set(gm.info['labels']) | {'family:' + fam})
  gm.info['family'] = fam
  return gm


_OPT45 = ('<option timestep="%(dt)s" integrator="%(int)s" solver="Newton" cone="pyramidal" jacobian="dense" iterations="%(it)s" tolerance="1e-15" '
          'ls_iterations="50" ls_tolerance="1e-9"/>')
_T45_K = ('<mujoco>' + _OPT45 + '<worldbody><geom name="farplane" type="plane" size="5 5 .1" pos="0 0 -4" contype="0" conaffinity="2"/>'
          '<body name="b1" pos="0 0 .5"><joint name="h" type="hinge" axis="0 1 0" stiffness="%(k1)s" springref="0.2" damping="%(d1)s" armature="0.05" '
          'range="-20 20" limited="true"/><geom type="capsule" size=".04 .15" pos="0 0 -.15" contype="0" conaffinity="0"/>'
          '<body name="b2" pos="0 0 -.3"><joint name="b" type="ball" damping="%(d2)s" stiffness="%(k2)s"/>'
          '<geom type="sphere" size=".06" pos=".1 0 -.1" contype="2" conaffinity="0"/>'
          '<body name="marker" pos=".05 .02 -.1"><site name="mk"/></body></body></body></worldbody>'
          '<equality><connect body1="b2" anchor="0.1 0.05 -0.2"/></equality>'
          '<actuator><general name="a0" joint="h" dyntype="filter" dynprm="0.08" gainprm="%(g)s"/></actuator></mujoco>')
_T45_S = ('<mujoco>' + _OPT45 + '<worldbody><site name="w" pos="0.4 0.1 0.6"/>'
          '<body name="b1" pos="0 0 .5"><joint name="b" type="ball" damping="%(d1)s"/><geom type="capsule" size=".04 .15" pos="0 0 -.15" contype="0" conaffinity="0"/>'
          '<site name="s1" pos="0.05 0.02 -0.2"/>'
          '<body name="b2" pos="0 0 -.3"><joint name="sl" type="slide" axis="1 0 1" stiffness="%(k1)s" springref="0.1" damping="%(d2)s"/>'
          '<geom type="box" size=".05 .06 .07" contype="0" conaffinity="0"/><site name="s2" pos="0.02 0.03 0"/>'
          '<body name="marker" pos=".05 .02 -.1"><site name="mk"/></body></body></body></worldbody>'
          '<tendon><fixed name="t0" stiffness="%(k2)s" damping="0.3"><joint joint="sl" coef="1.3"/></fixed>'
          '<spatial name="t1" stiffness="4" damping="0.2"><site site="w"/><site site="s1"/><site site="s2"/></spatial></tendon>'
          '<actuator><intvelocity name="a0" joint="sl" kp="%(g)s" actrange="-0.5 0.5"/><position name="a1" tendon="t1" kp="6" kv="0.5"/>'
          '<general name="a2" joint="sl" gaintype="affine" gainprm="0 0 -%(kv)s"/></actuator></mujoco>')


@st.composite
def pinned45(draw, kind):
  n = lambda lo, hi, d=2: mg.fmt(draw(mg.num(lo, hi, d)))
  # S is always implicitfast: its ctrl-scaled velocity gain (a2) and the joint/tendon damping enter qDeriv of the implicit solve;
  # both templates carry a massless leaf body ("marker": site only) below the joints (reverse-mode 0/0 hazards in com_pos)
  integ = 'implicitfast' if kind == 'S' else draw(st.sampled_from(['Euler', 'implicitfast']))
  p = dict(kv=n(1, 4, 1), dt=n(0.002, 0.006, 3), int=integ, it=('1' if kind == 'K' else '60'), k1=n(1, 15, 1), k2=n(1, 10, 1), d1=n(0.1, 1.0), d2=n(0.1, 1.0),
           g=n(1, 8, 1))
  xml = (_T45_K if kind == 'K' else _T45_S) % p
  info = dict(option=dict(integrator=integ, cone='pyramidal', solver='Newton', flags={}), family=kind, pinned=True,
              labels=sorted(['pinned:' + kind, 'family:' + kind, 'int:' + integ, 'jnt:ball', 'jnt:hinge' if kind == 'K' else 'jnt:slide',
                             'eq:connect' if kind == 'K' else 'tendon:spatial']))
  return mg.GenModel(xml, info)


def near_boundary(lib, tm, s):
  """True if the state is within CLAMP_EXCL of a non-smooth boundary (evaluated with the tree C engine)."""
  d = lib.make_data(tm)
  gx.set_state(tm, d, s)
  lib.mj_forward(tm, d)
  if lib.warnings():
    return 'c-warning'
  for i in range(tm.nu):
    if tm.actuator_ctrllimited[i]:
      lo, hi = tm.actuator_ctrlrange[i]
      if min(abs(d.ctrl[i] - lo), abs(d.ctrl[i] - hi)) < CLAMP_EXCL:
        return 'ctrl-clamp'
    if tm.actuator_forcelimited[i]:
      lo, hi = tm.actuator_forcerange[i]
      f = d.actuator_force[i]
      # the clamped value sits exactly on the bound: recompute the unclamped force margin via a tiny ctrl change is
      # not possible here, so exclude when clamped value equals a bound and |gain| makes the raw force close
      if min(abs(f - lo), abs(f - hi)) < CLAMP_EXCL and not (f == lo or f == hi):
        return 'force-clamp'
    if tm.actuator_actlimited[i] and tm.actuator_actadr[i] >= 0:
      a = int(tm.actuator_actadr[i]) + int(tm.actuator_actnum[i]) - 1
      lo, hi = tm.actuator_actrange[i]
      nxt = d.act[a] + d.act_dot[a] * tm.opt.timestep
      if min(abs(nxt - lo), abs(nxt - hi)) < 5 * CLAMP_EXCL or min(abs(d.act[a] - lo), abs(d.act[a] - hi)) < CLAMP_EXCL:
        return 'act-clamp'
  for j in range(tm.njnt):
    if not tm.jnt_limited[j]:
      continue
    t = int(tm.jnt_type[j])
    a = int(tm.jnt_qposadr[j])
    if t in (2, 3):
      q = d.qpos[a]
      if min(abs(q - tm.jnt_range[j][0]), abs(q - tm.jnt_range[j][1])) < CLAMP_EXCL:
        return 'joint-limit'
    elif t == 1:
      q = d.qpos[a:a + 4]
      ang = 2 * np.arctan2(np.linalg.norm(q[1:]), abs(q[0]))
      if abs(ang - max(tm.jnt_range[j])) < CLAMP_EXCL or ang < 1e-2:
        return 'ball-limit'
  for t in range(tm.ntendon):
    if tm.tendon_limited[t]:
      L = d.ten_length[t]
      if min(abs(L - tm.tendon_range[t][0]), abs(L - tm.tendon_range[t][1])) < CLAMP_EXCL:
        return 'tendon-limit'
    lo, hi = tm.tendon_lengthspring[t]
    if hi > lo and min(abs(d.ten_length[t] - lo), abs(d.ten_length[t] - hi)) < CLAMP_EXCL:
      return 'tendon-deadband'
  if int(d.ncon):
    return 'contact'
  if tm.nv:
    cond = np.linalg.cond(lib.fullM(tm, d))
    if not np.isfinite(cond) or cond > 1e8:
      return 'illconditioned'
  # velocities exactly zero make |v|v fluid terms and norm() kinks reachable
  return None


class GradCase:
  def __init__(self, c, gm):
    mujoco, mjx, jax, jp = mjxload.load()
    self.c = c
    mx = c.mx
    tm = c.tm
    nv, nu, na = tm.nv, tm.nu, tm.na
    self.nv, self.nu, self.na = nv, nu, na
    # parameter vector layout
    p0 = []
    self.layout = []
    def add(name, arr):
      arr = np.asarray(arr, dtype=np.float64).ravel()
      if arr.size:
        self.layout.append((name, len(p0), arr.size))
        p0.extend(arr.tolist())
    add('body_mass', mx.body_mass[1:])
    add('body_inertia', mx.body_inertia[1:])
    add('dof_damping', mx.dof_damping)
    add('dof_armature', mx.dof_armature)
    add('jnt_stiffness', mx.jnt_stiffness)
    if nu:
      add('actuator_gainprm0', np.asarray(mx.actuator_gainprm)[:, 0])
      add('actuator_biasprm12', np.asarray(mx.actuator_biasprm)[:, 1:3])
    if tm.ntendon:
      add('tendon_stiffness', mx.tendon_stiffness)
      add('tendon_damping', mx.tendon_damping)
    add('gravity', mx.opt.gravity)
    self.p0 = np.array(p0)
    self.npar = len(p0)
    self.nx = 2 * nv + nu + na + self.npar
    jnt_type = [int(t) for t in np.asarray(tm.jnt_type)]
    jnt_qadr = [int(a) for a in np.asarray(tm.jnt_qposadr)]
    jnt_dadr = [int(a) for a in np.asarray(tm.jnt_dofadr)]
    layout = list(self.layout)
    nbody = tm.nbody

    def quat_mul(a, b):
      return jp.array([a[0] * b[0] - a[1] * b[1] - a[2] * b[2] - a[3] * b[3],
                       a[0] * b[1] + a[1] * b[0] + a[2] * b[3] - a[3] * b[2],
                       a[0] * b[2] - a[1] * b[3] + a[2] * b[0] + a[3] * b[1],
                       a[0] * b[3] + a[1] * b[2] - a[2] * b[1] + a[3] * b[0]])

    def retract(q0, dq):
      """smooth retraction of the configuration manifold around q0 (first-order exact, defined in this check; the
      same function is used for AD and for finite differences)."""
      q = q0
      for t, qa, da in zip(jnt_type, jnt_qadr, jnt_dadr):
        if t == 0:
          q = q.at[qa:qa + 3].add(dq[da:da + 3])
          w = dq[da + 3:da + 6]
          nq_ = quat_mul(q0[qa + 3:qa + 7], jp.concatenate([jp.ones(1), 0.5 * w]))
          q = q.at[qa + 3:qa + 7].set(nq_ / jp.sqrt(jp.sum(nq_ * nq_)))
        elif t == 1:
          w = dq[da:da + 3]
          nq_ = quat_mul(q0[qa:qa + 4], jp.concatenate([jp.ones(1), 0.5 * w]))
          q = q.at[qa:qa + 4].set(nq_ / jp.sqrt(jp.sum(nq_ * nq_)))
        else:
          q = q.at[qa].add(dq[da])
      return q

    def g(x, qpos0, dx0):
      dq, qvel, ctrl, act, p = x[:nv], x[nv:2 * nv], x[2 * nv:2 * nv + nu], x[2 * nv + nu:2 * nv + nu + na], x[2 * nv + nu + na:]
      rep = {}
      grav = mx.opt.gravity
      for name, off, n in layout:
        v = p[off:off + n]
        if name == 'body_mass':
          rep['body_mass'] = jp.concatenate([mx.body_mass[:1], v])
        elif name == 'body_inertia':
          rep['body_inertia'] = jp.concatenate([mx.body_inertia[:1], v.reshape(nbody - 1, 3)])
        elif name == 'actuator_gainprm0':
          rep['actuator_gainprm'] = mx.actuator_gainprm.at[:, 0].set(v)
        elif name == 'actuator_biasprm12':
          rep['actuator_biasprm'] = mx.actuator_biasprm.at[:, 1:3].set(v.reshape(nu, 2))
        elif name == 'gravity':
          grav = v
        else:
          rep[name] = v
      m = mx.replace(opt=mx.opt.replace(gravity=grav), **rep)
      d = dx0.replace(qpos=retract(qpos0, dq), qvel=qvel, ctrl=ctrl, act=act)
      d2 = mjx.step(m, d)
      return jp.concatenate([d2.qacc, d2.qvel, d2.qpos, d2.act])
    self.g = g
    self.jg = jax.jit(jax.vmap(g, in_axes=(0, None, None)))
    self.jfwd = jax.jit(jax.jacfwd(g))
    self.jrev = jax.jit(jax.jacrev(g))

  def x0(self, s):
    return np.concatenate([np.zeros(self.nv), s['qvel'], s['ctrl'], s['act'], self.p0])

  def names(self):
    out = ['dq%d' % i for i in range(self.nv)] + ['qvel%d' % i for i in range(self.nv)] + ['ctrl%d' % i for i in range(self.nu)] \
        + ['act%d' % i for i in range(self.na)]
    for name, off, n in self.layout:
      out += ['%s[%d]' % (name, k) for k in range(n)]
    return out


RULE = ('models: vf.gen_mjx.models without active contacts; family S = no constraint rows (limits, frictionloss, equalities '
        'stripped), family K = equalities/limits/frictionloss + contact slots against a plane 4 below (strictly inactive), '
        'solver iterations=1, pyramidal cone; Euler/implicitfast/RK4. Points: states x params; excluded within 1e-3 of ctrl/force/act '
        'clamps, joint/tendon limit boundaries, tendon spring dead-band, any active contact. g = (qacc, qvel\', qpos\', act\') of '
        'mjx.step; inputs = tangent dq, qvel, ctrl, act, model parameters. Non-trivial = nv>=3 and (free/ball joint or stateful '
        'actuator); distinct by (model xml, state seed). Two feature-pinned templates (K: connect+limit+springs+filter actuator, '
        'S: ball+slide spring+fixed/spatial tendons+intvelocity) are run before the random structures.')
ASSUMPTIONS = ['finite differences are taken on the same jitted function as AD (central; element-wise median of step sizes h, 2h, 4h with h=1e-6*max(1,|x_i|))',
               'reverse mode through the constraint solver is only defined for opt.iterations=1 (while_loop otherwise): '
               'family K uses iterations=1, family S has no constraint rows',
               'model parameters are perturbed in mjx.Model only (derived compile-time quantities such as invweight0 are inputs, not recomputed)',
               'elliptic cone excluded from the generators: F10 (all gradients NaN with any contact slot; probed on every run by vf/mjx_findings.py and '
               'reported as KNOWN-FINDING) / F2 (TypeError without contact slot, reported by C43)',
               'frictionloss rows excluded from family K: F24 (AD through the bracketing line search deviates up to 1.7e-2 from mutually consistent '
               'finite differences; no standalone reproducer, recorded inputs need the 3-jit GradCase machinery)']


def shard_main(ck, shard, nshards, only_case=None):
  mujoco, mjx, jax, jp = mjxload.load()
  lib = ck.lib('rel')
  if only_case is None:
    nshards -= 1                     # the last worker runs the known-finding probes (vf/mjx_findings.py)
    if shard == nshards:
      from vf import mjx_findings
      mjx_findings.run_probes(ck, mjx_findings.BY_PROPERTY['C45'])
      return
  worst = collections.defaultdict(float)
  npoints = 2 if ck.quick else 6
  quota = 1
  done = [0]
  nmodels = 14 if ck.quick else max(1, -(-ck.budget(6, 60) // nshards))
  t_start = time.time()
  t_budget = float(os.environ.get('C45_TIME', 35 if ck.quick else 1200))
  names_seen = collections.Counter()

  def test(case):
    gm, seeds = case
    if time.time() - t_start > t_budget and len(ck.nontrivial) >= 2:
      ck.discard('time-budget'); return
    try:
      c = gx.build(lib, gm.xml)
    except gx.CompileDiscard:
      ck.discard('compile'); return
    except gx.Unsupported as e:
      ck.discard('unsupported'); return
    crash = gx.known_mjx_crash(c, gm)
    if crash:
      ck.discard(crash); return
    tm = c.tm
    quatj = any(int(t) in (0, 1) for t in np.asarray(tm.jnt_type))
    nt = tm.nv >= 3 and (quatj or tm.na > 0)
    if ck.quick and not gm.info.get('pinned'):
      # three jit compilations per model (vmap g, jacfwd, jacrev), 30-200 s depending on load: the quick tier compiles
      # `quota` models per worker and spends them on non-trivial, moderately sized structures only
      if done[0] >= quota:
        ck.discard('quick-quota-reached'); return
      if not nt:
        ck.discard('trivial-skipped-in-quick-tier'); return
      if tm.nv > 6 or c.dx0._impl.nefc > 16:
        ck.discard('too-large-for-quick-tier'); return
    pts = []
    for sd in seeds:
      s = gx.make_state(lib, tm, sd, pos_scale=0.3, vel_scale=1.0, forces=True, warm=False)
      if s is None:
        continue
      nb = near_boundary(lib, tm, s)
      if nb:
        ck.discard('excluded:' + nb)
        continue
      pts.append((sd, s))
    if not pts:
      return
    if not gm.info.get('pinned'):
      done[0] += 1
    t0 = time.time()
    G = GradCase(c, gm)
    labels = gm.labels()
    for sd, s in pts:
      x0 = G.x0(s)
      dxs = gx.single_data(c, s)
      qpos0 = jp.asarray(s['qpos'])
      try:
        Jf = np.asarray(G.jfwd(jp.asarray(x0), qpos0, dxs))
      except Exception as e:
        raise Violation('jax.jacfwd(step) raised %s: %s' % (type(e).__name__, str(e)[:300]), bucket='jacfwd-exception')
      # robust central differences: three step sizes (h, 2h, 4h), element-wise median.  One Newton iteration with a
      # line search is a piecewise algorithm: isolated inputs (measured: a single point among 9 on a 3e-6 grid) give an
      # outlier value; a single corrupted sample can spoil at most one of the three estimates.
      h = H * np.maximum(1.0, np.abs(x0))
      n = G.nx
      X = np.concatenate([x0 + k * np.diag(h) for k in (1, 2, 4)] + [x0 - k * np.diag(h) for k in (1, 2, 4)] + [x0[None]])
      Y = np.asarray(G.jg(jp.asarray(X), qpos0, dxs))
      g0 = Y[-1]
      ests = [((Y[i * n:(i + 1) * n] - Y[(3 + i) * n:(4 + i) * n]) / (2 * k * h[:, None])).T for i, k in enumerate((1, 2, 4))]
      Jfd = np.median(np.stack(ests), axis=0)
      if not np.all(np.isfinite(Y)):
        ck.discard('g-not-finite'); continue          # the step itself diverged at (a neighbour of) this point
      if not np.all(np.isfinite(Jf)):
        bad = np.argwhere(~np.isfinite(Jf))[0]
        raise Violation('jacfwd of step is not finite: d out[%d] / d %s = %s while g is finite at the point and at all %d '
                        'neighbouring finite-difference points' % (bad[0], G.names()[bad[1]], Jf[bad[0], bad[1]], 6 * n),
                        bucket='non-finite')
      scale = 1.0 + np.max(np.abs(Jf), axis=1) + np.abs(g0)
      # an entry is only judged where finite differences are trustworthy: the three estimates (h, 2h, 4h) must agree with
      # each other within half the tolerance; otherwise (nearly singular inertia: |J| ~ 1e8..1e17, isolated solver
      # glitches) the entry is skipped and counted.  A wrong derivative rule leaves the estimates consistent.
      spread = (np.max(np.stack(ests), axis=0) - np.min(np.stack(ests), axis=0)) / scale[:, None]
      tol_fd = TOL_FD_K if c.dx0._impl.nefc else TOL_FD
      reliable = spread <= 0.5 * TOL_FD
      nskip = int((~reliable).sum())
      if nskip:
        ck.label('fd-unreliable-entries-skipped')
        worst['fd-entries-skipped'] += nskip
      worst['fd-entries-checked'] += int(reliable.sum())
      if reliable.mean() < 0.5:
        ck.discard('fd-unreliable-point'); continue
      E = np.where(reliable, np.abs(Jf - Jfd) / scale[:, None], 0.0)
      e = float(E.max())
      worst['fd-K' if c.dx0._impl.nefc else 'fd-S'] = max(worst['fd-K' if c.dx0._impl.nefc else 'fd-S'], e)
      if e > tol_fd:
        r, col = np.unravel_index(np.argmax(E), E.shape)
        nm = G.names()
        outn = (['qacc%d' % i for i in range(tm.nv)] + ['qvel\'%d' % i for i in range(tm.nv)] + ['qpos\'%d' % i for i in range(tm.nq)]
                + ['act\'%d' % i for i in range(tm.na)])
        raise Violation('d %s / d %s: jacfwd=%.12g central FD=%.12g (h,2h,4h estimates %s; row-scaled err %.3g > %.1g); column AD=%s FD=%s' % (
            outn[r], nm[col], Jf[r, col], Jfd[r, col], [float('%.9g' % x[r, col]) for x in ests], e, tol_fd,
            np.array2string(Jf[:, col][:10], precision=8), np.array2string(Jfd[:, col][:10], precision=8)),
            bucket='grad-vs-fd:' + re.sub(r'[\[\d\]]', '', nm[col]))
      try:
        Jr = np.asarray(G.jrev(jp.asarray(x0), qpos0, dxs))
      except Exception as e:
        raise Violation('jax.jacrev(step) raised %s: %s' % (type(e).__name__, str(e)[:300]), bucket='jacrev-exception')
      if not np.all(np.isfinite(Jr)):
        bad = np.argwhere(~np.isfinite(Jr))[0]
        raise Violation('jacrev of step is not finite at out[%d], input %s while jacfwd is finite (%.6g)' % (
            bad[0], G.names()[bad[1]], Jf[bad[0], bad[1]]), bucket='non-finite-rev')
      e2 = float((np.abs(Jf - Jr) / scale[:, None]).max())
      worst['fwd-rev'] = max(worst['fwd-rev'], e2)
      if e2 > TOL_FWD_REV:
        r, col = np.unravel_index(np.argmax(np.abs(Jf - Jr) / scale[:, None]), Jf.shape)
        raise Violation('forward vs reverse mode differ: out[%d] wrt %s fwd=%.15g rev=%.15g (row-scaled %.3g)' % (
            r, G.names()[col], Jf[r, col], Jr[r, col], e2), bucket='fwd-vs-rev')
      ck.case(nontrivial=nt, key=(gm.xml, sd),
              sample=dict(xml=gm.xml, seed=sd, nv=int(tm.nv), na=int(tm.na), inputs=G.nx, outputs=int(len(g0)), nefc_slots=int(c.dx0._impl.nefc),
                          max_fd_err=float('%.3g' % e), max_fwd_rev_err=float('%.3g' % e2), params=[l[0] for l in G.layout]),
              labels=labels + ['nefc-slots>0' if c.dx0._impl.nefc else 'nefc-slots=0'] + (['quat-joint'] if quatj else []) + (['stateful-act'] if tm.na else []))
    if os.environ.get('C45_PRINT'):
      print('  model nv=%d nu=%d na=%d nx=%d nefc=%d %s fam=%s: %.1fs worst=%s' % (
          tm.nv, tm.nu, tm.na, G.nx, c.dx0._impl.nefc, gm.info['option']['integrator'], gm.info['family'], time.time() - t0, dict(worst)), flush=True)
  if only_case is not None:
    test(only_case)
    return
  # feature-pinned templates first (workers 0 and 1): connect + limit + spring/damper + stateful actuator with constraint rows (K),
  # ball + slide spring + fixed/spatial tendons + intvelocity without constraint rows (S)
  if shard % 3 in (0, 1):
    kind = 'K' if shard % 3 == 0 else 'S'
    ck.run_hypothesis(test, st.tuples(pinned45(kind), st.lists(mg.state_seed(), min_size=npoints, max_size=npoints, unique=True)),
                      1 if ck.quick else 3, name='pinned-%s-%d' % (kind, shard), shrink=False)
  ck.run_hypothesis(test, st.tuples(smooth_models(), st.lists(mg.state_seed(), min_size=npoints, max_size=npoints, unique=True)),
                    nmodels, name='grad-%d' % shard, shrink=False)
  ck.extra['worst'] = dict(worst)


def replay(ck, body):
  """./verif C45 --replay <violation.json>"""
  from checks.c43 import _gm_from_json
  case = body['case']['case']
  gm = _gm_from_json(case[0])
  gm.info['pinned'] = True       # bypass the quick-tier quota / size filters
  gm.info.setdefault('family', 'K' if 'farplane' in gm.xml else 'S')
  try:
    shard_main(ck, 0, 1, only_case=(gm, [int(x) for x in case[1]]))
  except Violation as e:
    ck.violation('Violation: %s' % e, dict(check='replay', case=case), bucket=getattr(e, 'bucket', None))


def main(ck):
  from vf import mjxshard
  ck.rule = RULE
  ck.assumptions = ASSUMPTIONS
  nshards = int(os.environ.get('C45_SHARDS', 3 if ck.quick else 6))
  extra = mjxshard.run(ck, 'c45', nshards + 1, timeout=(1800 if ck.quick else 5400))   # + 1 probe worker
  worst = mjxshard.merge_max(extra.get('worst', []))
  counts = mjxshard.merge_sum([{k: v for k, v in d.items() if k.startswith('fd-entries')} for d in extra.get('worst', [])])
  ck.extra['worst_row_scaled_err'] = {k: float('%.3g' % v) for k, v in worst.items() if not k.startswith('fd-entries')}
  ck.extra['jacobian_entries'] = {k: int(v) for k, v in counts.items()}
  ck.extra['shards'] = nshards
  ck.extra['tolerances'] = dict(fd=TOL_FD, fd_family_K=TOL_FD_K, fwd_rev=TOL_FWD_REV, h=H, clamp_exclusion=CLAMP_EXCL)


LEVEL = 'exploration'
TECHNIQUE = 'property-based testing: JAX forward- and reverse-mode Jacobians of mjx.step versus central finite differences of the same jitted function on generated smooth models, states and model parameters'
LEVEL_TEXT = '''Generated supported models in smooth configurations (no constraint rows, or constraints with strictly inactive
contacts and one solver iteration); the full Jacobian of (qacc, next qvel, next qpos, next act) with respect to tangent-space
position, velocity, control, activation and real-valued model parameters is computed by jax.jacfwd and jax.jacrev and compared with
central finite differences of the same function; all entries must be finite.'''
LEVEL_NOTE = '''Gradients through active contacts and reverse mode through a multi-iteration solver (while_loop) are outside the
domain. Excluded by construction: the elliptic cone (F10, probed on every run and reported as KNOWN-FINDING: all gradients NaN with any
contact slot, TypeError without), frictionloss rows in family K (AD through the bracketing line search deviates up to 1.7e-2 from
mutually consistent finite differences). Points near clamps / limit boundaries and with cond(M)>1e8 are excluded using the tree C
engine; Jacobian entries whose three finite-difference estimates disagree are skipped and counted. Gradients w.r.t. geom sizes
and positions are not covered. No shrinking; sharded over worker processes; time-budgeted. Sampled, not exhaustive.'''
