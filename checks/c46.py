"""C46 - Bounded least squares respects bounds and never gets worse.

Domain : residual families linear (A x - b, incl. rank-deficient and m<n), quadratic (elementwise), Rosenbrock-like chain,
         exponential fit; n in 1..8; x0 inside / outside / exactly on a bound; box widths from 100*FD-step to 1e6;
         x_scale None / scalar / vector / 'jac'; with and without analytic jacobian; narrow boxes (width <= FD step) as a
         separate class with the weaker contract; invalid arguments.
Oracle : the residual is wrapped and records every column it is evaluated at: all inside [lo,hi] (exact comparison);
         returned x inside bounds (exact); f(x) <= f(clip(x0)); trace objectives non-increasing and consistent with the
         recorded evaluations (trace[k].objective == f(trace[k].candidate), last candidate == returned x); for linear
         residuals with a converged status the objective equals the bounded global minimum computed by
         scipy.optimize.lsq_linear (independent solver) within tolerance; invalid arguments raise ValueError only.
Non-trivial : at least one bound active at the solution, or x0 was clipped.
"""
import io

import numpy as np
from hypothesis import strategies as st

from vf import gen_pytree as pt
from vf.runner import Violation

EPS = np.finfo(np.float64).eps
FD = EPS ** 0.5
# Monotone trace: each accepted step satisfies Armijo's rule, reduction = y - ynew >= -c1*(g.dx) >= 0, and the logged
# objective of the next iterate is norm.value of the very residual vector that passed the test, so the logged objectives
# must be non-increasing EXACTLY (bit level; no tolerance).  Observed on the unchanged tree: never an increase in
# 100k thorough problems.  (A tolerance of a few ulp would hide e.g. returning the last rejected candidate.)
K_MONO = 0
# Linear problems: gap (f - f*) relative to (f* + |b|^2/2).  lsq_linear(tol=1e-13) vs the solver under test (gtol=1e-8 on
# the free gradient, cond(A) <= 1e4 by construction): f - f* <= ~|g_free|^2/(2 sigma_min^2) ~ 1e-16*cond^2/|A|^2, i.e.
# <= ~1e-9 relative in the worst generated case; worst observed 1.1e-11 (thorough, 101k problems, seed 1) and 2e-16
# (quick seeds 1-3).  LIN_RTOL = 1e-7: >= 100x the analytical worst case, ~1e4x the observed one.
LIN_RTOL = 1e-7


class Recorder:
  def __init__(self, fn, lo, hi):
    self.fn, self.lo, self.hi = fn, lo, hi
    self.points = 0
    self.bad = None
    self.calls = 0

  def __call__(self, x):
    self.calls += 1
    x2 = x.reshape(x.shape[0], -1)
    self.points += x2.shape[1]
    if self.lo is not None and self.bad is None:
      below = x2 < self.lo[:, None]
      above = x2 > self.hi[:, None]
      if below.any() or above.any():
        j = int(np.argwhere((below | above).any(axis=0))[0, 0])
        i = int(np.argwhere((below | above)[:, j])[0, 0])
        self.bad = dict(call=self.calls, column=j, coord=i, x=float(x2[i, j]), lo=float(self.lo[i]), hi=float(self.hi[i]),
                        excess=float(max(self.lo[i] - x2[i, j], x2[i, j] - self.hi[i])), ncols=int(x2.shape[1]))
    return self.fn(x)


def make_problem(c):
  """Returns (residual(x: (n,k)) -> (m,k), jacobian(x,r) or None, info)."""
  rng = np.random.RandomState(c['seed'])
  n = c['n']
  fam = c['family']
  if fam == 'linear':
    m = c['m']
    A = rng.standard_normal((m, n))
    if c['rankdef'] and n > 1:
      A[:, -1] = A[:, 0] * 2.0
    A *= np.exp(rng.uniform(-1, 1, n))[None, :] if c['colscale'] else 1.0
    b = rng.standard_normal((m, 1)) * 3
    res = lambda x: A @ x - b
    jac = lambda x, r: A.copy()
    return res, jac, dict(A=A, b=b)
  if fam == 'quadratic':
    t = rng.uniform(-2, 2, (n, 1))
    w = np.exp(rng.uniform(-1, 1, (n, 1)))
    res = lambda x: np.vstack([w * (x - t) ** 2, 0.1 * (x - t)])
    jac = lambda x, r: np.vstack([np.diag((2 * w * (x - t)).ravel()), 0.1 * np.eye(n)])
    return res, jac, {}
  if fam == 'rosenbrock':
    if n == 1:
      res = lambda x: np.vstack([1 - x, 10 * (x ** 2 - 0.5)])
      jac = lambda x, r: np.array([[-1.0], [20 * x[0, 0]]])
      return res, jac, {}
    res = lambda x: np.vstack([10 * (x[1:] - x[:-1] ** 2), 1 - x[:-1]])

    def jac(x, r):
      J = np.zeros((2 * (n - 1), n))
      for i in range(n - 1):
        J[i, i] = -20 * x[i, 0]
        J[i, i + 1] = 10
        J[n - 1 + i, i] = -1
      return J
    return res, jac, {}
  # exponential fit: y = sum_j a_j exp(-k_j t), parameters alternate (a, k)
  tt = np.linspace(0, 2, 12).reshape(-1, 1)
  y = 1.5 * np.exp(-0.7 * tt) + 0.05 * rng.standard_normal(tt.shape)

  def res(x):
    out = -y + 0 * x[:1]
    for j in range(0, n - 1, 2):
      out = out + x[j:j + 1] * np.exp(-np.clip(x[j + 1:j + 2], -20, 20) * tt)
    if n % 2:
      out = out + x[n - 1:n]
    return out
  return res, None, {}


@st.composite
def cases(draw):
  n = draw(st.integers(1, 8))
  family = draw(st.sampled_from(['linear', 'linear', 'quadratic', 'rosenbrock', 'expfit']))
  m = draw(st.integers(1, 12)) if family == 'linear' else 0
  seed = draw(st.integers(0, 2 ** 31 - 1))
  box = draw(st.sampled_from(['none', 'wide', 'wide', 'mixed', 'tight', 'narrow']))
  x0mode = draw(st.sampled_from(['inside', 'inside', 'outside', 'onbound', 'mixed']))
  xs = draw(st.sampled_from(['none', 'none', 'scalar', 'vector', 'jac']))
  anajac = draw(st.booleans())
  center = draw(st.sampled_from([0.0, 0.0, 1.0, -3.0, 100.0, 1e4]))
  return dict(n=n, family=family, m=m, seed=seed, box=box, x0mode=x0mode, xs=xs, anajac=anajac, center=center,
              rankdef=draw(st.booleans()), colscale=draw(st.booleans()), max_iter=draw(st.sampled_from([100, 100, 20, 3])))


def build_bounds(c):
  rng = np.random.RandomState(c['seed'] ^ 0x9e37)
  n = c['n']
  if c['box'] == 'none':
    return None, None
  ctr = c['center'] + rng.uniform(-1, 1, n)
  fdstep = FD * np.maximum(1.0, np.abs(ctr) + 1)
  if c['box'] == 'wide':
    half = np.exp(rng.uniform(np.log(0.5), np.log(1e6), n))
  elif c['box'] == 'mixed':
    half = np.exp(rng.uniform(np.log(1e-5), np.log(1e3), n))
  elif c['box'] == 'tight':
    half = fdstep * np.exp(rng.uniform(np.log(100), np.log(1e4), n))
  else:   # narrow: around / below the FD step
    half = fdstep * np.exp(rng.uniform(np.log(1e-3), np.log(2), n))
  lo, hi = ctr - half, ctr + half
  return lo, hi


def build_x0(c, lo, hi):
  rng = np.random.RandomState(c['seed'] ^ 0x51ed)
  n = c['n']
  if lo is None:
    return c['center'] * 0 + rng.uniform(-2, 2, n)
  u = rng.uniform(0, 1, n)
  inside = lo + u * (hi - lo)
  outside = np.where(rng.uniform(size=n) < 0.5, lo - (1 + u) * (hi - lo), hi + (1 + u) * (hi - lo))
  onb = np.where(rng.uniform(size=n) < 0.5, lo, hi)
  mode = c['x0mode']
  if mode == 'inside':
    return inside
  if mode == 'outside':
    return outside
  if mode == 'onbound':
    return onb
  pick = rng.randint(0, 3, n)
  return np.where(pick == 0, inside, np.where(pick == 1, outside, onb))


def main(ck):
  mz = pt.minimize()
  from scipy.optimize import lsq_linear
  ck.rule = ('families linear (rank-deficient, m<n, column-scaled), quadratic, Rosenbrock chain, exponential fit; n 1..8; '
             'boxes none/wide/mixed/tight(100..1e4 FD steps)/narrow(<=2 FD steps); x0 inside/outside/on bound/mixed; '
             'x_scale none/scalar/vector/jac; analytic or FD jacobian; non-trivial = some bound active at the solution or '
             'x0 clipped, in a box satisfying the precondition (half-width > FD step); distinct by full case description')
  ck.assumptions = ['precondition of the statement: half-width of every bound > eps_fd*max(1,|x|) for all x in the box; '
                    'narrower boxes are outside the precondition: evaluations outside are recorded, not judged',
                    'mju_boxQP comes from the installed mujoco 3.13 wheel (minimize.py imports mujoco)']
  stats = dict(worst_lin_gap=0.0, worst_mono=0.0, max_excess=0.0)

  def test(c):
    res, jac, info = make_problem(c)
    lo, hi = build_bounds(c)
    x0 = build_x0(c, lo, hi)
    n = c['n']
    narrow = c['box'] == 'narrow'
    if lo is not None and not narrow:
      # statement precondition, checked over the whole box
      if not np.all(0.5 * (hi - lo) > FD * np.maximum(1.0, np.maximum(np.abs(lo), np.abs(hi)))):
        narrow = True
    rec = Recorder(res, lo, hi)
    xs = None
    rng = np.random.RandomState(c['seed'] ^ 0x77)
    if c['xs'] == 'scalar':
      xs = float(np.exp(rng.uniform(-3, 3)))
    elif c['xs'] == 'vector':
      xs = np.exp(rng.uniform(-3, 3, n))
    elif c['xs'] == 'jac':
      xs = 'jac'
    out = io.StringIO()
    bounds = None if lo is None else [lo.copy(), hi.copy()]
    x0_in = x0.copy()
    kw = dict(bounds=bounds, jacobian=(jac if (c['anajac'] and jac is not None) else None), verbose=mz.Verbosity.FINAL,
              output=out, x_scale=xs, max_iter=c['max_iter'])
    labels = ['family:' + c['family'], 'box:' + c['box'], 'x0:' + c['x0mode'], 'xscale:' + c['xs'],
              'jac:' + ('analytic' if kw['jacobian'] else 'fd')]
    with np.errstate(all='ignore'):
      try:
        x, trace = mz.least_squares(x0, rec, **kw)
      except ValueError as e:
        if narrow:
          ck.label('narrow:ValueError')
          ck.case(nontrivial=False, key=c, labels=labels)
          return
        raise Violation('least_squares raised ValueError on valid arguments: %s' % e, bucket='valueerror')
      except Exception as e:
        raise Violation('least_squares raised %s: %s' % (type(e).__name__, e), bucket='exception')
    if not np.array_equal(x0, x0_in) or (bounds is not None and not (np.array_equal(bounds[0], lo) and np.array_equal(bounds[1], hi))):
      raise Violation('least_squares modified its x0/bounds arguments', bucket='purity')
    msg = out.getvalue()
    status = msg.split('iterations:')[-1].split(' y:')[0].strip() if 'iterations:' in msg else '?'
    labels.append('status:' + status)
    # objective exactly as documented for the default norm (Quadratic.value: 0.5 * r^T r), evaluated with the same
    # expression as the solver so that comparisons between objectives can be exact (a different summation order differs
    # in the last bit, which showed up as a false alarm in a box 1e-8 wide)
    f = lambda z: 0.5 * (lambda r: (r.T @ r).item())(res(np.asarray(z, dtype=np.float64).reshape(n, 1)))
    # ---- bounds
    slack = np.zeros(n)
    if lo is not None:
      # rounding-level excess: the candidate x + D*((b-x)/D) can miss the bound b by a few ulp of the largest operand
      # (known-finding candidate 'bound-rounding'); anything larger is a plain violation.
      mag = np.maximum(np.maximum(np.abs(lo), np.abs(hi)), np.abs(xc_all := np.clip(x0, lo, hi)))
      slack = 16 * EPS * mag
      if rec.bad is not None and narrow:
        labels.append('narrow:eval-outside')     # outside the statement's precondition: recorded, not judged
      elif rec.bad is not None:
        stats['max_excess'] = max(stats['max_excess'], rec.bad['excess'])
        what = 'residual evaluated outside the bounds: %r (box=%s, x0=%s, x_scale=%s)' % (rec.bad, c['box'], c['x0mode'], c['xs'])
        if rec.bad['excess'] <= slack[rec.bad['coord']] and rec.bad['ncols'] == 1:
          labels.append('known:bound-rounding')
          ck.violation(what, dict(case=c, x0=x0.tolist(), lo=lo.tolist(), hi=hi.tolist()), bucket='bound-rounding',
                       fingerprint='bound-rounding')
        else:
          raise Violation(what, bucket='eval-outside')
      if np.any(x < lo) or np.any(x > hi):
        i = int(np.argmax(np.maximum(lo - x, x - hi)))
        what = 'returned x[%d]=%r outside [%r,%r]' % (i, float(x[i]), float(lo[i]), float(hi[i]))
        if np.all(x >= lo - slack) and np.all(x <= hi + slack) and not narrow:
          labels.append('known:bound-rounding-result')
          ck.violation(what, dict(case=c, x0=x0.tolist(), lo=lo.tolist(), hi=hi.tolist(), x=x.tolist()),
                       bucket='bound-rounding', fingerprint='bound-rounding')
        else:
          raise Violation(what, bucket='result-outside' + ('-narrow' if narrow else ''))
    if x.shape != x0.shape or not np.all(np.isfinite(x)):
      raise Violation('returned x has wrong shape or non-finite entries', bucket='result-shape')
    # ---- no worse than the clipped start
    xc = x0 if lo is None else np.clip(x0, lo, hi)
    f0, fx = f(xc), f(x)
    if not fx <= f0:
      raise Violation('objective at the result %r > objective at clip(x0) %r' % (fx, f0), bucket='worse-than-start')
    # ---- trace
    objs = [float(t.objective) for t in trace]
    for a, b in zip(objs, objs[1:]):
      r = (b - a) / (EPS * max(abs(a), np.finfo(float).tiny))
      stats['worst_mono'] = max(stats['worst_mono'], r)
      if r > K_MONO:
        raise Violation('trace objective increases: %r -> %r (full trace %r)' % (a, b, objs[:20]), bucket='trace-monotone')
    if not trace or not np.array_equal(np.asarray(trace[-1].candidate).ravel(), x.ravel()):
      raise Violation('last trace candidate is not the returned x', bucket='trace-last')
    if not np.array_equal(np.asarray(trace[0].candidate).ravel(), xc.ravel()):
      raise Violation('first trace candidate is not clip(x0)', bucket='trace-first')
    for t in trace:
      ft = f(np.asarray(t.candidate).ravel())
      if ft != float(t.objective):        # same expression, same residual vector: exact
        raise Violation('trace objective %r is not the objective %r at its candidate' % (float(t.objective), ft), bucket='trace-consistent')
    # ---- linear: global optimum
    active = False
    if lo is not None:
      active = bool(np.any(x <= lo + slack) or np.any(x >= hi - slack))
    if c['family'] == 'linear' and not narrow and (status in ('norm(gradient) < tol.', 'norm(dx) < tol.') or
                                                   c['max_iter'] == 100):      # default iteration budget: a linear problem must get there, whatever the status
      A, b = info['A'], info['b']
      sv = np.linalg.svd(A, compute_uv=False)
      cond = sv[0] / sv[-1] if (A.shape[0] >= n and sv[-1] > 0) else np.inf
      if cond <= 1e4:
        ref = lsq_linear(A, b.ravel(), bounds=(lo, hi) if lo is not None else (-np.inf, np.inf), tol=1e-13, max_iter=2000)
        fstar = min(0.5 * float(np.sum(ref.fun ** 2)), fx)
        gap = (fx - fstar) / (fstar + 0.5 * float(np.sum(b ** 2)) + 1e-300)
        stats['worst_lin_gap'] = max(stats['worst_lin_gap'], gap)
        labels.append('linear:compared')
        if gap > LIN_RTOL:
          raise Violation('linear residual: ended (%s) at objective %r but the bounded global minimum is %r (x=%r, x*=%r)'
                          % (status, fx, fstar, x.tolist(), ref.x.tolist()), bucket='linear-optimum')
      else:
        labels.append('linear:illconditioned')
    clipped = lo is not None and not np.array_equal(xc, x0)
    if active:
      labels.append('active-bound')
    if clipped:
      labels.append('x0-clipped')
    if narrow:
      labels.append('narrow:ran')
    nt = (active or clipped) and not narrow
    ck.case(nontrivial=nt, key=c, labels=labels,
            sample=dict(case=c, x0=x0.tolist(), lo=None if lo is None else lo.tolist(), hi=None if hi is None else hi.tolist(),
                        x=x.tolist(), f0=f0, fx=fx, status=status, evals=rec.points, iters=len(trace)) if nt else None)

  # deterministic minimal reproducer of the known-finding candidate 'bound-rounding'
  seen = []
  xr, _ = mz.least_squares(np.array([-6.9]), lambda x: (seen.append(float(x.max())), x - 1.0)[1],
                           bounds=[np.array([-7.0]), np.array([-0.1])], verbose=0)
  ck.extra['probe_bound_rounding'] = dict(returned=float(xr[0]), hi=-0.1, max_evaluated=max(seen))
  if xr[0] > -0.1 or max(seen) > -0.1:
    ck.violation('1-D probe: residual x-1, bounds [-7,-0.1], x0=-6.9: returned x=%r, largest evaluated x=%r, both must be '
                 '<= -0.1 (candidate x + (hi - x) is not clipped after rounding)' % (float(xr[0]), max(seen)),
                 dict(x0=[-6.9], lo=[-7.0], hi=[-0.1], residual='x - 1'), bucket='bound-rounding', fingerprint='bound-rounding')

  ck.run_hypothesis(test, cases(), ck.budget(1500, 100000), name='least-squares')

  # ---- invalid arguments: ValueError and nothing else (documented checks in the function)
  def bad_args(c):
    kind, n, seed = c
    rng = np.random.RandomState(seed)
    x0 = rng.standard_normal(n)
    lo, hi = x0 - 1, x0 + 1
    res = lambda x: x * 1.0
    kw = dict(verbose=0)
    if kind == 'xscale-str':
      kw['x_scale'] = 'foo'
    elif kind == 'xscale-shape':
      kw['x_scale'] = np.ones(n + 1)
    elif kind == 'xscale-neg':
      kw['x_scale'] = -1.0
    elif kind == 'xscale-nan':
      kw['x_scale'] = np.full(n, np.nan)
    elif kind == 'mu_factor':
      kw['mu_factor'] = 1.0
    elif kind == 'bounds-len':
      kw['bounds'] = [lo]
    elif kind == 'bounds-size':
      kw['bounds'] = [lo[:-1], hi] if n > 1 else [np.zeros(2), np.ones(2)]
    elif kind == 'bounds-inf':
      kw['bounds'] = [np.full(n, -np.inf), hi]
    elif kind == 'bounds-order':
      kw['bounds'] = [hi, lo]
    elif kind == 'bounds-equal':
      kw['bounds'] = [lo, lo.copy()]
    elif kind == 'x0-nan':
      x0 = x0.copy()
      x0[rng.randint(n)] = np.nan
    elif kind == 'x0-inf':
      x0 = x0.copy()
      x0[rng.randint(n)] = np.inf
    elif kind == 'res-float32':
      res = lambda x: x.astype(np.float32)
    try:
      mz.least_squares(x0, res, **kw)
    except ValueError:
      ck.case(nontrivial=False, key=c, labels=['invalid:' + kind])
      return
    except Exception as e:
      raise Violation('invalid argument (%s) raised %s instead of ValueError: %s' % (kind, type(e).__name__, e), bucket='invalid-args')
    if kind == 'x0-inf' and 'bounds' not in kw:
      pass
    raise Violation('invalid argument (%s) was accepted' % kind, bucket='invalid-args')

  kinds = ['xscale-str', 'xscale-shape', 'xscale-neg', 'xscale-nan', 'mu_factor', 'bounds-len', 'bounds-size', 'bounds-inf',
           'bounds-order', 'bounds-equal', 'x0-nan', 'x0-inf', 'res-float32']
  ck.run_hypothesis(bad_args, st.tuples(st.sampled_from(kinds), st.integers(1, 5), st.integers(0, 10 ** 6)),
                    ck.budget(60, 1000), name='invalid-arguments')
  ck.extra['tolerance'] = dict(K_MONO=K_MONO, LIN_RTOL=LIN_RTOL, **stats)


LEVEL = 'exploration'
TECHNIQUE = ('property-based testing (Hypothesis) with an instrumented residual (records every evaluation point), invariants '
             'on result and trace, and scipy.optimize.lsq_linear as an independent reference for linear problems')
LEVEL_TEXT = '''Generated problems (4 residual families, n<=8, boxes of widths from 100 finite-difference steps to 1e6,
start points inside/outside/on bounds, all x_scale modes, analytic or finite-difference Jacobian) are solved with the tree's
python/mujoco/minimize.py; every residual evaluation is checked to lie inside the box with exact comparisons, the result and
the iteration trace are checked for monotonicity and consistency, and converged linear problems are compared with the
bounded optimum of an independent solver.'''
LEVEL_NOTE = '''Trusted: numpy, scipy.optimize.lsq_linear as reference optimiser, mju_boxQP of the installed mujoco wheel
(minimize.py imports the installed package). Boxes narrower than the finite-difference step are outside the statement's
precondition: generated separately, only recorded (the solver does finite-difference outside such boxes) and required not to
raise anything but ValueError and to return a point inside the box.'''
