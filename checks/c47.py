"""C47 - System-identification inertia parameters are always physical.

Domain : theta in [-6,6]^10 (log-Cholesky: alpha, d1..d3, s12,s23,s13, t1..t3) drawn from nested boxes [-1,1], [-3,3],
         [-6,6] plus corner vectors {-6,0,6}^10; for the apply step small generated MJCF models (1-4 bodies, geoms or
         explicit inertials, nested bodies) and a random target body.
Oracle : reference model written from the documented parameterisation (docstrings of pi_from_theta /
         theta_from_pseudoinertia: J = U U^T, U = e^alpha [[e^d1,s12,s13,t1],[0,e^d2,s23,t2],[0,0,e^d3,t3],[0,0,0,1]],
         J = [[Sigma,h],[h^T,m]], I = tr(Sigma) 1 - Sigma) evaluated independently with numpy:
         (a) pseudoinertia_from_pi(pi_from_theta(theta)) == U U^T (forward-error bound), symmetric, m = e^{2 alpha} > 0;
         (b) positive definite (Cholesky + eigvalsh) and COM rotational inertia (parallel axis from the returned pi) with
             positive principal moments and triangle inequalities;
         (c) round trip theta_from_pseudoinertia(...) == theta within K*eps*cond(J);
         (d) apply_body_theta_inertia + compile (installed mujoco binding, as the design prescribes): body_mass,
             body_ipos and R diag(body_inertia) R^T equal the parameters'; all other bodies bit-identical to a baseline
             compile; theta_inertia_from_body of the modified spec returns theta (second round trip through the compiler).
Non-trivial : theta has an off-diagonal Cholesky entry (s or t) with |.| > 0.1 and cond(J) <= 1e12 (all assertions active).
"""
import numpy as np
from hypothesis import strategies as st

from vf import gen_pytree as pt
from vf.runner import Violation

EPS = np.finfo(np.float64).eps
# Calibration on the unchanged tree (thorough seed 1: 300k theta vectors + 5k applies; quick seeds 1-3), worst observed:
#   forward error of J      : 1.46  (unit eps * (|U||U|^T, plus tr Sigma on the diagonal))      -> K_FWD  = 400
#   round trip theta        : 4.07  (unit eps * cond(J))                                         -> K_RT   = 800
#   compiled mass / ipos    : 0     (bit-exact so far; unit eps, relative)                       -> K_MASS = 256
# Compiled inertia tensor: the engine diagonalises the full inertia with mju_eig3, whose Jacobi sweep stops when the
# rotation cosine exceeds 1-1e-12 (src/engine/engine_util_solve.c, eigEPS), i.e. it leaves a rotation error up to
# ~1.5e-6 rad -> R diag(I) R^T is only accurate to ~3e-6*|I| BY DESIGN of the (installed) compiler.  Worst observed
# 1.56e-6 relative to the cancellation scale |I_origin| + m|c|^2; REL_INERTIA = 2e-4 (~130x).
K_FWD = 400
K_RT = 800
K_MASS = 256
REL_INERTIA = 2e-4
COND_MAX = 1e12     # beyond this the float J is not reliably positive definite (Cholesky fails from cond ~4e16):
                    # labelled 'illconditioned'; only the cond-independent assertions (a) are made


def u_ref(theta):
  a, d1, d2, d3, s12, s23, s13, t1, t2, t3 = [float(x) for x in theta]
  U = np.array([[np.exp(d1), s12, s13, t1],
                [0.0, np.exp(d2), s23, t2],
                [0.0, 0.0, np.exp(d3), t3],
                [0.0, 0.0, 0.0, 1.0]])
  return np.exp(a) * U


def com_inertia(pi):
  """Rotational inertia about the COM from pi = [m, h(3), I_origin(3x3 row-major)] (parallel-axis theorem)."""
  m = pi[0]
  c = pi[1:4] / m
  I0 = np.asarray(pi[4:]).reshape(3, 3)
  shift = m * (np.dot(c, c) * np.eye(3) - np.outer(c, c))
  return I0 - shift, np.abs(I0) + np.abs(shift), c


def quat2mat(q):
  w, x, y, z = q
  return np.array([[1 - 2 * (y * y + z * z), 2 * (x * y - w * z), 2 * (x * z + w * y)],
                   [2 * (x * y + w * z), 1 - 2 * (x * x + z * z), 2 * (y * z - w * x)],
                   [2 * (x * z - w * y), 2 * (y * z + w * x), 1 - 2 * (x * x + y * y)]])


@st.composite
def thetas(draw):
  kind = draw(st.sampled_from(['box1', 'box1', 'box3', 'box3', 'box6', 'corner', 'axis']))
  if kind == 'corner':
    v = [draw(st.sampled_from([-6.0, 0.0, 6.0])) for _ in range(10)]
  elif kind == 'axis':
    v = [0.0] * 10
    for _ in range(draw(st.integers(1, 3))):
      v[draw(st.integers(0, 9))] = draw(st.floats(-6, 6, allow_nan=False))
  else:
    b = float(kind[3:])
    v = [draw(st.floats(-b, b, allow_nan=False, allow_subnormal=False)) for _ in range(10)]
  return kind, v


EXCLUDED = {'inertial-alt-orientation': 0}


@st.composite
def body_models(draw):
  """Small MJCF with named bodies b0..b{n-1}; returns (xml, names)."""
  n = draw(st.integers(1, 4))
  num = lambda lo, hi: round(draw(st.floats(lo, hi, allow_nan=False)), 3)
  parents = [-1] + [draw(st.integers(-1, i - 1)) for i in range(1, n)]
  children = {i: [] for i in range(-1, n)}
  for i, p in enumerate(parents):
    children[p].append(i)

  def body(i):
    s = '<body name="b%d" pos="%g %g %g">' % (i, num(-.5, .5), num(-.5, .5), num(-.5, .5))
    j = draw(st.sampled_from(['hinge', 'slide', 'ball', 'free', 'none'])) if parents[i] == -1 else draw(
        st.sampled_from(['hinge', 'slide', 'ball', 'none']))
    if j == 'free':
      s += '<freejoint/>'
    elif j != 'none':
      s += '<joint type="%s"/>' % j
    mode = draw(st.sampled_from(['geom', 'geoms', 'inertial', 'both']))
    if mode in ('inertial', 'both'):
      # every spelling of the inertial orientation (the alternatives used to make apply_body_theta_inertia produce a spec that
      # does not compile; repaired by a fix: commit, so they are part of the generated stream)
      spelling = draw(st.sampled_from(['quat', 'quat', 'euler', 'axisangle']))
      q = np.array([num(-1, 1), num(-1, 1), num(-1, 1), num(-1, 1)])
      q = q / np.linalg.norm(q) if np.linalg.norm(q) > 0.1 else np.array([1.0, 0, 0, 0])
      if spelling == 'quat':
        orient = 'quat="%.17g %.17g %.17g %.17g"' % (q[0], q[1], q[2], q[3])
      elif spelling == 'euler':
        orient = 'euler="%g %g %g"' % (num(-3, 3), num(-3, 3), num(-3, 3))
      else:
        ax = q[1:] / np.linalg.norm(q[1:]) if np.linalg.norm(q[1:]) > 1e-3 else np.array([0.0, 0.0, 1.0])
        orient = 'axisangle="%.17g %.17g %.17g %g"' % (ax[0], ax[1], ax[2], num(-3, 3))
      s += '<inertial pos="%g %g %g" mass="%g" diaginertia="%g %g %g" %s/>' % (
          num(-.2, .2), num(-.2, .2), num(-.2, .2), num(.1, 5), num(.05, .1), num(.05, .1), num(.05, .1), orient)
    if mode != 'inertial':
      for _ in range(2 if mode == 'geoms' else 1):
        t = draw(st.sampled_from(['sphere', 'box', 'capsule', 'ellipsoid']))
        size = {'sphere': '%g' % num(.03, .3), 'box': '%g %g %g' % (num(.03, .3), num(.03, .3), num(.03, .3)),
                'capsule': '%g %g' % (num(.03, .1), num(.05, .3)),
                'ellipsoid': '%g %g %g' % (num(.03, .3), num(.03, .3), num(.03, .3))}[t]
        s += '<geom type="%s" size="%s" pos="%g %g %g" euler="%g %g %g"/>' % (
            t, size, num(-.2, .2), num(-.2, .2), num(-.2, .2), num(-3, 3), num(-3, 3), num(-3, 3))
    for c in children[i]:
      s += body(c)
    return s + '</body>'
  xml = '<mujoco><compiler angle="radian"/><worldbody>' + ''.join(body(c) for c in children[-1]) + '</worldbody></mujoco>'
  return xml, n, draw(st.integers(0, n - 1))


def main(ck):
  import mujoco   # installed wheel: reference spec compiler for the apply step (DESIGN C47)
  mm = pt.sysid('model_modifier')
  worst = dict(fwd=0.0, rt=0.0, mass=0.0, inertia=0.0, rt_body=0.0)
  ck.rule = ('theta from nested boxes [-1,1]^10,[-3,3]^10,[-6,6]^10, corner vectors {-6,0,6}^10 and sparse axis vectors; '
             'non-trivial = some shear/translation entry |s|,|t| > 0.1 and cond(J)<=1e12; distinct by theta (and model '
             'xml + body for the apply step)')
  ck.assumptions = ['cond(J) > 1e12 (float J not reliably positive definite; Cholesky itself fails from ~4e16) is labelled '
                    'illconditioned: only the forward-error identity, symmetry and mass>0 are asserted there',
                    'apply step compiled with the installed mujoco 3.13 binding (not the tree engine)']

  def check_theta(kind, v):
    theta = np.array(v, dtype=np.float64)
    U = u_ref(theta)
    Jref = U @ U.T
    bound = np.abs(U) @ np.abs(U).T
    cond = float(np.linalg.cond(U)) ** 2
    ill = cond > COND_MAX
    labels = ['theta:' + kind, 'illconditioned' if ill else 'wellconditioned' if cond < 1e8 else 'cond:1e8-1e12']
    try:
      pi = mm.pi_from_theta(theta.copy())
      J = mm.pseudoinertia_from_pi(pi)
    except Exception as e:
      raise Violation('pi_from_theta/pseudoinertia_from_pi raised %s: %s for theta=%r' % (type(e).__name__, e, v),
                      bucket='exception')
    pi = np.asarray(pi, dtype=np.float64)
    if J.shape != (4, 4) or not np.all(np.isfinite(J)) or not np.all(np.isfinite(pi)):
      raise Violation('non-finite or mis-shaped result for theta=%r' % v, bucket='finite')
    m = pi[0]
    if not (m > 0):
      raise Violation('mass %r is not positive for theta=%r' % (m, v), bucket='mass')
    if abs(m - np.exp(2 * theta[0])) > 8 * EPS * m:
      raise Violation('mass %r != exp(2 alpha) = %r' % (m, np.exp(2 * theta[0])), bucket='mass')
    if not np.array_equal(J, J.T):
      raise Violation('pseudo-inertia is not symmetric: J-J^T = %r' % (J - J.T).tolist(), bucket='symmetry')
    # (a) forward error vs reference.  Diagonal of Sigma goes through tr(Sigma) twice (I = tr(S) - S, S = tr(I)/2 - I).
    scale = bound.copy()
    scale[:3, :3] += np.eye(3) * np.trace(bound[:3, :3])
    r = float(np.max(np.abs(J - Jref) / (EPS * scale + 1e-300)))
    worst['fwd'] = max(worst['fwd'], r)
    if r > K_FWD:
      raise Violation('pseudoinertia_from_pi(pi_from_theta(theta)) differs from U U^T of the documented parameterisation: '
                      'max |dJ|/(eps*scale) = %.3g, theta=%r, J=%r, reference=%r' % (r, v, J.tolist(), Jref.tolist()),
                      bucket='reference-J')
    # the rotational inertia in pi must be tr(Sigma) 1 - Sigma about the origin (documented layout of pi)
    Ibar = pi[4:].reshape(3, 3) if pi.size == 13 else None
    if Ibar is None:
      raise Violation('pi has %d entries; cannot locate the rotational inertia' % pi.size, bucket='layout')
    S = Jref[:3, :3]
    Iref = np.trace(S) * np.eye(3) - S
    if np.max(np.abs(Ibar - Iref) / (EPS * (np.abs(Iref) + np.trace(bound[:3, :3])))) > K_FWD:
      raise Violation('rotational inertia in pi != tr(Sigma) 1 - Sigma; theta=%r' % v, bucket='reference-I')
    if np.max(np.abs(pi[1:4] - Jref[:3, 3]) / (EPS * bound[:3, 3] + 1e-300)) > K_FWD:
      raise Violation('first moment h in pi != J[:3,3]; theta=%r' % v, bucket='reference-h')
    if not ill:
      # (b) positive definite + physical COM inertia
      try:
        np.linalg.cholesky(J)
      except np.linalg.LinAlgError:
        raise Violation('pseudo-inertia not positive definite (Cholesky fails), cond=%.3g, theta=%r' % (cond, v), bucket='pd')
      lam = np.linalg.eigvalsh(J)
      if not lam[0] > 0:
        raise Violation('pseudo-inertia has eigenvalue %r <= 0, cond=%.3g, theta=%r' % (lam[0], cond, v), bucket='pd')
      Ic, Iscale, c = com_inertia(pi)
      w = np.linalg.eigvalsh(0.5 * (Ic + Ic.T))
      tol = K_FWD * EPS * float(np.max(Iscale)) * 4
      if not w[0] > -tol or w[0] <= 0 and cond < 1e8:
        raise Violation('COM rotational inertia has principal moment %r <= 0; theta=%r' % (w[0], v), bucket='principal')
      if w[0] + w[1] - w[2] < -tol:
        raise Violation('triangle inequality violated: moments %r; theta=%r' % (w.tolist(), v), bucket='triangle')
      # (c) round trip
      try:
        back = mm.theta_from_pseudoinertia(J)
      except Exception as e:
        raise Violation('theta_from_pseudoinertia raised %s: %s (cond=%.3g, theta=%r)' % (type(e).__name__, e, cond, v),
                        bucket='roundtrip-exception')
      rr = float(np.max(np.abs(back - theta)) / (EPS * cond))
      worst['rt'] = max(worst['rt'], rr)
      if rr > K_RT:
        raise Violation('round trip theta -> pi -> J -> theta: max error %.3g = %.3g * eps*cond (cond=%.3g); theta=%r back=%r'
                        % (float(np.max(np.abs(back - theta))), rr, cond, v, back.tolist()), bucket='roundtrip')
    nt = (not ill) and bool(np.max(np.abs(theta[4:])) > 0.1)
    return theta, pi, cond, ill, labels, nt

  def test_theta(case):
    kind, v = case
    theta, pi, cond, ill, labels, nt = check_theta(kind, v)
    ck.case(nontrivial=nt, key=v, labels=labels, sample=dict(theta=v, cond=cond, mass=float(pi[0])) if nt else None)

  ck.run_hypothesis(test_theta, thetas(), ck.budget(3000, 300000), name='theta')

  # ---------------- apply step
  # probe (minimal reproducer of a known-finding candidate): a body whose <inertial> orientation is spelled with an
  # alternative (euler/axisangle/xyaxes/zaxis) keeps body.ialt after _infer_inertial, so the spec produced by
  # apply_body_theta_inertia (which sets fullinertia) is rejected by the compiler.
  probe_xml = ('<mujoco><worldbody><body name="b"><joint/><inertial pos="0 0 0" mass="1" diaginertia="1 1 1" '
               'euler="0 0 0"/></body></worldbody></mujoco>')
  try:
    sp = mujoco.MjSpec.from_string(probe_xml)
    mm.apply_body_theta_inertia(sp, 'b', np.zeros(10))
    sp.compile()
    ck.extra['apply_alt_orientation_ok'] = True
  except Exception as e:
    ck.extra['apply_alt_orientation_ok'] = False
    ck.violation('apply_body_theta_inertia on a body with <inertial euler=...> yields a spec that does not compile: %s' % e,
                 dict(xml=probe_xml, body='b', theta=[0.0] * 10), bucket='apply-alt-orientation',
                 fingerprint='apply-inertial-alt-orientation')

  def test_apply(case):
    (xml, n, target), (kind, v) = case
    theta, pi, cond, ill, labels, nt = check_theta(kind, v)
    if ill:
      ck.discard('apply:illconditioned')
      return
    name = 'b%d' % target
    try:
      base = mujoco.MjSpec.from_string(xml).compile()
      spec = mujoco.MjSpec.from_string(xml)
    except Exception:
      ck.discard('apply:base-compile')
      return
    try:
      out = mm.apply_body_theta_inertia(spec, name, theta.copy())
      model = spec.compile()
    except Exception as e:
      raise Violation('apply_body_theta_inertia + compile failed with %s: %s (theta=%r, cond=%.3g)' % (
          type(e).__name__, e, v, cond), bucket='apply-compile')
    if out is not spec:
      raise Violation('apply_body_theta_inertia did not return the spec', bucket='apply-return')
    bid = mujoco.mj_name2id(model, mujoco.mjtObj.mjOBJ_BODY, name)
    Ic, Iscale, c = com_inertia(pi)
    r_m = abs(model.body_mass[bid] - pi[0]) / (EPS * pi[0])
    r_c = float(np.max(np.abs(model.body_ipos[bid] - c) / (EPS * (np.abs(c) + np.max(np.abs(c)) + 1e-300))))
    worst['mass'] = max(worst['mass'], r_m, r_c)
    if r_m > K_MASS:
      raise Violation('compiled body_mass %r != parameter mass %r' % (model.body_mass[bid], pi[0]), bucket='apply-mass')
    if r_c > K_MASS:
      raise Violation('compiled body_ipos %r != h/m = %r' % (model.body_ipos[bid].tolist(), c.tolist()), bucket='apply-ipos')
    R = quat2mat(model.body_iquat[bid])
    Igot = R @ np.diag(model.body_inertia[bid]) @ R.T
    r_i = float(np.max(np.abs(Igot - Ic)) / float(np.max(Iscale)))
    worst['inertia'] = max(worst['inertia'], r_i)
    if r_i > REL_INERTIA:
      raise Violation('compiled inertia tensor differs from the parameters\' COM inertia: max diff %.3g (%.3g relative to scale); '
                      'got %r want %r; theta=%r' % (float(np.max(np.abs(Igot - Ic))), r_i, Igot.tolist(), Ic.tolist(), v),
                      bucket='apply-inertia')
    # frame: every other body keeps the baseline mass properties bit-exactly
    for b in range(model.nbody):
      if b == bid:
        continue
      for f in ('body_mass', 'body_ipos', 'body_iquat', 'body_inertia'):
        if not np.array_equal(getattr(model, f)[b], getattr(base, f)[b]):
          raise Violation('apply_body_theta_inertia(%s) changed %s of body %d' % (name, f, b), bucket='apply-frame')
    # second round trip through the compiler
    try:
      back = mm.theta_inertia_from_body(spec, name)
    except Exception as e:
      raise Violation('theta_inertia_from_body failed after apply: %s: %s (cond=%.3g theta=%r)' % (type(e).__name__, e, cond, v),
                      bucket='body-roundtrip-exception')
    rr = float(np.max(np.abs(back - theta)) / (REL_INERTIA * cond))
    if cond <= 1e3:     # the compiler's 1e-6 eigen-decomposition error is amplified by cond(J): only judged when small
      worst['rt_body'] = max(worst['rt_body'], rr)
    if cond <= 1e3 and rr > 1:
      raise Violation('theta -> body -> compile -> theta: error %.3g = %.3g * REL_INERTIA*cond; theta=%r back=%r' % (
          float(np.max(np.abs(back - theta))), rr, v, back.tolist()), bucket='body-roundtrip')
    ck.case(nontrivial=nt, key=(xml, target, v), labels=['apply', 'apply:nbody=%d' % n, 'apply:' + labels[0]],
            sample=dict(xml=xml, body=name, theta=v, compiled_mass=float(model.body_mass[bid]),
                        compiled_inertia=model.body_inertia[bid].tolist()) if nt else None)

  inbox = thetas().filter(lambda kv: True)
  ck.run_hypothesis(test_apply, st.tuples(body_models(), inbox), ck.budget(150, 5000), name='apply')
  ck.extra['excluded_by_construction'] = dict(EXCLUDED)
  ck.extra['tolerance'] = dict(K_FWD=K_FWD, K_RT=K_RT, K_MASS=K_MASS, REL_INERTIA=REL_INERTIA, COND_MAX=COND_MAX,
                               **{'worst_' + k: v for k, v in worst.items()})


LEVEL = 'exploration'
TECHNIQUE = ('property-based testing (Hypothesis) against a numpy reference model of the documented log-Cholesky '
             'parameterisation, round trips, and a compile step with a byte-level frame condition on untouched bodies')
LEVEL_TEXT = '''Generated theta vectors (nested boxes up to [-6,6]^10, corners, sparse vectors) go through the tree's
pi_from_theta / pseudoinertia_from_pi / theta_from_pseudoinertia; results are compared with U U^T built independently
from the docstring layout, checked for symmetry, positive definiteness, positive principal moments and triangle
inequalities of the COM inertia, and the round trip. apply_body_theta_inertia is exercised on generated MJCF models and the
compiled body mass, COM and inertia tensor are compared with the parameters; other bodies must stay bit-identical.'''
LEVEL_NOTE = '''Trusted: numpy linear algebra; the installed mujoco 3.13.0 binding as spec compiler (the tree's Python
bindings cannot be built here). cond(J) > 1e12 is counted but only cond-independent assertions are made (in [-6,6]^10 about
14% of uniform vectors; the float J stops being positive definite from cond ~4e16, 0.2% of the box: reported as an
observation, not a violation). pi_from_theta returns 13 numbers (full 3x3 inertia) although its docstring says 10.'''
