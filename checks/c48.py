"""C48 - System-identification signal transforms are pure.

Domain : TimeSeries (T in 1..200, k in 1..6 columns; uniform and jittered strictly increasing grids; data with mixed
         magnitudes), signal mappings that partition the columns into named groups (contiguous and permuted index
         sets), per-sensor delays (zero, +-small, sub-sample, beyond the window), gains, biases, windows, target grids.
Oracle : (1) frame/purity: byte snapshots of times, data and every mapping index array before the call == after;
         (2) exact affine maps for bias/gain (same IEEE operation in numpy, bit-exact);
         (3) grouped apply_resample_and_delay == column-by-column resampling with the tree's own TimeSeries.resample
             (bit-exact, the statement says "exactly") and == an independent np.interp reference evaluated at
             t -/+ delay (sign and clamping semantics from the docstrings; scaled tolerance);
         (4) resample(ts.times) returns ts.data exactly (numeric ==; the sign of a zero is not judged);
         (5) linear interpolation lies inside [min,max] of the two bracketing samples (scaled tolerance, clamped outside);
         (6) windows select exactly the samples with min_t <= t <= max_t (mask reference).
Non-trivial : >= 2 sensors with different delays and a non-uniform grid.
"""
import numpy as np
from hypothesis import strategies as st

from vf import gen_pytree as pt
from vf.runner import Violation

# Linear interpolation y_lo + slope*(x-x_lo) (scipy) vs np.interp's formulation differ by a few roundings of the
# products/sums of terms of magnitude |y_lo|+|y_hi|.  Worst ratio observed on the unchanged tree over seeds 1-5
# thorough: 1.72 eps (evidence max_interp_ulps).  K = ~100x that, rounded up to 256.
K_INTERP = 256
EPS = np.finfo(np.float64).eps


class P:
  """Minimal stand-in with the documented interface used by the modifiers (`.value`, an ndarray)."""

  def __init__(self, value):
    self.value = np.atleast_1d(np.asarray(value, dtype=np.float64))


def snapshot(ts):
  m = None
  if ts.signal_mapping is not None:
    m = [(k, v[0], np.asarray(v[1]).copy().tobytes(), np.asarray(v[1]).dtype.str) for k, v in ts.signal_mapping.items()]
  return (ts.times.tobytes(), ts.times.shape, ts.data.tobytes(), ts.data.shape, m)


def same_bits(a, b):
  a = np.ascontiguousarray(a, dtype=np.float64)
  b = np.ascontiguousarray(b, dtype=np.float64)
  return a.shape == b.shape and a.tobytes() == b.tobytes()


@st.composite
def cases(draw):
  big = draw(st.integers(0, 9)) == 0
  T = draw(st.integers(2, 200 if big else 24)) if draw(st.integers(0, 19)) else 1
  k = draw(st.sampled_from([1, 2, 2, 3, 3, 4, 4, 5, 6]))
  grid = draw(st.sampled_from(['uniform', 'jitter', 'jitter', 'wild']))
  seed = draw(st.integers(0, 2 ** 31 - 1))
  t0 = draw(st.sampled_from([0.0, 0.0, -1.5, 3.25, 1000.0]))
  dt = draw(st.sampled_from([1.0, 0.5, 0.01, 0.002, 0.1]))
  # partition of the columns into named groups
  perm = draw(st.permutations(list(range(k)))) if draw(st.booleans()) else list(range(k))
  ng = draw(st.integers(1, k))
  cuts = sorted(draw(st.permutations(list(range(1, k))))[:ng - 1]) if k > 1 else []
  groups = [perm[a:b] for a, b in zip([0] + cuts, cuts + [k])]
  # delays per sensor: class labels resolved to numbers in build()
  dclass = st.sampled_from(['zero', 'sub', 'neg', 'pos', 'beyond', 'negbeyond', 'knot'])
  delays = [draw(dclass) for _ in groups]
  ndel = draw(st.sampled_from([0] + [len(groups)] * 2 + list(range(len(groups) + 1))))
  default_delay = draw(dclass)
  predicted = draw(st.booleans())
  target = draw(st.sampled_from(['same', 'shifted', 'finer', 'coarser', 'random', 'single']))
  scale = draw(st.sampled_from([1.0, 1.0, 1e-3, 1e3, 1e6]))
  ints = draw(st.booleans())
  frac = draw(st.floats(0.0, 1.0, allow_nan=False))
  win = (draw(st.floats(-0.3, 1.3)), draw(st.floats(-0.3, 1.3)))
  return dict(T=T, k=k, grid=grid, seed=seed, t0=t0, dt=dt, groups=groups, delays=delays, ndel=ndel,
              default_delay=default_delay, predicted=predicted, target=target, scale=scale, ints=ints, frac=frac, win=win)


def build(tsm, c):
  rng = np.random.RandomState(c['seed'])
  T, k = c['T'], c['k']
  if c['grid'] == 'uniform':
    times = c['t0'] + c['dt'] * np.arange(T)
  elif c['grid'] == 'jitter':
    times = c['t0'] + np.cumsum(c['dt'] * rng.uniform(0.5, 1.5, T))
  else:
    times = c['t0'] + np.cumsum(c['dt'] * np.exp(rng.uniform(-4, 3, T)))
  times = np.ascontiguousarray(times, dtype=np.float64)
  if T > 1 and not np.all(np.diff(times) > 0):
    return None
  data = rng.standard_normal((T, k)) * c['scale']
  if c['ints']:
    data = np.round(data * 4) / 4
  data[rng.uniform(size=data.shape) < 0.1] = 0.0
  types = list(tsm.SignalType)
  mapping = {}
  for i, g in enumerate(c['groups']):
    mapping['s%d' % i] = (types[(c['seed'] + i) % len(types)], np.array(g, dtype=int))
  dur = float(times[-1] - times[0]) if T > 1 else 1.0
  step = float(np.min(np.diff(times))) if T > 1 else 1.0

  def delay_value(cls):
    return dict(zero=0.0, sub=0.37 * step, neg=-(0.5 + c['frac']) * step, pos=(1.0 + 3 * c['frac']) * step,
                beyond=2.0 * dur + step, negbeyond=-1.5 * dur - step, knot=step)[cls]
  sensor_delays = {('s%d' % i): delay_value(c['delays'][i]) for i in range(min(c['ndel'], len(c['groups'])))}
  default_delay = delay_value(c['default_delay'])
  # target grid
  tg = c['target']
  if tg == 'same' or T == 1:
    target = times.copy()
  elif tg == 'shifted':
    target = times + 0.5 * step
  elif tg == 'finer':
    target = np.linspace(times[0] - 0.1 * dur, times[-1] + 0.1 * dur, 2 * T + 1)
  elif tg == 'coarser':
    target = times[::2].copy()
  elif tg == 'single':
    target = np.array([times[0] + c['frac'] * dur])
  else:
    target = np.unique(rng.uniform(times[0] - 0.2 * dur, times[-1] + 0.2 * dur, rng.randint(1, 2 * T + 2)))
  return times, data, mapping, sensor_delays, default_delay, np.ascontiguousarray(target), dur, step


def ref_interp(times, col, t):
  """Independent reference for linear interpolation with constant extension (documented fill_value=(first,last))."""
  return np.interp(t, times, col)


def bracket(times, col, t):
  """[min,max] of the two samples bracketing each t (clamped outside the range)."""
  hi = np.clip(np.searchsorted(times, t, side='left'), 0, len(times) - 1)
  lo = np.clip(hi - 1, 0, len(times) - 1)
  lo = np.where(t <= times[0], 0, lo)
  hi = np.where(t >= times[-1], len(times) - 1, hi)
  lo = np.where(t >= times[-1], len(times) - 1, lo)
  hi = np.where(t <= times[0], 0, hi)
  exact = times[hi] == t
  lo = np.where(exact, hi, lo)
  a, b = col[lo], col[hi]
  return np.minimum(a, b), np.maximum(a, b)


def main(ck):
  tsm, sm, stf, par = pt.sysid('timeseries', 'signal_modifier', 'signal_transform', 'parameter')
  TS = tsm.TimeSeries
  ck.rule = ('TimeSeries T in 1..200 (1 in 10 cases large), k in 1..6, uniform/jittered/log-jittered grids, columns '
             'partitioned into named sensors (permuted index sets), per-sensor delay classes zero/sub-sample/negative/'
             'positive/beyond window/exact knot, 6 target grids; every case runs bias, gain, delay, window, delayed '
             'window, resample and grouped resample+delay; non-trivial = >=2 sensors with different effective delays on '
             'a non-uniform grid with T>=3; distinct by full case description')
  ck.assumptions = ['finite data and finite delays (NaN/inf inputs are outside the quantifier)',
                    'linear interpolation only (the method used by all modifiers); cubic/zoh paths are not judged',
                    'outputs may alias inputs (windows return views); only modification of inputs is judged']
  stats = dict(max_interp_ulps=0.0, max_bracket_ulps=0.0)

  def purity(name, ts, snap, fingerprint=None, replay=None):
    if snapshot(ts) != snap:
      msg = '%s modified the TimeSeries passed in (times/data/mapping bytes differ after the call)' % name
      if fingerprint:
        ck.violation(msg, replay, bucket='purity-' + name, fingerprint=fingerprint)
        return False
      raise Violation(msg, bucket='purity-' + name)
    return True

  # ---- deterministic probes for the two known-finding candidates (minimal reproducers)
  ts = TS.create(np.arange(5.0), np.arange(10.0).reshape(5, 2),
                 {'a': (tsm.SignalType.CustomObs, [0]), 'b': (tsm.SignalType.CustomObs, [1])})
  snap = snapshot(ts)
  sm.apply_delay(ts, 'a', P(0.5))
  delay_pure = purity('apply_delay', ts, snap, fingerprint='apply-delay-mutates-input',
                      replay=dict(times=list(range(5)), data='arange(10).reshape(5,2)', sensor='a', delay=0.5,
                                  data_after=ts.data.tolist()))
  ck.extra['apply_delay_pure'] = bool(delay_pure)
  one = TS(np.array([0.25]), np.array([[1.0, -2.0]]))
  with np.errstate(all='ignore'):
    try:
      r1 = one.resample(np.array([0.25])).data
      single_ok = same_bits(r1, one.data)
      r1d = r1.tolist()
    except ValueError as e:     # a documented refusal would be acceptable behaviour
      single_ok, r1d = True, 'ValueError: %s' % e
  if not single_ok:
    ck.violation('resample at the original timestamp of a 1-sample TimeSeries returns %r instead of the data' % (r1d,),
                 dict(times=[0.25], data=[[1.0, -2.0]], new_times=[0.25], got=r1d), bucket='single-sample',
                 fingerprint='single-sample-resample-nan')
  ck.extra['single_sample_resample_ok'] = bool(single_ok)

  def test(c):
    b = build(tsm, c)
    if b is None:
      ck.discard('grid-not-increasing')
      return
    times, data, mapping, sensor_delays, default_delay, target, dur, step = b
    T, k = data.shape
    ts = TS(times, data, mapping)
    snap = snapshot(ts)
    data0 = data.copy()
    times0 = times.copy()
    labels = ['grid:' + c['grid'], 'target:' + c['target'], 'T=1' if T == 1 else 'T<=24' if T <= 24 else 'T>24',
              'predicted' if c['predicted'] else 'measured']
    names = list(mapping)
    rng = np.random.RandomState(c['seed'] ^ 0x5bd1)

    # ---- bias / gain: exact affine maps, other columns untouched, input untouched
    for name in names:
      idx = mapping[name][1]
      for shape in ('scalar', 'percol'):
        v = rng.standard_normal(1 if shape == 'scalar' else len(idx)) * 3
        for fn, op, label in ((sm.apply_bias, np.add, 'apply_bias'), (sm.apply_gain, np.multiply, 'apply_gain')):
          out = fn(ts, name, P(v))
          purity(label, ts, snap)
          want = data0.copy()
          want[:, idx] = op(data0[:, idx], v)
          if not same_bits(out.data, want):
            raise Violation('%s(%s, value=%r): result is not the exact affine map of the selected columns / other '
                            'columns changed' % (label, name, v.tolist()), bucket=label)
          if not same_bits(out.times, times0) or out.data is ts.data:
            raise Violation('%s: times changed or data not a new array' % label, bucket=label)
          if out.signal_mapping is None or list(out.signal_mapping) != names:
            raise Violation('%s: signal mapping lost' % label, bucket=label)

    # ---- windows
    lo_t = times0[0] + c['win'][0] * dur
    hi_t = times0[0] + c['win'][1] * dur
    if rng.randint(3) == 0:
      lo_t = float(times0[rng.randint(T)])      # exactly on a sample
    if rng.randint(3) == 0:
      hi_t = float(times0[rng.randint(T)])
    mask = (times0 >= lo_t) & (times0 <= hi_t)
    try:
      w = sm.apply_time_window(ts, lo_t, hi_t)
      if not mask.any():
        raise Violation('apply_time_window returned a series for an empty window [%r,%r]' % (lo_t, hi_t), bucket='window')
      if not (same_bits(w.times, times0[mask]) and same_bits(w.data, data0[mask])):
        raise Violation('apply_time_window([%r,%r]) does not select exactly the samples with min_t<=t<=max_t' % (lo_t, hi_t),
                        bucket='window')
      labels.append('window:nonempty')
    except ValueError:
      if mask.any():
        raise Violation('apply_time_window raised ValueError for a non-empty window [%r,%r]' % (lo_t, hi_t), bucket='window')
      labels.append('window:empty')
    purity('apply_time_window', ts, snap)
    mn, mx = sorted([c['win'][0] * dur * 0.3, c['win'][1] * dur * 0.3])
    other = TS(times0 + 0.25 * step, data0.copy(), mapping)
    osnap = snapshot(other)
    a, bnd = other.times[0] - mn, other.times[-1] - mx
    mask2 = (times0 >= a) & (times0 <= bnd)
    try:
      w2 = sm.apply_delayed_ts_window(ts, other, mn, mx)
      if not mask2.any() or not (same_bits(w2.times, times0[mask2]) and same_bits(w2.data, data0[mask2])):
        raise Violation('apply_delayed_ts_window(min=%r,max=%r) != samples inside [t0-min, t1-max]' % (mn, mx),
                        bucket='delayed-window')
    except ValueError:
      if mask2.any():
        raise Violation('apply_delayed_ts_window raised ValueError for a non-empty window', bucket='delayed-window')
    purity('apply_delayed_ts_window', ts, snap)
    purity('apply_delayed_ts_window(ts_delayed)', other, osnap)
    if mn < mx:
      try:
        sm.apply_delayed_ts_window(ts, other, mx, mn)
        raise Violation('apply_delayed_ts_window accepted min_delay > max_delay', bucket='delayed-window')
      except ValueError:
        pass

    if T >= 2:
      # ---- resample at the original timestamps: exact
      r = ts.resample(times0.copy())
      purity('resample', ts, snap)
      if not np.array_equal(r.data, data0):      # numeric equality: -0.0 == 0.0 is "the original data"
        bad = np.argwhere(r.data != data0)[:3].tolist()
        raise Violation('resample(ts.times) != ts.data exactly (first differing [row,col]: %s)' % bad, bucket='resample-identity')
      # ---- resample on the target grid: reference + bracketing
      r = ts.resample(target.copy())
      purity('resample', ts, snap)
      for j in range(k):
        col = data0[:, j]
        ref = ref_interp(times0, col, target)
        mn_, mx_ = bracket(times0, col, target)
        scale = np.abs(mn_) + np.abs(mx_) + np.finfo(float).tiny
        e1 = np.max(np.abs(r.data[:, j] - ref) / (EPS * scale))
        e2 = np.max(np.maximum(mn_ - r.data[:, j], r.data[:, j] - mx_) / (EPS * scale))
        stats['max_interp_ulps'] = max(stats['max_interp_ulps'], float(e1))
        stats['max_bracket_ulps'] = max(stats['max_bracket_ulps'], float(e2))
        if e1 > K_INTERP:
          i = int(np.argmax(np.abs(r.data[:, j] - ref) / scale))
          raise Violation('resample: column %d at t=%r is %r, linear interpolation reference %r' % (
              j, float(target[i]), float(r.data[i, j]), float(ref[i])), bucket='resample-value')
        if e2 > K_INTERP:
          i = int(np.argmax(np.maximum(mn_ - r.data[:, j], r.data[:, j] - mx_) / scale))
          raise Violation('resample: column %d at t=%r is %r, outside the bracketing samples [%r,%r]' % (
              j, float(target[i]), float(r.data[i, j]), float(mn_[i]), float(mx_[i])), bucket='resample-bracket')

      # ---- apply_delay on one sensor (input protected by a copy: purity is reported by the probe above and here)
      name = names[rng.randint(len(names))]
      idx = mapping[name][1]
      dval = list(sensor_delays.values())[0] if sensor_delays else default_delay
      tsc = TS(times0.copy(), data0.copy(), mapping)
      csnap = snapshot(tsc)
      out = sm.apply_delay(tsc, name, P(dval))
      purity('apply_delay', tsc, csnap, fingerprint='apply-delay-mutates-input',
             replay=dict(case=c, sensor=name, delay=dval))
      for j in range(k):
        if j in idx:
          ref = ref_interp(times0, data0[:, j], times0 - dval)
          mn_, mx_ = bracket(times0, data0[:, j], times0 - dval)
          scale = np.abs(mn_) + np.abs(mx_) + np.finfo(float).tiny
          if np.max(np.abs(out.data[:, j] - ref) / (EPS * scale)) > K_INTERP:
            raise Violation('apply_delay(%s, %r): column %d is not the series delayed by +delay (value at t is x(t-delay))'
                            % (name, dval, j), bucket='delay-value')
        elif not same_bits(out.data[:, j], data0[:, j]):
          raise Violation('apply_delay(%s): column %d of another sensor changed' % (name, j), bucket='delay-frame')
      if not same_bits(out.times, times0):
        raise Violation('apply_delay changed the timestamps', bucket='delay-frame')

      # ---- grouped resample+delay == column-by-column, and == independent reference
      got = sm.apply_resample_and_delay(ts, target.copy(), default_delay, sensor_delays=dict(sensor_delays) or None,
                                        predicted_data=c['predicted'])
      purity('apply_resample_and_delay', ts, snap)
      if not same_bits(got.times, target) or got.data.shape != (len(target), k):
        raise Violation('apply_resample_and_delay: wrong output grid/shape', bucket='grouped-shape')
      percol = [default_delay] * k
      for nm, dv in sensor_delays.items():
        for j in mapping[nm][1]:
          percol[j] = dv
      sign = -1.0 if c['predicted'] else 1.0
      for j in range(k):
        tj = target + sign * percol[j]
        if not np.all(np.diff(tj) > 0):
          continue
        colwise = TS(times0, data0[:, j:j + 1], None).resample(tj).data[:, 0]
        if not same_bits(got.data[:, j], colwise):
          raise Violation('apply_resample_and_delay: column %d (delay %r) differs from resampling that column alone'
                          % (j, percol[j]), bucket='grouped-vs-columnwise')
        ref = ref_interp(times0, data0[:, j], tj)
        mn_, mx_ = bracket(times0, data0[:, j], tj)
        scale = np.abs(mn_) + np.abs(mx_) + np.finfo(float).tiny
        e1 = np.max(np.abs(got.data[:, j] - ref) / (EPS * scale))
        stats['max_interp_ulps'] = max(stats['max_interp_ulps'], float(e1))
        if e1 > K_INTERP:
          raise Violation('apply_resample_and_delay(predicted_data=%s): column %d is not x(t %s delay) (delay %r)' % (
              c['predicted'], j, '-' if c['predicted'] else '+', percol[j]), bucket='grouped-value')
      distinct_delays = len(set(percol))
    else:
      labels.append('single-sample')
      distinct_delays = 0

    # ---- SignalTransform: vectorised gains/biases == one-at-a-time reference path
    tr = stf.SignalTransform()
    params = {}
    for i, pat in enumerate(['s0', 's*', '*1', 's[0-2]']):
      pr = par.Parameter('p%d' % i, float(rng.standard_normal()) * 2, -10, 10)
      params[pr.name] = pr
      tgt = ['predicted', 'measured', 'both'][rng.randint(3)]
      (tr.gain if i % 2 == 0 else tr.bias)(pat, pr, target=tgt)
    for lab in ('predicted', 'measured'):
      o1 = tr._apply_gains_biases(ts, lab, params)
      purity('SignalTransform._apply_gains_biases', ts, snap)
      o2 = tr._apply_gains_biases_reference(ts, lab, params)
      purity('SignalTransform._apply_gains_biases_reference', ts, snap)
      if not same_bits(o1.data, o2.data):
        raise Violation('SignalTransform gains/biases (%s): vectorised path != sequential apply_gain/apply_bias' % lab,
                        bucket='transform-differential')

    for cls in set(c['delays'][:c['ndel']]) | {c['default_delay']}:
      labels.append('delay:' + cls)
    labels.append('sensors=%d' % len(names))
    nt = distinct_delays >= 2 and len(names) >= 2 and c['grid'] != 'uniform' and T >= 3
    ck.case(nontrivial=nt, key=c, labels=labels,
            sample=dict(T=T, k=k, grid=c['grid'], sensors={n: mapping[n][1].tolist() for n in names},
                        sensor_delays=sensor_delays, default_delay=default_delay, predicted=c['predicted'],
                        target=c['target'], n_target=len(target)) if nt else None)

  with np.errstate(all='ignore'):
    ck.run_hypothesis(test, cases(), ck.budget(1500, 60000), name='signal-modifiers')
  ck.extra['tolerance'] = dict(K_INTERP=K_INTERP, unit='eps*(|y_lo|+|y_hi|)', **stats)


LEVEL = 'exploration'
TECHNIQUE = ('property-based testing (Hypothesis) of the tree\'s sysid signal modifiers: byte-level frame condition on the '
             'inputs, exact affine reference, differential grouped-vs-columnwise resampling, independent np.interp reference')
LEVEL_TEXT = '''Generated time series / signal mappings / delays are pushed through apply_bias, apply_gain, apply_delay,
apply_time_window, apply_delayed_ts_window, TimeSeries.resample, apply_resample_and_delay and the SignalTransform gain/bias
paths of the tree (python/mujoco/sysid/_src loaded from the tree under test, not from the installed wheel). Inputs are
byte-snapshotted before and compared after each call; results are compared bit-exactly where the statement says "exactly"
and against an independent numpy reference otherwise.'''
LEVEL_NOTE = '''Trusted: numpy (np.interp, searchsorted) as the reference for linear interpolation, scipy.interpolate as used
by the tree. Not judged: non-linear interpolation methods, NaN/inf data, disk I/O helpers. Two deterministic probes report
the (since repaired) findings 'apply-delay-mutates-input' (apply_delay writes into ts.data of its argument) and
'single-sample-resample-nan' (a 1-sample series resampled at its own timestamp gives NaN); the generated search protects
the apply_delay input with a copy so that the remaining oracles keep running behind that finding.'''
