"""C49 - Python introspection metadata matches the C headers.

Domain : finite and enumerated completely: every struct / field (recursively through anonymous structs and unions), enum
         constant and function of python/mujoco/introspect/{structs,enums,functions}.py of the tree; plus generated C type
         ASTs (qualifiers, pointer chains with qualifiers, arrays with extents, pointers to arrays, odd whitespace) for the
         parse_type / decl() round trip.
Oracle : the C compiler.  One clang -fsyntax-only run over a generated translation unit that includes the tree's
         <mujoco/mujoco.h> and contains, with an ID in every message:
           * a mirror `struct vf_<S> { <fields printed by the metadata's own decl()> }` per struct, and
             _Static_asserts that size, alignment and the offset of EVERY field path agree with the real struct (a missing,
             extra, reordered or mistyped field shifts an offset or the size), that the address type of every field is
             compatible with the described type (pointer trick, so that const/volatile are not dropped), and that the
             typedef names the described tag;
           * `_Static_assert(CONST == value)` per enum constant, typedef/tag compatibility per enum;
           * a re-declaration of every function from str(FunctionDecl) ("conflicting types" on any mismatch);
           * for generated type strings: `T` and `parse_type(T).decl()` declare compatible types.
         Canary assertions that must fail prove the diagnostics are seen.  Reverse direction (nothing missing): regex
         inventory of MJAPI functions, struct tags, enum constants and mjxmacro X-lists in include/mujoco/*.h; textual
         comparison of every prototype (names and array extents, which decay in C and are invisible to the type check);
         X-macro extents (MJMODEL_POINTERS / MJDATA_POINTERS as seen by the preprocessor) == array_extent metadata.
         Round trip: parse_type(ast.decl()) == ast, decl() is a fixed point, whitespace-insensitive.
Non-trivial : array field, member of an anonymous struct/union, function-pointer/callback typed item, array parameter; for
         generated types: contains an array or >= 2 pointer levels.
"""
import os
import re
import subprocess

from hypothesis import strategies as st

from vf import build as vb
from vf import gen_pytree as pt
from vf.runner import Violation

WORK = '/verif/work/C49'


# ------------------------------------------------------------------ generated C types
def type_strategy(an):
  names = st.sampled_from(['int', 'char', 'double', 'float', 'void', 'mjtNum', 'mjtByte', 'mjModel', 'mjData', 'size_t',
                           'unsigned int', 'unsigned char', 'long long', 'unsigned long long', 'short', 'signed char',
                           'struct mjModel_', 'struct mjData_', 'mjContact', 'mjtGeom', 'uintptr_t', 'uint64_t',
                           'mjfGeneric', 'unsigned long', 'long'])

  def value(draw):
    return an.ValueType(draw(names), is_const=draw(st.booleans()), is_volatile=draw(st.integers(0, 4)) == 0)

  @st.composite
  def ty(draw):
    t = value(draw)
    depth = 0
    arrays = 0
    for _ in range(draw(st.integers(0, 4))):
      if draw(st.integers(0, 2)) == 0 and not isinstance(t, an.ArrayType) and not (
          isinstance(t, an.ValueType) and t.name == 'void'):
        t = an.ArrayType(inner_type=t, extents=tuple(draw(st.lists(st.integers(1, 40), min_size=1, max_size=3))))
        arrays += 1
      else:
        t = an.PointerType(inner_type=t, is_const=draw(st.booleans()), is_volatile=draw(st.integers(0, 5)) == 0,
                           is_restrict=draw(st.integers(0, 5)) == 0)
        depth += 1
    if isinstance(t, an.ValueType) and t.name == 'void':
      t = an.PointerType(inner_type=t)
      depth += 1
    return t, depth, arrays
  return ty()


def respace(s, seed):
  """Insert function-irrelevant whitespace (never inside identifiers/numbers)."""
  import random
  r = random.Random(seed)
  out = []
  for tok in re.findall(r'[A-Za-z_0-9]+|\s+|.', s):
    if tok.isspace():
      out.append(' ' * r.randint(1, 3) if r.random() < 0.7 else '\t')
    else:
      if tok in '*[]()' and r.random() < 0.5:
        out.append(' ' * r.randint(0, 2))
      out.append(tok)
  return ''.join(out).strip()


# ------------------------------------------------------------------ header inventory (regex, independent of clang)
def strip_comments(text):
  text = re.sub(r'/\*.*?\*/', ' ', text, flags=re.S)
  return re.sub(r'//[^\n]*', '', text)


def header_inventory(incdir, files):
  inv = dict(functions={}, structs=set(), enums={}, nullable={})
  for f in files:
    raw = open(os.path.join(incdir, f)).read()
    # nullable annotations live in comments directly above a prototype
    for m in re.finditer(r'//\s*Nullable:\s*([^\n]*)\n(?:\s*//[^\n]*\n)*\s*MJAPI\s+[^;]*?\b(\w+)\s*\(', raw):
      inv['nullable'][m.group(2)] = set(x.strip() for x in m.group(1).split(',') if x.strip())
    text = re.sub(r'\bmjPRINTFLIKE\s*\([^)]*\)', '', strip_comments(raw))     # attribute macro on variadic prototypes
    for m in re.finditer(r'\bMJAPI\s+([^;{}]*?)\b(\w+)\s*\(([^;{}]*)\)\s*;', text):
      if 'extern' in m.group(1).split():
        continue
      ret, name, params = m.group(1), m.group(2), m.group(3)
      if name == 'mjPRINTFLIKE':      # attribute macro after a variadic prototype: re-match without it
        m2 = re.match(r'([^;{}]*?)\b(\w+)\s*\(([^;{}]*)\)\s*$', (m.group(1)).strip())
        if not m2:
          continue
        ret, name, params = m2.group(1), m2.group(2), m2.group(3)
      if '(' in ret or name in ('defined',):
        continue
      inv['functions'][name] = (' '.join(ret.split()), ' '.join(params.split()))
    for m in re.finditer(r'\bstruct\s+(\w+)\s*\{', text):
      inv['structs'].add(m.group(1))
    for m in re.finditer(r'\btypedef\s+enum\s+(\w+)\s*\{(.*?)\}\s*(\w+)\s*;', text, flags=re.S):
      names = []
      for item in m.group(2).split(','):
        item = item.strip()
        if item:
          names.append(re.match(r'\w+', item).group(0))
      inv['enums'][m.group(3)] = (m.group(1), names)
  return inv


def squeeze(s):
  """Normalise a C declaration text: drop spaces except between two word characters."""
  s = ' '.join(s.split())
  s = re.sub(r'\s*([*\[\](),])\s*', r'\1', s)
  return s


# ------------------------------------------------------------------ C generation
class CGen:
  def __init__(self):
    self.lines = []
    self.nlines = 0
    self.ids = {}      # id -> (kind, description, nontrivial)

  def add(self, ident, cond, kind, desc, nontrivial=False):
    assert ident not in self.ids, ident
    self.ids[ident] = (kind, desc, nontrivial)
    self.raw('_Static_assert(%s, "VF[%s]");' % (cond, ident))

  def raw(self, line):
    """Append source text; returns the 1-based line number of its first line."""
    first = self.nlines + 1
    self.lines.append(line)
    self.nlines += line.count('\n') + 1
    return first


def field_paths(an, fields, prefix=''):
  """Yield (path, field-or-None, type, inside_anonymous) for every addressable member, recursing through anonymous
  structs/unions."""
  for f in fields:
    if isinstance(f, an.AnonymousStructDecl) and not isinstance(f, an.StructFieldDecl):   # anonymous union/struct member
      for x in field_paths(an, f.fields, prefix):
        yield x[0], x[1], x[2], True
      continue
    path = prefix + f.name
    if isinstance(f.type, an.AnonymousStructDecl):
      yield path, f, None, bool(prefix)
      for x in field_paths(an, f.type.fields, path + '.'):
        yield x[0], x[1], x[2], True
    else:
      yield path, f, f.type, bool(prefix)


def main(ck):
  an, tp, structs, enums, functions = pt.introspect('ast_nodes', 'type_parsing', 'structs', 'enums', 'functions')
  os.makedirs(WORK, exist_ok=True)
  incdir = os.path.join(vb.REPO, 'include')
  ck.exhaustive = True
  ck.rule = ('every struct, field path, enum constant and function of the introspect metadata (exhaustive) + generated C type '
             'ASTs; non-trivial = array field / member of an anonymous struct or union / callback-typed item / array '
             'parameter / generated type with an array or >=2 pointer levels; distinct by item id')
  ck.assumptions = ['clang 14 x86-64 record layout and type compatibility are the reference ("as the C compiler sees them")',
                    'parameter-level nullable flags are compared with the "Nullable:" comments (not visible to the compiler)',
                    'doc strings are not compared']

  # ---------------- 1. type-string round trip (Hypothesis), collecting pairs for the compiler
  pairs = []
  seen_pairs = set()

  def roundtrip(case):
    (t, depth, arrays), seed = case
    s = t.decl()
    try:
      back = tp.parse_type(s)
    except Exception as e:
      raise Violation('parse_type(%r) raised %s: %s' % (s, type(e).__name__, e), bucket='parse-exception')
    if back != t:
      raise Violation('parse_type(decl()) != original: %r -> %r -> %r' % (t, s, back), bucket='roundtrip-ast')
    s2 = back.decl()
    if s2 != s:
      raise Violation('decl() is not a fixed point: %r -> %r' % (s, s2), bucket='roundtrip-text')
    sp = respace(s, seed)
    try:
      b2 = tp.parse_type(sp)
    except Exception as e:
      raise Violation('parse_type(%r) (re-spaced %r) raised %s: %s' % (sp, s, type(e).__name__, e), bucket='whitespace')
    if b2 != t:
      raise Violation('whitespace changes the parse: %r vs %r -> %r' % (s, sp, b2), bucket='whitespace')
    # named declaration must also be well formed: T name
    if s not in seen_pairs and len(pairs) < 1200:
      seen_pairs.add(s)
      pairs.append((s, sp, t.decl('vf_x'), t))
    nt = arrays > 0 or depth >= 2
    ck.case(nontrivial=nt, key=s, labels=['type:arrays=%d' % min(arrays, 2), 'type:ptr=%d' % min(depth, 3)],
            sample=dict(type=s, respaced=sp) if (nt and len(ck.samples) < 2) else None)

  ck.run_hypothesis(roundtrip, st.tuples(type_strategy(an), st.integers(0, 10 ** 6)), ck.budget(3000, 40000), name='type-roundtrip')

  # ---------------- 2. generate the translation unit
  g = CGen()
  g.raw('#include <stddef.h>\n#include <stdint.h>\n#include <mujoco/mujoco.h>\n#include <mujoco/mjxmacro.h>')
  g.raw('#define VF_SAME(a, b) __builtin_types_compatible_p(a, b)')
  g.add('canary-assert', 'sizeof(mjModel) == 1', 'canary', 'must fail')
  info = {}
  nstruct_fields = 0
  for sname, s in structs.STRUCTS.items():
    if s.name != sname:
      raise Violation('STRUCTS key %r != decl name %r' % (sname, s.name), bucket='metadata-key')
    body = ' '.join(('%s;' % f) for f in s.fields)
    g.raw('struct vf_%s { %s };' % (sname, body))
    g.add('S:%s:tag' % sname, 'VF_SAME(%s, %s)' % (s.name, s.declname), 'struct-tag', '%s is %s' % (s.name, s.declname))
    g.add('S:%s:size' % sname, 'sizeof(struct vf_%s) == sizeof(%s)' % (sname, sname), 'struct-size',
          'size of %s rebuilt from the metadata' % sname)
    g.add('S:%s:align' % sname, '_Alignof(struct vf_%s) == _Alignof(%s)' % (sname, sname), 'struct-size', 'alignment of %s' % sname)
    for path, f, ty, anon in field_paths(an, s.fields):
      nstruct_fields += 1
      isarr = isinstance(ty, an.ArrayType)
      cb = ty is not None and ('mjf' in ty.decl() or '(*' in ty.decl())
      nt = isarr or anon or cb
      g.add('F:%s.%s:off' % (sname, path), 'offsetof(struct vf_%s, %s) == offsetof(%s, %s)' % (sname, path, sname, path),
            'field-offset', 'offset/order/existence of %s.%s' % (sname, path), nt)
      if ty is not None:
        g.add('F:%s.%s:type' % (sname, path), 'VF_SAME(__typeof__(&((%s*)0)->%s), __typeof__(%s)*)' % (sname, path, ty.decl()),
              'field-type', 'type of %s.%s is %s' % (sname, path, ty.decl()), nt)
        info['F:%s.%s' % (sname, path)] = ty.decl()
  for ename, e in enums.ENUMS.items():
    g.add('E:%s:tag' % ename, 'VF_SAME(%s, %s)' % (e.name, e.declname), 'enum-tag', '%s is %s' % (e.name, e.declname))
    for k, v in e.values.items():
      g.add('E:%s.%s' % (ename, k), '%s == (%d)' % (k, v), 'enum-value', '%s == %d' % (k, v), False)
  fn_lines = {}
  hdr_text = strip_comments(open(os.path.join(incdir, 'mujoco', 'mujoco.h')).read())
  variadic = set(m.group(1) for m in re.finditer(r'\b(\w+)\s*\([^;{}()]*\.\.\.\s*\)', hdr_text))
  ck.extra['variadic_functions_ellipsis_not_representable'] = sorted(variadic)
  for fname, fd in functions.FUNCTIONS.items():
    if fd.name != fname:
      raise Violation('FUNCTIONS key %r != decl name %r' % (fname, fd.name), bucket='metadata-key')
    proto = str(fd)
    if fname in variadic:
      # documented exception: FunctionDecl has no representation for a C ellipsis; the named parameters are compared
      proto = proto[:-1] + ', ...)'
    fn_lines[g.raw('%s;' % proto)] = fname     # one declaration per line: diagnostics are mapped back by line number
  for i, (s, sp, named, t) in enumerate(pairs):
    g.add('T:%d' % i, 'VF_SAME(__typeof__(%s)*, __typeof__(%s)*)' % (s, sp), 'type-pair', '%r vs %r' % (s, sp))
    g.raw('extern %s; extern %s;' % (t.decl('vf_v%d' % i), tp.parse_type(sp).decl('vf_v%d' % i)))   # same object twice
  # X-macro extents as the preprocessor sees them
  g.raw('#define XNV X')
  g.raw('#define X(type, name, nr, nc) const char* vf_xm_mjModel_##name = #type "|" #nr "|" #nc;')
  g.raw('MJMODEL_POINTERS')
  g.raw('#undef X')
  g.raw('#define X(type, name, nr, nc) const char* vf_xm_mjData_##name = #type "|" #nr "|" #nc;')
  g.raw('MJDATA_POINTERS')
  g.raw('#undef X\n#undef XNV')
  src = os.path.join(WORK, 'check_%d.c' % ck.seed)
  canary_line = g.raw('int mj_step(int vf_canary);')     # must conflict (canary for the re-declaration channel)
  text = '\n'.join(g.lines) + '\n'
  with open(src, 'w') as f:
    f.write(text)
  cmd = ['clang', '-std=gnu11', '-fsyntax-only', '-ferror-limit=0', '-Wno-everything', '-fno-caret-diagnostics',
         '-I', incdir, src]
  p = subprocess.run(cmd, capture_output=True, text=True)
  err = p.stderr
  failed = set(re.findall(r'VF\[([^\]]+)\]', '\n'.join(l for l in err.splitlines() if 'error:' in l)))
  conflicts = set()
  other_errors = []
  for l in err.splitlines():
    if 'error:' not in l:
      continue
    m = re.match(r'.*?:(\d+):\d+: error: (.*)', l)
    if 'VF[' in l:
      continue
    if m and int(m.group(1)) in fn_lines:
      conflicts.add((fn_lines[int(m.group(1))], m.group(2)))
    elif m and int(m.group(1)) == canary_line:
      conflicts.add(('canary-fn', m.group(2)))
    else:
      other_errors.append(l)
  if 'canary-assert' not in failed or 'canary-fn' not in [c[0] for c in conflicts]:
    raise RuntimeError('canaries not reported by clang: harness broken\n' + err[:2000])
  failed.discard('canary-assert')
  conflicts = set(c for c in conflicts if c[0] != 'canary-fn')
  ck.extra['clang'] = dict(cmd=' '.join(cmd[:-1]), assertions=len(g.ids), function_redeclarations=len(fn_lines),
                           type_pairs=len(pairs), failed=len(failed), other_errors=len(other_errors))
  for ident in sorted(failed):
    kind, desc, nt = g.ids.get(ident, ('?', ident, False))
    ck.violation('clang rejects the metadata: %s [%s]' % (desc, ident), dict(id=ident, kind=kind, desc=desc), bucket=kind)
  for fname, msg in sorted(conflicts):
    ck.violation('re-declaration of %s from the metadata does not match the header: %s; metadata: %s' % (
        fname, msg, functions.FUNCTIONS[fname]), dict(function=fname, clang=msg), bucket='function-type')
  if other_errors:
    ck.violation('clang reports errors outside the assertions (metadata prints invalid C?): %s' % other_errors[:5],
                 dict(errors=other_errors[:20]), bucket='c-syntax')
  for ident, (kind, desc, nt) in g.ids.items():
    if kind != 'canary':
      ck.case(nontrivial=nt, key=ident, labels=['item:' + kind], sample=dict(id=ident, check=desc) if nt else None)

  # ---------------- 3. reverse inventory + textual prototype comparison
  files = ['mujoco.h', 'mjmodel.h', 'mjdata.h', 'mjvisualize.h', 'mjrender.h', 'mjui.h', 'mjplugin.h', 'mjspec.h',
           'mjtype.h', 'mjsan.h']
  files = [f for f in files if os.path.exists(os.path.join(incdir, 'mujoco', f))]
  inv = header_inventory(os.path.join(incdir, 'mujoco'), files)
  hf = inv['functions']
  # documented exclusions of the metadata generator (python/mujoco/introspect/codegen/generate.py, _EXCLUDED) and the four
  # tagged member structs of mjuiItem's union, which structs.py references by tag but does not describe (reported as an
  # observation): anything else missing is a violation.
  excluded_functions = {'mjs_setUserValueWithCleanup'}
  excluded_structs = {'mjResource_', 'mjpDecoder', 'mjpEncoder', 'mjpPlugin_', 'mjpResourceProvider',
                      'mjuiItemEdit_', 'mjuiItemMulti_', 'mjuiItemSingle_', 'mjuiItemSlider_'}
  missing = sorted(set(hf) - set(functions.FUNCTIONS) - excluded_functions)
  extra = sorted(set(functions.FUNCTIONS) - set(hf))
  if missing:
    ck.violation('MJAPI functions declared in the headers but absent from functions.py: %s' % missing[:10],
                 dict(missing=missing), bucket='inventory-functions')
  if extra:
    ck.violation('functions in functions.py that no header declares: %s' % extra[:10], dict(extra=extra),
                 bucket='inventory-functions')
  for fname, fd in functions.FUNCTIONS.items():
    if fname not in hf:
      continue
    ret, params = hf[fname]
    want = squeeze('%s %s(%s)' % (ret, fname, params))
    got = squeeze(str(fd))
    if fname in variadic:
      got = got[:-1] + ',...)'
    if got.endswith('()') and want.endswith('(void)'):
      got = got[:-2] + '(void)'
    arrp = any(isinstance(p.type, an.ArrayType) for p in fd.parameters)
    if want != got:
      ck.violation('prototype text differs: header %r, metadata %r' % (want, got), dict(function=fname, header=want, metadata=got),
                   bucket='function-text')
    # the header's own spelling of every parameter type must parse to the described type
    if params.strip() not in ('void', ''):
      for ptxt, pd in zip(params.split(','), fd.parameters):
        m = re.match(r'^(.*?)\b(\w+)\s*((?:\[[^\]]*\])*)$', ptxt.strip())
        if not m:
          continue
        spelled = (m.group(1) + m.group(3)).strip()
        try:
          parsed = tp.parse_type(spelled)
        except Exception as e:
          ck.violation('parse_type(%r) (parameter %s of %s) raised %s' % (spelled, pd.name, fname, e), dict(function=fname),
                       bucket='parse-header-type')
          continue
        if parsed != pd.type or m.group(2) != pd.name:
          ck.violation('parameter %d of %s: header %r parses to %r, metadata has %s %r' % (
              fd.parameters.index(pd), fname, ptxt.strip(), parsed, pd.name, pd.type), dict(function=fname),
              bucket='function-param')
    nul = set(p.name for p in fd.parameters if p.nullable)
    if nul != inv['nullable'].get(fname, set()):
      ck.violation('nullable parameters of %s: metadata %s, header comment %s' % (fname, sorted(nul), sorted(inv['nullable'].get(fname, set()))),
                   dict(function=fname), bucket='function-nullable')
    ck.case(nontrivial=arrp, key='P:' + fname, labels=['item:function'],
            sample=dict(id='P:' + fname, prototype=str(fd)) if arrp else None)
  tags = set(s.declname.replace('struct ', '') for s in structs.STRUCTS.values())
  miss_s = sorted(inv['structs'] - tags - excluded_structs)
  ck.extra['not_described'] = dict(functions=sorted(excluded_functions & set(hf)), struct_tags=sorted(excluded_structs & inv['structs'] - tags))
  if miss_s:
    ck.violation('struct tags defined in the headers but absent from structs.py: %s' % miss_s, dict(missing=miss_s),
                 bucket='inventory-structs')
  for ename, (tag, names) in inv['enums'].items():
    e = enums.ENUMS.get(ename)
    if e is None:
      ck.violation('enum %s defined in the headers but absent from enums.py' % ename, dict(enum=ename), bucket='inventory-enums')
      continue
    if list(e.values.keys()) != names:
      ck.violation('enum %s: constants/order differ: header %s, metadata %s' % (ename, names, list(e.values.keys())),
                   dict(enum=ename), bucket='inventory-enums')
  extra_e = sorted(set(enums.ENUMS) - set(inv['enums']))
  if extra_e:
    ck.violation('enums in enums.py that no header defines: %s' % extra_e, dict(extra=extra_e), bucket='inventory-enums')
  ck.extra['inventory'] = dict(headers=files, functions=len(hf), struct_tags=len(inv['structs']), enums=len(inv['enums']),
                               struct_field_paths=nstruct_fields)

  # ---------------- 4. X-macro extents vs array_extent (preprocessor view)
  pp = subprocess.run(['clang', '-E', '-P', '-I', incdir, src], capture_output=True, text=True).stdout
  xm = dict((m.group(1), (m.group(2), m.group(3), m.group(4))) for m in re.finditer(
      r'vf_xm_(\w+)\s*=\s*"([^"]*)"\s*"\|"\s*"([^"]*)"\s*"\|"\s*"([^"]*)"', pp))
  nx = 0
  for sname in ('mjModel', 'mjData'):
    for f in structs.STRUCTS[sname].fields:
      if not isinstance(f, an.StructFieldDecl) or f.array_extent is None:
        continue
      if sname + '_' + f.name not in xm:
        continue       # arena / non X-listed arrays
      nx += 1
      ctype, nr, nc = xm[sname + '_' + f.name]
      want = (nr,) if nc.strip() == '1' else (nr, nc)
      got = tuple(str(x) for x in f.array_extent)
      norm = lambda t: tuple(re.sub(r'MJ_[MD]\((\w+)\)', r'\1', x.replace(' ', '')) for x in t)
      if norm(want) != norm(got):
        ck.violation('%s.%s: array_extent %r but the X-macro says (%s x %s)' % (sname, f.name, f.array_extent, nr, nc),
                     dict(struct=sname, field=f.name), bucket='xmacro-extent')
      if isinstance(f.type, an.PointerType) and squeeze(f.type.inner_type.decl()) != squeeze(ctype):
        ck.violation('%s.%s: element type %r but the X-macro says %r' % (sname, f.name, f.type.inner_type.decl(), ctype),
                     dict(struct=sname, field=f.name), bucket='xmacro-type')
      ck.case(nontrivial=True, key='X:%s.%s' % (sname, f.name), labels=['item:xmacro-extent'])
  ck.extra['inventory']['xmacro_fields'] = nx
  if nx < 100:
    raise RuntimeError('X-macro extraction found only %d fields: harness broken' % nx)


LEVEL = 'exploration'
TECHNIQUE = ('exhaustive enumeration of the introspection metadata checked by the C compiler (generated _Static_asserts, mirror '
             'structs, re-declarations; one clang run), regex reverse inventory, and property-based round-trip testing of '
             'parse_type/decl() with compiler-checked equivalence')
LEVEL_TEXT = '''Every struct (mirror struct printed by the metadata's own decl(), size/alignment/offset of every field path,
address-type compatibility), enum constant and function (re-declaration) described in python/mujoco/introspect of the tree
is checked by one clang invocation against the tree's include/mujoco headers; a regex inventory of the headers checks that
nothing is missing and compares prototype texts (array extents decay in C); dynamic array extents are compared with the
MJMODEL_POINTERS/MJDATA_POINTERS X-macros as expanded by the preprocessor; generated C types go through
parse_type/decl() round trips, with clang confirming that both spellings declare compatible types.'''
LEVEL_NOTE = '''Trusted: clang 14 (x86-64) as the reference for layout and type compatibility; the regex inventory of the
headers (prototype per statement, `typedef enum`, `struct tag {`). Doc strings are not compared. The enumeration part is
exhaustive; the type round trip is sampled.'''
