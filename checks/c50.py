"""C50 - Visualization scene construction is bounded and faithful.

Domain : modelgen models (bodies, joints, sites, tendons, actuators, equalities, cameras, lights, mocap, planes; geoms get random
         groups and some alpha=0) x settled/random states (contacts present) x mjvOption (either "geoms only": every flag off
         except a random mjVIS_STATIC, or random flags / group masks / label / frame / bvh_depth) x perturbation selection
         x scene capacity in {0, need-3 .. need+3, random smaller ones}.
Oracle : ASan build, scn->geoms is a heap block of exactly maxgeom mjvGeom (any overrun aborts the process -> violation).
         need := ngeom obtained with a large capacity (status must be 0). For every capacity c: ngeom == min(c, need), the
         first ngeom geoms are byte-identical to the prefix of the full scene (stable order, determinism), status == 1 when
         c < need and == 0 when c > need (c == need: either, see assumptions). Geoms-only mode: the scene holds exactly the model
         geoms whose group is enabled, whose category is not masked (static bodies need mjVIS_STATIC) and whose alpha is not 0,
         in geom-id order, with objtype/objid, type, float32(geom_xpos), float32(geom_xmat) and the documented size layout.
Non-trivial : capacity within +-3 of the need, or the group mask / static flag / alpha hides some geoms.
"""
import ctypes

import numpy as np
from hypothesis import strategies as st

from vf import modelgen as mg
from vf.runner import Violation

ASAN = True

BIG = 20000


def main(ck):
  lib = ck.lib('asan')
  from vf import mj
  E = lib.enums
  NG = E.mjNGROUP
  NF = E.mjNVISFLAG
  gsize = lib.layout['mjvGeom']['size']
  gdt = lib.struct_dtype('mjvGeom')
  ck.rule = ('modelgen models with cameras/lights/sites/tendons/actuators/mocap, geoms with random groups and 12 % alpha=0; state '
             'after 0-3 steps; option mode geoms-only or random; capacities 0, need-3..need+3 and 2 random smaller; '
             'non-trivial = capacity within 3 of the need or some model geom hidden by group/static/alpha; distinct by '
             '(xml, state seed, option, capacity)')
  ck.assumptions = ['capacity == need: status may be 1 because acquireGeom is also called for elements that are later dropped '
                    '(alpha 0) - not asserted either way',
                    'scn->status is only asserted on freshly made scenes (it is never cleared by mjv_updateScene: reported as '
                    'finding C50:status-sticky)',
                    'infinite planes are re-centred under the camera: their pos is not compared']
  stats = dict(overflow_cases=0, exact_fit_status1=0, sticky=0)

  def finding(fp, msg, info):
    stats['finding:' + fp] = stats.get('finding:' + fp, 0) + 1
    ck.violation(msg, info, bucket='known:' + fp, fingerprint='C50:' + fp)

  def decorate(xml, rng):
    out = []
    parts = xml.split('<geom ')
    out.append(parts[0])
    for p in parts[1:]:
      extra = ''
      if rng.rand() < 0.6:
        extra += 'group="%d" ' % rng.randint(0, NG)
      r = rng.rand()
      if r < 0.12:
        extra += 'rgba="0.3 0.4 0.5 0" '
      elif r < 0.3:
        extra += 'rgba="0.3 0.4 0.5 0.6" '
      out.append('<geom ' + extra + p)
    x = ''.join(out)
    # every model gets a camera and a light (two decor geoms each when visualised) and a mocap body with geoms (its own weld
    # group: category DYNAMIC although it has no dofs)
    x = x.replace('</worldbody>', '<camera name="cx" pos="0.2 -0.4 0.5"/><light name="lx" pos="0 0 1.5"/><body name="mcx" '
                  'mocap="true" pos="0.35 0.3 0.4"><geom name="gmcx" type="box" size="0.04 0.05 0.06"/><body name="mcy" '
                  'pos="0 0 0.1"><geom name="gmcy" type="sphere" size="0.03"/></body></body></worldbody>', 1)
    return x

  def new_scene(m, maxgeom):
    scn = lib.new_struct('mjvScene')
    lib.mjv_defaultScene(scn)
    lib.mjv_makeScene(m, scn, maxgeom)
    return scn

  def geoms_of(scn, n):
    if n == 0:
      return np.zeros(0, dtype=gdt)
    buf = (ctypes.c_char * (n * gsize)).from_address(int(scn.geoms))
    return np.frombuffer(buf, dtype=gdt).copy()

  def raw_of(scn, n):
    if n == 0:
      return b''
    return bytes((ctypes.c_char * (n * gsize)).from_address(int(scn.geoms)))

  def model_strategy():
    return mg.models(max_bodies=5, mocap=True, sensors=False, equalities=True, actuators=False, tendons=True, cameras=True,
                     lights=True, plane=None, opt_kwargs=dict(sleep=False))

  def test(case):
    gm, sseed, oseed = case
    rng = np.random.RandomState(oseed)
    xml = decorate(gm.xml, rng)
    try:
      m = lib.model_from_xml(xml)
    except mj.MjError:
      ck.discard('compile')
      return
    ck.journal(dict(stage='state+forward+step (not the scene code)', xml=xml, state_seed=sseed, option_seed=oseed))
    d = lib.make_data(m)
    mg.apply_state(lib, m, d, sseed, vel_scale=0.3)
    lib.mj_forward(m, d)
    for _ in range(rng.randint(0, 4)):
      lib.mj_step(m, d)
    lib.mj_forward(m, d)
    if not np.all(np.isfinite(d.qpos)):
      ck.discard('diverged')
      return
    lib.warnings()
    opt = lib.new_struct('mjvOption')
    lib.mjv_defaultOption(opt)
    geomonly = rng.rand() < 0.5
    opt.flags[:] = 0
    opt.geomgroup[:] = (rng.rand(NG) < 0.6).astype(np.uint8)
    if geomonly:
      opt.flags[E.mjVIS_STATIC] = int(rng.rand() < 0.7)
      for f in ('sitegroup', 'jointgroup', 'tendongroup', 'actuatorgroup', 'flexgroup', 'skingroup'):
        getattr(opt, f)[:] = 0
      opt.label = E.mjLABEL_NONE
      opt.frame = E.mjFRAME_NONE
    else:
      opt.flags[:] = (rng.rand(NF) < 0.5).astype(np.uint8)
      opt.flags[E.mjVIS_SDFITER] = 0
      for f in ('sitegroup', 'jointgroup', 'tendongroup', 'actuatorgroup', 'flexgroup', 'skingroup'):
        getattr(opt, f)[:] = (rng.rand(NG) < 0.6).astype(np.uint8)
      opt.label = int(rng.randint(0, E.mjNLABEL))
      opt.frame = int(rng.randint(0, E.mjNFRAME))
      opt.bvh_depth = int(rng.randint(0, 4))
    pert = lib.new_struct('mjvPerturb')
    lib.mjv_defaultPerturb(pert)
    if not geomonly and rng.rand() < 0.5 and m.nbody > 1:
      pert.select = int(rng.randint(1, m.nbody))
      pert.active = int(rng.randint(0, 4))
    cam = lib.new_struct('mjvCamera')
    lib.mjv_defaultCamera(cam)
    if geomonly:
      catmask = [E.mjCAT_ALL, E.mjCAT_ALL, E.mjCAT_STATIC, E.mjCAT_DYNAMIC, E.mjCAT_DYNAMIC | E.mjCAT_DECOR][rng.randint(5)]
    else:
      catmask = E.mjCAT_ALL if rng.rand() < 0.7 else int(rng.randint(0, 8))
    info = dict(xml=xml, state_seed=sseed, option_seed=oseed, geomonly=bool(geomonly), catmask=catmask,
                flags=np.array(opt.flags).tolist(), geomgroup=np.array(opt.geomgroup).tolist())
    ck.journal(info)

    # ---- full scene
    big = new_scene(m, BIG)
    lib.mjv_updateScene(m, d, opt, pert, cam, catmask, big)
    need = int(big.ngeom)
    if need >= BIG:
      lib.mjv_freeScene(big)
      ck.discard('need>=BIG')
      return
    if int(big.status) != 0:
      raise Violation('status %d with capacity %d > need %d; %s' % (big.status, BIG, need, info), bucket='status')
    ref = raw_of(big, need)
    # determinism: same scene again, and a fresh scene
    lib.mjv_updateScene(m, d, opt, pert, cam, catmask, big)
    if int(big.ngeom) != need or raw_of(big, need) != ref:
      raise Violation('second mjv_updateScene on the same scene differs (ngeom %d vs %d); %s' % (big.ngeom, need, info),
                      bucket='determinism')
    fresh = new_scene(m, BIG)
    lib.mjv_updateScene(m, d, opt, pert, cam, catmask, fresh)
    if int(fresh.ngeom) != need or raw_of(fresh, need) != ref:
      raise Violation('mjv_updateScene on a fresh scene differs (ngeom %d vs %d); %s' % (fresh.ngeom, need, info),
                      bucket='determinism')
    lib.mjv_freeScene(fresh)
    G = geoms_of(big, need)

    # ---- faithfulness (geoms only)
    hidden = 0
    if geomonly:
      expect = []
      for g in range(m.ngeom):
        grp = min(NG - 1, max(0, int(m.geom_group[g])))
        static = int(m.body_weldid[int(m.geom_bodyid[g])]) == 0
        matid = int(m.geom_matid[g])
        alpha = float(m.geom_rgba[g][3]) if matid < 0 or tuple(m.geom_rgba[g]) != (0.5, 0.5, 0.5, 1.0) else float(m.mat_rgba[matid][3])
        cat = E.mjCAT_STATIC if static else E.mjCAT_DYNAMIC      # static <=> welded to the world; mocap subtrees are dynamic
        vis = bool(opt.geomgroup[grp]) and bool(cat & catmask) and (not static or bool(opt.flags[E.mjVIS_STATIC])) and alpha != 0
        if vis:
          expect.append(g)
        else:
          hidden += 1
      got = [int(x) for x in G['objid']]
      if got != expect or np.any(G['objtype'] != E.mjOBJ_GEOM):
        raise Violation('geoms-only scene holds objids %s (objtypes %s), expected the visible model geoms %s; %s' % (
            got, G['objtype'].tolist(), expect, info), bucket='faithful-set')
      for k, g in enumerate(expect):
        t = int(m.geom_type[g])
        s = np.array(m.geom_size[g])
        if t == E.mjGEOM_SPHERE:
          es = [s[0], s[0], s[0]]
        elif t in (E.mjGEOM_CAPSULE, E.mjGEOM_CYLINDER):
          es = [s[0], s[0], s[1]]
        else:
          es = s
        es = np.asarray(es, dtype=np.float32)
        bad = []
        if int(G['type'][k]) != t:
          bad.append('type %d != %d' % (G['type'][k], t))
        if not np.array_equal(G['size'][k], es):
          bad.append('size %s != %s' % (G['size'][k], es))
        infinite = t == E.mjGEOM_PLANE and (s[0] <= 0 or s[1] <= 0)
        if not infinite and not np.array_equal(G['pos'][k], np.asarray(d.geom_xpos[g], dtype=np.float32)):
          bad.append('pos %s != geom_xpos %s' % (G['pos'][k], d.geom_xpos[g]))
        if not np.array_equal(G['mat'][k], np.asarray(d.geom_xmat[g], dtype=np.float32)):
          bad.append('mat != geom_xmat')
        cat = E.mjCAT_STATIC if int(m.body_weldid[int(m.geom_bodyid[g])]) == 0 else E.mjCAT_DYNAMIC
        if int(G['category'][k]) != cat:
          bad.append('category %d != %d' % (G['category'][k], cat))
        if int(G['segid'][k]) != k:
          bad.append('segid %d != %d' % (G['segid'][k], k))
        if bad:
          raise Violation('scene geom %d (model geom %d): %s; %s' % (k, g, '; '.join(bad), info), bucket='faithful-geom')

    # ---- capacities
    # every capacity up to the need when that is affordable (an element made of several geoms may run out between two of
    # them at exactly one capacity), otherwise the boundary values and 12 random ones
    if need <= 120:
      caps = list(range(0, need + 4))
    else:
      caps = sorted(set([0] + [c for c in range(need - 3, need + 4) if c >= 0] +
                        [int(rng.randint(0, need + 1)) for _ in range(12)]))
    overflowed = None
    for c in caps:
      info['capacity'] = c
      ck.journal(info)
      scn = new_scene(m, c)
      lib.mjv_updateScene(m, d, opt, pert, cam, catmask, scn)
      n = int(scn.ngeom)
      stt = int(scn.status)
      if n > c:
        raise Violation('ngeom %d > capacity %d; %s' % (n, c, info), bucket='bounded')
      if n != min(c, need):
        raise Violation('capacity %d, need %d: ngeom %d != min(capacity, need); %s' % (c, need, n, info), bucket='count')
      if raw_of(scn, n) != ref[:n * gsize]:
        raise Violation('capacity %d: the %d geoms written are not the first geoms of the full scene; %s' % (c, n, info),
                        bucket='prefix')
      if c < need and stt != 1:
        raise Violation('capacity %d < need %d but status %d; %s' % (c, need, stt, info), bucket='status')
      if c > need and stt != 0:
        raise Violation('capacity %d > need %d but status %d; %s' % (c, need, stt, info), bucket='status')
      if c == need and stt == 1:
        stats['exact_fit_status1'] += 1
      warns = lib.warnings()
      if c < need:
        stats['overflow_cases'] += 1
        if not any('maxgeom' in w or 'geom buffer' in w for w in warns):
          raise Violation('capacity %d < need %d: no warning issued (%s); %s' % (c, need, warns, info), bucket='warning')
        if overflowed is None and c > 0:
          overflowed = scn
          continue
      elif c > need and warns:
        raise Violation('capacity %d > need %d but warnings %s; %s' % (c, need, warns, info), bucket='warning')
      labels = ['mode:' + ('geomonly' if geomonly else 'random'), 'cap-need=%+d' % (c - need) if abs(c - need) <= 3 else
                ('cap<need' if c < need else 'cap>need')]
      if geomonly and hidden:
        labels.append('hidden-geoms')
      ck.case(nontrivial=abs(c - need) <= 3 or (geomonly and hidden > 0), key=(xml, sseed, oseed, c),
              sample=dict(nbody=int(m.nbody), ngeom_model=int(m.ngeom), need=need, capacity=c, ngeom=n, status=stt,
                          geomonly=bool(geomonly), hidden=hidden, flags_on=int(np.sum(opt.flags))), labels=labels)
      lib.mjv_freeScene(scn)
    # ---- a scene that overflowed once: a later update that fits must produce the full content; status stays 1 (finding)
    if overflowed is not None:
      opt2 = lib.new_struct('mjvOption')
      lib.mjv_defaultOption(opt2)
      opt2.flags[:] = 0
      opt2.geomgroup[:] = 0
      for f in ('sitegroup', 'jointgroup', 'tendongroup', 'actuatorgroup', 'flexgroup', 'skingroup'):
        getattr(opt2, f)[:] = 0
      lib.mjv_updateScene(m, d, opt2, pert, cam, E.mjCAT_ALL, overflowed)
      if int(overflowed.ngeom) != 0:
        raise Violation('all groups and flags off: ngeom %d; %s' % (overflowed.ngeom, info), bucket='empty')
      if int(overflowed.status) != 0:
        stats['sticky'] += 1
        finding('status-sticky', 'mjvScene.status is set to 1 on overflow and never cleared: after an update that overflowed, a '
                'later mjv_updateScene on the same scene that needs 0 geoms (capacity %d) still reports status 1' %
                int(overflowed.maxgeom), dict(xml=xml))
      lib.mjv_freeScene(overflowed)
      lib.warnings()
    lib.mjv_freeScene(big)

  ck.run_hypothesis(test, st.tuples(model_strategy(), mg.state_seed(), st.integers(0, 2 ** 31 - 1)), ck.budget(30, 300),
                    name='scene', shrink=False)
  ck.extra['stats'] = stats


LEVEL = 'exploration'
TECHNIQUE = ('property-based testing under AddressSanitizer: generated models x states x visual options x scene capacities; '
             'metamorphic prefix relation between capacities, determinism by byte comparison, reference model of the visible geoms')
LEVEL_TEXT = '''Generated models and states, random mjvOption / perturbation / category mask, and scene capacities 0, need-3..need+3 and
random smaller values. With an ASan build the geom buffer is a heap block of exactly maxgeom elements, so any write past the
capacity kills the process (reported as violation). ngeom must equal min(capacity, need), the written geoms must be byte-identical
to the prefix of the full scene, repeated and fresh-scene updates must be byte-identical, status/warning must signal overflow
exactly when capacity < need; with only geom visualization enabled the scene must be exactly the visible model geoms in id order
with their float32 world pose, documented size layout, object ids and category. Sampled, not exhaustive.'''
LEVEL_NOTE = '''Flex, skin, SDF and plugin visualisation are not generated (modelgen excludes them); lights, camera and flex/skin buffers of
the scene are exercised but only the geom list is asserted. status at capacity == need is not asserted (acquireGeom is also called
for elements that are dropped later). status is sticky across updates of the same scene (reported as finding).'''
