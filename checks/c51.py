"""C51 - First-party plugins honour their documented laws.

Domain : (PID) generated models with 3 decoupled 1-dof trees; a mujoco.pid plugin actuator (joint or fixed-tendon
         transmission, gear, optional ctrlrange) with kp, ki, kd, imax (present/absent), slewmax (present/absent), an
         optional ordinary stateful actuator and an optional second plugin actuator (own instance or sharing the first
         instance), random actuator order; timestep, integrator (Euler/implicit/implicitfast); control sequences (steps,
         ramps, noise) over 20..200 steps.  (Cable) composite cables of 2..20 segments with random curved stress-free
         shapes (explicit vertices), initial none/ball/free, flat absent/false/true, twist/bend over 4 decades, capsule /
         cylinder / box cross-sections, optionally hanging off a jointed parent body, plus an unrelated jointed body.
Oracle : PID - Python re-implementation of plugin/actuator/README.md: u clamped to ctrlrange, slew-limited to
         +-slewmax*dt around the previous effective setpoint, e = u - length, I <- clip(I + ki*e*dt, +-imax),
         force = kp*e + I + kd*de/dt with de/dt = -actuator_velocity (u is piecewise constant), compared with
         actuator_force at every step (scaled tolerance); slice isolation: a second run in which only the first plugin
         actuator's controls differ must leave act / act_dot / actuator_force of every other actuator and the state of
         their trees bit-identical.  Cable - qfrc_passive == 0 in the stress-free configuration; force opposes a small
         deformation (dq.f < 0); dofs of unrelated trees get exactly 0 and ancestors of the cable ~0; force is linear in
         (twist, bend); flat=true equals flat=false for a straight cable; flat=true on a curved cable is NOT force free.
Non-trivial : PID sequence during which the integral clip or the slew limit is active; cable whose reference shape has
         non-zero curvature.
"""
import math

import numpy as np
from hypothesis import strategies as st

from vf import modelgen as mg
from vf.runner import Violation

EPS = np.finfo(float).eps
# scaled tolerance |f - f_ref| <= K_PID * eps * (steps so far + 8) * scale, scale = (|kp| + |ki| dt)(|u| + |length|) + |I| +
# |kd v| + max |I| so far.  The integral and slew states are carried through mjData.act with one rounding of relative
# size eps per step on either side, so the admissible drift grows linearly with the step count; the operand magnitudes
# (not the possibly cancelling error e = u - length) set the scale.  Calibration on the unchanged tree: worst observed
# ratio err / (eps * (n + 8) * scale) = 0.34 over seeds 1-3 quick and 12200 thorough cases; K = 32 is ~100x that.
# The mutants change the force by >= 1e-6 relative and stay caught.
K_PID = 32.0
FP_PID_INDEX = 'C51:pid-indexes-by-actuator-id'

num = mg.num


def fmt(x):
  return repr(float(x))


# ---------------------------------------------------------------- PID generator

@st.composite
def pid_instance(draw):
  c = dict(kp=draw(st.one_of(st.just(0.0), num(0.1, 50, 1))),
           ki=draw(st.one_of(st.just(0.0), num(0.1, 50, 1), num(0.1, 50, 1))),
           kd=draw(st.one_of(st.just(0.0), num(0.01, 5, 2))),
           imax=draw(st.one_of(st.none(), num(0.001, 0.5, 3), num(0.001, 0.05, 3))),
           slewmax=draw(st.one_of(st.none(), num(0.1, 20, 1), st.just(0.0))))
  return c


@st.composite
def pid_case(draw):
  dt = draw(st.sampled_from([0.001, 0.002, 0.005, 0.01]))
  integ = draw(st.sampled_from(['Euler', 'implicit', 'implicitfast']))
  grav = draw(st.booleans())
  joints = []
  for k in range(3):
    joints.append(dict(type=draw(st.sampled_from(['slide', 'hinge'])), damping=draw(num(0, 1, 2)),
                       axis=draw(st.sampled_from(['1 0 0', '0 1 0', '0 0 1', '1 1 0'])),
                       mass=draw(num(0.2, 3, 1))))
  inst = [draw(pid_instance())]
  acts = [dict(kind='pid', joint=0, inst=0, tendon=draw(st.booleans()), coef=draw(st.sampled_from([1.0, -2.0, 0.5])),
               gear=draw(st.sampled_from([None, 1.0, -1.5, 3.0])),
               ctrlrange=draw(st.one_of(st.none(), st.tuples(num(-1, -0.1, 1), num(0.1, 1, 1)))))]
  if draw(st.booleans()):
    acts.append(dict(kind=draw(st.sampled_from(['filter', 'integrator', 'intvelocity', 'filterexact'])), joint=1,
                     prm=draw(num(0.05, 1, 2)), gain=draw(num(0.5, 10, 1))))
  if draw(st.booleans()):
    share = draw(st.booleans())
    if not share:
      inst.append(draw(pid_instance()))
    acts.append(dict(kind='pid', joint=2, inst=0 if share else 1, tendon=False, coef=1.0,
                     gear=draw(st.sampled_from([None, 2.0])), ctrlrange=None))
  order = draw(st.permutations(list(range(len(acts)))))
  acts = [acts[i] for i in order]
  nstep = draw(st.integers(20, 200))
  seqs = [dict(kind=draw(st.sampled_from(['steps', 'ramp', 'noise', 'steps'])), amp=draw(num(0.1, 2, 1)),
               seed=draw(st.integers(0, 2 ** 31 - 1))) for _ in acts]
  alt_seed = draw(st.integers(0, 2 ** 31 - 1))
  return dict(dt=dt, integ=integ, grav=grav, joints=joints, inst=inst, acts=acts, nstep=nstep, seqs=seqs,
              alt_seed=alt_seed)


def actdim(c):
  return (1 if c['ki'] else 0) + (1 if c['slewmax'] is not None else 0)


def pid_xml(case):
  ext = ''
  for k, c in enumerate(case['inst']):
    cfg = ''.join('<config key="%s" value="%s"/>' % (key, fmt(c[key])) for key in ('kp', 'ki', 'kd', 'imax', 'slewmax')
                  if c[key] is not None)
    ext += '<instance name="pid%d">%s</instance>' % (k, cfg)
  # explicit integration of a stiff controller on a light body diverges (and the engine then auto-resets mjData): give
  # every controlled tree enough inertia that kd*g^2*dt/I, kp*g^2*dt^2/I and ki*g^2*dt^3/I stay below 1/4
  need = [0.0, 0.0, 0.0]
  for a in case['acts']:
    if a['kind'] == 'pid':
      c = case['inst'][a['inst']]
      g = (a['gear'] if a['gear'] is not None else 1.0) * (a['coef'] if a['tendon'] else 1.0)
      dt = case['dt']
      need[a['joint']] = max(need[a['joint']], 4 * g * g * max(c['kd'] * dt, c['kp'] * dt * dt, c['ki'] * dt ** 3))
  bodies = ''
  for k, j in enumerate(case['joints']):
    # hinge: point-like geom 0.3 off the axis -> inertia about the axis ~ 0.09*mass
    mass = max(j['mass'], need[k] if j['type'] == 'slide' else need[k] / 0.09)
    bodies += ('<body pos="%d 0 0"><joint name="j%d" type="%s" axis="%s" damping="%s"/><geom size="0.05" pos="%s" '
               'mass="%s" contype="0" conaffinity="0"/></body>' % (
                   k, k, j['type'], j['axis'], fmt(j['damping']),
                   '0 0 0' if j['type'] == 'slide' else ('0 0 0.3' if j['axis'] != '0 0 1' else '0.3 0 0'), fmt(mass)))
  tend = ''
  actx = ''
  for k, a in enumerate(case['acts']):
    if a['kind'] == 'pid':
      tgt = 'joint="j%d"' % a['joint']
      if a['tendon']:
        tend += '<fixed name="t%d"><joint joint="j%d" coef="%s"/></fixed>' % (k, a['joint'], fmt(a['coef']))
        tgt = 'tendon="t%d"' % k
      extra = ''
      if a['gear'] is not None:
        extra += ' gear="%s"' % fmt(a['gear'])
      if a['ctrlrange'] is not None:
        extra += ' ctrllimited="true" ctrlrange="%s %s"' % (fmt(a['ctrlrange'][0]), fmt(a['ctrlrange'][1]))
      ad = actdim(case['inst'][a['inst']])
      if ad:
        extra += ' actdim="%d"' % ad
      actx += '<plugin name="a%d" %s plugin="mujoco.pid" instance="pid%d"%s/>' % (k, tgt, a['inst'], extra)
    elif a['kind'] == 'intvelocity':
      actx += '<intvelocity name="a%d" joint="j%d" kp="%s" actrange="-1 1"/>' % (k, a['joint'], fmt(a['gain']))
    else:
      actx += ('<general name="a%d" joint="j%d" dyntype="%s" dynprm="%s" gainprm="%s" biastype="affine" '
               'biasprm="0 -1 -0.1"/>' % (k, a['joint'], a['kind'], fmt(a['prm']), fmt(a['gain'])))
  return ('<mujoco><option timestep="%s" integrator="%s" gravity="0 0 %s"/>'
          '<extension><plugin plugin="mujoco.pid">%s</plugin></extension><worldbody>%s</worldbody>%s'
          '<actuator>%s</actuator></mujoco>' % (fmt(case['dt']), case['integ'], '-9.81' if case['grav'] else '0', ext,
                                               bodies, '<tendon>%s</tendon>' % tend if tend else '', actx))


def ctrl_sequence(seq, n):
  rng = np.random.RandomState(seq['seed'])
  amp = seq['amp']
  if seq['kind'] == 'steps':
    out = np.zeros(n)
    v = rng.uniform(-amp, amp)
    for i in range(n):
      if rng.rand() < 0.08:
        v = rng.uniform(-amp, amp)
      out[i] = v
    return out
  if seq['kind'] == 'ramp':
    a, b = rng.uniform(-amp, amp, 2)
    return np.linspace(a, b, n)
  return rng.uniform(-amp, amp, n)


# ---------------------------------------------------------------- PID reference (from the README)

class PidRef:
  """State = set of candidate (I, prev_u) pairs (the README leaves the very first slew step open: there is no
  'previous timestep' yet; both readings are admitted and the one contradicted by the observed force is dropped)."""

  def __init__(self, cfg, ctrlrange, dt):
    self.c = cfg
    self.range = ctrlrange
    self.dt = dt
    self.cands = [(0.0, None)]
    self.nstep = 0
    self.imax_seen = 0.0
    self.clip_active = False
    self.slew_active = False

  def predictions(self, ctrl, length, vel):
    c, dt = self.c, self.dt
    u0 = ctrl
    if self.range is not None:
      u0 = min(max(u0, self.range[0]), self.range[1])
    out = []
    for (I, prev) in self.cands:
      us = [u0]
      if c['slewmax'] is not None:
        lo_hi = (0.0 if prev is None else prev)
        lim = min(max(u0, lo_hi - c['slewmax'] * dt), lo_hi + c['slewmax'] * dt)
        us = [u0, lim] if prev is None else [lim]
      for u in us:
        e = u - length
        Inew = I
        clipped = False
        if c['ki']:
          Inew = I + c['ki'] * e * dt
          if c['imax'] is not None and abs(Inew) > c['imax']:
            Inew = math.copysign(c['imax'], Inew)
            clipped = True
        f = c['kp'] * e + Inew + c['kd'] * (-vel)
        # magnitude of the operands (not of the possibly cancelling results): u carries the rounding of the slew state
        # that is integrated through mjData.act, so e = u - length is only accurate to eps*(|u|+|length|)
        mag = abs(u) + abs(length)
        scale = (abs(c['kp']) + abs(c['ki']) * dt) * mag + abs(Inew) + abs(c['kd'] * vel) + self.imax_seen
        out.append(dict(f=f, I=Inew, u=u, scale=scale, clipped=clipped, slewed=(u != u0)))
    return out

  def step(self, ctrl, length, vel, observed):
    preds = self.predictions(ctrl, length, vel)
    keep = []
    worst = None
    for p in preds:
      tol = K_PID * EPS * (self.nstep + 8) * max(p['scale'], 1e-30)
      err = abs(observed - p['f'])
      ratio = err / (EPS * (self.nstep + 8) * max(p['scale'], 1e-30))
      if worst is None or ratio < worst[0]:
        worst = (ratio, p, err, tol)
      if err <= tol:
        keep.append(p)
    if not keep:
      return worst
    self.cands = list({(p['I'], p['u']) for p in keep})
    self.clip_active |= any(p['clipped'] for p in keep)
    self.slew_active |= any(p['slewed'] for p in keep)
    self.imax_seen = max(self.imax_seen, max(abs(p['I']) for p in keep))
    self.nstep += 1
    self.ratio = worst[0]
    return None


def bits(a):
  return np.ascontiguousarray(a, dtype=np.float64).view(np.uint64).copy()


# ---------------------------------------------------------------- cable generator

@st.composite
def cable_case(draw):
  nseg = draw(st.integers(3, 20))   # a 2-segment composite cable does not compile in this tree (exclude names a missing body B_1)
  shape = draw(st.sampled_from(['straight', 'curved', 'curved', 'planar']))
  return dict(nseg=nseg, shape=shape, seed=draw(st.integers(0, 2 ** 31 - 1)), seglen=draw(num(0.02, 0.1, 2)),
              turn=draw(num(0.05, 0.6, 2)), initial=draw(st.sampled_from(['none', 'ball', 'free'])),
              flat=draw(st.sampled_from([None, 'false', 'true'])), twist=10.0 ** draw(st.integers(4, 8)) * draw(num(1, 9, 1)),
              bend=10.0 ** draw(st.integers(4, 8)) * draw(num(1, 9, 1)),
              geom=draw(st.sampled_from(['capsule', 'cylinder', 'box'])), radius=draw(num(0.002, 0.02, 3)),
              box=(draw(num(0.002, 0.02, 3)), draw(num(0.002, 0.02, 3))), parent=draw(st.booleans()),
              dqseed=draw(st.integers(0, 2 ** 31 - 1)), dqscale=10.0 ** draw(st.integers(-5, -3)))


def cable_vertices(case):
  rng = np.random.RandomState(case['seed'])
  pts = [np.zeros(3)]
  d = np.array([1.0, 0, 0])
  for k in range(case['nseg']):
    if case['shape'] == 'curved':
      d = d + rng.normal(size=3) * case['turn']
    elif case['shape'] == 'planar':
      d = d + np.array([0, 1.0, 0]) * rng.normal() * case['turn']
    d = d / np.linalg.norm(d)
    pts.append(pts[-1] + case['seglen'] * d)
  return np.round(np.array(pts), 6)


def cable_xml(case, flat='case', scale=1.0):
  v = ' '.join(fmt(x) for p in cable_vertices(case) for x in p)
  flat = case['flat'] if flat == 'case' else flat
  cfg = '<config key="twist" value="%s"/><config key="bend" value="%s"/>' % (fmt(case['twist'] * scale),
                                                                          fmt(case['bend'] * scale))
  if flat is not None:
    cfg += '<config key="flat" value="%s"/>' % flat
  if case['geom'] == 'box':
    geom = '<geom type="box" size="%s %s %s"/>' % (fmt(case['seglen'] / 2), fmt(case['box'][0]), fmt(case['box'][1]))
  else:
    geom = '<geom type="%s" size="%s"/>' % (case['geom'], fmt(case['radius']))
  initial = case['initial'] if not (case['parent'] and case['initial'] == 'free') else 'ball'
  comp = ('<composite type="cable" initial="%s" vertex="%s"><plugin plugin="mujoco.elasticity.cable">%s</plugin>'
          '<joint kind="main" damping="0.01"/>%s</composite>' % (initial, v, cfg, geom))
  if case['parent']:
    comp = ('<body name="par" pos="0 0 1" euler="10 20 30"><joint name="jp" type="hinge" axis="0 1 0"/>'
            '<geom size=".05" contype="0" conaffinity="0"/>%s</body>' % comp)
  return ('<mujoco><option><flag contact="disable"/></option><extension><plugin plugin="mujoco.elasticity.cable"/>'
          '</extension><worldbody>%s<body name="other" pos="2 0 0"><joint name="jo" type="ball"/><geom size=".05"/>'
          '</body></worldbody></mujoco>' % comp)


# ---------------------------------------------------------------- main

def main(ck):
  lib = ck.lib('rel')
  from vf import mj
  import ctypes as C
  slot = C.c_int(-1)
  for name in ('mujoco.pid', 'mujoco.elasticity.cable'):
    if not lib.mjp_getPlugin(name, C.addressof(slot)):
      raise RuntimeError('plugin %s is not registered in the verification library' % name)
  ck.rule = ('PID: generated gains/limits/transmissions/control sequences, every step compared with the README law; '
             'non-trivial = integral clip or slew limit active during the sequence. Cable: generated stress-free '
             'shapes; non-trivial = reference shape has non-zero curvature. distinct by generated case')
  ck.assumptions = [
      'discretisation left open by the README and fixed here (calibrated on the unchanged tree): the I term used for '
      'the force already contains the current sample (I_n = clip(I_(n-1) + ki*e_n*dt)); de/dt = -actuator_velocity '
      '(the control is constant within a step); the first step after reset may or may not be slew-limited',
      'integrators Euler / implicit / implicitfast (RK4 sub-steps are outside the README law); plugin actuators use '
      'dyntype none and no forcerange; ki >= 0, imax >= 0, slewmax >= 0',
      'slice isolation is judged on trees that are dynamically decoupled from the plugin actuator',
      'cable forces are judged at qvel = 0 (joint damping silent); cables are inextensible chains of ball joints']
  stats = ck.extra.setdefault('calibration', {})
  obs = ck.extra.setdefault('observations', {})

  def note(k):
    obs[k] = obs.get(k, 0) + 1

  # ------------------------------------------------------------ PID
  def run_pid(case, m, ctrls, refs=None):
    """Run the sequence; if refs is given compare plugin forces with the README law.  Returns a per-step trace."""
    d = lib.make_data(m)
    nact = len(case['acts'])
    trace = []
    for t in range(case['nstep']):
      for k in range(nact):
        d.ctrl[k] = ctrls[k][t]
      lib.mj_forward(m, d)
      if refs is not None:
        for k, ref in refs.items():
          bad = ref.step(float(d.ctrl[k]), float(d.actuator_length[k]), float(d.actuator_velocity[k]),
                         float(d.actuator_force[k]))
          if bad is not None:
            ratio, p, err, tol = bad
            raise Violation('PID actuator a%d step %d: actuator_force=%.17g, README law gives %.17g (|diff|=%.3g, tol=%.3g)'
                            '; cfg=%r ctrl=%.17g length=%.17g velocity=%.17g dt=%g' % (
                                k, t, d.actuator_force[k], p['f'], err, tol, ref.c, d.ctrl[k], d.actuator_length[k],
                                d.actuator_velocity[k], case['dt']), bucket='pid-law')
          stats['pid_worst_ratio'] = max(stats.get('pid_worst_ratio', 0.0), ref.ratio)
      trace.append((bits(d.actuator_force), bits(d.act), bits(d.act_dot), bits(d.qpos), bits(d.qvel)))
      lib.mj_step(m, d)
      if lib.warnings() or not abs(d.time - (t + 1) * case['dt']) < 1e-9:
        return None            # diverged / auto-reset: the discrete law no longer describes the run
    trace.append((bits(d.actuator_force), bits(d.act), bits(d.act_dot), bits(d.qpos), bits(d.qvel)))
    return trace

  def test_pid(case):
    xml = pid_xml(case)
    m = lib.model_from_xml(xml)
    nact = len(case['acts'])
    if m.nu != nact or m.na != sum(actdim(case['inst'][a['inst']]) if a['kind'] == 'pid' else 1 for a in case['acts']):
      raise Violation('unexpected sizes nu=%d na=%d for %s' % (m.nu, m.na, xml), bucket='pid-sizes')
    ctrls = [ctrl_sequence(case['seqs'][k], case['nstep']) for k in range(nact)]
    refs = {}
    for k, a in enumerate(case['acts']):
      if a['kind'] == 'pid':
        refs[k] = PidRef(case['inst'][a['inst']], a['ctrlrange'], case['dt'])
    tr = run_pid(case, m, ctrls, refs)
    if tr is None:
      ck.discard('pid:diverged')
      return
    # slice isolation: change only the controls of the first plugin actuator
    first = min(refs)
    alt = list(ctrls)
    alt[first] = ctrl_sequence(dict(case['seqs'][first], seed=case['alt_seed'], kind='noise'), case['nstep'])
    tr2 = run_pid(case, m, alt)
    if tr2 is None:
      ck.discard('pid:diverged')
      return
    own_changed = False
    jfirst = case['acts'][first]['joint']
    for t in range(len(tr)):
      fa, aa, da, qa, va = tr[t]
      fb, ab, db, qb, vb = tr2[t]
      for k, a in enumerate(case['acts']):
        adr, n = int(m.actuator_actadr[k]), int(m.actuator_actnum[k])
        sl = slice(adr, adr + n) if n else slice(0, 0)
        if k == first:
          own_changed |= fa[k] != fb[k]
          continue
        if fa[k] != fb[k] or not np.array_equal(aa[sl], ab[sl]) or not np.array_equal(da[sl], db[sl]):
          raise Violation('slice isolation: changing only ctrl of plugin actuator a%d changed force/act/act_dot of '
                          'actuator a%d (%s) at step %d' % (first, k, a['kind'], t), bucket='pid-slices')
      for j in range(3):
        if j != jfirst and (qa[j] != qb[j] or va[j] != vb[j]):
          raise Violation('slice isolation: state of decoupled joint j%d changed at step %d' % (j, t),
                          bucket='pid-slices')
    cfg0 = case['inst'][case['acts'][first]['inst']]
    clip = any(r.clip_active for r in refs.values())
    slew = any(r.slew_active for r in refs.values())
    labels = ['pid', 'integrator:' + case['integ']]
    labels += ['pid:clip-active'] if clip else []
    labels += ['pid:slew-active'] if slew else []
    labels += ['pid:ki>0'] if cfg0['ki'] else []
    labels += ['pid:tendon'] if case['acts'][first]['tendon'] else []
    labels += ['pid:ctrlrange'] if case['acts'][first]['ctrlrange'] else []
    labels += ['pid:with-stateful-builtin'] if any(a['kind'] != 'pid' for a in case['acts']) else []
    npid = sum(a['kind'] == 'pid' for a in case['acts'])
    if npid == 2:
      labels.append('pid:two-actuators-' + ('shared-instance' if len(case['inst']) == 1 else 'two-instances'))
    labels += ['pid:own-force-responds'] if own_changed else []
    # README statement about the act slot: "containing the current I term (in units of force)"
    if cfg0['ki'] and cfg0['ki'] != 1.0:
      I = next(iter(refs[first].cands))[0]
      a0 = float(np.frombuffer(tr[-1][1].tobytes(), dtype=np.float64)[int(m.actuator_actadr[first])])
      if abs(I) > 1e-9:
        if abs(a0 - I) <= 1e-6 * abs(I):
          note('act slot holds the I term in units of force (as the README says)')
        elif abs(a0 * cfg0['ki'] - I) <= 1e-6 * abs(I):
          note('act slot holds the error integral (I term / ki), README says "in units of force"')
    ck.case(nontrivial=clip or slew, key=xml + repr(case['seqs']) + str(case['nstep']),
            sample=dict(xml=xml, nstep=case['nstep'], seqs=case['seqs'], clip_active=clip, slew_active=slew), labels=labels)

  ck.run_hypothesis(test_pid, pid_case(), ck.budget(400, 6000), name='pid')

  # ------------------------------------------------------------ PID next to a multi-output actuator
  # mjModel.nu counts scalar controls, nactuator counts actuators; force / control slots of actuator i are
  # actuator_outadr[i] / actuator_ctrladr[i] (mjmodel.h).  An <orientation> servo has 3 controls and 3 outputs.
  def multiout(case):
    first, kp, c_pid, c_ori, okp = case
    A = {'o': '<orientation name="ori" joint="jb" kp="%s" kv="1"/>' % fmt(okp),
         'p': '<plugin name="pid" joint="js" plugin="mujoco.pid" instance="pid"/>'}
    xml = ('<mujoco><option gravity="0 0 0"/><extension><plugin plugin="mujoco.pid"><instance name="pid">'
           '<config key="kp" value="%s"/></instance></plugin></extension><worldbody><body><joint name="jb" type="ball"/>'
           '<geom size=".1" contype="0" conaffinity="0"/></body><body pos="1 0 0"><joint name="js" type="slide"/>'
           '<geom size=".1" contype="0" conaffinity="0"/></body></worldbody><actuator>%s</actuator></mujoco>' % (
               fmt(kp), A[first] + A['p' if first == 'o' else 'o']))
    m = lib.model_from_xml(xml)
    d = lib.make_data(m)
    ip = 1 if first == 'o' else 0
    io = 1 - ip
    ca, oa = int(m.actuator_ctrladr[ip]), int(m.actuator_outadr[ip])
    co, oo = int(m.actuator_ctrladr[io]), int(m.actuator_outadr[io])
    d.ctrl[ca] = c_pid
    d.ctrl[co:co + 3] = c_ori
    lib.mj_forward(m, d)
    f = d.actuator_force.copy()
    want_pid = kp * c_pid                       # length = 0 at qpos0
    want_ori = okp * np.array(c_ori)            # kp * log(q^-1 q_target) with q = identity, omega = 0
    ok = abs(f[oa] - want_pid) <= 1e-12 * (1 + abs(want_pid)) and np.all(np.abs(f[oo:oo + 3] - want_ori) <= 1e-9 * (
        1 + np.abs(want_ori)))
    ck.label('multiout:' + ('orientation-first' if first == 'o' else 'pid-first') + (':ok' if ok else ':MISMATCH'))
    ck.evaluations += 1
    if not ok:
      msg = ('mujoco.pid next to a 3-output <orientation> actuator: actuator_force=%s, expected pid slot %d = %.6g and '
             'orientation slots %d..%d = %s (plugin indexes ctrl/length/force by actuator id and loops to m->nu)' % (
                 f.tolist(), oa, want_pid, oo, oo + 2, want_ori.tolist()))
      rep = dict(xml=xml, ctrl=d.ctrl.tolist(), actuator_force=f.tolist())
      ck.violation(msg, rep, bucket='pid-multiout', fingerprint=FP_PID_INDEX)

  ck.run_hypothesis(multiout, st.tuples(st.sampled_from(['o', 'p']), num(1, 20, 1), num(-1, 1, 2),
                                        st.tuples(num(-0.5, 0.5, 2), num(0.05, 0.5, 2), num(-0.5, 0.5, 2)), num(1, 9, 1)),
                    ck.budget(20, 200), name='pid-multiout', shrink=False)

  # ------------------------------------------------------------ cable
  def cable_forces(case, flat='case', scale=1.0, dq=None):
    m = lib.model_from_xml(cable_xml(case, flat, scale))
    d = lib.make_data(m)
    if dq is not None:
      q = d.qpos.copy()
      lib.mj_integratePos(m, q, dq, 1.0)
      d.qpos[:] = q
    lib.mj_forward(m, d)
    return m, d.qfrc_passive.copy()

  def test_cable(case):
    m, f0 = cable_forces(case)
    nv = m.nv
    # dof classes
    cable_dof = np.array([m.body_plugin[m.dof_bodyid[i]] >= 0 for i in range(nv)])
    other = m.body_dofadr[lib.mj_name2id(m, lib.enums.mjOBJ_BODY, 'other')]
    other_dof = np.zeros(nv, bool)
    other_dof[other:other + 3] = True
    anc_dof = ~cable_dof & ~other_dof
    nseg = int(cable_dof.sum() // 3)
    if int(np.sum(m.body_plugin >= 0)) != case['nseg']:
      raise Violation('cable has %d plugin bodies, expected %d' % (int(np.sum(m.body_plugin >= 0)), case['nseg']),
                      bucket='cable-structure')
    verts = cable_vertices(case)
    seg = np.diff(verts, axis=0)
    seg /= np.linalg.norm(seg, axis=1, keepdims=True)
    curvature = float(np.max(np.linalg.norm(np.cross(seg[:-1], seg[1:]), axis=1))) if len(seg) > 1 else 0.0
    curved = curvature > 1e-3
    flat = case['flat'] == 'true'
    fscale = max(case['twist'], case['bend']) * max(case['radius'], max(case['box'])) ** 4 / case['seglen']
    labels = ['cable', 'cable:%s' % case['initial'], 'cable:geom-%s' % case['geom'], 'cable:flat=%s' % case['flat']]
    labels += ['cable:curved-reference'] if curved else ['cable:straight-reference']
    labels += ['cable:parent'] if case['parent'] else []
    # (a) stress-free configuration
    if not flat or not curved:
      worst = float(np.max(np.abs(f0))) if nv else 0.0
      stats['cable_rest_worst_rel'] = max(stats.get('cable_rest_worst_rel', 0.0), worst / fscale)
      # the force is stiffness * (curvature - reference curvature): both are evaluated from the same quaternions, a
      # residual of a few ulp of the curvature (<= 1e-12 relative to the force a unit curvature change would give)
      if worst > 1e-12 * fscale:             # observed on the unchanged tree: exactly 0 in all cases
        raise Violation('cable not force-free in its stress-free configuration: max |qfrc_passive| = %.3g (scale %.3g)' % (
            worst, fscale), bucket='cable-rest')
    else:
      if not np.any(np.abs(f0[cable_dof]) > 1e-9 * fscale * curvature):
        raise Violation('flat="true" on a curved cable produces no straightening force', bucket='cable-flat')
      labels.append('cable:flat-curved-nonzero')
    # (c) only the cable's dofs receive force; ancestors get equal and opposite torques
    if np.any(f0[other_dof] != 0):
      raise Violation('unrelated tree received passive force %s' % f0[other_dof], bucket='cable-locality')
    # (b) restoring force for a small deformation of the inter-segment joints
    rng = np.random.RandomState(case['dqseed'])
    dq = np.zeros(nv)
    inner = np.flatnonzero(cable_dof)
    if case['initial'] != 'none' or case['parent']:
      pass
    first_body = int(np.flatnonzero(m.body_plugin >= 0)[0])
    inner = np.array([i for i in inner if m.dof_bodyid[i] != first_body], dtype=int)   # first body: rigid motion only
    if len(inner):
      dq[inner] = rng.normal(size=len(inner)) * case['dqscale']
      m1, f1 = cable_forces(case, dq=dq)
      work = float(dq @ (f1 - f0))
      if not work < 0:
        raise Violation('elastic force does not oppose a small deformation: dq.(f1-f0) = %.3g' % work,
                        bucket='cable-restoring')
      if np.any(f1[other_dof] != 0):
        raise Violation('unrelated tree received passive force after deformation', bucket='cable-locality')
      if anc_dof.any():
        # internal torques cancel on every ancestor (Newton's third law): rounding-level residual only
        a = float(np.max(np.abs(f1[anc_dof])))
        stats['cable_ancestor_worst_rel'] = max(stats.get('cable_ancestor_worst_rel', 0.0), a / (np.max(np.abs(f1)) + 1e-300))
        if a > 1e-12 * np.max(np.abs(f1)):       # worst observed on the unchanged tree: 6.4e-15 (thorough)
          raise Violation('ancestor dofs receive net torque %.3g from internal cable stresses (max cable torque %.3g)' % (
              a, np.max(np.abs(f1))), bucket='cable-locality')
      # (d) linear in the stiffness parameters [Pa]
      m2, f2 = cable_forces(case, scale=2.0, dq=dq)
      if np.max(np.abs(f2 - 2 * f1)) > 1e-9 * np.max(np.abs(f2)):
        raise Violation('force is not linear in (twist, bend): max |f(2k) - 2 f(k)| = %.3g of %.3g' % (
            np.max(np.abs(f2 - 2 * f1)), np.max(np.abs(f2))), bucket='cable-linear')
      # (e) for a straight cable the reference is straight whether or not flat is set
      if not curved:
        m3, f3 = cable_forces(case, flat='true' if case['flat'] != 'true' else 'false', dq=dq)
        if np.max(np.abs(f3 - f1)) > 1e-9 * np.max(np.abs(f1)):
          raise Violation('straight cable: flat=true and flat=false give different forces', bucket='cable-flat')
    ck.case(nontrivial=curved, key=repr(sorted(case.items())), sample=dict(case, curvature=curvature), labels=labels)

  ck.run_hypothesis(test_cable, cable_case(), ck.budget(400, 6000), name='cable')



def replay(ck, body):
  """./verif <ID> --replay <violation file>: run exactly the recorded case through the same test function."""
  from vf import mj
  rec = body.get('case') or {}
  if 'case' not in rec or 'check' not in rec:
    raise NotImplementedError('replay file carries no generated case (bucket %s)' % body.get('bucket'))

  def run_one(test, strategy, max_examples, name='main', **kw):
    if name != rec['check']:
      return True
    try:
      test(rec['case'])
      return True
    except (Violation, AssertionError, mj.MjError) as e:
      ck.violation('%s: %s' % (type(e).__name__, e), rec, bucket=getattr(e, 'bucket', None) or name)
      return False
  ck.run_hypothesis = run_one
  main(ck)


LEVEL = 'exploration'
TECHNIQUE = ('property-based testing: generated PID configurations and control sequences against a Python re-implementation '
             'of the README law plus a differential slice-isolation run; generated cables against invariants (force-free '
             'rest shape, restoring force, locality) and metamorphic relations (linearity in stiffness, flat vs non-flat)')
LEVEL_TEXT = '''Generated PID plugin actuators (gains, integral clamp, slew limit, joint/tendon transmission, control ranges,
a builtin stateful actuator and a second plugin actuator next to them) are stepped through generated control sequences; at
every step actuator_force is compared with a Python re-implementation of the README law, and a second run with different controls
for one plugin actuator must leave every other actuator's force/state slice bit-identical. Generated cables (2-20 segments,
curved stress-free shapes) must be force-free at rest, produce a restoring force for small deformations, put no force on
unrelated trees, scale linearly with twist/bend and treat flat as documented.'''
LEVEL_NOTE = '''Sampled, not exhaustive. Discretisation details the README leaves open (whether the I term includes the current
sample, the error rate, the very first slew step) are fixed by calibration on the unchanged tree and listed as assumptions.
Not covered: RK4, plugin actuators with dyntype filter/integrator or actearly, forcerange, the cable's stress visualisation
(vmax), absolute cable stiffness values (only zero / sign / linearity / locality are checked). The sub-run "pid-multiout"
(plugin next to a 3-output orientation actuator) fails on the unchanged tree: pid.cc indexes by actuator id and loops to m->nu;
it is reported through ck.violation with fingerprint C51:pid-indexes-by-actuator-id (KNOWN-FINDING while listed); the main PID
stream contains single-output actuators only, so that this defect does not stop the search.
Trusted: ctypes binding, the verification build (plugins are compiled into the library and self-register).'''
