// C02 native runner: load scene, step single-threaded and with a pool from the same state, compare a hash of all
// mjData arrays. Built with -fsanitize=thread so that unsynchronised accesses inside the engine are reported.
#include <mujoco/mujoco.h>
#include <mujoco/mjxmacro.h>

#include <cstdint>
#include <cstdio>
#include <cstdlib>
#include <cstring>

#include "engine/engine_thread.h"

static uint64_t Hash(const void* p, size_t n, uint64_t h) {
  const unsigned char* b = static_cast<const unsigned char*>(p);
  for (size_t i = 0; i < n; i++) { h ^= b[i]; h *= 1099511628211ULL; }
  return h;
}
static uint64_t HashData(const mjModel* m, const mjData* d) {
  uint64_t h = 1469598103934665603ULL;
  h = Hash(d->qpos, sizeof(mjtNum) * m->nq, h); h = Hash(d->qvel, sizeof(mjtNum) * m->nv, h);
  h = Hash(d->qacc, sizeof(mjtNum) * m->nv, h); h = Hash(d->qfrc_constraint, sizeof(mjtNum) * m->nv, h);
  h = Hash(d->sensordata, sizeof(mjtNum) * m->nsensordata, h);
  h = Hash(&d->ncon, sizeof(int), h); h = Hash(&d->nefc, sizeof(int), h); h = Hash(&d->nisland, sizeof(int), h);
  h = Hash(d->efc_force, sizeof(mjtNum) * d->nefc, h);
  for (int i = 0; i < d->ncon; i++) { h = Hash(&d->contact[i].dist, sizeof(mjtNum), h); h = Hash(d->contact[i].pos, 3 * sizeof(mjtNum), h); h = Hash(d->contact[i].geom, 2 * sizeof(int), h); }
  return h;
}

int main(int argc, char** argv) {
  if (argc < 4) return 2;
  char err[1000] = "";
  mjModel* m = mj_loadXML(argv[1], nullptr, err, sizeof err);
  if (!m) { fprintf(stderr, "load error: %s\n", err); return 3; }
  int nthread = atoi(argv[2]), nsteps = atoi(argv[3]);
  mjData* a = mj_makeData(m);
  for (int i = 0; i < m->nv; i++) a->qvel[i] = 0.3 * ((i * 7919) % 13 - 6) / 6.0;
  for (int i = 0; i < 10; i++) mj_step(m, a);
  mjData* b = mj_copyData(nullptr, m, a);
  mju_threadpool(b, nthread);
  int bad = 0;
  for (int i = 0; i < nsteps; i++) {
    mj_step(m, a); mj_step(m, b);
    if (HashData(m, a) != HashData(m, b)) { printf("HASHDIFF step %d\n", i); bad = 1; break; }
  }
  mj_forward(m, b); mj_inverse(m, b);
  mju_threadpool(b, 0);
  printf("done nisland=%d ncon=%d bad=%d\n", a->nisland, a->ncon, bad);
  mj_deleteData(a); mj_deleteData(b); mj_deleteModel(m);
  return 0;
}
