// C03 driver: runs histories of create/resize/dispatch/destroy on the UNMODIFIED engine_thread.cc (compiled with the
// controlled-scheduler prelude) under generated or exhaustively enumerated schedules.
// stdin lines:  R <ops> <hexchoices>      one run with the given choice bytes
//               R <ops> <hexchoices|-> <tailseed> <pswitch>   explicit choices, then PRNG tail (switch prob pswitch/256)
//               E <ops> <maxpreempt> <maxruns>   depth-first enumeration of all schedules with <= maxpreempt preemptions
// ops: comma separated: cN (mju_threadpool(d,N)), dN (mju_dispatch of N tasks), x (mju_threadpool(d,0))
// stdout: one JSON line per input line.
#include <mujoco/mujoco.h>

#include <cstdio>
#include <cstdlib>
#include <cstring>
#include <string>
#include <vector>

#include "engine/engine_thread.h"
#include "vf_sched.h"

static int g_mark = 0, g_free = 0;
extern "C" {
void mj_markStack(mjData*) { g_mark++; }
void mj_freeStack(mjData*) { g_free++; }
}

struct Ev { int dispatch, task, thread, kind; };   // kind 0 start, 1 end
static std::vector<Ev> g_log;
static int g_cur = -1;          // dispatch in progress, -1 if none
static bool g_late = false;
static int g_badthread = 0;
static int g_nthread = 0;
static int g_idclash = 0;
static int g_owner[64];

static void Task(const mjModel*, mjData*, void*, int thread_id, int task_id) {
  vf_sched_point(VF_YIELD, nullptr);
  if (g_cur < 0) g_late = true;
  if (thread_id < 0 || thread_id > g_nthread) g_badthread++;
  // a thread id belongs to exactly one OS thread of the pool: id 0 is the dispatching thread, ids 1..n the workers
  {
    int self = vf_sched_self();
    if ((thread_id == 0) != (self == 0)) g_idclash++;
    if (thread_id >= 0 && thread_id < 64) {
      if (g_owner[thread_id] < 0) g_owner[thread_id] = self;
      else if (g_owner[thread_id] != self) g_idclash++;
    }
  }
  g_log.push_back({g_cur, task_id, thread_id, 0});
  int d = g_cur;
  vf_sched_point(VF_YIELD, nullptr);
  if (g_cur != d) g_late = true;     // still running after its dispatch returned
  g_log.push_back({d, task_id, thread_id, 1});
}

struct Result { std::string violation; long points = 0, preempt = 0; int ndec = 0; int maxworkers_used = 0; int ntask2 = 0; };

static std::vector<std::string> split(const std::string& s, char c) {
  std::vector<std::string> out; std::string cur;
  for (char ch : s) { if (ch == c) { out.push_back(cur); cur.clear(); } else cur += ch; }
  out.push_back(cur); return out;
}

static Result RunOnce(const std::vector<std::string>& ops, const std::vector<unsigned char>& ch, std::vector<VfDecision>* trace,
                      long tail_seed = -1, int pswitch = 0) {
  Result r;
  mjData* d = static_cast<mjData*>(calloc(1, sizeof(mjData)));
  g_log.clear(); g_cur = -1; g_late = false; g_badthread = 0; g_nthread = 0; g_mark = g_free = 0; g_idclash = 0;
  for (int i = 0; i < 64; i++) g_owner[i] = -1;
  vf_sched_begin(ch.data(), (int)ch.size());
  if (tail_seed >= 0) vf_sched_random_tail((unsigned long long)tail_seed, pswitch);
  int ndisp = 0;
  for (const std::string& op : ops) {
    if (op.empty()) continue;
    if (op[0] == 'c' || op[0] == 'x') {
      int n = op[0] == 'x' ? 0 : atoi(op.c_str() + 1);
      mju_threadpool(d, n);
      g_nthread = n;
      for (int i = 0; i < 64; i++) g_owner[i] = -1;   // a new pool has new worker threads
      int want = n >= 1 ? n + 1 : 1;
      if (mju_numThread(d) != want) { r.violation = "mju_numThread != pool size + 1"; break; }
    } else if (op[0] == 'd') {
      int ntask = atoi(op.c_str() + 1);
      size_t before = g_log.size();
      g_cur = ndisp;
      mju_dispatch(nullptr, d, Task, nullptr, ntask);
      g_cur = -1;
      // every task exactly once, started and ended, before the call returned
      std::vector<int> started(ntask, 0), ended(ntask, 0);
      std::vector<char> threads_seen(64, 0);
      for (size_t i = before; i < g_log.size(); i++) {
        const Ev& e = g_log[i];
        if (e.dispatch != ndisp || e.task < 0 || e.task >= ntask) { r.violation = "task id outside 0..n-1 or from another dispatch"; break; }
        (e.kind ? ended : started)[e.task]++;
        if (e.thread >= 0 && e.thread < 64) threads_seen[e.thread] = 1;
      }
      if (r.violation.empty())
        for (int t = 0; t < ntask; t++) {
          if (started[t] != 1) { r.violation = started[t] == 0 ? "task lost (never invoked)" : "task duplicated"; break; }
          if (ended[t] != 1) { r.violation = "dispatch returned before a task finished"; break; }
        }
      int used = 0; for (int t = 1; t < 64; t++) used += threads_seen[t];
      if (used > r.maxworkers_used) r.maxworkers_used = used;
      if (ntask >= 2 && g_nthread >= 1) r.ntask2++;
      if (d->threadlock) r.violation = "threadlock left set after dispatch";
      if (g_mark != g_free) r.violation = "mj_markStack/mj_freeStack unbalanced after dispatch";
      ndisp++;
      if (!r.violation.empty()) break;
    }
    if (g_late) { r.violation = "task function ran outside its dispatch (after mju_dispatch returned)"; break; }
    if (g_badthread) { r.violation = "thread id outside [0, pool size]"; break; }
    if (g_idclash) { r.violation = "thread id shared by two threads (or id 0 not the dispatching thread)"; break; }
  }
  if (r.violation.empty()) {
    mju_threadpool(d, 0);            // destroy joins every worker
    if (g_late) r.violation = "task function ran outside its dispatch";
  }
  if (!r.violation.empty()) {
    // cannot safely tear down a pool in an unknown state: report and exit the process
    printf("{\"violation\":\"%s\",\"points\":%ld}\n", r.violation.c_str(), vf_sched_points());
    fflush(stdout);
    _Exit(5);
  }
  vf_sched_end();
  r.points = vf_sched_points(); r.preempt = vf_sched_preemptions();
  if (trace) { trace->resize(4096); int n = vf_sched_trace(trace->data(), 4096); trace->resize(n < 4096 ? n : 4096); r.ndec = n; }
  free(d);
  return r;
}

int main() {
  char* line = nullptr; size_t cap = 0;
  while (getline(&line, &cap, stdin) > 0) {
    std::string s(line);
    while (!s.empty() && (s.back() == '\n' || s.back() == '\r')) s.pop_back();
    auto f = split(s, ' ');
    if (f.size() < 2) continue;
    auto ops = split(f[1], ',');
    if (f[0] == "R") {
      std::vector<unsigned char> ch;
      if (f.size() > 2 && f[2] != "-") for (size_t i = 0; i + 1 < f[2].size(); i += 2) ch.push_back((unsigned char)strtol(f[2].substr(i, 2).c_str(), nullptr, 16));
      std::vector<VfDecision> tr;
      long tseed = f.size() > 3 ? atol(f[3].c_str()) : -1;
      int psw = f.size() > 4 ? atoi(f[4].c_str()) : 0;
      Result r = RunOnce(ops, ch, &tr, tseed, psw);
      printf("{\"ok\":1,\"points\":%ld,\"preempt\":%ld,\"decisions\":%d,\"workers_used\":%d,\"par_dispatches\":%d}\n", r.points, r.preempt, r.ndec, r.maxworkers_used, r.ntask2);
      fflush(stdout);
    } else if (f[0] == "E") {
      int maxpre = f.size() > 2 ? atoi(f[2].c_str()) : 1;
      long maxruns = f.size() > 3 ? atol(f[3].c_str()) : 100000;
      std::vector<unsigned char> prefix;
      long runs = 0, points = 0; bool complete = false; long maxdec = 0, withpre = 0;
      while (runs < maxruns) {
        std::vector<VfDecision> tr;
        Result r = RunOnce(ops, prefix, &tr);
        runs++; points += r.points; if ((long)tr.size() > maxdec) maxdec = (long)tr.size();
        if (r.preempt > 0) withpre++;
        // next prefix: last decision that can be advanced within the preemption budget
        std::vector<int> pre(tr.size() + 1, 0);   // preemptions used before decision i
        for (size_t i = 0; i < tr.size(); i++) pre[i + 1] = pre[i] + ((tr[i].preemptive && tr[i].chosen != 0) ? 1 : 0);
        int i = (int)tr.size() - 1;
        for (; i >= 0; i--) {
          if (tr[i].chosen + 1 >= tr[i].noptions) continue;
          int cost = tr[i].preemptive ? 1 : 0;     // any non-default option at a preemptive point costs one
          if (pre[i] + cost > maxpre) continue;
          break;
        }
        if (i < 0) { complete = true; break; }
        prefix.resize(i + 1);
        for (int k = 0; k < i; k++) prefix[k] = (unsigned char)tr[k].chosen;
        prefix[i] = (unsigned char)(tr[i].chosen + 1);
      }
      printf("{\"ok\":1,\"runs\":%ld,\"complete\":%d,\"points\":%ld,\"maxdecisions\":%ld,\"runs_with_preemption\":%ld}\n", runs, complete ? 1 : 0, points, maxdec, withpre);
      fflush(stdout);
    }
  }
  return 0;
}
