// C19 helper: drives the mjData stack/arena allocator from one native function (so that MuJoCo's ASan-mode
// "mark and free must come from the same function" instrumentation is satisfied), writes/verifies byte patterns
// through instrumented code, and provides a task function for mju_dispatch (threadlock branch of the allocator).
#include <mujoco/mujoco.h>
#include <string.h>
#include <stdint.h>

#include "engine/engine_memory.h"
#include "engine/engine_thread.h"
#include "vf_support.h"



typedef struct {
  unsigned long long ptr, pstack, pbase, parena, maxuse_stack, maxuse_arena;
  int err;
} c19_res_t;

static void fill(c19_res_t* r, const mjData* d) {
  r->pstack = d->pstack; r->pbase = d->pbase; r->parena = d->parena;
  r->maxuse_stack = d->maxuse_stack; r->maxuse_arena = d->maxuse_arena;
}

// op: 0 mark, 1 free, 2 stackAllocByte(a=size,b=align), 3 stackAllocNum(a=n), 4 stackAllocInt(a=n),
//     5 arenaAllocByte(a=size,b=align), 6 stackAllocInfo(a=size,b=align)
// returns 0 ok, 1 mju_error (message via vf_last_error)
int c19_op(mjData* d, int op, size_t a, size_t b, c19_res_t* r) {
  vf_guard_t* g = vf_guard();
  r->ptr = 0; r->err = 0;
  if (setjmp(g->jb)) {
    g->active = 0;
    fill(r, d);
    r->err = 1;
    return 1;
  }
  g->active = 1;
  void* p = 0;
  switch (op) {
    case 0: mj_markStack(d); break;
    case 1: mj_freeStack(d); break;
    case 2: p = mj_stackAllocByte(d, a, b); break;
    case 3: p = mj_stackAllocNum(d, a); break;
    case 4: p = mj_stackAllocInt(d, a); break;
    case 5: p = mj_arenaAllocByte(d, a, b); break;
    case 6: p = mj_stackAllocInfo(d, a, b, "c19_op", 42); break;
    default: break;
  }
  g->active = 0;
  r->ptr = (unsigned long long)(uintptr_t)p;
  fill(r, d);
  return 0;
}

// instrumented write / verify of a block
void c19_fill(void* p, size_t n, int tag) { memset(p, tag, n); }
long c19_verify(const void* p, size_t n, int tag) {
  const unsigned char* c = (const unsigned char*)p;
  for (size_t i = 0; i < n; i++) if (c[i] != (unsigned char)tag) return (long)i;
  return -1;
}

// ---- concurrent reservations through mju_dispatch
typedef struct {
  int nalloc;                 // allocations per task
  const size_t* size;         // [ntask*nalloc]
  const size_t* align;        // [ntask*nalloc]
  unsigned long long* ptr;    // out [ntask*nalloc]
  int* err;                   // out [ntask*nalloc]
  int* thread;                // out [ntask]
  int spin;                   // busy work between allocations (spreads tasks over threads)
  int* started;
  int nwait;
} c19_batch_t;

static void c19_task(const mjModel* m, mjData* d, void* arg, int thread_id, int task_id) {
  c19_batch_t* b = (c19_batch_t*)arg;
  b->thread[task_id] = thread_id;
  // rendezvous: wait (bounded) until nwait tasks have started so that reservations really interleave
  __atomic_fetch_add(b->started, 1, __ATOMIC_SEQ_CST);
  for (long s = 0; s < 2000000 && __atomic_load_n(b->started, __ATOMIC_SEQ_CST) < b->nwait; s++) { }
  vf_guard_t* g = vf_guard();
  for (int k = 0; k < b->nalloc; k++) {
    int i = task_id * b->nalloc + k;
    volatile int failed = 0;
    int prev = g->active;
    jmp_buf save;
    if (prev) memcpy(&save, &g->jb, sizeof(jmp_buf));
    if (setjmp(g->jb)) {
      failed = 1;
    } else {
      g->active = 1;
      mj_markStack(d);   // no-ops while the data is thread-locked
      void* p = mj_stackAllocByte(d, b->size[i], b->align[i]);
      mj_freeStack(d);
      b->ptr[i] = (unsigned long long)(uintptr_t)p;
      if (p) memset(p, 1 + (i % 250), b->size[i]);
    }
    g->active = prev;
    if (prev) memcpy(&g->jb, &save, sizeof(jmp_buf));
    b->err[i] = failed;
    if (failed) b->ptr[i] = 0;
    volatile long sink = 0;
    for (int s = 0; s < b->spin; s++) sink += s;
  }
}

int c19_dispatch(const mjModel* m, mjData* d, int ntask, int nalloc, const size_t* size, const size_t* align,
                 unsigned long long* ptr, int* err, int* thread, int spin, int nwait, c19_res_t* r) {
  int started = 0;
  c19_batch_t b = {nalloc, size, align, ptr, err, thread, spin, &started, nwait};
  vf_guard_t* g = vf_guard();
  r->ptr = 0; r->err = 0;
  if (setjmp(g->jb)) {
    g->active = 0;
    fill(r, d);
    r->err = 1;
    return 1;
  }
  g->active = 1;
  mju_dispatch(m, d, c19_task, &b, ntask);
  g->active = 0;
  fill(r, d);
  return 0;
}

int c19_threadlock(const mjData* d) { return d->threadlock; }


