// C21 allocation hooks: installed through the public mju_user_malloc / mju_user_free callbacks.
// Tracks every live block with the index of the allocation that created it, fails the k-th allocation (or a
// pseudo-random subset), and counts frees of pointers it never handed out (double free / foreign pointer).
#include <mujoco/mujoco.h>
#include <pthread.h>
#include <stdlib.h>
#include <string.h>

#define MAXLIVE 65536
#define MAXFAIL 256
typedef struct { void* p; long idx; size_t size; long gen; } blk_t;
static long g_gen = 0;
static blk_t g_live[MAXLIVE];
static long g_nlive = 0, g_count = 0, g_fail_at = -1, g_seed = 0, g_den = 0, g_nfailed = 0, g_badfree = 0, g_overflow = 0;
static long g_failed_idx[MAXFAIL];
static pthread_mutex_t g_mu = PTHREAD_MUTEX_INITIALIZER;

static void* c21_malloc(size_t size) {
  pthread_mutex_lock(&g_mu);
  long k = ++g_count;
  int fail = (k == g_fail_at);
  if (!fail && g_den > 0) {
    unsigned long x = (unsigned long)(k * 2654435761UL) ^ (unsigned long)g_seed;
    x ^= x >> 13; x *= 0x9E3779B97F4A7C15UL; x ^= x >> 29;
    fail = (x % (unsigned long)g_den) == 0;
  }
  if (fail) {
    if (g_nfailed < MAXFAIL) g_failed_idx[g_nfailed] = k;
    g_nfailed++;
    pthread_mutex_unlock(&g_mu);
    return NULL;
  }
  size_t sz = size;
  if (sz % 64) sz += 64 - (sz % 64);
  if (sz == 0) sz = 64;
  void* p = aligned_alloc(64, sz);
  if (p) {
    if (g_nlive < MAXLIVE) { g_live[g_nlive].p = p; g_live[g_nlive].idx = k; g_live[g_nlive].size = size; g_live[g_nlive].gen = g_gen; g_nlive++; }
    else g_overflow++;
  }
  pthread_mutex_unlock(&g_mu);
  return p;
}

static void c21_free(void* p) {
  if (!p) return;
  pthread_mutex_lock(&g_mu);
  long i;
  for (i = g_nlive - 1; i >= 0; i--) if (g_live[i].p == p) break;
  if (i >= 0) { g_live[i] = g_live[g_nlive - 1]; g_nlive--; }
  else g_badfree++;        // not one of ours (or freed twice); ASan reports the real double free at free() below
  pthread_mutex_unlock(&g_mu);
  free(p);
}

void c21_install(void) { mju_user_malloc = c21_malloc; mju_user_free = c21_free; }
void c21_arm(long fail_at, long seed, long den) {
  pthread_mutex_lock(&g_mu);
  g_gen++; g_count = 0; g_fail_at = fail_at; g_seed = seed; g_den = den; g_nfailed = 0; g_badfree = 0;
  pthread_mutex_unlock(&g_mu);
}
long c21_count(void) { return g_count; }
long c21_nfailed(void) { return g_nfailed; }
long c21_failed_idx(long i) { return (i >= 0 && i < g_nfailed && i < MAXFAIL) ? g_failed_idx[i] : -1; }
long c21_badfree(void) { return g_badfree; }
long c21_overflow(void) { return g_overflow; }
long c21_nlive(void) { return g_nlive; }
long c21_live_idx(long i) { return (i >= 0 && i < g_nlive) ? g_live[i].idx : -1; }
long c21_live_size(long i) { return (i >= 0 && i < g_nlive) ? (long)g_live[i].size : -1; }
long c21_live_gen(long i) { return (i >= 0 && i < g_nlive) ? g_live[i].gen : -1; }
long c21_gen(void) { return g_gen; }
