// C22 harness: instantiates the tree's mjSORT / mjPARTIAL_SORT macros (src/engine/engine_sort.h) for a
// {key, tag} element with key-only comparators.  Only glue: no sorting logic lives here.
//
// The run size of the tiled merge sort is a macro (_mjRUNSIZE) that is expanded when mjSORT is instantiated, so the
// same macro text is additionally instantiated with small run sizes (2, 3, 5): this lets an exhaustive enumeration of
// short arrays exercise the run-boundary / merge / ping-pong-buffer logic that the shipped value (32) only reaches for
// n > 32.
#include <string.h>
#include <stdint.h>

#include "engine/engine_sort.h"

enum { VF_DEFAULT_RUNSIZE = _mjRUNSIZE };   // the shipped run size, captured before it is redefined below

typedef struct { int key; int tag; } elem;

// context: int mode. 0: sign comparator (-1/0/1); 1: magnitude comparator (any negative/zero/positive value);
// 2: descending sign comparator; 3: magnitude comparator through a key->rank table in the context
typedef struct { int mode; const int* rank; long ncmp; } ctx_t;

static inline int elemcmp(const elem* a, const elem* b, void* context) {
  ctx_t* c = (ctx_t*)context;
  c->ncmp++;
  switch (c->mode) {
    case 0: return (a->key > b->key) - (a->key < b->key);
    case 1: return (a->key > b->key) ? 3 + (a->key - b->key) % 5 : (a->key < b->key) ? -2 - (b->key - a->key) % 7 : 0;
    case 2: return (a->key < b->key) - (a->key > b->key);
    default: {
      int ra = c->rank[a->key], rb = c->rank[b->key];
      return (ra > rb) ? 7 : (ra < rb) ? -7 : 0;
    }
  }
}

mjSORT(sort32, elem, elemcmp);
mjPARTIAL_SORT(psort, elem, elemcmp);

#undef _mjRUNSIZE
#define _mjRUNSIZE 2
mjSORT(sort2, elem, elemcmp);
#undef _mjRUNSIZE
#define _mjRUNSIZE 3
mjSORT(sort3, elem, elemcmp);
#undef _mjRUNSIZE
#define _mjRUNSIZE 5
mjSORT(sort5, elem, elemcmp);

// sort `count` consecutive arrays of length n (arr: count*n elements); buf: n elements (+ guard owned by caller)
long vf_sort_batch(int runsize, elem* arr, elem* buf, int count, int n, int mode, const int* rank) {
  ctx_t c = {mode, rank, 0};
  for (int i = 0; i < count; i++) {
    elem* a = arr + (size_t)i * n;
    switch (runsize) {
      case 2: sort2(a, buf, n, &c); break;
      case 3: sort3(a, buf, n, &c); break;
      case 5: sort5(a, buf, n, &c); break;
      default: sort32(a, buf, n, &c); break;
    }
  }
  return c.ncmp;
}

// partial sort of `count` consecutive arrays of length n with the same k; buf: k elements (+ guard)
long vf_psort_batch(elem* arr, elem* buf, int count, int n, int k, int mode, const int* rank) {
  ctx_t c = {mode, rank, 0};
  for (int i = 0; i < count; i++) {
    psort(arr + (size_t)i * n, buf, n, k, &c);
  }
  return c.ncmp;
}

int vf_runsize_default(void) { return VF_DEFAULT_RUNSIZE; }
