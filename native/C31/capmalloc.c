// Allocation cap for C31: a corrupted size field must not make the harness allocate (and memset) gigabytes on a
// shared machine.  Installed into mju_user_malloc / mju_user_free from Python (checks/c31.py).  Requests above the cap
// return NULL, which MuJoCo turns into mju_error("could not allocate ...") - counted as inconclusive by the check.
#include <stdlib.h>
static size_t c31_cap = (size_t)1 << 28;
static long c31_refused = 0;
void* c31_malloc(size_t n) {
  if (n > c31_cap) { c31_refused++; return 0; }
  if (n % 64) n += 64 - (n % 64);
  if (n == 0) n = 64;
  return aligned_alloc(64, n);
}
void c31_free(void* p) { free(p); }
void c31_setcap(size_t c) { c31_cap = c; }
long c31_refused_count(void) { return c31_refused; }
