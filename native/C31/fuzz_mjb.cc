// libFuzzer target for C31: mj_loadModelBuffer on arbitrary bytes (seeded with valid MJB files).
// Oracle (load stage only): no sanitizer report; no mju_error (the documented contract is warning + NULL); an accepted
// model has mj_sizeModel == input length and can be re-saved into an exact-size block.  What an accepted model does
// in mj_makeData / mj_forward is judged by the in-process part of checks/c31.py (with the reference checker), not here.
#include <mujoco/mujoco.h>

#include <csetjmp>
#include <cstdint>
#include <cstdio>
#include <cstdlib>
#include <cstring>

namespace {
jmp_buf g_jb;
int g_active = 0;
char g_msg[1024];
int g_stage = 0;

void OnError(const char* msg) {
  snprintf(g_msg, sizeof g_msg, "%s", msg);
  if (g_active) longjmp(g_jb, 1);
  fprintf(stderr, "VF-ORACLE: unguarded mju_error: %s\n", msg);
  abort();
}
void OnWarning(const char* msg) {}

size_t g_cap = (size_t)512 << 20;
void* CapMalloc(size_t n) {
  if (n > g_cap) return nullptr;
  if (n % 64) n += 64 - (n % 64);
  if (!n) n = 64;
  return aligned_alloc(64, n);
}
void CapFree(void* p) { free(p); }
}  // namespace

extern "C" int LLVMFuzzerInitialize(int* argc, char*** argv) {
  mju_user_error = OnError;
  mju_user_warning = OnWarning;
  mju_user_malloc = CapMalloc;
  mju_user_free = CapFree;
  return 0;
}

extern "C" int LLVMFuzzerTestOneInput(const uint8_t* data, size_t size) {
  if (size > (1u << 30)) return 0;
  // exact-size copy so that ASan red zones sit right after the input
  uint8_t* buf = (uint8_t*)malloc(size ? size : 1);
  memcpy(buf, data, size);
  mjModel* m = nullptr;
  mjData* d = nullptr;
  g_active = 1;
  g_stage = 0;
  if (setjmp(g_jb) == 0) {
    m = mj_loadModelBuffer(buf, (int)size);
    g_stage = 1;
    if (m) {
      mjtSize sz = mj_sizeModel(m);
      if (sz != (mjtSize)size) {
        fprintf(stderr, "VF-ORACLE: accepted %zu-byte file but mj_sizeModel says %lld\n", size, (long long)sz);
        abort();
      }
      // re-save: the writer must stay inside an exact-size block and reproduce the accepted bytes' length
      uint8_t* out = (uint8_t*)malloc((size_t)sz);
      mj_saveModel(m, nullptr, out, (int)sz);
      free(out);
      g_stage = 2;
    }
  } else {
    g_active = 0;
    // mju_error: allocation failures are resource limits (inconclusive); anything else during load breaks the contract
    if (g_stage == 0 && !strstr(g_msg, "ould not allocate")) {
      fprintf(stderr, "VF-ORACLE: mju_error during load: %s\n", g_msg);
      abort();
    }
    // objects that were unwound are leaked on purpose
    free(buf);
    return 0;
  }
  g_active = 0;
  if (d) mj_deleteData(d);
  if (m) mj_deleteModel(m);
  free(buf);
  return 0;
}
