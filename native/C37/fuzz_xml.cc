// C37 - model loading never crashes and enforces the schema.
//
// One source, two modes (and a third build: -DVF_PLAIN_MAIN = worker only, linked against the rel library):
//   * libFuzzer target (default):  LLVMFuzzerTestOneInput runs the loader on the fuzzer's bytes.
//   * worker (argv contains --vf-worker=<rfd>,<wfd>): documents arrive on <rfd> as <u32 length><u32 flags><bytes>
//     (flags: 1 = also run mj_loadXML through a VFS, 2 = parse only, no compile/save), one result
//     line per document is written to <wfd> (used by checks/c37.py for the schema-generated documents, so
//     that a document that kills the process is attributed to exactly that document).
//
// What is executed for every document (text = bytes up to the first NUL, the API takes a C string):
//   spec  = mj_parseXMLString(text)            NULL => error string must be non-empty
//   model = mj_compile(spec)                   NULL => mjs_getError(spec) must be non-empty
//   mj_saveXMLString(spec) when it compiled    -1   => error string must be non-empty
//   every 4th document (by hash) / on request: mj_loadXML("doc.xml", vfs holding the same bytes) must agree with
//   parse+compile (model iff model) and obey the same NULL => message rule.
//   afterwards: the global log handler is still ours and no thread-local handler is left installed.
//
// What this target adds to the library's default behaviour, and how it is kept apart from the verdict:
//   * the library's default log handler prints, writes MUJOCO_LOG.TXT and calls exit() on mju_error. We install a
//     global handler instead. If it is ever reached with an ERROR while one of the API calls above is running,
//     the library would have terminated the process: that is recorded as an ESCAPE (kind mju_error, with the
//     calling function as site) and the call is abandoned by longjmp so that fuzzing can continue.
//     (mj_compile installs its own thread-local handler, so errors inside compilation never reach ours.)
//   * a C++ exception that propagates out of the C API would hit std::terminate in any C caller. We catch it at
//     the call site and record an ESCAPE (kind exception, type name + what(), throw site captured by a
//     __cxa_throw hook).
//   * VF-ORACLE aborts are ours: they are printed with that prefix and are classified by the Python side.
// Memory errors are left to ASan (process dies, libFuzzer writes the artifact / the worker's parent knows the document).

#include <cxxabi.h>
#include <dlfcn.h>
#include <execinfo.h>
#include <fcntl.h>
#include <pthread.h>
#include <setjmp.h>
#include <signal.h>
#include <sys/prctl.h>
#include <sys/wait.h>
#include <unistd.h>

#include <cerrno>
#include <cstdint>
#include <cstdio>
#include <cstdlib>
#include <cstring>
#include <exception>
#include <string>
#include <typeinfo>
#include <vector>

#include <mujoco/mujoco.h>

extern "C" {
mjfLogHandler _mjPRIVATE_setTlsLogHandler(mjfLogHandler handler);
mjfLogHandler _mjPRIVATE_getGlobalLogHandler(void);
}

namespace {

struct Escape {
  std::string phase, kind, msg, site;
};

struct Result {
  int parse = 0;      // 1 spec, 0 NULL
  int compile = -1;   // 1 model, 0 NULL, -1 not run
  int save = -2;      // rc of mj_saveXMLString, -2 not run
  int load = -1;      // mj_loadXML: 1 model, 0 NULL, -1 not run
  std::string perr, cerr, serr, lerr;
  std::vector<Escape> escapes;
  std::vector<std::string> oracle;   // oracle failures (VF-ORACLE)
  int reached = 0;    // 0 not XML / no root, 1 other root, 2 mujoco, 3 robot (URDF)
};

const char* g_phase = "";
jmp_buf g_jb;
bool g_jb_active = false;
Result* g_res = nullptr;
pthread_t g_main_thread;
thread_local char g_throw_site[256];
thread_local char g_throw_type[128];

// first frame that belongs to the library under test (skipping std:: and the error plumbing)
std::string SiteFromBacktrace(int skip) {
  void* frames[48];
  int n = backtrace(frames, 48);
  char** syms = backtrace_symbols(frames, n);
  std::string out = "?";
  if (!syms) return out;
  for (int i = skip; i < n; i++) {
    const char* s = syms[i];
    if (!strstr(s, "libmujoco_vf")) continue;
    const char* lp = strchr(s, '(');
    const char* plus = lp ? strchr(lp, '+') : nullptr;
    if (!lp || !plus || plus == lp + 1) continue;
    std::string name(lp + 1, plus - lp - 1);
    if (name.rfind("_ZSt", 0) == 0 || name.rfind("_ZNSt", 0) == 0 || name.rfind("_ZNKSt", 0) == 0 ||
        name.rfind("_ZNSa", 0) == 0 || name.rfind("_ZN9__gnu_cxx", 0) == 0) continue;
    if (name == "mju_error" || name == "mju_error_v" || name == "mju_message" || name == "mju_warning" ||
        name == "mju_error_i" || name == "mju_error_s") continue;
    int status = 0;
    char* dem = abi::__cxa_demangle(name.c_str(), nullptr, nullptr, &status);
    if (status == 0 && dem) {
      name = dem;
      size_t p = name.find('(');
      if (p != std::string::npos) name.resize(p);
    }
    free(dem);
    // lambdas / optional<T>::value() helpers: keep looking for an enclosing named function
    if (name.find("std::") == 0) continue;
    out = name;
    break;
  }
  free(syms);
  return out;
}

void LogHandler(const mjLogMessage* msg) {
  if (msg->level != mjLOG_ERROR) return;   // warnings/info: dropped (not part of the property)
  if (!g_jb_active || !pthread_equal(pthread_self(), g_main_thread)) {
    fprintf(stderr, "VF-ORACLE: mju_error outside a guarded call (phase=%s): %s\n", g_phase, msg->subject);
    fflush(stderr);
    abort();
  }
  Escape e;
  e.phase = g_phase;
  e.kind = "mju_error";
  e.msg = msg->subject;
  e.site = SiteFromBacktrace(1);
  g_res->escapes.push_back(e);
  longjmp(g_jb, 1);
}

void RecordException(const char* type, const char* what) {
  Escape e;
  e.phase = g_phase;
  e.kind = "exception";
  e.msg = std::string(type ? type : "?") + ": " + (what ? what : "");
  e.site = g_throw_site[0] ? g_throw_site : "?";
  g_res->escapes.push_back(e);
}

std::string CurrentExceptionType() {
  std::type_info* t = abi::__cxa_current_exception_type();
  if (!t) return "?";
  int status = 0;
  char* dem = abi::__cxa_demangle(t->name(), nullptr, nullptr, &status);
  std::string s = (status == 0 && dem) ? dem : t->name();
  free(dem);
  return s;
}

// run f() with the escape guards; returns false if the call was abandoned
template <typename F>
bool Guarded(const char* phase, Result& r, F f) {
  g_phase = phase;
  g_throw_site[0] = 0;
  bool ok = true;
  if (setjmp(g_jb) == 0) {
    g_jb_active = true;
    try {
      f();
    } catch (const std::exception& e) {
      RecordException(CurrentExceptionType().c_str(), e.what());
      ok = false;
    } catch (...) {
      RecordException(CurrentExceptionType().c_str(), "");
      ok = false;
    }
  } else {
    ok = false;   // mju_error escape, recorded by the handler
  }
  g_jb_active = false;
  g_phase = "";
  return ok;
}

uint64_t Fnv(const uint8_t* d, size_t n) {
  uint64_t h = 1469598103934665603ULL;
  for (size_t i = 0; i < n; i++) { h ^= d[i]; h *= 1099511628211ULL; }
  return h;
}

bool StartsWith(const std::string& s, const char* p) { return s.compare(0, strlen(p), p) == 0; }

char* g_savebuf = nullptr;
const int kSaveBuf = 4 << 20;

void RunOne(const uint8_t* data, size_t size, bool with_load, bool parse_only, Result& r) {
  g_res = &r;
  size_t n = strnlen(reinterpret_cast<const char*>(data), size);
  std::string text(reinterpret_cast<const char*>(data), n);
  char err[2000];

  // ---- parse
  mjSpec* volatile spec = nullptr;
  err[0] = 0;
  bool ok = Guarded("parse", r, [&] { spec = mj_parseXMLString(text.c_str(), nullptr, err, sizeof err); });
  err[sizeof err - 1] = 0;
  r.perr = err;
  r.parse = spec ? 1 : 0;
  if (ok && !spec && !err[0]) r.oracle.push_back("mj_parseXMLString returned NULL with an empty error string");
  // did the document reach the MJCF/URDF reader? (SpecFromXML: these three messages are produced before it)
  if (StartsWith(r.perr, "XML parse error") || StartsWith(r.perr, "XML root element not found")) r.reached = 0;
  else if (StartsWith(r.perr, "XML Error: Unrecognized XML model type")) r.reached = 1;
  else {
    // root is mujoco or robot (case-insensitive in SpecFromXML); tell them apart from the text
    r.reached = 2;
    size_t p = 0;
    while ((p = text.find('<', p)) != std::string::npos) {
      char c = p + 1 < text.size() ? text[p + 1] : 0;
      if (c == '?' || c == '!') { p++; continue; }
      if (c == 'r' || c == 'R') r.reached = 3;
      break;
    }
  }

  // ---- compile
  mjModel* volatile model = nullptr;
  if (spec && !parse_only) {
    ok = Guarded("compile", r, [&] { model = mj_compile(spec, nullptr); });
    r.compile = model ? 1 : 0;
    if (ok && !model) {
      const char* ce = nullptr;
      Guarded("getError", r, [&] { ce = mjs_getError(spec); });
      r.cerr = ce ? ce : "";
      if (r.cerr.empty()) r.oracle.push_back("mj_compile returned NULL and mjs_getError is empty");
    }
  }

  // ---- save
  if (spec && model) {
    if (!g_savebuf) g_savebuf = static_cast<char*>(malloc(kSaveBuf));
    int rc = -2;
    err[0] = 0;
    ok = Guarded("save", r, [&] { rc = mj_saveXMLString(spec, g_savebuf, kSaveBuf, err, sizeof err); });
    r.save = rc;
    r.serr = err;
    if (ok && rc == -1 && !err[0]) r.oracle.push_back("mj_saveXMLString returned -1 with an empty error string");
  }
  if (model) { mjModel* m = model; Guarded("deleteModel", r, [&] { mj_deleteModel(m); }); }
  if (spec) { mjSpec* s = spec; Guarded("deleteSpec", r, [&] { mj_deleteSpec(s); }); }

  // ---- mj_loadXML on the same bytes through a VFS
  if (with_load && n > 0) {
    mjVFS vfs;
    mj_defaultVFS(&vfs);
    int arc = -1;
    Guarded("vfs", r, [&] { arc = mj_addBufferVFS(&vfs, "doc.xml", text.data(), static_cast<int>(n)); });
    if (arc == 0) {
      mjModel* volatile m2 = nullptr;
      err[0] = 0;
      ok = Guarded("load", r, [&] { m2 = mj_loadXML("doc.xml", &vfs, err, sizeof err); });
      r.load = m2 ? 1 : 0;
      r.lerr = err;
      if (ok && !m2 && !err[0]) r.oracle.push_back("mj_loadXML returned NULL with an empty error string");
      // same code path as parse+compile: verdicts must agree (only when neither side was abandoned).
      // A document that includes itself by name is the one legitimate difference (filename known to the VFS path).
      if (ok && r.escapes.empty() && (r.compile == 1) != (m2 != nullptr) &&
          text.find("doc.xml") == std::string::npos) {
        r.oracle.push_back(std::string("mj_loadXML and mj_parseXMLString+mj_compile disagree: load=") +
                           (m2 ? "model" : "NULL") + " parse+compile=" + (r.compile == 1 ? "model" : "NULL") +
                           " loaderr=" + r.lerr + " perr=" + r.perr + " cerr=" + r.cerr);
      }
      if (m2) { mjModel* m = m2; Guarded("deleteModel", r, [&] { mj_deleteModel(m); }); }
      Guarded("freeLastXML", r, [&] { mj_freeLastXML(); });
    }
    Guarded("vfs", r, [&] { mj_deleteVFS(&vfs); });
  }

  // ---- handlers restored
  if (_mjPRIVATE_getGlobalLogHandler() != LogHandler) r.oracle.push_back("global log handler was replaced by the loader");
  mjfLogHandler tls = _mjPRIVATE_setTlsLogHandler(nullptr);
  if (tls != nullptr && r.escapes.empty()) r.oracle.push_back("a thread-local log handler was left installed");
  g_res = nullptr;
}

void Install() {
  static bool done = false;
  if (done) return;
  done = true;
  g_main_thread = pthread_self();
  mju_setLogHandler(LogHandler);
}

std::string Esc(const std::string& s) {
  std::string o;
  for (unsigned char c : s) {
    if (c == '\\') o += "\\\\";
    else if (c == '\n') o += "\\n";
    else if (c == '\t') o += "\\t";
    else if (c == '\r') o += "\\r";
    else if (c < 32 || c == 127) { char b[8]; snprintf(b, sizeof b, "\\x%02x", c); o += b; }
    else o += static_cast<char>(c);
  }
  return o;
}

// ---------------------------------------------------------------- fuzz-mode bookkeeping
std::string g_dir;          // VF_C37_DIR: where stats / escapes are written
std::string g_tag = "x";    // VF_C37_TAG: which kind of fuzzer process this is (prefix of the stats files)
long g_execs = 0, g_reached_mjcf = 0, g_reached_urdf = 0, g_otherroot = 0, g_parsed = 0, g_compiled = 0, g_saved = 0,
     g_schema_rej = 0, g_escapes = 0, g_loads = 0;
std::vector<uint64_t> g_hashbuf;
int g_hashfd = -1;

void FlushStats() {
  if (g_dir.empty()) return;
  if (g_hashfd >= 0 && !g_hashbuf.empty()) {
    ssize_t w = write(g_hashfd, g_hashbuf.data(), g_hashbuf.size() * 8);
    (void)w;
    g_hashbuf.clear();
  }
  char path[600];
  snprintf(path, sizeof path, "%s/stats/%s_%d.txt", g_dir.c_str(), g_tag.c_str(), getpid());
  FILE* f = fopen(path, "w");
  if (!f) return;
  fprintf(f, "execs %ld\nreached_mjcf %ld\nreached_urdf %ld\nother_root %ld\nparsed %ld\ncompiled %ld\nsaved %ld\n"
             "schema_rejected %ld\nescapes %ld\nloadxml %ld\n",
          g_execs, g_reached_mjcf, g_reached_urdf, g_otherroot, g_parsed, g_compiled, g_saved, g_schema_rej, g_escapes,
          g_loads);
  fclose(f);
}

void FuzzRecord(const uint8_t* data, size_t size, const Result& r) {
  g_execs++;
  if (r.reached == 2) g_reached_mjcf++;
  if (r.reached == 3) g_reached_urdf++;
  if (r.reached == 1) g_otherroot++;
  if (r.parse) g_parsed++;
  if (r.compile == 1) g_compiled++;
  if (r.save == 0) g_saved++;
  if (r.load >= 0) g_loads++;
  if (r.perr.find("Schema violation") != std::string::npos) g_schema_rej++;
  if (r.reached >= 2 && !g_dir.empty()) {
    if (g_hashfd < 0) {
      char path[600];
      snprintf(path, sizeof path, "%s/stats/%s_%d.hashes", g_dir.c_str(), g_tag.c_str(), getpid());
      g_hashfd = open(path, O_WRONLY | O_CREAT | O_APPEND, 0644);
    }
    g_hashbuf.push_back(Fnv(data, size));
  }
  for (const Escape& e : r.escapes) {
    g_escapes++;
    if (g_dir.empty()) continue;
    // one line per escape + the input (first few per key are kept by name = key hash + input hash)
    std::string key = e.phase + "|" + e.kind + "|" + e.msg + "|" + e.site;
    uint64_t kh = Fnv(reinterpret_cast<const uint8_t*>(key.data()), key.size());
    uint64_t ih = Fnv(data, size);
    char path[700];
    snprintf(path, sizeof path, "%s/escapes/%016llx_%016llx.xml", g_dir.c_str(), (unsigned long long)kh,
             (unsigned long long)ih);
    static std::vector<std::pair<uint64_t, int>> counts;
    int* cnt = nullptr;
    for (auto& c : counts) if (c.first == kh) cnt = &c.second;
    if (!cnt) { counts.emplace_back(kh, 0); cnt = &counts.back().second; }
    if ((*cnt)++ < 3) {
      FILE* f = fopen(path, "wb");
      if (f) { fwrite(data, 1, size, f); fclose(f); }
      snprintf(path, sizeof path, "%s/escapes/log.%d.txt", g_dir.c_str(), getpid());
      f = fopen(path, "a");
      if (f) {
        fprintf(f, "%016llx\t%016llx\t%s\t%s\t%s\t%s\n", (unsigned long long)kh, (unsigned long long)ih,
                Esc(e.phase).c_str(), Esc(e.kind).c_str(), Esc(e.msg).c_str(), Esc(e.site).c_str());
        fclose(f);
      }
    }
  }
  if (!r.oracle.empty()) {
    FlushStats();
    fprintf(stderr, "VF-ORACLE: %s\n", r.oracle[0].c_str());
    fflush(stderr);
    abort();   // libFuzzer stores the input as crash artifact
  }
  if (g_execs % 32 == 0) FlushStats();
}

// ---------------------------------------------------------------- worker mode
bool ReadAll(int fd, void* buf, size_t n) {
  char* p = static_cast<char*>(buf);
  while (n) {
    ssize_t k = read(fd, p, n);
    if (k <= 0) return false;
    p += k; n -= k;
  }
  return true;
}

#ifdef VF_PLAIN_MAIN
// rel worker only (no sanitizer): print the stack of a fatal signal so that the parent can group crashes by site and
// needs the (slow) ASan re-run only once per site
void CrashHandler(int sig) {
  signal(SIGALRM, SIG_DFL);
  alarm(1);    // if the stack walk blocks (heap lock held by the crashed code), the process still ends
  static const char msg[] = "VF-CRASH fatal signal in the rel worker, stack:\n";
  ssize_t w = write(2, msg, sizeof msg - 1);
  (void)w;
  void* frames[40];
  int n = backtrace(frames, 40);
  backtrace_symbols_fd(frames, n, 2);
  signal(sig, SIG_DFL);
  raise(sig);
}
#endif

int Worker(int rfd, int wfd) {
  Install();
  FILE* out = fdopen(wfd, "w");
  if (!out) return 3;
#ifdef VF_PLAIN_MAIN
  { void* warm[4]; backtrace(warm, 4); }   // loads the unwinder now: no allocation later inside the signal handler
  for (int sg : {SIGSEGV, SIGABRT, SIGBUS, SIGFPE, SIGILL}) signal(sg, CrashHandler);
#endif
  fprintf(out, "READY\n");
  fflush(out);
  std::vector<uint8_t> buf;
  for (;;) {
    uint32_t hdr[2];
    if (!ReadAll(rfd, hdr, sizeof hdr)) break;   // parent closed the pipe
    uint32_t len = hdr[0], flags = hdr[1];
    buf.resize(len + 1);
    if (len && !ReadAll(rfd, buf.data(), len)) break;
    buf[len] = 0;
    Result r;
    RunOne(buf.data(), len, (flags & 1) != 0, (flags & 2) != 0, r);
    fprintf(out, "R\t%d\t%d\t%d\t%d\t%d\t%s\t%s\t%s\t%s\t%zu\t%zu", r.parse, r.compile, r.save, r.load, r.reached,
            Esc(r.perr).c_str(), Esc(r.cerr).c_str(), Esc(r.serr).c_str(), Esc(r.lerr).c_str(), r.escapes.size(),
            r.oracle.size());
    for (const Escape& e : r.escapes)
      fprintf(out, "\t%s\t%s\t%s\t%s", Esc(e.phase).c_str(), Esc(e.kind).c_str(), Esc(e.msg).c_str(), Esc(e.site).c_str());
    for (const std::string& o : r.oracle) fprintf(out, "\t%s", Esc(o).c_str());
    fprintf(out, "\n");
    fflush(out);
    // abandoned calls (longjmp out of an mju_error) leave the library in an undefined state: start afresh
    for (const Escape& e : r.escapes)
      if (e.kind == "mju_error") { fflush(nullptr); _exit(0); }
  }
  return 0;
}

}  // namespace

// throw-site capture: the executable's definition precedes the C++ runtime's in symbol lookup order
extern "C" void __cxa_throw(void* thrown, std::type_info* tinfo, void (*dest)(void*)) {
  typedef void (*Fn)(void*, std::type_info*, void (*)(void*));
  static Fn real = reinterpret_cast<Fn>(dlsym(RTLD_NEXT, "__cxa_throw"));
  const char* tn = tinfo ? tinfo->name() : "";
  if (!strstr(tn, "mjXError") && !strstr(tn, "mjCError")) {
    std::string s = SiteFromBacktrace(1);
    snprintf(g_throw_site, sizeof g_throw_site, "%s", s.c_str());
    snprintf(g_throw_type, sizeof g_throw_type, "%s", tn);
  }
  real(thrown, tinfo, dest);
  __builtin_unreachable();
}

#ifdef VF_PLAIN_MAIN
// fast worker without libFuzzer/ASan (rel variant): same protocol, used for the bulk of the schema documents
int main(int argc, char** argv) {
  for (int i = 1; i < argc; i++) {
    int rfd, wfd;
    if (sscanf(argv[i], "--vf-worker=%d,%d", &rfd, &wfd) == 2) return Worker(rfd, wfd);
  }
  fprintf(stderr, "usage: %s --vf-worker=<rfd>,<wfd>\n", argv[0]);
  return 2;
}
#else
extern "C" int LLVMFuzzerInitialize(int* argc, char*** argv) {
  for (int i = 1; i < *argc; i++) {
    int rfd, wfd;
    if (sscanf((*argv)[i], "--vf-worker=%d,%d", &rfd, &wfd) == 2) {
      int rc = Worker(rfd, wfd);
      fflush(nullptr);
      _exit(rc);
    }
  }
  const char* d = getenv("VF_C37_DIR");
  if (d) g_dir = d;
  const char* tg = getenv("VF_C37_TAG");
  if (tg && *tg) g_tag = tg;
  Install();
  atexit(FlushStats);
  return 0;
}

extern "C" int LLVMFuzzerTestOneInput(const uint8_t* data, size_t size) {
  Install();
  Result r;
  // NUL-terminated copy so that the text is exactly what a C caller would pass
  std::vector<uint8_t> buf(data, data + size);
  buf.push_back(0);
  bool with_load = (Fnv(data, size) & 3) == 0;
  RunOne(buf.data(), size, with_load, false, r);
  FuzzRecord(data, size, r);
  return 0;
}
#endif  // VF_PLAIN_MAIN
