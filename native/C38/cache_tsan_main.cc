// Concurrent mjCCache histories under ThreadSanitizer (C38). Usage: c38_cache_tsan <seed> <rounds> <threads> <ops>
// Prints "ROUND <i> OK" / "ROUND <i> BAD <reason>"; data races are reported by the TSan runtime on stderr.
#include <cstdio>
#include <cstdlib>

#include "cache_wrap.cc"

int main(int argc, char** argv) {
  uint64_t seed = argc > 1 ? strtoull(argv[1], nullptr, 10) : 1;
  int rounds = argc > 2 ? atoi(argv[2]) : 10;
  int nthreads = argc > 3 ? atoi(argv[3]) : 4;
  int nops = argc > 4 ? atoi(argv[4]) : 300;
  const int nids = 5, nmodels = 3;
  size_t id_size[nids] = {5, 0, 17, 64, 33};
  int bad_rounds = 0;
  for (int r = 0; r < rounds; r++) {
    long live0 = vfc_live();
    size_t cap0 = (r % 3 == 0) ? 60 : (r % 3 == 1) ? 100 : 150;
    void* c = vfc_new(cap0);
    long bad = vfc_stress(c, seed * 1000003ull + r, nthreads, nops, nmodels, nids, id_size, r % 2, 0, 150);
    size_t want = 0;
    int held = 0;
    for (int i = 0; i < nids; i++) {
      std::string id = "id" + std::to_string(i);
      if (vfc_has(c, id.c_str(), nullptr, 0)) {
        want += id_size[i];
        held++;
      }
    }
    size_t sz = vfc_size(c), cap = vfc_capacity(c);
    if (bad || sz != want || sz > cap || vfc_live() - live0 != held) {
      printf("ROUND %d BAD lookups=%ld size=%zu want=%zu cap=%zu live=%ld held=%d\n", r, bad, sz, want, cap,
             vfc_live() - live0, held);
      bad_rounds++;
    } else {
      printf("ROUND %d OK size=%zu cap=%zu held=%d\n", r, sz, cap, held);
    }
    vfc_reset(c);
    if (vfc_size(c) != 0 || vfc_live() != live0) {
      printf("ROUND %d BAD after-reset size=%zu live=%ld\n", r, vfc_size(c), vfc_live() - live0);
      bad_rounds++;
    }
    vfc_delete(c);
  }
  printf("DONE bad_rounds=%d\n", bad_rounds);
  return bad_rounds ? 3 : 0;
}
