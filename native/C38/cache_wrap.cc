// C ABI wrapper around the tree's mjCCache (src/user/user_cache.h) for the C38 check.
// Built at check time against the headers of the tree under test and loaded after libmujoco_vf (RTLD_GLOBAL).
#include <atomic>
#include <cstdint>
#include <cstring>
#include <memory>
#include <string>
#include <thread>
#include <vector>

#include <mujoco/mjplugin.h>
#include <mujoco/mujoco.h>
#include "user/user_cache.h"

namespace {

struct Blob {
  uint64_t tag;
  std::vector<uint8_t> bytes;
};

std::atomic<long> g_live{0};   // blobs alive (owned by a cache or in flight)

uint8_t pattern(uint64_t tag, size_t i) { return static_cast<uint8_t>((tag * 131 + i * 7 + 3) & 255); }

std::shared_ptr<const void> make_blob(uint64_t tag, size_t size) {
  Blob* b = new Blob{tag, std::vector<uint8_t>(size)};
  for (size_t i = 0; i < size; i++) b->bytes[i] = pattern(tag, i);
  g_live++;
  return std::shared_ptr<const void>(b, [](const void* p) {
    delete static_cast<const Blob*>(p);
    g_live--;
  });
}

// resource provider whose "modified" callback compares the opaque timestamps as strings
int ts_modified(const mjResource* r, const char* timestamp) { return std::strcmp(r->timestamp, timestamp) ? 1 : 0; }

mjpResourceProvider* provider() {
  static mjpResourceProvider p = [] {
    mjpResourceProvider q;
    std::memset(&q, 0, sizeof(q));
    q.prefix = "vfc";
    q.modified = ts_modified;
    return q;
  }();
  return &p;
}

void fill_resource(mjResource* r, const char* ts, int with_provider) {
  std::memset(r, 0, sizeof(*r));
  std::strncpy(r->timestamp, ts, sizeof(r->timestamp) - 1);
  r->provider = with_provider ? provider() : nullptr;
}

}  // namespace

extern "C" {

void* vfc_new(size_t capacity) { return new mjCCache(capacity); }
void vfc_delete(void* c) { delete static_cast<mjCCache*>(c); }
long vfc_live(void) { return g_live.load(); }
size_t vfc_size(void* c) { return static_cast<mjCCache*>(c)->Size(); }
size_t vfc_capacity(void* c) { return static_cast<mjCCache*>(c)->Capacity(); }
void vfc_set_capacity(void* c, size_t n) { static_cast<mjCCache*>(c)->SetCapacity(n); }

// returns 1/0 = Insert() result
int vfc_insert(void* c, const char* model, const char* id, const char* ts, uint64_t tag, size_t size) {
  mjResource r;
  fill_resource(&r, ts, 1);
  return static_cast<mjCCache*>(c)->Insert(model, id, &r, make_blob(tag, size), size) ? 1 : 0;
}

// returns PopulateData() result; on success *tag / *size describe the blob passed to the callback and *ok tells whether
// its bytes are intact; ncalls counts callback invocations
int vfc_populate(void* c, const char* id, const char* ts, int with_provider, uint64_t* tag, size_t* size, int* ok,
                 int* ncalls) {
  mjResource r;
  fill_resource(&r, ts, with_provider);
  *tag = 0; *size = 0; *ok = 0; *ncalls = 0;
  bool res = static_cast<mjCCache*>(c)->PopulateData(id, &r, [&](const void* data) {
    (*ncalls)++;
    if (!data) return false;
    const Blob* b = static_cast<const Blob*>(data);
    *tag = b->tag;
    *size = b->bytes.size();
    int good = 1;
    for (size_t i = 0; i < b->bytes.size(); i++) good &= (b->bytes[i] == pattern(b->tag, i));
    *ok = good;
    return true;
  });
  return res ? 1 : 0;
}

// returns 1 and copies the stored timestamp if the asset is held, 0 otherwise
int vfc_has(void* c, const char* id, char* ts_out, size_t n) {
  const std::string* ts = static_cast<mjCCache*>(c)->HasAsset(id);
  if (!ts) return 0;
  if (ts_out && n) {
    std::strncpy(ts_out, ts->c_str(), n - 1);
    ts_out[n - 1] = 0;
  }
  return 1;
}

void vfc_delete_asset(void* c, const char* id) { static_cast<mjCCache*>(c)->DeleteAsset(id); }
void vfc_remove_model(void* c, const char* model) { static_cast<mjCCache*>(c)->RemoveModel(model); }
void vfc_reset_model(void* c, const char* model) { static_cast<mjCCache*>(c)->Reset(std::string(model)); }
void vfc_reset(void* c) { static_cast<mjCCache*>(c)->Reset(); }

// ---- concurrent driver: nthreads real threads apply pseudo-random operations (xorshift from seed) to one cache.
// Every successful populate is validated inside the thread (bytes intact, blob size == size the id is always inserted
// with); the number of failed validations is returned. Invariants at quiescence are checked by the caller.
static inline uint64_t xs(uint64_t* s) { *s ^= *s << 13; *s ^= *s >> 7; *s ^= *s << 17; return *s; }

long vfc_stress(void* cv, uint64_t seed, int nthreads, int nops, int nmodels, int nids, const size_t* id_size,
                int with_capacity_changes, size_t cap_lo, size_t cap_hi) {
  mjCCache* c = static_cast<mjCCache*>(cv);
  std::atomic<long> bad{0};
  std::vector<std::thread> th;
  for (int t = 0; t < nthreads; t++) {
    th.emplace_back([&, t] {
      uint64_t s = seed * 0x9E3779B97F4A7C15ull + 0x1234567ull * (t + 1);
      if (!s) s = 1;
      for (int k = 0; k < nops; k++) {
        uint64_t r = xs(&s);
        int op = r % 16;
        std::string model = "m" + std::to_string((r >> 8) % nmodels);
        int idn = (r >> 16) % nids;
        std::string id = "id" + std::to_string(idn);
        std::string ts = "t" + std::to_string((r >> 24) % 3);
        if (op < 6) {
          mjResource res;
          fill_resource(&res, ts.c_str(), 1);
          c->Insert(model, id, &res, make_blob(idn, id_size[idn]), id_size[idn]);
        } else if (op < 11) {
          mjResource res;
          fill_resource(&res, ts.c_str(), 1);
          c->PopulateData(id, &res, [&](const void* data) {
            const Blob* b = static_cast<const Blob*>(data);
            bool good = b && b->tag == (uint64_t)idn && b->bytes.size() == id_size[idn];
            if (good) for (size_t i = 0; i < b->bytes.size(); i++) good &= (b->bytes[i] == pattern(b->tag, i));
            if (!good) bad++;
            return true;
          });
        } else if (op == 11) {
          c->DeleteAsset(id);
        } else if (op == 12) {
          c->RemoveModel(model);
        } else if (op == 13) {
          if ((r >> 40) % 4 == 0) c->Reset(model);
        } else if (op == 14) {
          if (with_capacity_changes) c->SetCapacity(cap_lo + (r >> 32) % (cap_hi - cap_lo + 1));
        } else {
          size_t sz = c->Size(), cap = c->Capacity();
          (void)sz; (void)cap;
          c->HasAsset(id);
        }
      }
    });
  }
  for (auto& x : th) x.join();
  return bad.load();
}

}  // extern "C"
