// C40 driver (compiled WITHOUT the prelude): threads and oracles around the scheduled GlobalTable instantiation.
// stdin:  R <prefill> <writers> <nreaders> <hexchoices|-> <tailseed> <pswitch>
//         E <prefill> <writers> <nreaders> <maxpreempt> <maxruns>
//   writers = w1|w2|...   each wi = tok,tok,...   tok = <name>.<payload>   (names compared case-insensitively by the table)
#include <cctype>
#include <cstdio>
#include <cstdlib>
#include <cstring>
#include <map>
#include <string>
#include <vector>

#include "c40_obj.h"
#include "vf_sched.h"

extern "C" {
void c40_reset(void);
int c40_register(const VfObj* o, char* err, int nerr);
int c40_count(void);
const VfObj* c40_at(int slot, int nslot);
const VfObj* c40_at_checked(int slot);
const VfObj* c40_by_key(const char* key, int* slot, int nslot);
const VfObj* c40_by_key_checked(const char* key, int* slot);
int c40_block_size(void);
}

static std::vector<std::string> split(const std::string& s, char c) {
  std::vector<std::string> out; std::string cur;
  for (char ch : s) { if (ch == c) { out.push_back(cur); cur.clear(); } else cur += ch; }
  out.push_back(cur); return out;
}
static std::string lower(std::string s) { for (auto& c : s) c = (char)tolower(c); return s; }
static VfObj MakeObj(const std::string& name, int payload) {
  VfObj o; memset(&o, 0, sizeof o); snprintf(o.name, sizeof o.name, "%s", name.c_str());
  o.a = payload; o.b = payload * 7 + 1; o.c = payload ^ 0x5a5a; return o;
}
static bool Whole(const VfObj* o) { return o->name[0] && o->b == o->a * 7 + 1 && o->c == (o->a ^ 0x5a5a); }

struct OpRes { std::string name; int payload; int slot; };
struct Writer { std::vector<std::pair<std::string, int>> ops; std::vector<OpRes> res; };
static std::vector<Writer> g_w;
static std::string g_violation;
static int g_overlap = 0;       // reader observations made while a writer was inside AppendIfUnique
static int g_inflight = 0;
static int g_crossed = 0;

static void WriterFn(void* p) {
  Writer* w = static_cast<Writer*>(p);
  for (auto& op : w->ops) {
    VfObj o = MakeObj(op.first, op.second);
    char err[600] = "";
    g_inflight++;
    int slot = c40_register(&o, err, sizeof err);
    g_inflight--;
    w->res.push_back({op.first, op.second, slot});
    if (slot >= c40_block_size()) g_crossed = 1;
  }
}
static void ReaderFn(void* p) {
  int loops = *static_cast<int*>(p);
  int last = 0;
  for (int it = 0; it < loops; it++) {
    int n = c40_count();
    if (n < last && g_violation.empty()) g_violation = "count decreased";
    last = n;
    if (g_inflight) g_overlap++;
    for (int s = n - 1; s >= 0 && s >= n - 3; s--) {
      const VfObj* o = c40_at(s, n);
      if (!o) { if (g_violation.empty()) g_violation = "slot below count() is not initialised (lookup by slot returned NULL)"; continue; }
      VfObj copy = *o;
      if (!Whole(&copy) && g_violation.empty()) g_violation = "partially registered object visible below count()";
      int s2 = -1;
      const VfObj* o2 = c40_by_key(copy.name, &s2, n);
      if ((!o2 || s2 != s) && Whole(&copy) && g_violation.empty()) g_violation = "lookup by key disagrees with lookup by slot";
    }
    vf_sched_point(VF_YIELD, nullptr);
  }
}

struct Cfg { int prefill; std::string writers; int nreaders; };

static std::string RunOnce(const Cfg& c, const std::vector<unsigned char>& ch, long tail, int psw, std::vector<VfDecision>* tr,
                           long* points, long* preempt, int* overlap, int* crossed) {
  c40_reset();
  g_w.clear(); g_violation.clear(); g_overlap = 0; g_inflight = 0; g_crossed = 0;
  std::map<std::string, std::pair<int, int>> model;   // lower key -> (slot, payload)
  // sequential prefill (scheduler inactive: no scheduling points)
  for (int i = 0; i < c.prefill; i++) {
    char nm[16]; snprintf(nm, sizeof nm, "pre%d", i);
    VfObj o = MakeObj(nm, 100 + i); char err[600];
    int s = c40_register(&o, err, sizeof err);
    if (s != i) return "prefill slot != previous count";
    model[lower(nm)] = {s, 100 + i};
  }
  for (auto& ws : split(c.writers, '|')) {
    Writer w;
    for (auto& tok : split(ws, ',')) {
      if (tok.empty()) continue;
      auto kv = split(tok, '.');
      w.ops.push_back({kv[0], kv.size() > 1 ? atoi(kv[1].c_str()) : 0});
    }
    g_w.push_back(w);
  }
  int loops = 4;
  vf_sched_begin(ch.data(), (int)ch.size());
  if (tail >= 0) vf_sched_random_tail((unsigned long long)tail, psw);
  std::vector<int> ids;
  for (auto& w : g_w) ids.push_back(vf_sched_spawn(WriterFn, &w));
  for (int r = 0; r < c.nreaders; r++) ids.push_back(vf_sched_spawn(ReaderFn, &loops));
  for (int id : ids) vf_sched_join(id);
  vf_sched_end();
  *points = vf_sched_points(); *preempt = vf_sched_preemptions(); *overlap = g_overlap; *crossed = g_crossed;
  if (tr) { tr->resize(8192); int n = vf_sched_trace(tr->data(), 8192); tr->resize(n < 8192 ? n : 8192); }
  if (!g_violation.empty()) return g_violation;
  // ---- quiescent oracle: ordered list of unique lower-cased keys
  int n = c40_count();
  std::map<std::string, std::vector<OpRes>> bykey;
  for (auto& w : g_w) for (auto& r : w.res) bykey[lower(r.name)].push_back(r);
  int expect = c.prefill;
  for (auto& kv : bykey) {
    bool pre = model.count(kv.first) > 0;
    int slot = -1, payload = 0; int nok = 0;
    const VfObj* stored = c40_by_key_checked(kv.first.c_str(), &slot);
    if (pre) {
      if (!stored || slot != model[kv.first].first) return "slot of an existing key changed";
    }
    for (auto& r : kv.second) if (r.slot >= 0) nok++;
    if (!stored) { if (nok) return "registration succeeded but key is not found"; if (!kv.second.empty()) return "every registration of a new key failed"; continue; }
    if (!Whole(stored)) return "stored object is torn at quiescence";
    payload = stored->a;
    if (!pre) expect++;
    for (auto& r : kv.second) {
      bool same = r.payload == payload && !strcmp(r.name.c_str(), stored->name);
      // identical object -> must return the existing slot; conflicting object (different payload or spelling) -> must fail
      if (same && r.slot != slot) return "identical re-registration did not return the existing slot";
      if (!same && r.slot >= 0) return "conflicting re-registration succeeded";
    }
    const VfObj* bs = c40_at_checked(slot);
    if (bs != stored) return "lookup by name and by slot disagree at quiescence";
  }
  if (n != expect) return "count != number of distinct case-insensitive keys (slots not dense / duplicated key)";
  for (int s = 0; s < n; s++) { const VfObj* o = c40_at_checked(s); if (!o || !Whole(o)) return "hole or torn object in dense slot range"; }
  if (c40_at_checked(n) != nullptr) return "object visible at slot == count";
  return "";
}

int main() {
  char* line = nullptr; size_t cap = 0;
  while (getline(&line, &cap, stdin) > 0) {
    std::string s(line);
    while (!s.empty() && (s.back() == '\n' || s.back() == '\r')) s.pop_back();
    auto f = split(s, ' ');
    if (f.size() < 4) continue;
    Cfg c{atoi(f[1].c_str()), f[2], atoi(f[3].c_str())};
    long points = 0, preempt = 0; int overlap = 0, crossed = 0;
    if (f[0] == "R") {
      std::vector<unsigned char> ch;
      if (f.size() > 4 && f[4] != "-") for (size_t i = 0; i + 1 < f[4].size(); i += 2) ch.push_back((unsigned char)strtol(f[4].substr(i, 2).c_str(), nullptr, 16));
      long tail = f.size() > 5 ? atol(f[5].c_str()) : -1; int psw = f.size() > 6 ? atoi(f[6].c_str()) : 0;
      std::string v = RunOnce(c, ch, tail, psw, nullptr, &points, &preempt, &overlap, &crossed);
      if (!v.empty()) printf("{\"violation\":\"%s\"}\n", v.c_str());
      else printf("{\"ok\":1,\"points\":%ld,\"preempt\":%ld,\"overlap\":%d,\"crossed\":%d}\n", points, preempt, overlap, crossed);
      fflush(stdout);
    } else if (f[0] == "E") {
      int maxpre = f.size() > 4 ? atoi(f[4].c_str()) : 1; long maxruns = f.size() > 5 ? atol(f[5].c_str()) : 100000;
      std::vector<unsigned char> prefix; long runs = 0; bool complete = false; long ov = 0; std::string v;
      while (runs < maxruns) {
        std::vector<VfDecision> tr;
        v = RunOnce(c, prefix, -1, 0, &tr, &points, &preempt, &overlap, &crossed);
        runs++; if (overlap) ov++;
        if (!v.empty()) break;
        std::vector<int> pre(tr.size() + 1, 0);
        for (size_t i = 0; i < tr.size(); i++) pre[i + 1] = pre[i] + ((tr[i].preemptive && tr[i].chosen != 0) ? 1 : 0);
        int i = (int)tr.size() - 1;
        for (; i >= 0; i--) {
          if (tr[i].chosen + 1 >= tr[i].noptions) continue;
          if (pre[i] + (tr[i].preemptive ? 1 : 0) > maxpre) continue;
          break;
        }
        if (i < 0) { complete = true; break; }
        prefix.resize(i + 1);
        for (int k = 0; k < i; k++) prefix[k] = (unsigned char)tr[k].chosen;
        prefix[i] = (unsigned char)(tr[i].chosen + 1);
      }
      if (!v.empty()) {
        std::string hex; char b[4]; for (unsigned char x : prefix) { snprintf(b, sizeof b, "%02x", x); hex += b; }
        printf("{\"violation\":\"%s\",\"runs\":%ld,\"schedule\":\"%s\"}\n", v.c_str(), runs, hex.c_str());
      } else printf("{\"ok\":1,\"runs\":%ld,\"complete\":%d,\"runs_with_overlap\":%ld}\n", runs, complete ? 1 : 0, ov);
      fflush(stdout);
    }
  }
  return 0;
}
