#ifndef C40_OBJ_H_
#define C40_OBJ_H_
struct VfObj { int a; char name[24]; int b; int c; };
#endif
