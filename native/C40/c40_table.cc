// Compiled WITH the scheduler prelude: instantiates the UNMODIFIED mujoco::GlobalTable<T> (engine_global_table.h)
// for a harness object type whose CopyObject copies field by field with scheduling points in between.
#include "engine/engine_global_table.h"

#include <cstdarg>
#include <cstring>
#include <stdexcept>

#include "c40_obj.h"

extern "C" void mju_error(const char* msg, ...) {
  char buf[600];
  va_list ap; va_start(ap, msg); vsnprintf(buf, sizeof buf, msg, ap); va_end(ap);
  throw std::runtime_error(buf);
}

namespace mujoco {
template <> const char* GlobalTable<VfObj>::HumanReadableTypeName() { return "vfobj"; }
template <> std::string_view GlobalTable<VfObj>::ObjectKey(const VfObj& o) { return std::string_view(o.name, strnlen(o.name, sizeof o.name)); }
template <> bool GlobalTable<VfObj>::ObjectEqual(const VfObj& a, const VfObj& b) {
  return !strncmp(a.name, b.name, sizeof a.name) && a.a == b.a && a.b == b.b && a.c == b.c;
}
template <> bool GlobalTable<VfObj>::CopyObject(VfObj& dst, const VfObj& src, ErrorMessage& err) {
  // field-by-field copy, a scheduling point between any two writes
  vf_sched_point(VF_YIELD, nullptr);
  dst.a = src.a;
  vf_sched_point(VF_YIELD, nullptr);
  memcpy(dst.name, src.name, sizeof dst.name);
  vf_sched_point(VF_YIELD, nullptr);
  dst.b = src.b;
  vf_sched_point(VF_YIELD, nullptr);
  dst.c = src.c;
  vf_sched_point(VF_YIELD, nullptr);
  return true;
}
}  // namespace mujoco

using Table = mujoco::GlobalTable<VfObj>;

extern "C" {
void c40_reset(void) {
  Table& t = Table::GetSingleton();
  // harness-only reset of the process-global table (all members are trivially destructible; leaked blocks are tiny)
  memset(static_cast<void*>(&t), 0, sizeof(Table));
}
int c40_register(const VfObj* o, char* err, int nerr) {
  try { return Table::GetSingleton().AppendIfUnique(*o); }
  catch (const std::runtime_error& e) { snprintf(err, nerr, "%s", e.what()); return -1; }
}
int c40_count(void) { return Table::GetSingleton().count(); }
const VfObj* c40_at(int slot, int nslot) { return Table::GetSingleton().GetAtSlotUnsafe(slot, nslot); }
const VfObj* c40_at_checked(int slot) { return Table::GetSingleton().GetAtSlot(slot); }
const VfObj* c40_by_key(const char* key, int* slot, int nslot) { return Table::GetSingleton().GetByKeyUnsafe(key, slot, nslot); }
const VfObj* c40_by_key_checked(const char* key, int* slot) { return Table::GetSingleton().GetByKey(key, slot); }
int c40_block_size(void) { return mujoco::TableBlock<VfObj>::kBlockSize; }
}
