"""Coverage-guided fuzzing (atheris/libFuzzer) of mjcf_schema.parse_string for C41.  Run by checks/c41.py in a subprocess:
   PYTHONPATH=/verif:/verif/.deps python atheris_parse.py <corpus_dir> -max_total_time=.. -max_len=.. -seed=.. -artifact_prefix=..
Oracle: only SchemaError may escape, with a line inside the text; accepted schemas satisfy checks.c41.rules() (the two
known-finding rule ids are ignored here so that the search continues behind them; they have dedicated probes in the check).
Any violation raises -> libFuzzer writes a crash artifact and exits non-zero."""
import sys

import atheris

with atheris.instrument_imports():
  from vf import gen_pytree as pt
  S = pt.docgen('mjcf_schema')
from checks import c41


class FuzzViolation(Exception):
  pass


def one(data):
  text = data.decode('utf-8', errors='replace')
  nlines = text.count('\n') + 1
  try:
    sch = S.parse_string(text, 'f.schema')
  except S.SchemaError as e:
    if not (isinstance(e.line, int) and 1 <= e.line <= nlines):
      raise FuzzViolation('SchemaError line %r outside 1..%d' % (e.line, nlines))
    return
  bad = [b for b in c41.rules(S, sch) if b[0] not in c41.KNOWN_RULES]
  if bad:
    raise FuzzViolation('accepted schema violates documented rule: %r' % (bad[:3],))
  for e in sch.elements.values():
    sch.expanded_attrs(e)


if __name__ == '__main__':
  atheris.Setup(sys.argv, one)
  atheris.Fuzz()
