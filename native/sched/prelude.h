// pre-included: real headers first, then rename std::atomic / std::thread
#include <atomic>
#include <thread>
#include <mutex>
#include <vector>
#include <cstdint>
#include <functional>
#include <utility>
extern "C" void vf_sched_point(int kind, const void* obj);
namespace std {
template <class T> class vf_atomic {
 public:
  vf_atomic() : v_() {}
  vf_atomic(T v) : v_(v) {}
  T load(memory_order = memory_order_seq_cst) const { vf_sched_point(0, this); return v_; }
  void store(T v, memory_order = memory_order_seq_cst) { vf_sched_point(1, this); v_ = v; }
  T fetch_add(T d, memory_order = memory_order_seq_cst) { vf_sched_point(2, this); T o = v_; v_ = o + d; return o; }
  void wait(T old, memory_order = memory_order_seq_cst) const { while (true) { vf_sched_point(3, this); if (v_ != old) return; } }
  void notify_all() { vf_sched_point(4, this); }
 private:
  T v_;
};
class vf_thread {
 public:
  vf_thread() = default;
  template <class F, class... A> explicit vf_thread(F&& f, A&&... a) : fn_(std::bind(std::forward<F>(f), std::forward<A>(a)...)), joinable_(true) {}
  vf_thread(vf_thread&&) = default; vf_thread& operator=(vf_thread&&) = default;
  bool joinable() const { return joinable_; }
  void join() { joinable_ = false; }
 private:
  std::function<void()> fn_; bool joinable_ = false;
};
}
#define atomic vf_atomic
#define thread vf_thread
