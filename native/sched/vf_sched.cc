// Controlled scheduler: all managed threads are real pthreads but exactly one runs at a time; at every scheduling
// point the next thread is taken from a choice sequence. Used to explore interleavings of unmodified repo code
// (engine_thread.cc, engine_global_table.h) at atomic/mutex granularity under sequential consistency.
#include "vf_sched.h"

#include <pthread.h>
#include <unistd.h>

#include <condition_variable>
#include <cstdio>
#include <cstdlib>
#include <cstring>
#include <mutex>
#include <vector>

namespace {
enum State { RUNNABLE, BLOCKED, JOINING, FINISHED };
struct Th {
  int id; State st = RUNNABLE; const void* blocked_on = nullptr; int join_target = -1;
  std::condition_variable cv; pthread_t pt{}; void (*fn)(void*) = nullptr; void* arg = nullptr;
  const void* spin_obj = nullptr; int spin_count = 0; long spin_writes = -1; bool started = false;
};
std::mutex G;                      // protects everything below (real std::mutex: this file is NOT compiled with the prelude)
std::vector<Th*> T;
int current = 0;
long nwrites = 0;
std::vector<unsigned char> choices; size_t cpos = 0;
std::vector<VfDecision> trace;
long npreempt = 0, npoints = 0;
int verdict = 0;                   // 0 ok, 1 deadlock/livelock
bool active = false;
thread_local int self_id = 0;
bool tail_on = false; unsigned long long tail_state = 0; int tail_pswitch = 0;

bool spinning(Th* t) { return t->spin_count >= 3 && t->spin_writes == nwrites; }

// pick next thread; called with G held by `me`. Returns thread id, -1 (nothing runnable) or -2 (livelock).
int pick(int me, bool me_can_continue) {
  std::vector<int> elig; int nspin = 0;
  for (Th* t : T) {
    if (t->st != RUNNABLE) continue;
    if (t->id == me && !me_can_continue) continue;
    if (spinning(t)) nspin++; else elig.push_back(t->id);
  }
  if (elig.empty()) {
    // every runnable thread keeps re-reading a value that only a runnable, non-spinning thread could change
    return nspin ? -2 : -1;
  }
  bool me_elig = false;
  for (int id : elig) if (id == me) me_elig = true;
  int def = me_elig ? me : elig[0];
  int chosen = def;
  if (elig.size() > 1) {
    VfDecision dec; dec.noptions = (int)elig.size(); dec.preemptive = me_elig ? 1 : 0; dec.chosen = 0;
    int idx = -1;
    if (cpos < choices.size()) idx = choices[cpos++] % (int)elig.size();
    else if (tail_on) {
      tail_state = tail_state * 6364136223846793005ULL + 1442695040888963407ULL;
      unsigned r = (unsigned)(tail_state >> 33);
      idx = ((int)(r & 255) < tail_pswitch) ? 1 + (int)((r >> 8) % (elig.size() - 1)) : 0;
    }
    if (idx >= 0) {
      std::vector<int> order; order.push_back(def);           // option 0 = default (continue current / lowest id)
      for (int id : elig) if (id != def) order.push_back(id);
      chosen = order[idx]; dec.chosen = idx;
    }
    if (me_elig && chosen != me) npreempt++;
    trace.push_back(dec);
  }
  return chosen;
}

void handoff(std::unique_lock<std::mutex>& lk, int me, int next) {
  if (next == me) return;
  current = next;
  T[next]->cv.notify_all();
  T[me]->cv.wait(lk, [&] { return current == me; });
}

void fail_verdict(const char* what) {
  verdict = 1;
  printf("{\"verdict\":\"%s\",\"points\":%ld}\n", what, npoints);
  fflush(stdout);
  _exit(3);
}

void* trampoline(void* p) {
  Th* t = static_cast<Th*>(p);
  self_id = t->id;
  {
    std::unique_lock<std::mutex> lk(G);
    t->started = true;
    for (Th* o : T) o->cv.notify_all();
    t->cv.wait(lk, [&] { return current == t->id; });
  }
  t->fn(t->arg);
  {
    std::unique_lock<std::mutex> lk(G);
    t->st = FINISHED;
    for (Th* o : T) if (o->st == JOINING && o->join_target == t->id) { o->st = RUNNABLE; }
    int next = pick(t->id, false);
    if (next == -2 || next == -1) {
      bool all_done = true; for (Th* o : T) if (o->st != FINISHED) all_done = false;
      if (!all_done) fail_verdict(next == -2 ? "livelock" : "deadlock");
      return nullptr;
    }
    current = next; T[next]->cv.notify_all();
  }
  return nullptr;
}
}  // namespace

extern "C" {
void vf_sched_begin(const unsigned char* ch, int n) {
  std::unique_lock<std::mutex> lk(G);
  for (Th* t : T) delete t;
  T.clear();
  Th* main = new Th; main->id = 0; main->started = true; T.push_back(main);
  self_id = 0; current = 0; nwrites = 0; cpos = 0; npreempt = 0; npoints = 0; verdict = 0;
  choices.assign(ch, ch + n); trace.clear(); active = true; tail_on = false;
}
void vf_sched_random_tail(unsigned long long seed, int pswitch) { tail_on = true; tail_state = seed * 2654435761ULL + 12345; tail_pswitch = pswitch; }
void vf_sched_end(void) {
  std::unique_lock<std::mutex> lk(G);
  for (Th* t : T) if (t->id != 0 && t->st != FINISHED) fail_verdict("thread-leak");
  active = false;
  lk.unlock();
  for (Th* t : T) if (t->id != 0) pthread_join(t->pt, nullptr);
}
long vf_sched_preemptions(void) { return npreempt; }
long vf_sched_points(void) { return npoints; }
int vf_sched_trace(VfDecision* out, int cap) {
  int n = (int)trace.size(); if (n > cap) n = cap;
  memcpy(out, trace.data(), n * sizeof(VfDecision)); return (int)trace.size();
}
int vf_sched_self(void) { return self_id; }

void vf_sched_point(int kind, const void* obj) {
  if (!active) return;
  std::unique_lock<std::mutex> lk(G);
  int me = self_id; Th* t = T[me];
  npoints++;
  if (npoints > 2000000) fail_verdict("step-limit");
  if (kind == VF_LOAD || kind == VF_WAIT) {
    if (t->spin_obj == obj && t->spin_writes == nwrites) t->spin_count++;
    else { t->spin_obj = obj; t->spin_count = 0; t->spin_writes = nwrites; }
  } else { t->spin_obj = nullptr; t->spin_count = 0; }
  int next = pick(me, true);
  if (next == -2) fail_verdict("livelock");
  if (next == -1) next = me;
  handoff(lk, me, next);
}
void vf_sched_block(const void* obj) {
  if (!active) return;
  std::unique_lock<std::mutex> lk(G);
  int me = self_id; Th* t = T[me];
  t->st = BLOCKED; t->blocked_on = obj;
  int next = pick(me, false);
  if (next < 0) fail_verdict(next == -2 ? "livelock" : "deadlock");
  handoff(lk, me, next);
}
void vf_sched_wake(const void* obj) {
  if (!active) return;
  std::unique_lock<std::mutex> lk(G);
  for (Th* t : T) if (t->st == BLOCKED && t->blocked_on == obj) { t->st = RUNNABLE; t->blocked_on = nullptr; }
}
void vf_sched_note_write(const void* obj) { if (!active) return; std::unique_lock<std::mutex> lk(G); nwrites++; }
int vf_sched_spawn(void (*fn)(void*), void* arg) {
  std::unique_lock<std::mutex> lk(G);
  Th* t = new Th; t->id = (int)T.size(); t->fn = fn; t->arg = arg; T.push_back(t);
  pthread_attr_t at; pthread_attr_init(&at); pthread_attr_setstacksize(&at, 256 * 1024);
  if (pthread_create(&t->pt, &at, trampoline, t)) { fprintf(stderr, "pthread_create failed\n"); _exit(4); }
  T[self_id]->cv.wait(lk, [&] { return t->started; });   // child parked before we continue (deterministic ids)
  return t->id;
}
void vf_sched_join(int id) {
  if (!active || id <= 0) return;
  std::unique_lock<std::mutex> lk(G);
  int me = self_id; Th* t = T[me];
  npoints++;
  while (T[id]->st != FINISHED) {
    t->st = JOINING; t->join_target = id;
    int next = pick(me, false);
    if (next < 0) fail_verdict(next == -2 ? "livelock" : "deadlock");
    handoff(lk, me, next);
  }
}
}
