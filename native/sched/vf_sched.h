// Harness-side API of the controlled scheduler (see vf_sched_prelude.h for the code-under-test side).
#ifndef VF_SCHED_H_
#define VF_SCHED_H_
#ifdef __cplusplus
extern "C" {
#endif
enum { VF_LOAD = 0, VF_STORE = 1, VF_RMW = 2, VF_WAIT = 3, VF_NOTIFY = 4, VF_LOCK = 5, VF_UNLOCK = 6, VF_YIELD = 7,
       VF_JOIN = 8 };
typedef struct { int noptions; int chosen; int preemptive; } VfDecision;
void vf_sched_begin(const unsigned char* choices, int n);  // current thread becomes managed thread 0
// after the explicit choices are used up, continue with a PRNG: switch thread with probability pswitch/256
void vf_sched_random_tail(unsigned long long seed, int pswitch);
void vf_sched_end(void);                                   // all spawned threads must have finished
long vf_sched_preemptions(void);
long vf_sched_points(void);
int vf_sched_trace(VfDecision* out, int cap);              // decisions with >1 option; returns total count
int vf_sched_self(void);
void vf_sched_point(int kind, const void* obj);
void vf_sched_block(const void* obj);
void vf_sched_wake(const void* obj);
void vf_sched_note_write(const void* obj);
int vf_sched_spawn(void (*fn)(void*), void* arg);
void vf_sched_join(int id);
#ifdef __cplusplus
}
#endif
#endif
