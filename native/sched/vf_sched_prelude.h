// Pre-included (-include) when compiling UNMODIFIED repo sources against the controlled scheduler:
// the real <atomic>/<thread>/<mutex> are included first, then the names are redirected to harness classes
// whose every operation is a scheduling point. Sequentially consistent interleavings only.
#ifndef VF_SCHED_PRELUDE_H_
#define VF_SCHED_PRELUDE_H_
#include <atomic>
#include <thread>
#include <mutex>
#include <shared_mutex>
#include <vector>
#include <cstdint>
#include <functional>
#include <utility>
#include <memory>

extern "C" {
enum { VF_LOAD = 0, VF_STORE = 1, VF_RMW = 2, VF_WAIT = 3, VF_NOTIFY = 4, VF_LOCK = 5, VF_UNLOCK = 6, VF_YIELD = 7,
       VF_JOIN = 8 };
void vf_sched_point(int kind, const void* obj);   // may switch threads
void vf_sched_block(const void* obj);             // block current thread on obj until vf_sched_wake(obj)
void vf_sched_wake(const void* obj);              // make all threads blocked on obj runnable
void vf_sched_note_write(const void* obj);
int vf_sched_spawn(void (*fn)(void*), void* arg); // returns managed thread id
void vf_sched_join(int id);
}

namespace std {
template <class T> class vf_atomic {
 public:
  vf_atomic() noexcept : v_() {}
  constexpr vf_atomic(T v) noexcept : v_(v) {}
  vf_atomic(const vf_atomic&) = delete;
  vf_atomic& operator=(const vf_atomic&) = delete;
  T load(memory_order = memory_order_seq_cst) const { vf_sched_point(VF_LOAD, this); return v_; }
  operator T() const { return load(); }
  void store(T v, memory_order = memory_order_seq_cst) { vf_sched_point(VF_STORE, this); v_ = v; vf_sched_note_write(this); }
  T operator=(T v) { store(v); return v; }
  T exchange(T v, memory_order = memory_order_seq_cst) { vf_sched_point(VF_RMW, this); T o = v_; v_ = v; vf_sched_note_write(this); return o; }
  T fetch_add(T d, memory_order = memory_order_seq_cst) { vf_sched_point(VF_RMW, this); T o = v_; v_ = o + d; vf_sched_note_write(this); return o; }
  T fetch_sub(T d, memory_order = memory_order_seq_cst) { vf_sched_point(VF_RMW, this); T o = v_; v_ = o - d; vf_sched_note_write(this); return o; }
  T operator++() { return fetch_add(1) + 1; }
  T operator++(int) { return fetch_add(1); }
  bool compare_exchange_strong(T& expected, T desired, memory_order = memory_order_seq_cst, memory_order = memory_order_seq_cst) {
    vf_sched_point(VF_RMW, this);
    if (v_ == expected) { v_ = desired; vf_sched_note_write(this); return true; }
    expected = v_; return false;
  }
  bool compare_exchange_weak(T& e, T d, memory_order a = memory_order_seq_cst, memory_order b = memory_order_seq_cst) { return compare_exchange_strong(e, d, a, b); }
  // C++20 wait: returns only when the value differs from old; compare-and-block is one atomic step
  void wait(T old, memory_order = memory_order_seq_cst) const {
    while (true) {
      vf_sched_point(VF_WAIT, this);
      if (v_ != old) return;
      vf_sched_block(this);
    }
  }
  void notify_all() noexcept { vf_sched_point(VF_NOTIFY, this); vf_sched_wake(this); }
  void notify_one() noexcept { notify_all(); }
 private:
  T v_;
};

class vf_thread {
 public:
  vf_thread() noexcept = default;
  template <class F, class... A> explicit vf_thread(F&& f, A&&... a) {
    auto* fn = new std::function<void()>(std::bind(std::forward<F>(f), std::forward<A>(a)...));
    id_ = vf_sched_spawn([](void* p) { auto* g = static_cast<std::function<void()>*>(p); (*g)(); delete g; }, fn);
  }
  vf_thread(const vf_thread&) = delete;
  vf_thread& operator=(const vf_thread&) = delete;
  vf_thread(vf_thread&& o) noexcept : id_(o.id_) { o.id_ = -1; }
  vf_thread& operator=(vf_thread&& o) noexcept { id_ = o.id_; o.id_ = -1; return *this; }
  bool joinable() const noexcept { return id_ >= 0; }
  void join() { vf_sched_join(id_); id_ = -1; }
 private:
  int id_ = -1;
};

class vf_mutex {
 public:
  vf_mutex() noexcept = default;
  vf_mutex(const vf_mutex&) = delete;
  void lock() {
    while (true) {
      vf_sched_point(VF_LOCK, this);
      if (!held_) { held_ = true; return; }
      vf_sched_block(this);
    }
  }
  bool try_lock() { vf_sched_point(VF_LOCK, this); if (held_) return false; held_ = true; return true; }
  void unlock() { vf_sched_point(VF_UNLOCK, this); held_ = false; vf_sched_wake(this); }
 private:
  bool held_ = false;
};
}  // namespace std

#define atomic vf_atomic
#define atomic_int vf_atomic<int>
#define atomic_bool vf_atomic<bool>
#define thread vf_thread
#define mutex vf_mutex
#endif
