// Reflection over mjModel / mjData array fields via the tree's own X-macros.
#include <string.h>
#include <stddef.h>
#include <mujoco/mujoco.h>
#include <mujoco/mjxmacro.h>

static const char* model_names[] = {
#define X(type, fname, fnr, fnc) #fname,
  MJMODEL_POINTERS
#undef X
  0};
static const char* data_names[] = {
#define X(type, fname, fnr, fnc) #fname,
  MJDATA_POINTERS
#undef X
  0};
static const char* arena_names[] = {
#define X(type, fname, fnr, fnc) #fname,
  MJDATA_ARENA_POINTERS
#undef X
  0};
static const char* size_names[] = {
#define X(fname) #fname,
  MJMODEL_SIZES
#undef X
  0};
const char* vf_model_field_name(int i) { return model_names[i]; }
const char* vf_data_field_name(int i) { return data_names[i]; }
const char* vf_arena_field_name(int i) { return arena_names[i]; }
const char* vf_model_size_name(int i) { return size_names[i]; }

int vf_model_field(const mjModel* m, const char* name, void** ptr, long* nr, long* nc, const char** ctype) {
  MJMODEL_POINTERS_PREAMBLE(m)
#define X(type, fname, fnr, fnc) if (!strcmp(name, #fname)) { *ptr = (void*)m->fname; *nr = (long)m->fnr; *nc = (long)(fnc); *ctype = #type; return 1; }
  MJMODEL_POINTERS
#undef X
  return 0;
}
int vf_data_field(const mjModel* m, const mjData* d, const char* name, void** ptr, long* nr, long* nc, const char** ctype) {
  {
  MJMODEL_POINTERS_PREAMBLE(m)
#define X(type, fname, fnr, fnc) if (!strcmp(name, #fname)) { *ptr = (void*)d->fname; *nr = (long)m->fnr; *nc = (long)(fnc); *ctype = #type; return 1; }
  MJDATA_POINTERS
#undef X
  }
#undef MJ_M
#undef MJ_D
#define MJ_M(n) m->n
#define MJ_D(n) d->n
#define X(type, fname, fnr, fnc) if (!strcmp(name, #fname)) { *ptr = (void*)d->fname; *nr = (long)(fnr); *nc = (long)(fnc); *ctype = #type; return 2; }
  MJDATA_ARENA_POINTERS
#undef X
  return 0;
}
long vf_model_size(const mjModel* m, const char* name) {
#define X(fname) if (!strcmp(name, #fname)) return (long)m->fname;
  MJMODEL_SIZES
#undef X
  return -1;
}
