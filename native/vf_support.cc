#include "vf_support.h"
#include <mujoco/mujoco.h>
#include <atomic>
#include <cstdio>
#include <cstdlib>
#include <cstring>
#include <mutex>
#include <string>
#include <vector>

namespace {
thread_local vf_guard_t g_guard;
thread_local char g_err[2048];
std::mutex g_wmu;
std::vector<std::string> g_warn;
std::atomic<int> g_installed{0};
std::atomic<int> g_nerr_unguarded{0};

void Handler(const mjLogMessage* msg) {
  if (msg->level == mjLOG_ERROR) {
    if (msg->func) snprintf(g_err, sizeof g_err, "%s: %s", msg->func, msg->subject);
    else snprintf(g_err, sizeof g_err, "%s", msg->subject);
    if (g_guard.active) {
      longjmp(g_guard.jb, 1);
    }
    fprintf(stderr, "VF-UNGUARDED-MJU-ERROR: %s\n", g_err);
    fflush(stderr);
    abort();
  } else if (msg->level == mjLOG_WARNING) {
    std::lock_guard<std::mutex> l(g_wmu);
    if (g_warn.size() < 256) g_warn.push_back(msg->subject);
  }
}
}  // namespace

extern "C" {
vf_guard_t* vf_guard(void) { return &g_guard; }
void vf_install(void) {
  mju_setLogHandler(Handler);
  mjLogConfig cfg = mju_getLogConfig();
  cfg.logto_file = 0; cfg.logto_console = 0;
  mju_setLogConfig(cfg);
  mju_setLogHandler(Handler);
}
const char* vf_last_error(void) { return g_err; }
int vf_warning_count(void) { std::lock_guard<std::mutex> l(g_wmu); return (int)g_warn.size(); }
const char* vf_warning_text(int i) {
  std::lock_guard<std::mutex> l(g_wmu);
  static thread_local std::string s;
  s = (i >= 0 && i < (int)g_warn.size()) ? g_warn[i] : "";
  return s.c_str();
}
void vf_warning_clear(void) { std::lock_guard<std::mutex> l(g_wmu); g_warn.clear(); }

// -------- allocation fault injection / tracking through mju_user_malloc (C21)
static std::atomic<long> g_alloc_count{0};
static std::atomic<long> g_fail_at{-1};       // fail the k-th allocation (1-based); -1 = never
static std::atomic<long> g_fail_mask_seed{0}; // if nonzero: pseudo-random failures with prob 1/den
static std::atomic<long> g_fail_den{0};
static std::atomic<long> g_live{0};
static std::atomic<long> g_failed{0};
static void* FaultMalloc(size_t size) {
  long k = ++g_alloc_count;
  bool fail = (k == g_fail_at.load());
  long den = g_fail_den.load();
  if (!fail && den > 0) {
    unsigned long x = (unsigned long)(k * 2654435761UL) ^ (unsigned long)g_fail_mask_seed.load();
    x ^= x >> 13; x *= 0x9E3779B97F4A7C15UL; x ^= x >> 29;
    fail = (x % (unsigned long)den) == 0;
  }
  if (fail) { ++g_failed; return nullptr; }
  if (size % 64) size += 64 - (size % 64);
  if (size == 0) size = 64;
  void* p = aligned_alloc(64, size);
  if (p) ++g_live;
  return p;
}
static void FaultFree(void* p) { if (p) { --g_live; free(p); } }
void vf_fault_enable(long fail_at, long seed, long den) {
  g_alloc_count = 0; g_fail_at = fail_at; g_fail_mask_seed = seed; g_fail_den = den; g_live = 0; g_failed = 0;
  mju_user_malloc = FaultMalloc; mju_user_free = FaultFree;
}
void vf_fault_disable(void) { mju_user_malloc = nullptr; mju_user_free = nullptr; }
long vf_fault_count(void) { return g_alloc_count.load(); }
long vf_fault_live(void) { return g_live.load(); }
long vf_fault_failed(void) { return g_failed.load(); }
}  // extern "C"
