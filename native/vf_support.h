// Verification support: error guard (setjmp/longjmp), warning log, reflection.
#ifndef VF_SUPPORT_H_
#define VF_SUPPORT_H_
#include <setjmp.h>
#ifdef __cplusplus
extern "C" {
#endif
typedef struct { jmp_buf jb; int active; } vf_guard_t;
vf_guard_t* vf_guard(void);          // thread-local guard
void vf_install(void);               // install log handler (idempotent)
const char* vf_last_error(void);     // message of the last guarded error on this thread
int vf_warning_count(void);
const char* vf_warning_text(int i);  // i-th recorded warning (ring buffer of 64)
void vf_warning_clear(void);
#ifdef __cplusplus
}
#endif
#define VF_GUARD_BEGIN vf_guard_t* vf_g = vf_guard(); int vf_prev = vf_g->active; jmp_buf vf_save; \
  if (vf_prev) memcpy(&vf_save, &vf_g->jb, sizeof(jmp_buf)); \
  if (setjmp(vf_g->jb)) { vf_g->active = vf_prev; if (vf_prev) memcpy(&vf_g->jb, &vf_save, sizeof(jmp_buf)); return 1; } \
  vf_g->active = 1;
#define VF_GUARD_END vf_g->active = vf_prev; if (vf_prev) memcpy(&vf_g->jb, &vf_save, sizeof(jmp_buf)); return 0;
#endif
