"""ASan build only: a model whose compilation fails with an engine error while a stack frame is open (here: singular inertia,
'diagonal element too small') makes mjCModel::Compile loop forever: the catch block calls mj_deleteData, whose ASan-mode dangling
frame check raises mju_error, and the compiler's handler longjmps back into the try block. Release build: proper compile error."""
import sys
sys.path.insert(0, '/verif')
from vf import mj
lib = mj.load(sys.argv[1] if len(sys.argv) > 1 else 'asan')
import json
xml = json.load(open('/verif/replays/C19/asan_compile_loop_case.json'))['xml']
try:
  lib.model_from_xml(xml); print('compiled')
except mj.MjError as e:
  print('compile error:', e)
