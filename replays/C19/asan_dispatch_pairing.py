"""ASan build only: mju_dispatch (engine_thread.cc, C++) always fails MuJoCo's own mark/free pairing check because the always_inline
wrappers symbolize as 'mj_markStack(mjData_*)' in C++ translation units. Run with the asan variant (LD_PRELOAD the ASan runtime)."""
import sys, ctypes as C
import numpy as np
sys.path.insert(0, '/verif')
from vf import mj
from checks.c19_worker import load_helper, Res
lib = mj.load('asan'); h = load_helper('asan')
m = lib.model_from_xml('<mujoco><size memory="16K"/><worldbody><body><joint type="slide"/><geom size=".1"/></body></worldbody></mujoco>')
d = lib.make_data(m)
lib.mju_threadpool(d, 3)
n = 8
size = np.full(n, 64, dtype=np.uint64); align = np.full(n, 8, dtype=np.uint64)
ptr = np.zeros(n, dtype=np.uint64); err = np.zeros(n, dtype=np.int32); th = np.zeros(n, dtype=np.int32)
r = Res()
rc = h.c19_dispatch(m.ptr, d.ptr, n, 1, size.ctypes.data, align.ctypes.data, ptr.ctypes.data, err.ctypes.data, th.ctypes.data, 0, 4, C.byref(r))
print('rc', rc, lib.raw.vf_last_error().decode() if rc else '')
import os; os._exit(0)
