"""Unchanged tree: stack/arena allocation requests close to 2^64 wrap the size arithmetic of engine_memory.c and 'succeed'.
stackallocinternal: start_ptr = top - (size + REDZONE) wraps above top; if the alignment round-down brings it back to <= top the
required-bytes test passes (required = top - new_top is tiny) and a pointer at/above the stack top is returned, no error.
mj_arenaAllocByte: parena + padding + bytes wraps below bytes_available -> non-NULL pointer, parena moves backwards."""
import sys, ctypes as C
sys.path.insert(0, '/verif')
from vf import mj
from checks.c19_worker import load_helper, Res, HUGE, OPCODE
var = sys.argv[1] if len(sys.argv) > 1 else 'rel'
lib = mj.load(var); h = load_helper(var)
m = lib.model_from_xml('<mujoco><size memory="4K"/><worldbody><body><joint type="slide"/><geom size=".1"/></body></worldbody></mujoco>')
for kind in ('byte', 'arena'):
  for size in HUGE:
    for al in (0, 3, 6, 8):
      if kind == 'arena' and al > 6:
        continue
      d = lib.make_data(m)
      r = Res()
      h.c19_op(d.ptr, 0, 0, 0, C.byref(r))
      ps0, pa0 = r.pstack, r.parena
      rc = h.c19_op(d.ptr, OPCODE[kind], size, 1 << al, C.byref(r))
      if not rc and r.ptr:
        print('%-5s size=2^64-%-22d align=%-3d -> ptr=%#x (arena %#x..%#x) pstack %d->%d parena %d->%d' % (
            kind, 2 ** 64 - size, 1 << al, r.ptr, d.arena, d.arena + d.narena, ps0, r.pstack, pa0, r.parena))
      h.c19_op(d.ptr, 1, 0, 0, C.byref(r))
import os; os._exit(0)
