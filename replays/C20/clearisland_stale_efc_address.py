"""Island arrays do not fit -> clearIsland() zeroes nefc but keeps contact[].efc_address. Sweeps narena below the need and prints the
sizes where mj_step returns with nefc == 0 and efc_address >= 0."""
import sys, json, re
import numpy as np
sys.path.insert(0, '/verif')
from vf import mj
lib = mj.load('rel')
boxes = ''.join('<body pos="%g %g %g"><freejoint/><geom type="box" size=".1 .08 .06"/></body>' % ((i % 2) * 0.17, ((i // 2) % 2) * 0.15, 0.058 + (i // 4) * 0.115) for i in range(4))
m = lib.model_from_xml('<mujoco><worldbody><geom type="plane" size="5 5 .1"/>%s</worldbody></mujoco>' % boxes)
d = lib.make_data(m); lib.mj_step(m, d); need = int(d.maxuse_arena); print('maxuse_arena', need, 'ncon', d.ncon, 'nefc', d.nefc)
for S in range(need // 4, need, 64):
  m.narena = S
  d = lib.make_data(m)
  try:
    lib.mj_step(m, d)
  except mj.MjError:
    continue
  ea = np.asarray(d.contact['efc_address'][:d.ncon])
  if d.nefc == 0 and np.any(ea >= 0):
    print('narena', S, 'ncon', d.ncon, 'nefc', d.nefc, 'efc_address', ea[:6], lib.warnings()[:1])
    break
