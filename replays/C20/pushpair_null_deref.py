"""pushPairArena() checks 'pair' instead of 'new_pair' after mj_arenaAllocByte: NULL write when the arena is full. SIGSEGV (release)."""
import sys
sys.path.insert(0, '/verif')
from vf import mj
lib = mj.load(sys.argv[1] if len(sys.argv) > 1 else 'rel')
S = int(sys.argv[2]) if len(sys.argv) > 2 else 2688
balls = ''.join('<body pos="%g %g %g"><freejoint/><geom type="sphere" size="0.1" margin="0.6"/></body>' % ((i % 4) * 0.26, ((i // 4) % 4) * 0.26, 0.098) for i in range(14))
m = lib.model_from_xml('<mujoco><worldbody><geom type="plane" size="5 5 .1"/>%s</worldbody></mujoco>' % balls)
m.narena = S            # what <size memory="S"/> compiles to
d = lib.make_data(m)
print('stepping with narena =', S, flush=True)
lib.mj_step(m, d)
print('survived: ncon', d.ncon)
