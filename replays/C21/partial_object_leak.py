"""k-th allocation through mju_user_malloc fails during parse->compile->makeData->...: blocks allocated just before the failing one are
never freed (mj_compile returns NULL 'Could not allocate memory' and leaks; mj_makeData etc. leak under a recovering log handler)."""
import sys, os
sys.path.insert(0, '/verif')
from checks import c21_worker as w, c21
var = sys.argv[1] if len(sys.argv) > 1 else 'rel'
r = w.handler(dict(variant=var, scenario='lifecycle', model=c21.SIMPLE, model_name='simple', ks=list(range(1, 20)), multi=[]))
for x in r['runs']:
  print('k=%2d failed in %-20s leaked allocation indices %s' % (x['k'], [a for a, _ in x['fault_api']], x['leaked']))
os._exit(0)
