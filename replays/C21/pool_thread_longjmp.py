"""mesh + texture => threaded asset compilation; first mju_malloc fails on a pool thread -> compilerLogHandler longjmps through the
thread_local error_jmp_buf that was never set on that thread -> SIGSEGV."""
import sys, os
sys.path.insert(0, '/verif')
from checks import c21_worker as w, c21
var = sys.argv[1] if len(sys.argv) > 1 else 'rel'
r = w.handler(dict(variant=var, scenario='lifecycle', model=c21.RICH, model_name='rich-threaded', ks=[1], multi=[]))
print('survived', r['runs'][0]['events'][-1])
os._exit(0)
