"""With <flag autoreset="disable"/> every detection is counted twice: mj_warning() increments warning[].number and mj_checkPos/Vel/Acc
increment it again (with autoreset on, the reset in between hides this)."""
import sys, ctypes as C
import numpy as np
sys.path.insert(0, '/verif')
from vf import mj
lib = mj.load('rel')
m = lib.model_from_xml('<mujoco><option><flag autoreset="disable"/></option><worldbody><body><joint type="slide"/><geom size=".1"/></body></worldbody></mujoco>')
d = lib.make_data(m); d.qpos[0] = float('nan')
lib.mj_checkPos(m, d)
off = lib.layout['mjData']['fields']['warning']['off']
w = np.frombuffer((C.c_char * 56).from_address(d.ptr + off), dtype=np.int32).reshape(7, 2)
print('BADQPOS number after ONE detection:', w[lib.enums.mjWARN_BADQPOS, 1])
