"""mjd_transitionFD on a state with a nan: mj_stepSkip -> mj_checkPos -> mj_resetData runs inside mjd_stepFD's open stack frame.
release build: returns with pstack != 0, 'restores' a garbage state and garbage Jacobian; asan build: use-after-poison at
getState <- mjd_stepFD (engine_derivative_fd.c:334)."""
import sys
import numpy as np
sys.path.insert(0, '/verif')
from vf import mj
lib = mj.load(sys.argv[1] if len(sys.argv) > 1 else 'rel')
m = lib.model_from_xml('<mujoco><worldbody><body><joint type="hinge" axis="0 1 0"/><geom size=".1" pos=".3 0 0"/><body pos=".5 0 0">'
                       '<joint type="hinge" axis="0 1 0"/><geom size=".1" pos=".3 0 0"/></body></body></worldbody></mujoco>')
d = lib.make_data(m)
d.qpos[:] = [0.3, -0.2]; d.qvel[:] = [1, 2]
lib.mj_forward(m, d)
d.qpos[1] = float('nan')
A = np.zeros((4, 4))
print('before: pstack', d.pstack, 'qpos', d.qpos, 'qvel', d.qvel)
lib.mjd_transitionFD(m, d, 1e-6, 1, A, None, None, None)
print('after : pstack', d.pstack, 'qpos', d.qpos, 'qvel', d.qvel)
print(A)
