"""Bad ctrl is zeroed in mj_fwdActuation's local copy only; the implicit integrators' actuator-velocity derivative reads d->ctrl.
damper actuator, clampctrl disabled, ctrl = nan: BADCTRL is raised, but qpos/qvel are nan after mj_step (Euler: finite)."""
import sys
sys.path.insert(0, '/verif')
from vf import mj
lib = mj.load(sys.argv[1] if len(sys.argv) > 1 else 'rel')
for integ in ('Euler', 'implicitfast', 'implicit'):
  m = lib.model_from_xml('<mujoco><option integrator="%s"><flag clampctrl="disable"/></option><worldbody><body><joint name="j" type="hinge" '
                         'axis="0 1 0"/><geom size=".1" pos=".3 0 0"/></body></worldbody><actuator><damper joint="j" kv="2" ctrlrange="0 1"/>'
                         '</actuator></mujoco>' % integ)
  d = lib.make_data(m); d.qvel[0] = 1.0; d.ctrl[0] = float('nan')
  lib.mj_step(m, d)
  print(integ, 'qpos', d.qpos, 'qvel', d.qvel, lib.warnings())
