"""mj_step raises the fatal mju_error 'FactorizeHessian: rank-deficient sparse Hessian' on a huge-but-accepted state (|x| <= mjMAXVAL)."""
import sys, json
import numpy as np
sys.path.insert(0, '/verif')
from vf import mj, modelgen as mg
lib = mj.load(sys.argv[1] if len(sys.argv) > 1 else 'rel')
c = json.load(open('/verif/replays/C30/rank_deficient_case.json'))['case']['case']
m = lib.model_from_xml(c[0]['xml'])
d = lib.make_data(m)
mg.apply_state(lib, m, d, c[1])
for _ in range(3):
  lib.mj_step(m, d)
d.qfrc_applied[0] = float(np.nextafter(1e10, np.inf))
d.qpos[201 % m.nq] = -0.5e10
try:
  lib.mj_step(m, d); print('returned normally')
except mj.MjError as e:
  print('mju_error:', e)
