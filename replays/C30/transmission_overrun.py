"""ASan: use-after-poison WRITE in mj_transmission during mj_step (RK4 sub-stage reaches a nan state after act=-inf was injected).
Run with the asan variant."""
import sys, json
import numpy as np
sys.path.insert(0, '/verif')
from vf import mj, modelgen as mg
lib = mj.load(sys.argv[1] if len(sys.argv) > 1 else 'asan')
j = json.load(open('/verif/replays/C30/transmission_overrun_case.json'))['case']['journal']
m = lib.model_from_xml(j['xml'])
d = lib.make_data(m)
mg.apply_state(lib, m, d, j['seed'])
for _ in range(j['presteps']):
  lib.mj_step(m, d)
d.act[495 % d.act.size] = float('-inf')
lib.mj_step(m, d)
print('returned; qpos', d.qpos[:4])
import os; os._exit(0)
