"""mj_forward on an all-nan qpos with a site-transmission actuator (6-D gear) followed by another actuator: the site row's
'sparsity (compress)' loop keeps every nan entry (nan != 0), so more entries are written than CountNJmom reserved. ASan build:
use-after-poison / heap-buffer-overflow in mj_transmission."""
import sys
sys.path.insert(0, '/verif')
from vf import mj
lib = mj.load(sys.argv[1] if len(sys.argv) > 1 else 'asan')
xml = '''<mujoco><worldbody><site name="s0"/>
<body pos="0 0 1"><joint type="ball"/><geom size=".1"/><site name="s1" pos=".1 0 0"/>
 <body pos=".3 0 0"><joint name="h" type="hinge" axis="0 1 0"/><geom size=".1"/><site name="s2" pos=".1 0 0"/></body></body>
<body pos="1 0 1"><joint name="k" type="slide"/><geom size=".1"/></body></worldbody>
<tendon><spatial name="t"><site site="s0"/><site site="s2"/></spatial></tendon>
<actuator><motor site="s1" gear="-0.6 0.8 0.8 0 -0.7 -0.8"/><motor tendon="t"/><motor joint="k"/></actuator></mujoco>'''
m = lib.model_from_xml(xml)
d = lib.make_data(m)
lib.mj_forward(m, d)
print('moment_rownnz (finite state):', d.moment_rownnz, 'nJmom', m.nJmom)
d.qpos[:] = float('nan')
lib.mj_forward(m, d)
print('moment_rownnz (nan state)   :', d.moment_rownnz)
import os; os._exit(0)
