#pragma once
#include <vector>
namespace MC {
typedef double MC_FLOAT;
struct mcVec3f { MC_FLOAT x, y, z; };
struct mcMesh { std::vector<mcVec3f> vertices, normals; std::vector<unsigned int> indices; };
void marching_cube(MC_FLOAT* field, int nx, int ny, int nz, mcMesh& out);
}
