#pragma once
#include <setjmp.h>
#include <stdio.h>
extern "C" {
typedef double coordT; typedef coordT pointT; typedef unsigned int boolT;
#define qh_False 0
#define qh_True 1
#define qh_ALL 1
typedef union setelemT { void* p; int i; } setelemT;
typedef struct setT { int maxsize; setelemT e[1]; } setT;
typedef struct vertexT { struct vertexT* next; struct vertexT* previous; pointT* point; setT* neighbors; unsigned id; } vertexT;
typedef struct facetT { struct facetT* next; struct facetT* previous; setT* vertices; unsigned id; unsigned toporient:1; } facetT;
typedef struct qhT { jmp_buf errexit; boolT NOerrexit; int num_vertices, num_facets; vertexT* vertex_list; facetT* facet_list; void* priv; } qhT;
void qh_zero(qhT*, FILE*); void qh_init_A(qhT*, FILE*, FILE*, FILE*, int, char**);
void qh_initflags(qhT*, char*); void qh_init_B(qhT*, coordT*, int, int, boolT);
void qh_qhull(qhT*); void qh_triangulate(qhT*); void qh_vertexneighbors(qhT*);
int qh_pointid(qhT*, pointT*); void qh_freeqhull(qhT*, boolT); void qh_memfreeshort(qhT*, int*, int*);
}
#define FORALLvertices for (vertex = qh->vertex_list; vertex && vertex->next; vertex = vertex->next)
#define FORALLfacets for (facet = qh->facet_list; facet && facet->next; facet = facet->next)
#define FOREACHsetelement_(type, set, variable) \
  if (((variable = NULL), set)) for (variable##p = (type**)&((set)->e[0].p); (variable = *variable##p++);)
