#include <ccd/ccd.h>
#include "lodepng.h"
#include "MC.h"
#include <string.h>
extern "C" {
static ccd_vec3_t origin_ = {{0,0,0}};
ccd_vec3_t* ccd_vec3_origin = &origin_;
void ccdFirstDirDefault(const void*, const void*, ccd_vec3_t* d) { ccdVec3Set(d, 1, 0, 0); }
int ccdMPRPenetration(const void*, const void*, const ccd_t*, ccd_real_t*, ccd_vec3_t*, ccd_vec3_t*) { return -1; }
}
unsigned lodepng_decode(unsigned char** out, unsigned*, unsigned*, lodepng::State*, const unsigned char*, size_t) { *out = nullptr; return 1; }
const char* lodepng_error_text(unsigned) { return "PNG decoding unavailable in verification build"; }
size_t lodepng_get_raw_size(unsigned, unsigned, const LodePNGColorMode*) { return 0; }
namespace MC { void marching_cube(MC_FLOAT*, int, int, int, mcMesh&) {} }
