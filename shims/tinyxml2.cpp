#include "tinyxml2.h"
#include <expat.h>
#include <cstring>
#include <cstdio>
namespace tinyxml2 {
// ---- XMLNode
XMLNode::~XMLNode() { DeleteChildren(); }
void XMLNode::Unlink(XMLNode* c) {
  if (c->prev_) c->prev_->next_ = c->next_; else first_ = c->next_;
  if (c->next_) c->next_->prev_ = c->prev_; else last_ = c->prev_;
  c->prev_ = c->next_ = nullptr; c->parent_ = nullptr;
}
void XMLNode::DeleteChildren() { while (first_) { XMLNode* c = first_; Unlink(c); delete c; } }
void XMLNode::DeleteChild(XMLNode* n) { if (!n || n->parent_ != this) return; Unlink(n); delete n; }
XMLElement* XMLNode::FirstChildElement(const char* name) {
  for (XMLNode* n = first_; n; n = n->next_) { XMLElement* e = n->ToElement(); if (e && (!name || !strcmp(name, e->Name()))) return e; }
  return nullptr;
}
XMLElement* XMLNode::NextSiblingElement(const char* name) {
  for (XMLNode* n = next_; n; n = n->next_) { XMLElement* e = n->ToElement(); if (e && (!name || !strcmp(name, e->Name()))) return e; }
  return nullptr;
}
XMLNode* XMLNode::InsertEndChild(XMLNode* add) {
  if (!add || add->doc_ != doc_) return nullptr;
  if (add->parent_) add->parent_->Unlink(add);
  add->parent_ = this; add->prev_ = last_; add->next_ = nullptr;
  if (last_) last_->next_ = add; else first_ = add; last_ = add; return add;
}
XMLNode* XMLNode::InsertFirstChild(XMLNode* add) {
  if (!add || add->doc_ != doc_) return nullptr;
  if (add->parent_) add->parent_->Unlink(add);
  add->parent_ = this; add->next_ = first_; add->prev_ = nullptr;
  if (first_) first_->prev_ = add; else last_ = add; first_ = add; return add;
}
XMLNode* XMLNode::InsertAfterChild(XMLNode* after, XMLNode* add) {
  if (!add || !after || after->parent_ != this || add->doc_ != doc_) return nullptr;
  if (after == add) return add;
  if (!after->next_) return InsertEndChild(add);
  if (add->parent_) add->parent_->Unlink(add);
  add->parent_ = this; add->prev_ = after; add->next_ = after->next_; after->next_->prev_ = add; after->next_ = add; return add;
}
XMLNode* XMLNode::DeepClone(XMLDocument* target) const {
  XMLNode* c = ShallowClone(target); if (!c) return nullptr;
  for (const XMLNode* n = first_; n; n = n->next_) { XMLNode* cc = n->DeepClone(target); if (cc) c->InsertEndChild(cc); }
  return c;
}
// ---- comment/text
XMLNode* XMLComment::ShallowClone(XMLDocument* t) const { if (!t) t = doc_; XMLComment* c = t->NewComment(value_.c_str()); return c; }
XMLNode* XMLText::ShallowClone(XMLDocument* t) const { if (!t) t = doc_; XMLText* c = new XMLText; c->doc_ = t; c->value_ = value_; return c; }
// ---- element
XMLElement::~XMLElement() { while (attrs_) { XMLAttribute* a = attrs_; attrs_ = a->next_; delete a; } }
const char* XMLElement::Attribute(const char* name, const char* value) const {
  for (const XMLAttribute* a = attrs_; a; a = a->next_) if (a->name_ == name) { if (!value || a->value_ == value) return a->value_.c_str(); return nullptr; }
  return nullptr;
}
void XMLElement::SetAttribute(const char* name, const char* value) {
  XMLAttribute* lasta = nullptr;
  for (XMLAttribute* a = attrs_; a; lasta = a, a = a->next_) if (a->name_ == name) { a->value_ = value; return; }
  XMLAttribute* a = new XMLAttribute; a->name_ = name; a->value_ = value;
  if (lasta) lasta->next_ = a; else attrs_ = a;
}
void XMLElement::SetAttribute(const char* name, int value) { char b[32]; snprintf(b, sizeof b, "%d", value); SetAttribute(name, b); }
XMLNode* XMLElement::ShallowClone(XMLDocument* t) const {
  if (!t) t = doc_; XMLElement* e = t->NewElement(value_.c_str()); e->line_ = line_;
  for (const XMLAttribute* a = attrs_; a; a = a->next_) e->SetAttribute(a->Name(), a->Value());
  return e;
}
// ---- document
XMLDocument::XMLDocument(bool, int) { doc_ = this; }
XMLDocument::~XMLDocument() { Clear(); }
void XMLDocument::Clear() { DeleteChildren(); ClearError(); }
XMLElement* XMLDocument::NewElement(const char* name) { XMLElement* e = new XMLElement; e->doc_ = this; e->value_ = name ? name : ""; return e; }
XMLComment* XMLDocument::NewComment(const char* s) { XMLComment* c = new XMLComment; c->doc_ = this; c->value_ = s ? s : ""; return c; }
namespace {
struct Ctx { XMLDocument* doc; XMLNode* cur; XML_Parser p; };
void XMLCALL OnStart(void* ud, const XML_Char* name, const XML_Char** atts) {
  Ctx* c = static_cast<Ctx*>(ud); XMLElement* e = c->doc->NewElement(name);
  e->line_ = static_cast<int>(XML_GetCurrentLineNumber(c->p));
  for (int i = 0; atts[i]; i += 2) e->SetAttribute(atts[i], atts[i + 1]);
  c->cur->InsertEndChild(e); c->cur = e;
}
void XMLCALL OnEnd(void* ud, const XML_Char*) { Ctx* c = static_cast<Ctx*>(ud); if (c->cur->Parent()) c->cur = c->cur->Parent(); }
void XMLCALL OnComment(void* ud, const XML_Char* s) { Ctx* c = static_cast<Ctx*>(ud); XMLComment* n = c->doc->NewComment(s); n->line_ = static_cast<int>(XML_GetCurrentLineNumber(c->p)); c->cur->InsertEndChild(n); }
void XMLCALL OnText(void* ud, const XML_Char* s, int len) {
  Ctx* c = static_cast<Ctx*>(ud); if (c->cur == c->doc) return;
  bool ws = true; for (int i = 0; i < len; i++) if (!strchr(" \t\r\n", s[i])) { ws = false; break; }
  if (ws) return;
  XMLNode* l = c->cur->last_;
  if (l && !l->ToElement() && !l->ToComment()) { l->value_.append(s, len); return; }
  XMLText* t = new XMLText; t->doc_ = c->doc; t->value_.assign(s, len); t->line_ = static_cast<int>(XML_GetCurrentLineNumber(c->p)); c->cur->InsertEndChild(t);
}
}  // namespace
XMLError XMLDocument::Parse(const char* xml, size_t n) {
  Clear();
  if (!xml || !*xml || n == 0) { err_ = XML_ERROR_EMPTY_DOCUMENT; errstr_ = "Error=XML_ERROR_EMPTY_DOCUMENT ErrorID=13 (0xd) Line number=0"; return err_; }
  if (n == static_cast<size_t>(-1)) n = strlen(xml);
  XML_Parser p = XML_ParserCreate(nullptr);
  Ctx c{this, this, p};
  XML_SetUserData(p, &c); XML_SetElementHandler(p, OnStart, OnEnd); XML_SetCommentHandler(p, OnComment); XML_SetCharacterDataHandler(p, OnText);
  if (XML_Parse(p, xml, static_cast<int>(n), 1) == XML_STATUS_ERROR) {
    char b[256]; snprintf(b, sizeof b, "Error=XML_ERROR_PARSING ErrorID=14 (0xe) Line number=%d: %s", static_cast<int>(XML_GetCurrentLineNumber(p)), XML_ErrorString(XML_GetErrorCode(p)));
    XML_ParserFree(p); DeleteChildren(); err_ = XML_ERROR_PARSING; errstr_ = b; return err_;
  }
  XML_ParserFree(p);
  if (!RootElement()) { err_ = XML_ERROR_EMPTY_DOCUMENT; errstr_ = "Error=XML_ERROR_EMPTY_DOCUMENT ErrorID=13 (0xd) Line number=0"; }
  return err_;
}
// ---- printer
XMLPrinter::XMLPrinter(FILE*, bool compact, int) : compact_(compact) {}
XMLPrinter::~XMLPrinter() {}
void XMLPrinter::PrintSpace(int depth) { for (int i = 0; i < depth; i++) Write("    "); }
void XMLPrinter::Write(const char* s) { buf_ += s; }
void XMLPrinter::WriteEscaped(const std::string& s, bool attr) {
  for (char ch : s) switch (ch) {
    case '&': buf_ += "&amp;"; break; case '<': buf_ += "&lt;"; break; case '>': buf_ += "&gt;"; break;
    case '"': if (attr) buf_ += "&quot;"; else buf_ += ch; break;
    case '\n': if (attr) buf_ += "&#10;"; else buf_ += ch; break;
    default: buf_ += ch;
  }
}
void XMLDocument::Print(XMLPrinter* s) const { XMLPrinter local; if (!s) s = &local; Accept(s, 0); if (s == &local) fputs(local.CStr(), stdout); }
void XMLDocument::Accept(XMLPrinter* p, int depth) const { for (const XMLNode* n = first_; n; n = n->next_) n->Accept(p, depth); }
void XMLComment::Accept(XMLPrinter* p, int depth) const { p->PrintSpace(depth); p->Write("<!--"); p->Write(value_.c_str()); p->Write("-->\n"); }
void XMLText::Accept(XMLPrinter* p, int) const { p->WriteEscaped(value_, false); }
void XMLElement::Accept(XMLPrinter* p, int depth) const {
  p->PrintSpace(depth); p->Write("<"); p->Write(value_.c_str());
  for (const XMLAttribute* a = attrs_; a; a = a->next_) { p->Write(" "); p->Write(a->Name()); p->Write("=\""); p->WriteEscaped(a->value_, true); p->Write("\""); }
  if (!first_) { p->Write("/>\n"); return; }
  bool textonly = true; for (const XMLNode* n = first_; n; n = n->next_) if (n->ToElement() || n->ToComment()) textonly = false;
  if (textonly) { p->Write(">"); for (const XMLNode* n = first_; n; n = n->next_) n->Accept(p, 0); p->Write("</"); p->Write(value_.c_str()); p->Write(">\n"); return; }
  p->Write(">\n");
  for (const XMLNode* n = first_; n; n = n->next_) { if (!n->ToElement() && !n->ToComment()) { p->PrintSpace(depth + 1); n->Accept(p, depth + 1); p->Write("\n"); } else n->Accept(p, depth + 1); }
  p->PrintSpace(depth); p->Write("</"); p->Write(value_.c_str()); p->Write(">\n");
}
}  // namespace tinyxml2
