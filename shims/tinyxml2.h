// Minimal tinyxml2-compatible DOM for the MuJoCo verification build (expat-backed parser).
#pragma once
#include <cstddef>
#include <cstdio>
#include <string>
#include <vector>
namespace tinyxml2 {
enum XMLError { XML_SUCCESS = 0, XML_ERROR_FILE_NOT_FOUND = 3, XML_ERROR_PARSING = 14, XML_ERROR_EMPTY_DOCUMENT = 13 };
class XMLDocument; class XMLElement; class XMLComment; class XMLPrinter;
class XMLAttribute {
 public:
  const char* Name() const { return name_.c_str(); }
  const char* Value() const { return value_.c_str(); }
  const XMLAttribute* Next() const { return next_; }
  std::string name_, value_; XMLAttribute* next_ = nullptr;
};
class XMLNode {
 public:
  virtual ~XMLNode();
  XMLDocument* GetDocument() { return doc_; }
  const XMLDocument* GetDocument() const { return doc_; }
  virtual XMLElement* ToElement() { return nullptr; }
  virtual const XMLElement* ToElement() const { return nullptr; }
  virtual XMLComment* ToComment() { return nullptr; }
  virtual const XMLComment* ToComment() const { return nullptr; }
  const char* Value() const { return value_.c_str(); }
  int GetLineNum() const { return line_; }
  XMLNode* Parent() { return parent_; }
  const XMLNode* Parent() const { return parent_; }
  bool NoChildren() const { return first_ == nullptr; }
  XMLNode* FirstChild() { return first_; }
  const XMLNode* FirstChild() const { return first_; }
  XMLNode* NextSibling() { return next_; }
  const XMLNode* NextSibling() const { return next_; }
  XMLElement* FirstChildElement(const char* name = nullptr);
  const XMLElement* FirstChildElement(const char* name = nullptr) const { return const_cast<XMLNode*>(this)->FirstChildElement(name); }
  XMLElement* NextSiblingElement(const char* name = nullptr);
  const XMLElement* NextSiblingElement(const char* name = nullptr) const { return const_cast<XMLNode*>(this)->NextSiblingElement(name); }
  XMLNode* InsertEndChild(XMLNode* add);
  XMLNode* LinkEndChild(XMLNode* add) { return InsertEndChild(add); }
  XMLNode* InsertFirstChild(XMLNode* add);
  XMLNode* InsertAfterChild(XMLNode* after, XMLNode* add);
  void DeleteChildren();
  void DeleteChild(XMLNode* node);
  XMLNode* DeepClone(XMLDocument* target) const;
  virtual XMLNode* ShallowClone(XMLDocument* target) const = 0;
  virtual void Accept(XMLPrinter* p, int depth) const = 0;
  // data
  XMLDocument* doc_ = nullptr; XMLNode* parent_ = nullptr; XMLNode* first_ = nullptr; XMLNode* last_ = nullptr;
  XMLNode* prev_ = nullptr; XMLNode* next_ = nullptr; std::string value_; int line_ = 0;
 protected:
  void Unlink(XMLNode* child);
};
class XMLComment : public XMLNode {
 public:
  XMLComment* ToComment() override { return this; }
  const XMLComment* ToComment() const override { return this; }
  XMLNode* ShallowClone(XMLDocument* target) const override;
  void Accept(XMLPrinter* p, int depth) const override;
};
class XMLText : public XMLNode {
 public:
  XMLNode* ShallowClone(XMLDocument* target) const override;
  void Accept(XMLPrinter* p, int depth) const override;
};
class XMLElement : public XMLNode {
 public:
  ~XMLElement() override;
  XMLElement* ToElement() override { return this; }
  const XMLElement* ToElement() const override { return this; }
  const char* Name() const { return value_.c_str(); }
  const char* Attribute(const char* name, const char* value = nullptr) const;
  const XMLAttribute* FirstAttribute() const { return attrs_; }
  void SetAttribute(const char* name, const char* value);
  void SetAttribute(const char* name, int value);
  XMLNode* ShallowClone(XMLDocument* target) const override;
  void Accept(XMLPrinter* p, int depth) const override;
  XMLAttribute* attrs_ = nullptr;
};
class XMLDocument : public XMLNode {
 public:
  XMLDocument(bool processEntities = true, int whitespace = 0);
  ~XMLDocument() override;
  XMLError Parse(const char* xml, size_t nBytes = static_cast<size_t>(-1));
  XMLElement* RootElement() { return FirstChildElement(); }
  const XMLElement* RootElement() const { return FirstChildElement(); }
  void Print(XMLPrinter* streamer = nullptr) const;
  XMLElement* NewElement(const char* name);
  XMLComment* NewComment(const char* comment);
  bool Error() const { return err_ != XML_SUCCESS; }
  XMLError ErrorID() const { return err_; }
  const char* ErrorStr() const { return errstr_.c_str(); }
  void ClearError() { err_ = XML_SUCCESS; errstr_.clear(); }
  void Clear();
  XMLNode* ShallowClone(XMLDocument*) const override { return nullptr; }
  void Accept(XMLPrinter* p, int depth) const override;
  XMLError err_ = XML_SUCCESS; std::string errstr_;
};
class XMLPrinter {
 public:
  XMLPrinter(FILE* file = nullptr, bool compact = false, int depth = 0);
  virtual ~XMLPrinter();
  const char* CStr() const { return buf_.c_str(); }
  int CStrSize() const { return static_cast<int>(buf_.size()) + 1; }
  virtual void PrintSpace(int depth);
  void Write(const char* s);
  void WriteEscaped(const std::string& s, bool attr);
  std::string buf_; bool compact_;
};
}  // namespace tinyxml2
