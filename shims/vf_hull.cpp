// Minimal stand-in for the subset of qhull_r that mjCMesh::MakeGraph uses: an incremental 3-D convex hull
// with self-validation. On any doubt (degenerate input, failed validation) it takes qhull's error path
// (longjmp to qh->errexit), which MuJoCo reports as the compile error "qhull error".
#include "qhull_ra.h"
#include <cmath>
#include <cstdlib>
#include <cstring>
#include <map>
#include <vector>

namespace {
struct Face { int v[3]; bool alive; };
struct Hull {
  const double* pts = nullptr; int n = 0;
  std::vector<Face> faces;
  std::vector<vertexT> verts; std::vector<facetT> facets;
  std::vector<setT*> sets;
};
inline void sub(const double* a, const double* b, double* r) { r[0]=a[0]-b[0]; r[1]=a[1]-b[1]; r[2]=a[2]-b[2]; }
inline void cross(const double* a, const double* b, double* r) { r[0]=a[1]*b[2]-a[2]*b[1]; r[1]=a[2]*b[0]-a[0]*b[2]; r[2]=a[0]*b[1]-a[1]*b[0]; }
inline double dot(const double* a, const double* b) { return a[0]*b[0]+a[1]*b[1]+a[2]*b[2]; }
// signed volume*6 of (a,b,c,p): >0 if p is on the side the normal of (a,b,c) points to
double orient(const double* P, int a, int b, int c, int p) {
  double ab[3], ac[3], ap[3], n[3];
  sub(P+3*b, P+3*a, ab); sub(P+3*c, P+3*a, ac); sub(P+3*p, P+3*a, ap); cross(ab, ac, n);
  return dot(n, ap);
}
setT* NewSet(Hull* h, const std::vector<void*>& items) {
  setT* s = (setT*)calloc(1, sizeof(setT) + sizeof(setelemT) * (items.size() + 1));
  s->maxsize = (int)items.size();
  for (size_t i = 0; i < items.size(); i++) s->e[i].p = items[i];
  s->e[items.size()].p = nullptr;
  h->sets.push_back(s);
  return s;
}
bool Build(Hull* h) {
  const double* P = h->pts; int n = h->n;
  if (n < 4) return false;
  double lo[3] = {P[0],P[1],P[2]}, hi[3] = {P[0],P[1],P[2]};
  for (int i = 0; i < n; i++) for (int k = 0; k < 3; k++) { if (P[3*i+k]<lo[k]) lo[k]=P[3*i+k]; if (P[3*i+k]>hi[k]) hi[k]=P[3*i+k]; if (!std::isfinite(P[3*i+k])) return false; }
  double scale = std::fmax(hi[0]-lo[0], std::fmax(hi[1]-lo[1], hi[2]-lo[2]));
  if (!(scale > 0)) return false;
  double eps = 1e-10 * scale * scale * scale;
  // initial tetrahedron: extreme points
  int i0 = 0, i1 = -1, i2 = -1, i3 = -1; double best = 0;
  for (int i = 0; i < n; i++) { double d[3]; sub(P+3*i, P+3*i0, d); double q = dot(d,d); if (q > best) { best = q; i1 = i; } }
  if (i1 < 0) return false;
  best = 0;
  for (int i = 0; i < n; i++) { double a[3], b[3], c[3]; sub(P+3*i1,P+3*i0,a); sub(P+3*i,P+3*i0,b); cross(a,b,c); double q = dot(c,c); if (q > best) { best = q; i2 = i; } }
  if (i2 < 0 || best <= 1e-20*scale*scale*scale*scale) return false;
  best = 0;
  for (int i = 0; i < n; i++) { double q = std::fabs(orient(P,i0,i1,i2,i)); if (q > best) { best = q; i3 = i; } }
  if (i3 < 0 || best <= eps) return false;
  if (orient(P,i0,i1,i2,i3) > 0) std::swap(i1, i2);   // make i3 below face (i0,i1,i2): outward normals
  auto add = [&](int a, int b, int c) { Face f; f.v[0]=a; f.v[1]=b; f.v[2]=c; f.alive=true; h->faces.push_back(f); };
  add(i0,i1,i2); add(i0,i3,i1); add(i1,i3,i2); add(i2,i3,i0);
  std::vector<char> used(n, 0); used[i0]=used[i1]=used[i2]=used[i3]=1;
  for (int p = 0; p < n; p++) {
    if (used[p]) continue;
    std::vector<int> vis;
    for (size_t f = 0; f < h->faces.size(); f++) if (h->faces[f].alive && orient(P, h->faces[f].v[0], h->faces[f].v[1], h->faces[f].v[2], p) > eps) vis.push_back((int)f);
    if (vis.empty()) continue;
    std::map<std::pair<int,int>, int> edges;  // directed edge -> count among visible faces
    for (int f : vis) for (int k = 0; k < 3; k++) edges[{h->faces[f].v[k], h->faces[f].v[(k+1)%3]}] = 1;
    std::vector<std::pair<int,int>> horizon;
    for (auto& e : edges) if (!edges.count({e.first.second, e.first.first})) horizon.push_back(e.first);
    if (horizon.size() < 3) return false;
    for (int f : vis) h->faces[f].alive = false;
    for (auto& e : horizon) add(e.first, e.second, p);
    if (h->faces.size() > 200000) return false;
  }
  // compact + validate
  std::vector<Face> live; for (auto& f : h->faces) if (f.alive) live.push_back(f);
  h->faces = live;
  std::map<std::pair<int,int>, int> ecount;
  for (auto& f : h->faces) for (int k = 0; k < 3; k++) ecount[{f.v[k], f.v[(k+1)%3]}]++;
  for (auto& e : ecount) { if (e.second != 1) return false; if (!ecount.count({e.first.second, e.first.first})) return false; }
  std::vector<char> onhull(n, 0); int nv = 0;
  for (auto& f : h->faces) for (int k = 0; k < 3; k++) if (!onhull[f.v[k]]) { onhull[f.v[k]] = 1; nv++; }
  int nf = (int)h->faces.size(), ne = (int)ecount.size() / 2;
  if (nv - ne + nf != 2) return false;
  for (auto& f : h->faces) for (int p = 0; p < n; p++) if (orient(P, f.v[0], f.v[1], f.v[2], p) > 1e4 * eps) return false;
  return true;
}
}  // namespace

extern "C" {
void qh_zero(qhT* qh, FILE*) { memset(qh, 0, sizeof(*qh)); }
void qh_init_A(qhT*, FILE*, FILE*, FILE*, int, char**) {}
void qh_initflags(qhT*, char*) {}
void qh_init_B(qhT* qh, coordT* points, int numpoints, int dim, boolT) {
  Hull* h = new Hull; h->pts = points; h->n = numpoints; qh->priv = h;
  if (dim != 3) longjmp(qh->errexit, 1);
}
void qh_qhull(qhT* qh) {
  Hull* h = (Hull*)qh->priv;
  if (!h || !Build(h)) longjmp(qh->errexit, 1);
}
void qh_triangulate(qhT*) {}
void qh_vertexneighbors(qhT* qh) {
  Hull* h = (Hull*)qh->priv;
  int n = h->n;
  std::vector<int> vid(n, -1); std::vector<int> order;
  for (auto& f : h->faces) for (int k = 0; k < 3; k++) if (vid[f.v[k]] < 0) { vid[f.v[k]] = (int)order.size(); order.push_back(f.v[k]); }
  int nv = (int)order.size(), nf = (int)h->faces.size();
  h->verts.assign(nv + 1, vertexT()); h->facets.assign(nf + 1, facetT());
  for (int i = 0; i <= nv; i++) { memset(&h->verts[i], 0, sizeof(vertexT)); h->verts[i].next = i < nv ? &h->verts[i+1] : nullptr; h->verts[i].id = i; if (i < nv) h->verts[i].point = const_cast<double*>(h->pts) + 3*order[i]; }
  for (int i = 0; i <= nf; i++) { memset(&h->facets[i], 0, sizeof(facetT)); h->facets[i].next = i < nf ? &h->facets[i+1] : nullptr; h->facets[i].id = i; }
  std::vector<std::vector<void*>> nb(nv);
  for (int f = 0; f < nf; f++) {
    std::vector<void*> vs;
    for (int k = 0; k < 3; k++) { vs.push_back(&h->verts[vid[h->faces[f].v[k]]]); nb[vid[h->faces[f].v[k]]].push_back(&h->facets[f]); }
    h->facets[f].vertices = NewSet(h, vs);
    h->facets[f].toporient = 0;
  }
  for (int i = 0; i < nv; i++) h->verts[i].neighbors = NewSet(h, nb[i]);
  qh->num_vertices = nv; qh->num_facets = nf;
  qh->vertex_list = &h->verts[0]; qh->facet_list = &h->facets[0];
}
int qh_pointid(qhT* qh, pointT* point) {
  Hull* h = (Hull*)qh->priv;
  if (!h || !point) return -1;
  long off = point - h->pts;
  if (off < 0 || off % 3 || off / 3 >= h->n) return -1;
  return (int)(off / 3);
}
void qh_freeqhull(qhT* qh, boolT) {
  Hull* h = (Hull*)qh->priv;
  if (h) { for (setT* s : h->sets) free(s); delete h; qh->priv = nullptr; }
}
void qh_memfreeshort(qhT*, int* a, int* b) { *a = *b = 0; }
}
