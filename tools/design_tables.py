#!/usr/bin/env python3
"""Regenerate the generated part of DESIGN.md (between the GENERATED markers): seeded changes and which checks catch them,
authors' own mutants per property, known findings summary."""
import json, os, glob, collections
V = '/verif'
out = []
out.append('### 10.4 Independently seeded changes (`/verif/seeded/<name>/`) and which checks catch them\n')
out.append('Each change was written by a sub-agent that saw only the property text and a scratch worktree (nothing from /verif). '
           'I confirmed each one in a scratch worktree: it applies, the 86 pinned tests pass with it, its demonstration passes on the '
           'unchanged tree and fails with the change; then ran the property\'s quick check against it (seed 1). "after strengthening" '
           'records what was changed in the check when the first evaluation missed it.\n')
out.append('| seeded change | property | needs to manifest | first evaluation (quick, seed 1) | after strengthening |')
out.append('|---|---|---|---|---|')
for d in sorted(glob.glob(V + '/seeded/*/meta.json')):
  m = json.load(open(d)); n = os.path.basename(os.path.dirname(d)); c = m.get('confirmed_by_verif', {})
  fe = '; '.join('%s %s' % (k, v) for k, v in c.get('checks_first_evaluation', {}).items())
  aft = c.get('checks_after_strengthening')
  afts = '' if not aft else '; '.join('%s: %s' % (k, v) for k, v in aft.items())
  need = (m.get('needs_to_manifest') or '').replace('\n', ' ').replace('|', '/')[:260]
  out.append('| %s | %s | %s | %s | %s |' % (n, m.get('property'), need, fe, afts.replace('|', '/')))
out.append('')
out.append('### 10.5 Check authors\' own sensitivity mutants (`/verif/mutants/<ID>/*.diff`, each confirmed caught with `tools/mut.sh`)\n')
for d in sorted(glob.glob(V + '/mutants/C*')):
  fs = sorted(os.path.basename(f)[:-5] for f in glob.glob(d + '/*.diff'))
  out.append('* **%s** (%d): %s' % (os.path.basename(d), len(fs), ', '.join(fs)))
out.append('')
kf = json.load(open(V + '/known_findings.json'))['findings']
out.append('### 10.6 Known findings by property (status in `known_findings.json`)\n')
by = collections.defaultdict(lambda: [0, 0])
for e in kf: by[e['property']][0 if e['status'] == 'known' else 1] += 1
out.append('| property | recorded (known) | repaired (fixed) |'); out.append('|---|---|---|')
for p in sorted(by): out.append('| %s | %d | %d |' % (p, by[p][0], by[p][1]))
out.append('')
text = '\n'.join(out)
p = V + '/DESIGN.md'; s = open(p).read()
B, E = '<!-- GENERATED:BEGIN -->', '<!-- GENERATED:END -->'
if B in s: s = s[:s.index(B)] + B + '\n' + text + '\n' + E + s[s.index(E) + len(E):]
else: s = s.rstrip('\n') + '\n\n' + B + '\n' + text + '\n' + E + '\n'
open(p, 'w').write(s); print('DESIGN.md tables regenerated:', len(out), 'lines')
