#!/venv/bin/python
"""Regenerate /verif/MANIFEST.json from the metadata in checks/cNN.py (single source of truth)."""
import importlib
import json
import os
import sys

VERIF = os.path.dirname(os.path.dirname(os.path.abspath(__file__)))
sys.path.insert(0, VERIF)


def main():
  props = [json.loads(l) for l in open(os.path.join(VERIF, 'properties.jsonl'))]
  checks, na = [], []
  for p in props:
    pid = p['id']
    path = os.path.join(VERIF, 'checks', pid.lower() + '.py')
    mod = None
    registered = set(open(os.path.join(VERIF, 'checks', 'REGISTERED')).read().split())
    if os.path.exists(path) and pid in registered:
      mod = importlib.import_module('checks.' + pid.lower())
    if mod is None or getattr(mod, 'NOT_APPLICABLE', None):
      na.append(dict(property_id=pid, reason=getattr(mod, 'NOT_APPLICABLE', None) or
                     'no check registered yet (design in DESIGN.md section 7, %s)' % pid))
      continue
    c = dict(
        property_id=pid,
        quick_cmd='./verif %s --tier quick' % pid,
        thorough_cmd='./verif %s --tier thorough' % pid,
        evidence_file='/verif/evidence/%s.json' % pid,
        replay_cmd_template='./verif %s --replay {path}' % pid,
        engine='vf',
        level_claimed=dict(category=getattr(mod, 'LEVEL', 'exploration'), text=mod.LEVEL_TEXT.strip(),
                           design_ref='DESIGN.md section 7, %s' % pid),
        level_note=mod.LEVEL_NOTE.strip(),
        technique=mod.TECHNIQUE.strip(),
    )
    checks.append(c)
  man = dict(
      version=1,
      setup_cmd=('/venv/bin/pip install -q --no-index --find-links /opt/veriftools/wheels hypothesis >/dev/null 2>&1; '
                 '/venv/bin/pip install -q --no-index --find-links /opt/veriftools/wheels --target /verif/.deps atheris '
                 '>/dev/null 2>&1; cd /verif && /venv/bin/python -m vf.build rel asan noavx fuzz tsan'),
      hooks=dict(guard='MUJOCO_VERIF_HOOKS', enable='no source hooks: checks compile /repo working tree directly '
                 '(vf/build.py) and observe through public/MJAPI symbols, shims and pre-included headers',
                 baseline_off_cmd='cd /repo && /venv/bin/python -m pytest -ra -q -p no:cacheprovider --timeout=900 '
                 '--continue-on-collection-errors', source_commits=[], add_only=True),
      engines=[dict(name='vf', path='/verif/vf', serves_properties=[c['property_id'] for c in checks],
                    kind_free_text='property-based testing / fuzzing harness: direct clang build of the working tree, '
                    'ctypes binding with reflection from the tree headers, Hypothesis generators, numpy oracles, '
                    'ASan/TSan variants, libFuzzer/atheris targets')],
      checks=checks,
      not_applicable=na,
      notes='Run any check with ./verif <ID> [--tier quick|thorough] [--seed N] [--replay file]; VERIF_SEED / VERIF_TIER '
            'are honoured. VERIF_REPO=<dir> points the build at another copy of the tree (used for seeded mutants).',
  )
  with open(os.path.join(VERIF, 'MANIFEST.json'), 'w') as f:
    json.dump(man, f, indent=1)
  print('checks', len(checks), 'not_applicable', len(na))


if __name__ == '__main__':
  main()
