#!/usr/bin/env python3
"""usage: tools/kf_add.py <property> <fingerprint> <what...>   (adds a status=known entry to known_findings.json)"""
import json, sys
p = '/verif/known_findings.json'
kf = json.load(open(p))
prop, fp, what = sys.argv[1], sys.argv[2], ' '.join(sys.argv[3:])
if any(e['property'] == prop and e['fingerprint'] == fp for e in kf['findings']):
  print('already listed'); sys.exit(0)
kf['findings'].append(dict(property=prop, status='known', fingerprint=fp, what=what))
json.dump(kf, open(p, 'w'), indent=1)
print('added', prop, fp)
