#!/usr/bin/env python3
"""Write the task file for an independent 'breaker' agent: property text only, nothing from /verif's checks."""
import json, sys
props = {json.loads(l)['id']: json.loads(l) for l in open('/verif/properties.jsonl')}
ids = sys.argv[1:]
tag = '_'.join(ids)
out = ['# Task: seed realistic property-breaking changes into google-deepmind/mujoco', '',
'You are given semantic properties of the MuJoCo code base at /repo (a development snapshot: APIs differ from released versions; read the headers and sources).',
'For EACH property below, produce %d DIFFERENT small source changes ("seeded defects"), each of which' % (2 if len(ids) > 1 else 3),
'- breaks the property (for at least some inputs / histories / schedules),',
'- still compiles, and keeps the repository\'s pinned test suite green: `cd <worktree> && /venv/bin/python -m pytest -q -p no:cacheprovider test/doc doc/ext` (86 passed),',
'- is REALISTIC (the kind of slip a maintainer could make in a refactor: a missed case, wrong index, stale cache/flag, dropped copy, off-by-one at a boundary, wrong order of two steps, a condition that ignores one option) and',
'- needs something SPECIFIC to manifest — a particular option combination, model structure, multi-step sequence of calls, unusual value, boundary size, interleaving, or two cooperating sites that each look fine alone. NOT something that every ordinary simulation or the first smoke test would expose at once. Prefer subtle over blatant; vary the mechanism between your changes (different files/functions where possible).',
'',
'Rules:',
'- Work ONLY in your own scratch git worktrees: `git -C /repo worktree add --detach /var/tmp/breaker/wt_%s_<k> HEAD` (one per change, or reuse one and `git checkout -- .` between changes). NEVER edit /repo itself, never commit there. Do NOT read, list or use anything under /verif (it contains the verification machinery your changes will be evaluated against; your work must be independent of it).' % tag,
'- Building: CMake does not work offline. Use the build kit described in /var/tmp/mjbuildkit/README.md (read it first): it compiles a worktree into a shared library and offers a ctypes Python binding. Use your own cache dir (VERIF_CACHE=/var/tmp/mjbuildkit/cache_%s). Pure-Python parts of the repo need no build.' % tag,
'- For each change deliver, in /var/tmp/seeded/<ID>_<shortname>/ :',
'  * patch.diff  (unified diff, `git apply`-able at the repo root, produced by `git diff` in your worktree)',
'  * a demonstration: demo.py (or demo.cc + how to build it) that exits 0 / prints PASS on the UNCHANGED tree and exits non-zero / prints FAIL with the patch applied. It must take the worktree path as argv[1] (or env VERIF_REPO) and use the build kit; it must be deterministic.',
'  * meta.json: {"property": "<ID>", "name": "...", "files": [...], "what_changes": "...", "why_it_breaks_the_property": "...", "needs_to_manifest": "... the specific input/sequence/option/interleaving ...", "ran": ["commands you ran and their results: pinned tests, demo without patch, demo with patch"]}',
'- Verify all of it yourself: pinned tests pass with the patch, demo passes without and fails with the patch.',
'- Clean up: remove your worktrees (`git -C /repo worktree remove --force <dir>`) and your cache dir when done. The machine is shared: at most ~3 heavy processes at a time; never `pkill` by pattern.',
'- Final answer: a short list of the changes (directory, one line each on what needs to happen for it to manifest).', '', '## Properties', '']
for i in ids:
  p = props[i]
  out += ['### %s — %s' % (i, p['title']), '', p['statement'], '', 'Quantified over: ' + p['quantifier']['text'], '',
          'Code it is anchored in: ' + ', '.join(p['anchors']['files']), '',
          'What in the code is meant to make it hold: ' + '; '.join('%s (%s)' % (m.get('name', ''), m.get('where', '')) for m in p['anchors'].get('mechanism', [])), '']
open('/var/tmp/breaker/task_%s.md' % tag, 'w').write('\n'.join(out))
print('/var/tmp/breaker/task_%s.md' % tag)
