#!/bin/bash
# usage: tools/mut.sh <name> <patch.diff> <ID> [ID...]    (env: TIER=quick, SEED=1)
# Applies a patch to a scratch worktree of /repo (outside /repo and /verif), runs the checks against it
# with VERIF_REPO, prints their exit codes, and removes the worktree again.
set -u
name=$1; patch=$(realpath "$2"); shift 2
dir=/var/tmp/vf_mut_$name
git -C /repo worktree remove --force "$dir" >/dev/null 2>&1; rm -rf "$dir"
git -C /repo worktree add --detach "$dir" HEAD >/dev/null 2>&1 || { echo "worktree failed"; exit 2; }
if ! git -C "$dir" apply "$patch"; then echo "patch does not apply"; git -C /repo worktree remove --force "$dir"; exit 2; fi
cd /verif
for id in "$@"; do
  VERIF_REPO=$dir timeout ${TIMEOUT:-1800} ./verif "$id" --tier "${TIER:-quick}" --seed "${SEED:-1}" > /var/tmp/vf_mut_${name}_$id.log 2>&1
  rc=$?
  echo "MUTANT $name check=$id rc=$rc $(grep -m1 -E 'VIOLATION|HARNESS-ERROR|KNOWN-FINDING' /var/tmp/vf_mut_${name}_$id.log | cut -c1-200)"
done
git -C /repo worktree remove --force "$dir" >/dev/null 2>&1; rm -rf "$dir"
git -C /repo worktree prune
