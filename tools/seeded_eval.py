#!/usr/bin/env python3
"""usage: tools/seeded_eval.py <seeded_dir> [--tier quick] [--seeds 1,2] [--checks C01,C04]
Confirms a seeded change (patch.diff + demo + meta.json): pinned tests pass with it, demo passes without / fails with it,
then runs the property's check(s) against it. Prints a JSON summary; leaves no worktree behind."""
import json, os, subprocess, sys, time, argparse
ap = argparse.ArgumentParser(); ap.add_argument('dir'); ap.add_argument('--tier', default='quick'); ap.add_argument('--seeds', default='1')
ap.add_argument('--checks', default=''); ap.add_argument('--skip-confirm', action='store_true')
a = ap.parse_args()
d = os.path.abspath(a.dir); meta = json.load(open(os.path.join(d, 'meta.json')))
name = os.path.basename(d.rstrip('/')); wt = '/var/tmp/vf_seed_' + name
checks = a.checks.split(',') if a.checks else [meta['property']]
class _R:
  pass


def sh(cmd, **kw):
  # never read child output through pipes: orphaned grandchildren (e.g. llvm-symbolizer) can keep them open forever
  import tempfile
  with tempfile.TemporaryFile('w+') as fo, tempfile.TemporaryFile('w+') as fe:
    p = subprocess.run(cmd, shell=True, stdout=fo, stderr=fe, stdin=subprocess.DEVNULL, **kw)
    fo.seek(0); fe.seek(0)
    r = _R(); r.returncode = p.returncode; r.stdout = fo.read(); r.stderr = fe.read()
  return r
sh('git -C /repo worktree remove --force %s; rm -rf %s' % (wt, wt))
r = sh('git -C /repo worktree add --detach %s HEAD' % wt); assert r.returncode == 0, r.stderr
res = dict(name=name, property=meta['property'])
env = dict(os.environ, VERIF_REPO=wt, VERIF_CACHE='/verif/.cache')
demo = None
for c in ('demo.py', 'demo.sh'):
  if os.path.exists(os.path.join(d, c)): demo = c
def run_demo():
  if demo is None: return None
  cmd = ('/venv/bin/python %s %s' if demo.endswith('.py') else 'bash %s %s') % (os.path.join(d, demo), wt)
  p = sh(cmd, env=env, timeout=1800, cwd=d)
  return p.returncode, (p.stdout + p.stderr)[-300:]
try:
  if not a.skip_confirm:
    res['demo_unpatched'] = run_demo()
  p = sh('git -C %s apply %s' % (wt, os.path.join(d, 'patch.diff')))
  res['applies'] = p.returncode == 0
  if not res['applies']: res['apply_err'] = p.stderr[-300:]
  else:
    if not a.skip_confirm:
      t = sh('cd %s && /venv/bin/python -m pytest -q -p no:cacheprovider test/doc doc/ext 2>&1 | tail -1' % wt)
      res['pinned_tests'] = t.stdout.strip()
      res['demo_patched'] = run_demo()
    res['checks'] = {}
    for c in checks:
      for s in a.seeds.split(','):
        t0 = time.time()
        logf = '/var/tmp/seeded_evalrun_%s_%s_%s.log' % (name, c, s)
        # output to a file, not a pipe: ASan children can leave orphan symbolizer processes holding inherited pipes open
        p = subprocess.run('cd /verif && ./verif %s --tier %s --seed %s > %s 2>&1' % (c, a.tier, s, logf), shell=True, env=env,
                           timeout=7200, stdin=subprocess.DEVNULL)
        out = open(logf, errors='replace').read()
        line = [l for l in out.split('\n') if l.startswith(('VIOLATION', 'HARNESS-ERROR'))]
        res['checks']['%s/seed%s' % (c, s)] = dict(rc=p.returncode, first=(line[0][:160] if line else ''), wall=round(time.time() - t0))
finally:
  sh('git -C /repo worktree remove --force %s; rm -rf %s; git -C /repo worktree prune' % (wt, wt))
print(json.dumps(res, indent=1))
