#!/usr/bin/env python3
"""Collect the final re-evaluation of every kept seeded change (tools/seeded_eval.py --skip-confirm --seeds 1 run against the
final checks) from /var/tmp/seeded_final/*.json into /verif/seeded/FINAL_EVAL.json."""
import glob, json, os
out = {}
for f in sorted(glob.glob('/var/tmp/seeded_final/*.json')):
  try:
    r = json.load(open(f))
  except Exception:
    continue
  res = {}
  for k, v in r.get('checks', {}).items():
    res[k] = dict(verdict='caught' if v['rc'] == 1 else 'missed' if v['rc'] == 0 else 'rc=%s' % v['rc'], first=v.get('first', '')[:140], wall_s=v.get('wall'))
  out[r['name']] = dict(applies=r.get('applies'), checks=res)
json.dump(out, open('/verif/seeded/FINAL_EVAL.json', 'w'), indent=1, sort_keys=True)
n = len(out); c = sum(1 for v in out.values() if v['checks'] and all(x['verdict'] == 'caught' for x in v['checks'].values()))
print('seeded changes: %d, caught at quick seed 1 by the final checks: %d' % (n, c))
print('not caught:', [k for k, v in out.items() if not (v['checks'] and all(x['verdict'] == 'caught' for x in v['checks'].values()))])
