#!/usr/bin/env python3
"""Copy confirmed seeded changes from /var/tmp/seeded into /verif/seeded/<name>/ with meta.json augmented by what I ran.
usage: tools/seeded_keep.py [name ...]   (default: all with an evaluation json)"""
import json, os, shutil, sys, glob
names = sys.argv[1:] or [os.path.basename(f)[len('seeded_eval_'):-5] for f in sorted(glob.glob('/var/tmp/seeded_eval_*.json'))]
over = {}
if os.path.exists('/verif/seeded/RECHECKS.json'):
  over = json.load(open('/verif/seeded/RECHECKS.json'))
for n in names:
  src = '/var/tmp/seeded/' + n
  try:
    r = json.load(open('/var/tmp/seeded_eval_%s.json' % n))
  except Exception:
    print('skip (no/invalid eval)', n); continue
  du, dp = r.get('demo_unpatched'), r.get('demo_patched')
  ok = r.get('applies') and du and du[0] == 0 and dp and dp[0] != 0 and '86 passed' in r.get('pinned_tests', '')
  if not ok:
    print('NOT CONFIRMED', n, du and du[0], dp and dp[0], r.get('pinned_tests')); continue
  dst = '/verif/seeded/' + n
  os.makedirs(dst, exist_ok=True)
  for f in os.listdir(src):
    if os.path.isfile(os.path.join(src, f)) and os.path.getsize(os.path.join(src, f)) < 2_000_000:
      shutil.copy(os.path.join(src, f), os.path.join(dst, f))
  meta = json.load(open(os.path.join(src, 'meta.json')))
  meta['breaks_property'] = meta.get('property')
  meta['confirmed_by_verif'] = dict(
      ran=['git worktree of /repo HEAD + git apply patch.diff', 'pinned tests: ' + r.get('pinned_tests', ''),
           'demo on unchanged tree: exit %s' % du[0], 'demo with patch: exit %s' % dp[0]],
      checks_first_evaluation={k: ('caught' if v['rc'] == 1 else 'missed' if v['rc'] == 0 else 'harness-error rc=%s' % v['rc']) for k, v in r.get('checks', {}).items()},
      checks_after_strengthening=over.get(n))
  json.dump(meta, open(os.path.join(dst, 'meta.json'), 'w'), indent=1)
  print('kept', n, meta['confirmed_by_verif']['checks_first_evaluation'], over.get(n) or '')
