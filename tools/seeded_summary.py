#!/usr/bin/env python3
import json, glob, os
for f in sorted(glob.glob('/var/tmp/seeded_eval_*.json')):
  try: r = json.load(open(f))
  except Exception as e:
    print(os.path.basename(f), 'UNPARSABLE', open(f).read()[-200:].replace('\n', ' ')); continue
  du = r.get('demo_unpatched'); dp = r.get('demo_patched')
  ok = r.get('applies') and (du is None or du[0] == 0) and (dp is None or dp[0] != 0) and '86 passed' in r.get('pinned_tests', '86 passed')
  ch = ' '.join('%s:rc%s' % (k, v['rc']) for k, v in r.get('checks', {}).items())
  print('%-45s confirmed=%s demo=%s/%s tests=%s | %s' % (r['name'], bool(ok), du and du[0], dp and dp[0], r.get('pinned_tests', '-')[:10], ch))
