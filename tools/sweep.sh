#!/bin/bash
# usage: tools/sweep.sh <tier> <seed> <parallel> [ID...]   runs the registered checks of this checkout, prints one line per check
tier=${1:-quick}; seed=${2:-1}; par=${3:-3}; shift 3 2>/dev/null
cd "$(dirname "$0")/.."
ids="$*"; [ -z "$ids" ] && ids=$(cat checks/REGISTERED)
export VERIF_CACHE=${VERIF_CACHE:-/verif/.cache}
export PYTHONPATH=/verif/.deps${PYTHONPATH:+:$PYTHONPATH}
mkdir -p work/sweep
run1() {
  id=$1; t0=$(date +%s)
  ./verif $id --tier $tier --seed $seed > work/sweep/${id}_${tier}_$seed.log 2>&1 < /dev/null; rc=$?
  echo "SWEEP $id tier=$tier seed=$seed rc=$rc wall=$(( $(date +%s) - t0 ))s $(grep -c '^VIOLATION' work/sweep/${id}_${tier}_$seed.log) violations; $(tail -n 1 work/sweep/${id}_${tier}_$seed.log | cut -c1-160)"
}
export -f run1; export tier seed
echo $ids | tr ' ' '\n' | xargs -P $par -I{} bash -c 'run1 {}'
echo SWEEP-DONE
