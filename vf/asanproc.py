"""Supervised worker processes for memory-safety checks (C19/C20/C21/C30).

Parent side:
  res = run_jobs('checks.c21_worker', jobs, nproc=16, asan=True, tag='C21')
    jobs : list of JSON-able job objects; they are split round-robin into <= nproc chunks; every chunk is handled
           by one worker process  `python -m <module> <jobs.json> <out.jsonl>`.
    res  : list (same order as jobs) of dicts
             {'ok': True,  'result': <whatever the worker returned for the job>}
             {'ok': False, 'rc': rc, 'report': sanitizer report text, 'kind': ..., 'frame': ..., 'stderr': tail}
           A worker that dies is restarted on the remaining jobs of its chunk, so one crash does not hide the next.
Worker side:
  asanproc.worker_main(handler)   # handler(job) -> JSON-able result; called once per job, journaled before the call
"""
import json
import os
import re
import subprocess
import sys
import tempfile
import threading
import time

from . import build as vb
from . import runner

WORK = os.path.join(runner.VERIF, 'work')


def asan_env(log_path, extra_opts=''):
  env = dict(os.environ)
  env['PYTHONHASHSEED'] = '0'
  env['PYTHONPATH'] = runner.VERIF + (':' + env['PYTHONPATH'] if env.get('PYTHONPATH') else '')
  env['LD_PRELOAD'] = vb.ASAN_RT
  env['ASAN_OPTIONS'] = ('detect_leaks=0:exitcode=99:abort_on_error=0:allocator_may_return_null=1:'
                         'handle_abort=1:log_path=%s%s' % (log_path, (':' + extra_opts) if extra_opts else ''))
  return env


def plain_env():
  env = dict(os.environ)
  env['PYTHONHASHSEED'] = '0'
  env['PYTHONPATH'] = runner.VERIF + (':' + env['PYTHONPATH'] if env.get('PYTHONPATH') else '')
  env.pop('LD_PRELOAD', None)
  return env


_FRAME = re.compile(r'^\s*#(\d+) 0x[0-9a-f]+ in (\S+) (\S+)', re.M)


def is_asan_compile_loop(res):
  """True if a stalled ASan worker was spinning in the known ASan-build-only loop of mjCModel::Compile (a compile-time
  engine error with an open stack frame: mj_deleteData's dangling-frame check raises inside the catch block and the
  compiler's handler longjmps back into the try block). Instrumentation artefact, not a property violation."""
  r = (res.get('report') or '') + (res.get('stderr') or '')
  return res.get('kind') == 'stall' and 'mjCModel::Compile' in r


def classify(report):
  """(kind, innermost frame inside the tree under test) of a sanitizer report / abort message."""
  kind = 'unknown'
  m = re.search(r'ERROR: AddressSanitizer: ([\w-]+)', report)
  if m:
    kind = m.group(1)
    if kind == 'SEGV':
      mm = re.search(r'The signal is caused by a (\w+) memory access', report)
      if mm:
        kind = 'SEGV-' + mm.group(1)
      if re.search(r'Hint: address points to the zero page', report):
        kind += '-nullpage'
  elif 'VF-UNGUARDED-MJU-ERROR' in report:
    kind = 'unguarded-mju_error'
  elif 'runtime error:' in report:
    kind = 'ubsan'
  frame = None
  for fm in _FRAME.finditer(report):
    fn, loc = fm.group(2), fm.group(3)
    if '/src/' in loc or '/plugin/' in loc or '/include/mujoco' in loc:
      if '/verif/' in loc and '/vf_mut_' not in loc:
        continue
      frame = '%s %s' % (fn, re.sub(r'^.*?/(src|plugin|include)/', r'\1/', loc))
      break
  return kind, frame


def _collect_report(log_prefix, pid):
  txt = ''
  d = os.path.dirname(log_prefix)
  base = os.path.basename(log_prefix)
  for f in sorted(os.listdir(d)):
    if f.startswith(base + '.'):
      p = os.path.join(d, f)
      try:
        txt += open(p, errors='replace').read()[:20000]
        os.unlink(p)
      except OSError:
        pass
  return txt


def _spawn(cmd, env, stem, log_prefix, timeout, stall=None, watch=()):
  """Run a worker with stdout/stderr in files (no pipes: sanitizer symbolizer children may outlive the worker and keep
  a pipe open). A worker that wrote a sanitizer report but does not exit is killed after a grace period."""
  import signal
  errf = stem + '.stderr'
  with open(errf, 'w') as ef:
    p = subprocess.Popen(cmd, cwd=runner.VERIF, env=env, stdout=ef, stderr=ef, stdin=subprocess.DEVNULL,
                         start_new_session=True)
    t0 = time.time()
    rc = None
    while True:
      try:
        rc = p.wait(timeout=0.5)
        break
      except subprocess.TimeoutExpired:
        pass
      now = time.time()
      stuck = False
      if log_prefix:
        d, base = os.path.dirname(log_prefix), os.path.basename(log_prefix)
        for f in os.listdir(d):
          if f.startswith(base + '.'):
            try:
              st = os.stat(os.path.join(d, f))
            except OSError:
              continue
            if st.st_size > 0 and now - st.st_mtime > 20:
              stuck = True
      stalled = False
      if stall:
        last = t0
        for f in watch:
          try:
            last = max(last, os.stat(f).st_mtime)
          except OSError:
            pass
        stalled = now - last > stall
      if stuck or stalled or now - t0 > timeout:
        bt = ''
        if stalled and not stuck:
          bt = _gdb_bt(p.pid)
        try:
          os.killpg(p.pid, signal.SIGKILL)
        except OSError:
          pass
        p.wait()
        rc = -998 if stuck else (-997 if stalled else -999)
        if bt:
          ef.write('\nSTALL-BACKTRACE\n' + bt)
        break
    try:
      os.killpg(p.pid, signal.SIGKILL)      # stray symbolizer children
    except OSError:
      pass
  try:
    err = open(errf, errors='replace').read()[-6000:]
    os.unlink(errf)
  except OSError:
    err = ''
  if rc == -999:
    err = 'TIMEOUT ' + err
  if rc == -997:
    err = 'STALL (no progress for %s s) ' % stall + err
  return rc, err


def _gdb_bt(pid):
  import shutil
  if not shutil.which('gdb'):
    return ''
  try:
    p = subprocess.run(['gdb', '-p', str(pid), '-batch', '-ex', 'bt 14'], capture_output=True, text=True, errors='replace',
                       timeout=90)
    return '\n'.join(l[:200] for l in p.stdout.split('\n') if l.startswith('#'))
  except Exception as e:
    return 'gdb failed: %r' % e


def _run_chunk(module, idxs, jobs, results, asan, tag, chunk_id, timeout, variant_env, stall=None):
  todo = list(idxs)
  tmpd = os.path.join(WORK, 'proc', tag)
  os.makedirs(tmpd, exist_ok=True)
  attempt = 0
  while todo:
    attempt += 1
    stem = os.path.join(tmpd, 'c%d_%d_%d' % (os.getpid(), chunk_id, attempt))
    jf, of = stem + '.jobs.json', stem + '.out.jsonl'
    with open(jf, 'w') as f:
      json.dump([[i, jobs[i]] for i in todo], f)
    if os.path.exists(of):
      os.unlink(of)
    log_prefix = stem + '.asan'
    env = asan_env(log_prefix) if asan else plain_env()
    env.update(variant_env or {})
    rc, err = _spawn([sys.executable, '-m', module, jf, of], env, stem, log_prefix if asan else None, timeout,
                     stall=stall, watch=(of, of + '.journal'))
    started = None
    done = set()
    if os.path.exists(of):
      for line in open(of):
        try:
          rec = json.loads(line)
        except ValueError:
          continue
        if 'start' in rec:
          started = rec['start']
        elif 'done' in rec:
          results[rec['done']] = dict(ok=True, result=rec['result'])
          done.add(rec['done'])
    report = _collect_report(log_prefix, None) if asan else ''
    for f in (jf, of):
      try:
        os.unlink(f)
      except OSError:
        pass
    todo = [i for i in todo if i not in done]
    journal = None
    if os.path.exists(of + '.journal'):
      try:
        journal = json.load(open(of + '.journal'))
      except Exception:
        journal = None
      try:
        os.unlink(of + '.journal')
      except OSError:
        pass
    if not todo:
      break
    # worker died (or exited early): attribute to the journaled job
    bad = started if (started is not None and started not in done) else None
    if bad is None:
      # died outside any job (import/setup): harness problem, give up on this chunk
      for i in todo:
        results[i] = dict(ok=False, rc=rc, report=report[:6000], kind='worker-setup', frame=None, stderr=err[-3000:],
                          harness=True)
      break
    full = report + '\n' + err[-4000:]
    kind, frame = classify(full)
    if rc == -999 and kind == 'unknown':
      kind = 'timeout'
    if rc == -997:
      kind = 'stall'
      report = (report + '\n' + err[err.find('STALL-BACKTRACE'):])[:8000] if 'STALL-BACKTRACE' in err else report
    results[bad] = dict(ok=False, rc=rc, report=report[:8000], kind=kind, frame=frame, stderr=err[-3000:],
                        journal=journal)
    todo = [i for i in todo if i != bad]


def run_jobs(module, jobs, nproc=8, asan=True, tag='X', timeout=1200, env=None, stall=None):
  """Run jobs in supervised worker processes; see module docstring."""
  n = len(jobs)
  results = [None] * n
  if not n:
    return results
  nproc = max(1, min(nproc, n))
  chunks = [list(range(c, n, nproc)) for c in range(nproc)]
  ths = []
  for ci, idxs in enumerate(chunks):
    t = threading.Thread(target=_run_chunk, args=(module, idxs, jobs, results, asan, tag, ci, timeout, env, stall))
    t.start()
    ths.append(t)
  for t in ths:
    t.join()
  for i in range(n):
    if results[i] is None:
      results[i] = dict(ok=False, rc=None, report='', kind='lost', frame=None, stderr='', harness=True)
  return results


_JOURNAL = [None]


def journal(obj):
  """Worker side: persist the case about to be executed (reported by the parent if the worker dies)."""
  if _JOURNAL[0]:
    with open(_JOURNAL[0], 'w') as f:
      json.dump(runner._jsonable(obj), f)


class WorkerCheck(runner.Check):
  """A Check living in a worker process: collects instead of printing; export() -> dict for merge()."""

  def __init__(self, pid, tier, seed):
    runner.Check.__init__(self, pid, tier, seed)
    self.collected = []

  def violation(self, msg, replay, bucket=None, fingerprint=None):
    bucket = bucket or 'default'
    if any(v['bucket'] == bucket for v in self.collected):
      return
    self.collected.append(dict(bucket=bucket, msg=msg, replay=runner._jsonable(replay), fingerprint=fingerprint))

  def export(self):
    return dict(evaluations=self.evaluations, nontrivial=sorted(self.nontrivial), samples=self.samples,
                labels=dict(self.labels), discards=dict(self.discards), violations=self.collected,
                extra=runner._jsonable(self.extra))


def merge(ck, exported, extra_prefix=None):
  """Parent side: fold a worker's exported evidence / violations into the real Check."""
  ck.evaluations += exported['evaluations']
  ck.nontrivial |= set(exported['nontrivial'])
  for s in exported['samples']:
    if len(ck.samples) < ck.max_samples:
      ck.samples.append(s)
  ck.labels.update(exported['labels'])
  ck.discards.update(exported['discards'])
  for v in exported['violations']:
    ck.violation(v['msg'], v['replay'], bucket=v['bucket'], fingerprint=v.get('fingerprint'))


def worker_main(handler, setup=None):
  """Entry point of a worker module: python -m <module> jobs.json out.jsonl"""
  jf, of = sys.argv[1], sys.argv[2]
  with open(jf) as f:
    items = json.load(f)
  _JOURNAL[0] = of + '.journal'
  ctx = setup() if setup else None
  with open(of, 'a') as out:
    for i, job in items:
      out.write(json.dumps({'start': i}) + '\n')
      out.flush()
      os.fsync(out.fileno())
      res = handler(ctx, job) if setup else handler(job)
      out.write(json.dumps({'done': i, 'result': runner._jsonable(res)}) + '\n')
      out.flush()
  sys.stdout.flush()
  os._exit(0)   # skip interpreter teardown (ctypes objects owning engine memory, ASan atexit checks)
