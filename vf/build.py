"""Verification build of google-deepmind/mujoco from the working tree (no CMake).

Builds shared objects from VERIF_REPO (default /repo) by direct compiler
invocation into a content-addressed cache under /verif/.cache.  See DESIGN.md 2.2.
"""
import concurrent.futures as cf
import fcntl
import glob
import hashlib
import os
import subprocess
import sys
import time

VERIF = os.path.dirname(os.path.dirname(os.path.abspath(__file__)))
REPO = os.environ.get('VERIF_REPO', '/repo')
CACHE = os.environ.get('VERIF_CACHE', os.path.join(VERIF, '.cache'))
SHIMS = os.path.join(VERIF, 'shims')
NATIVE = os.path.join(VERIF, 'native')
CLANG = 'clang'
CLANGXX = 'clang++'
ASAN_RT = '/usr/lib/llvm-14/lib/clang/14.0.6/lib/linux/libclang_rt.asan-x86_64.so'

COMMON_DEFS = ['-D_GNU_SOURCE', '-DCCD_STATIC_DEFINE', '-DMUJOCO_DLL_EXPORTS',
               '-DMC_IMPLEM_ENABLE=0', '-fPIC', '-fvisibility=default', '-w']

VARIANTS = {
    'rel': dict(cflags=['-O2', '-mavx', '-DmjUSEPLATFORMSIMD'], ldflags=[]),
    'noavx': dict(cflags=['-O2'], ldflags=[]),
    'asan': dict(cflags=['-O1', '-g', '-fno-omit-frame-pointer', '-mavx', '-DmjUSEPLATFORMSIMD',
                         '-fsanitize=address', '-DADDRESS_SANITIZER'],
                 ldflags=['-fsanitize=address', '-shared-libasan']),
    'tsan': dict(cflags=['-O1', '-g', '-mavx', '-DmjUSEPLATFORMSIMD', '-fsanitize=thread'],
                 ldflags=['-fsanitize=thread']),
    'fuzz': dict(cflags=['-O1', '-g', '-fno-omit-frame-pointer', '-mavx', '-DmjUSEPLATFORMSIMD',
                         '-fsanitize=fuzzer-no-link,address'],
                 ldflags=['-fsanitize=address', '-shared-libasan']),
}


def _sha(*parts):
  h = hashlib.sha256()
  for p in parts:
    if isinstance(p, str):
      p = p.encode()
    h.update(p)
    h.update(b'\0')
  return h.hexdigest()


def _read(path):
  with open(path, 'rb') as f:
    return f.read()


def repo_sources(repo=None):
  repo = repo or REPO
  srcs = []
  for pat in ('src/engine/*.c', 'src/engine/*.cc', 'src/user/*.c', 'src/user/*.cc',
              'src/xml/*.cc', 'src/render/noop/*.c',
              'plugin/actuator/*.cc', 'plugin/elasticity/*.cc', 'plugin/stl_decoder/*.cc'):
    srcs += sorted(glob.glob(os.path.join(repo, pat)))
  return srcs


def header_digest(repo=None):
  repo = repo or REPO
  files = []
  for root in ('include', 'src', 'plugin'):
    for dp, dn, fn in os.walk(os.path.join(repo, root)):
      for f in fn:
        if f.endswith(('.h', '.inc', '.hh', '.hpp')):
          files.append(os.path.join(dp, f))
  for dp, dn, fn in os.walk(SHIMS):
    for f in fn:
      files.append(os.path.join(dp, f))
  for f in os.listdir(NATIVE):   # top level only: per-check native code lives in native/<ID>/ and is hashed by build_exe
    if f.endswith(('.h', '.inc')):
      files.append(os.path.join(NATIVE, f))
  files.sort()
  h = hashlib.sha256()
  for f in files:
    h.update(os.path.relpath(f, repo if f.startswith(repo + '/') else VERIF).encode())
    h.update(_read(f))
  return h.hexdigest()


def _compile_one(args):
  src, obj, cmd = args
  if os.path.exists(obj):
    return (src, 0, '')
  tmp = obj + '.tmp%d' % os.getpid()
  p = subprocess.run(cmd + ['-c', src, '-o', tmp], capture_output=True, text=True)
  if p.returncode == 0:
    os.replace(tmp, obj)
  return (src, p.returncode, p.stderr[-4000:])


def includes(repo):
  return ['-I' + os.path.join(repo, 'include'), '-I' + os.path.join(repo, 'src'),
          '-I' + os.path.join(repo, 'plugin'), '-I' + SHIMS, '-I' + NATIVE]


def build(variant='rel', repo=None, extra_sources=(), verbose=False, name='libmujoco_vf'):
  """Build (or fetch from cache) the shared object for `variant`. Returns its path.

  extra_sources: extra C/C++ files (absolute paths under /verif/native) linked in.
  Always linked: native/vf_reflect.c, native/vf_support.cc, shims.
  """
  repo = repo or REPO
  v = VARIANTS[variant]
  os.makedirs(CACHE, exist_ok=True)
  hd = header_digest(repo)
  objdir = os.path.join(CACHE, 'obj')
  os.makedirs(objdir, exist_ok=True)
  srcs = repo_sources(repo)
  native = [os.path.join(NATIVE, 'vf_reflect.c'), os.path.join(NATIVE, 'vf_support.cc'),
            os.path.join(SHIMS, 'tinyxml2.cpp'), os.path.join(SHIMS, 'stubs.cpp'),
            os.path.join(SHIMS, 'vf_hull.cpp')]
  from . import genwrap
  native = [n for n in native if os.path.exists(n)] + list(extra_sources)
  inc = includes(repo)

  def job(s):
    iscxx = s.endswith(('.cc', '.cpp'))
    cmd = [CLANGXX if iscxx else CLANG] + (['-std=c++20'] if iscxx else ['-std=gnu11']) \
        + COMMON_DEFS + v['cflags'] + inc
    key = _sha(_read(s), hd, ' '.join(cmd).replace(repo, '<REPO>'), os.path.basename(s))
    return (s, os.path.join(objdir, key[:32] + '.o'), cmd)
  jobs = [job(s) for s in srcs + native]
  objs = [j[1] for j in jobs]
  libkey = _sha(variant, name, *[os.path.basename(o) for o in objs])
  libdir = os.path.join(CACHE, 'lib')
  os.makedirs(libdir, exist_ok=True)
  lib = os.path.join(libdir, '%s_%s_%s.so' % (name, variant, libkey[:16]))
  if os.path.exists(lib):
    return lib
  lockf = open(os.path.join(CACHE, 'build.lock'), 'w')
  fcntl.flock(lockf, fcntl.LOCK_EX)
  try:
    if os.path.exists(lib):
      return lib
    t0 = time.time()
    todo = [j for j in jobs if not os.path.exists(j[1])]
    if verbose or todo:
      print('[vbuild] variant=%s repo=%s compiling %d/%d objects' % (variant, repo, len(todo), len(jobs)),
            file=sys.stderr)
    with cf.ThreadPoolExecutor(max_workers=int(os.environ.get('VERIF_JOBS', '16'))) as ex:
      results = list(ex.map(_compile_one, todo))
    bad = [r for r in results if r[1] != 0]
    if bad:
      for s, rc, err in bad[:2]:
        print('[vbuild] FAILED %s\n%s' % (s, err), file=sys.stderr)
      raise BuildError('compile failed: %s' % ', '.join(os.path.basename(b[0]) for b in bad))
    # guarded wrappers only for MJAPI functions the tree actually defines
    nm = subprocess.run(['nm', '-g', '--defined-only'] + objs, capture_output=True, text=True).stdout
    defined = {l.split()[-1] for l in nm.split('\n') if len(l.split()) == 3 and l.split()[1] in 'TtWw'}
    wrap_c, wrap_json = genwrap.generate(repo, os.path.join(CACHE, 'gen'), defined)
    wj = job(wrap_c)
    r = _compile_one(wj)
    if r[1] != 0:
      print('[vbuild] FAILED wrappers\n%s' % r[2], file=sys.stderr)
      raise BuildError('wrapper compile failed')
    objs = objs + [wj[1]]
    tmp = lib + '.tmp%d' % os.getpid()
    cmd = [CLANGXX, '-shared', '-o', tmp] + objs + v['ldflags'] + ['-lexpat', '-lpthread', '-ldl', '-lm']
    p = subprocess.run(cmd, capture_output=True, text=True)
    if p.returncode != 0:
      print(p.stderr[-4000:], file=sys.stderr)
      raise BuildError('link failed')
    import shutil
    shutil.copyfile(wrap_json, lib + '.json.tmp')
    os.replace(lib + '.json.tmp', lib + '.json')
    os.replace(tmp, lib)
    print('[vbuild] built %s in %.1fs' % (os.path.basename(lib), time.time() - t0), file=sys.stderr)
    _gc()
    return lib
  finally:
    fcntl.flock(lockf, fcntl.LOCK_UN)
    lockf.close()


def build_exe(name, sources, variant='rel', repo=None, link_lib=True, extra_cflags=(), extra_ldflags=()):
  """Build a native executable from /verif/native sources, linked against the variant's lib."""
  repo = repo or REPO
  v = VARIANTS[variant]
  lib = build(variant, repo) if link_lib else None
  hd = header_digest(repo)
  key = _sha(name, variant, hd, lib or '', ' '.join(extra_cflags), ' '.join(extra_ldflags),
             *[_read(s) for s in sources])
  bindir = os.path.join(CACHE, 'bin')
  os.makedirs(bindir, exist_ok=True)
  exe = os.path.join(bindir, '%s_%s_%s' % (name, variant, key[:16]))
  if os.path.exists(exe):
    return exe
  tmp = exe + '.tmp%d' % os.getpid()
  cmd = [CLANGXX, '-std=c++20'] + COMMON_DEFS + v['cflags'] + list(extra_cflags) + includes(repo) + ['-o', tmp]
  for s in sources:
    if s.endswith('.c'):
      cmd += ['-x', 'c', s, '-x', 'none']
    else:
      cmd.append(s)
  if lib:
    cmd += [lib, '-Wl,-rpath,' + os.path.dirname(lib)]
  cmd += [f for f in v['ldflags'] if f != '-shared-libasan'] + list(extra_ldflags) + ['-lpthread', '-ldl', '-lm']
  if variant in ('asan', 'fuzz') and lib:
    cmd += ['-shared-libasan', '-Wl,-rpath,' + os.path.dirname(ASAN_RT)]
  p = subprocess.run(cmd, capture_output=True, text=True)
  if p.returncode != 0:
    print(p.stderr[-6000:], file=sys.stderr)
    raise BuildError('exe build failed: ' + name)
  os.replace(tmp, exe)
  return exe


def _gc(max_bytes=6 << 30):
  """Keep the cache bounded: drop oldest objects/libs beyond max_bytes."""
  ents = []
  for sub in ('obj', 'lib', 'bin'):
    d = os.path.join(CACHE, sub)
    if not os.path.isdir(d):
      continue
    for f in os.listdir(d):
      p = os.path.join(d, f)
      try:
        st = os.stat(p)
      except OSError:
        continue
      ents.append((st.st_atime, st.st_size, p))
  tot = sum(e[1] for e in ents)
  if tot <= max_bytes:
    return
  ents.sort()
  for at, sz, p in ents:
    if tot <= max_bytes * 0.7:
      break
    try:
      os.unlink(p)
      tot -= sz
    except OSError:
      pass


class BuildError(Exception):
  pass


if __name__ == '__main__':
  for var in (sys.argv[1:] or ['rel']):
    print(build(var, verbose=True))
