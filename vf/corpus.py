"""Corpus of shipped XML models (enumerated at run time from vb.REPO; never hard-coded).

  files = corpus.xml_files()                       # all *.xml under model/ and test/**/testdata/
  for path, m in corpus.iter_models(lib): ...      # the ones that load in this build (try/except)
  paths = corpus.loadable(lib, limit=60, rng=...)  # paths that load, optionally a deterministic sample

A file that does not load in the verification build (missing OBJ/STL/PNG decoders, SDF/sensor plugins, real qhull)
is skipped; skipped counts are available through `stats`.
"""
import glob
import os

from . import build as vb
from . import mj

stats = dict(files=0, loaded=0, skipped=0)


def xml_files(repo=None):
  repo = repo or vb.REPO
  a = sorted(glob.glob(os.path.join(repo, 'model', '**', '*.xml'), recursive=True))
  b = sorted(f for f in glob.glob(os.path.join(repo, 'test', '**', '*.xml'), recursive=True) if '/testdata/' in f)
  return a + b


def rel(path, repo=None):
  repo = repo or vb.REPO
  return os.path.relpath(path, repo)


def iter_models(lib, paths=None):
  """Yield (path, Model) for every corpus file that loads. Engine warnings are drained."""
  for f in (paths if paths is not None else xml_files(lib.repo)):
    stats['files'] += 1
    try:
      m = lib.model_from_file(f)
    except mj.MjError:
      stats['skipped'] += 1
      continue
    stats['loaded'] += 1
    lib.warnings()
    yield f, m


def loadable(lib, limit=None, rng=None, paths=None):
  """Paths of corpus files that load in this build. With limit: a deterministic (rng=numpy RandomState) sample."""
  files = list(paths if paths is not None else xml_files(lib.repo))
  if rng is not None:
    files = [files[i] for i in rng.permutation(len(files))]
  out = []
  for f, m in iter_models(lib, files):
    out.append(f)
    del m
    if limit is not None and len(out) >= limit:
      break
  return out
