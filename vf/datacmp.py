"""Snapshots and bit-exact comparison of mjData objects (shared by C01, C02, C04, C25 ...)."""
import ctypes

import numpy as np

SCALARS = ['time', 'ncon', 'ne', 'nf', 'nl', 'nefc', 'nJ', 'nA', 'nY', 'nisland', 'nidof']
# observables named in the statements of C01/C02/C04: must always agree bit-exactly
TIER_A = ['qpos', 'qvel', 'act', 'history', 'qacc_warmstart', 'plugin_state', 'qacc', 'act_dot', 'sensordata',
          'qfrc_constraint', 'efc_force', 'efc_state', 'contact', 'ctrl', 'qfrc_applied', 'xfrc_applied',
          'eq_active', 'mocap_pos', 'mocap_quat', 'userdata']
# never compared: host pointers, per-object bookkeeping
SKIP = {'plugin', 'plugin_data'}


def _bytes(a):
  if a.size == 0:
    return b''
  return np.ascontiguousarray(a).view(np.uint8).tobytes()


def snapshot(lib, m, d, arena=True):
  """dict name -> raw bytes for every mjData array (+ live arena arrays) and selected scalars."""
  out = {}
  for f in lib.data_fields:
    if f in SKIP:
      continue
    out[f] = _bytes(getattr(d, f))
  if arena:
    for f in lib.arena_fields:
      p, nr, nc, ct = lib.data_field(m, d, f)
      if not p:
        out['@' + f] = None
      else:
        out['@' + f] = _bytes(getattr(d, f))
  for s in SCALARS:
    out['#' + s] = getattr(d, s)
  out['#energy'] = _bytes(d.energy)
  nisl = max(1, min(int(d.nisland), int(lib.enums.mjNISLAND)))
  out['#solver_niter'] = _bytes(d.solver_niter[:nisl])
  return out


def diff(a, b):
  """names whose bytes differ between two snapshots."""
  return [k for k in a if a[k] != b.get(k)]


def first_diff(lib, name, x, y, dtype=np.float64):
  if x is None or y is None:
    return 'one side NULL'
  n = min(len(x), len(y))
  xa = np.frombuffer(x[:n], dtype=np.uint8)
  ya = np.frombuffer(y[:n], dtype=np.uint8)
  idx = np.flatnonzero(xa != ya)
  if len(x) != len(y):
    return 'sizes differ (%d vs %d bytes)' % (len(x), len(y))
  if not len(idx):
    return 'equal'
  return 'first differing byte %d of %d' % (int(idx[0]), n)


def stale_excused(name, a_before, a_after, b_before, b_after):
  """True if every differing byte of (a_after, b_after) was written by neither call (unchanged on both sides)."""
  if None in (a_before, a_after, b_before, b_after):
    return False
  if not (len(a_before) == len(a_after) == len(b_before) == len(b_after)):
    return False
  aa = np.frombuffer(a_after, dtype=np.uint8)
  bb = np.frombuffer(b_after, dtype=np.uint8)
  ab = np.frombuffer(a_before, dtype=np.uint8)
  bbf = np.frombuffer(b_before, dtype=np.uint8)
  d = aa != bb
  # widen to whole 8-byte words so that a word partly equal by accident is treated as one element
  return bool(np.all((aa == ab)[d]) and np.all((bb == bbf)[d]))


def warning_numbers(lib, d):
  """numpy int array of d->warning[i].number."""
  return np.array(d.warning['number'], dtype=np.int64)


def poison_arena(lib, d, byte):
  """Fill the whole arena (free between top-level calls) with a byte so that unwritten arena elements are recognisable."""
  n = int(d.narena)
  if n and int(d.arena):
    ctypes.memset(int(d.arena), byte, n)


def unwritten_excused(a_after, b_after, fill_a, fill_b):
  """True if every differing byte is still the fill byte on both sides (written by neither)."""
  if a_after is None or b_after is None or len(a_after) != len(b_after):
    return False
  aa = np.frombuffer(a_after, dtype=np.uint8)
  bb = np.frombuffer(b_after, dtype=np.uint8)
  d = aa != bb
  return bool(np.all(aa[d] == fill_a) and np.all(bb[d] == fill_b))
