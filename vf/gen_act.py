"""Hypothesis generator for C27: kinematic trees from vf.modelgen + an <actuator> block covering every
transmission x dynamics x gain x bias combination and every shortcut, written as *specs* (plain dicts) so that the
check knows what was asked for in the XML (expected flags/parameters per the documentation) independently of what
the compiler produced.

act_models(family) -> GenModel with info['acts'] = [spec...], info['jfrc'], info['tfrc'], info['gravcomp'],
info['groupdisable'], info['flags'].
"""
import json
import math

from hypothesis import strategies as st

from vf import modelgen as mg

num, fmt = mg.num, mg.fmt

DEFAULT_MUSCLE = dict(range=(0.75, 1.05), force=-1.0, scale=200.0, lmin=0.5, lmax=1.6, vmax=1.5, fpmax=1.3,
                      fvmax=1.2, timeconst=(0.01, 0.04), tausmooth=0.0)


class ActModel(mg.GenModel):
  """GenModel whose replay form keeps the actuator specs (the check needs them to interpret the XML)."""

  def to_json(self):
    keep = ('acts', 'jfrc', 'tfrc', 'gravcomp', 'groupdisable', 'flags', 'integrator', 'family', 'labels', 'condim1',
            'timestep')
    # as one JSON string: the runner flattens deeply nested replay objects
    return dict(xml=self.xml, info_json=json.dumps({k: self.info[k] for k in keep if k in self.info}))

  @staticmethod
  def from_json(obj):
    info = json.loads(obj['info_json'])
    return ActModel(obj['xml'], info)


def _a(d):
  return ''.join(' %s="%s"' % (k, v if isinstance(v, str) else fmt(v)) for k, v in d.items() if v is not None)


@st.composite
def _range(draw, lo=0.1, hi=3.0, nonneg=False, digits=2):
  b = draw(num(lo, hi, digits))
  if nonneg:
    return (0.0, b)
  a = draw(num(lo, hi, digits))
  return (-a, b)


@st.composite
def _limited(draw, spec, attrs, what, rng, p_range=2, flag=True):
  """draw <what>limited/<what>range; records the expectation per the docs:
  'true' -> clamped, 'false' -> not, absent ('auto', autolimits default) -> clamped iff range defined."""
  mode = draw(st.sampled_from(['none'] + ['auto'] * p_range + (['true', 'false'] if flag else [])))
  lim = False
  if mode != 'none':
    attrs[what + 'range'] = fmt(list(rng))
    if mode == 'true':
      attrs[what + 'limited'] = 'true'
    elif mode == 'false':
      attrs[what + 'limited'] = 'false'
    lim = mode in ('auto', 'true')
  spec[what + 'limited'] = lim
  spec[what + 'range'] = list(rng) if mode != 'none' else [0.0, 0.0]


@st.composite
def _gear6(draw, which='both'):
  g = [0.0] * 6
  for i in range(6):
    if which == 'lin' and i >= 3:
      continue
    if which == 'rot' and i < 3:
      continue
    g[i] = draw(num(-2, 2, 1))
  lo, hi = (0, 3) if which == 'lin' else (3, 6) if which == 'rot' else (0, 6)
  if not any(g[lo:hi]):
    g[lo] = 1.0
  return g


@st.composite
def _transmission(draw, info, tkinds, allow, rot3d=False):
  """returns (trn dict, xml attrs). trn['kind'] in joint/jointinparent/tendon/site/refsite/slidercrank/body.
  rot3d: restrict to the purely rotational 3D transmissions (ball joint, site+refsite with rotational gear)."""
  joints = info['joints']
  sites = info['sites']
  if rot3d:
    joints = [j for j in joints if j[1] == 'ball']
    allow = [k for k in allow if k in ('joint', 'jointinparent', 'refsite')]
    info = dict(info, tendons=[])
  kinds = []
  if joints:
    kinds += ['joint', 'joint', 'jointinparent']
  if info['tendons']:
    kinds += ['tendon', 'tendon']
  bsites = [s for s in sites if s != 's0']
  if bsites:
    kinds += ['site']
  if bsites and len(sites) >= 2:
    kinds += ['refsite', 'refsite', 'slidercrank']
  if 'body' in allow and info['bodies']:
    kinds += ['body']
  kinds = [k for k in kinds if k in allow]
  if not kinds:
    return None
  kind = draw(st.sampled_from(kinds))
  trn = dict(kind=kind)
  a = {}
  if kind in ('joint', 'jointinparent'):
    jn, jt, _ = draw(st.sampled_from(joints))
    a[kind] = jn
    trn.update(joint=jn, jtype=jt)
    if jt in ('hinge', 'slide'):
      g = draw(st.one_of(st.just(1.0), num(-3, 3, 1).map(lambda v: v or 1.0)))
      gear = [g, 0, 0, 0, 0, 0]
      if g != 1.0 or draw(st.booleans()):
        a['gear'] = fmt(g)
    elif jt == 'ball':
      gear = draw(_gear6('lin'))
      a['gear'] = fmt(gear[:3])
    else:
      gear = draw(_gear6('both'))
      a['gear'] = fmt(gear)
  elif kind == 'tendon':
    tn = draw(st.sampled_from(info['tendons']))
    a['tendon'] = tn
    trn.update(tendon=tn, tkind=tkinds[tn])
    g = 1.0 if tn in info.get('tfrc', {}) else draw(st.one_of(st.just(1.0), num(-3, 3, 1).map(lambda v: v or 1.0)))
    gear = [g, 0, 0, 0, 0, 0]
    if g != 1.0:
      a['gear'] = fmt(g)
  elif kind == 'site':
    s = draw(st.sampled_from(bsites))
    a['site'] = s
    gear = draw(_gear6('both'))
    a['gear'] = fmt(gear)
    trn.update(site=s)
  elif kind == 'refsite':
    s = draw(st.sampled_from(bsites))
    r = draw(st.sampled_from([x for x in sites if x != s]))
    a['site'] = s
    a['refsite'] = r
    which = 'rot' if rot3d else draw(st.sampled_from(['lin', 'lin', 'rot', 'rot', 'both']))
    gear = draw(_gear6(which))
    a['gear'] = fmt(gear)
    trn.update(site=s, refsite=r, which=which)
  elif kind == 'slidercrank':
    c = draw(st.sampled_from(bsites))
    s = draw(st.sampled_from([x for x in sites if x != c]))
    a['cranksite'] = c
    a['slidersite'] = s
    rod = draw(st.one_of(num(0.05, 0.5, 2), num(0.5, 3.0, 1)))
    a['cranklength'] = fmt(rod)
    g = draw(st.one_of(st.just(1.0), num(-3, 3, 1).map(lambda v: v or 1.0)))
    gear = [g, 0, 0, 0, 0, 0]
    if g != 1.0:
      a['gear'] = fmt(g)
    trn.update(cranksite=c, slidersite=s, rod=rod)
  else:
    b = draw(st.sampled_from(info['bodies']))
    a['body'] = b
    gear = [1.0, 0, 0, 0, 0, 0]
    trn.update(body=b)
  trn['gear'] = [float(x) for x in gear]
  return trn, a


def _prm(vals, n=10):
  v = [float(x) for x in vals]
  return v + [0.0] * (n - len(v))


@st.composite
def _actuator(draw, k, info, tkinds, family, only=None):
  """one actuator: returns (xml, spec) or None."""
  allow_all = ['joint', 'jointinparent', 'tendon', 'site', 'refsite', 'slidercrank']
  kinds = ['motor', 'position', 'velocity', 'intvelocity', 'damper', 'cylinder', 'general', 'general', 'general_dyn',
           'general_dyn', 'muscle', 'general_muscle', 'pid', 'orientation', 'dcmotor']
  if family == 'contact':
    kinds += ['adhesion'] * 8 + ['general_body'] * 3
  if family == 'delay':
    kinds = [k_ for k_ in kinds if k_ not in ('orientation', 'dcmotor')]
  kind = draw(st.sampled_from(list(only) if only else kinds))
  name = 'a%d' % k
  spec = dict(name=name, kind=kind, group=0, actearly=False, oracle='force')
  attrs = dict(name=name)
  tag = kind
  # ---- transmission
  if kind in ('adhesion', 'general_body'):
    tr = draw(_transmission(info, tkinds, ['body']))
  elif kind == 'orientation':
    balls = [j for j in info['joints'] if j[1] == 'ball']
    bsites = [s for s in info['sites'] if s != 's0']
    opts = (['ball'] if balls else []) + (['refsite'] if bsites and len(info['sites']) >= 2 else [])
    if not opts:
      return None
    if draw(st.sampled_from(opts)) == 'ball':
      jn = draw(st.sampled_from(balls))[0]
      tr = (dict(kind='so3', joint=jn, gear=[1.0, 0, 0, 0, 0, 0]), dict(joint=jn))
    else:
      s = draw(st.sampled_from(bsites))
      r = draw(st.sampled_from([x for x in info['sites'] if x != s]))
      tr = (dict(kind='so3', site=s, refsite=r, gear=[1.0, 0, 0, 0, 0, 0]), dict(site=s, refsite=r))
  elif kind in ('muscle', 'general_muscle'):
    tr = draw(_transmission(info, tkinds, ['joint', 'tendon', 'slidercrank']))
  elif kind == 'dcmotor':
    tr = draw(_transmission(info, tkinds, ['joint', 'tendon']))
  else:
    tr = None
    if kind in ('position', 'intvelocity', 'pid') and draw(st.booleans()):
      tr = draw(_transmission(info, tkinds, allow_all, rot3d=True))     # circle semantics of servo setpoints
    if tr is None:
      tr = draw(_transmission(info, tkinds, allow_all))
  if tr is None:
    return None
  trn, ta = tr
  if kind in ('muscle', 'general_muscle', 'dcmotor') and trn.get('jtype') in ('ball', 'free'):
    return None
  attrs.update(ta)
  spec['trn'] = trn
  # ---- common attributes
  if draw(st.integers(0, 2)) == 0:
    spec['group'] = draw(st.integers(0, 5)) if draw(st.integers(0, 5)) else draw(st.sampled_from([30, 29, 7]))
    attrs['group'] = str(spec['group'])
  nctrl = 1
  # ---- per kind
  if kind == 'motor':
    spec.update(dyn='none', gain='fixed', bias='none', gainprm=_prm([1]), biasprm=_prm([]))
  elif kind == 'position':
    kp = draw(num(0.5, 50, 1))
    kv = draw(num(0, 5, 1)) if draw(st.booleans()) else None
    tc = draw(num(0.002, 0.5, 3)) if draw(st.integers(0, 2)) == 0 else None
    attrs['kp'] = fmt(kp)
    if kv is not None:
      attrs['kv'] = fmt(kv)
    if tc is not None:
      attrs['timeconst'] = fmt(tc)
    spec.update(dyn='filterexact' if tc else 'none', gain='fixed', bias='affine', gainprm=_prm([kp]),
                biasprm=_prm([0, -kp, -(kv or 0.0)]), dynprm=_prm([tc or 1.0]), servo='position')
  elif kind == 'velocity':
    kv = draw(num(0.1, 10, 1))
    attrs['kv'] = fmt(kv)
    spec.update(dyn='none', gain='fixed', bias='affine', gainprm=_prm([kv]), biasprm=_prm([0, 0, -kv]))
  elif kind == 'intvelocity':
    kp = draw(num(0.5, 50, 1))
    kv = draw(num(0, 5, 1)) if draw(st.booleans()) else None
    attrs['kp'] = fmt(kp)
    if kv is not None:
      attrs['kv'] = fmt(kv)
    spec.update(dyn='integrator', gain='fixed', bias='affine', gainprm=_prm([kp]),
                biasprm=_prm([0, -kp, -(kv or 0.0)]), dynprm=_prm([1]), servo='intvelocity')
  elif kind == 'damper':
    kv = draw(num(0.1, 5, 1))
    attrs['kv'] = fmt(kv)
    spec.update(dyn='none', gain='affine', bias='none', gainprm=_prm([0, 0, -kv]), biasprm=_prm([]))
  elif kind == 'cylinder':
    tc = draw(num(0.005, 1.0, 3))
    attrs['timeconst'] = fmt(tc)
    if draw(st.booleans()):
      dia = draw(num(0.1, 2, 2))
      attrs['diameter'] = fmt(dia)
      area = math.pi / 4 * dia * dia
      spec['area_from_diameter'] = True
    else:
      area = draw(num(0.1, 5, 2))
      attrs['area'] = fmt(area)
    b = [draw(num(-2, 2, 1)), draw(num(-5, 5, 1)), draw(num(-2, 2, 1))]
    if area == -b[1] and b[2] > 0:
      b[2] = -b[2]
    attrs['bias'] = fmt(b)
    spec.update(dyn='filter', gain='fixed', bias='affine', gainprm=_prm([area]), biasprm=_prm(b), dynprm=_prm([tc]))
  elif kind in ('general', 'general_dyn', 'general_body'):
    tag = 'general'
    gt = draw(st.sampled_from(['fixed', 'affine']))
    bt = draw(st.sampled_from(['none', 'affine']))
    if kind == 'general_dyn':
      dt = draw(st.sampled_from(['integrator', 'filter', 'filterexact']))
    else:
      dt = 'none'
    g = [draw(num(-10, 10, 1))] + ([draw(num(-5, 5, 1)), draw(num(-2, 2, 1))] if gt == 'affine' else [])
    if draw(st.integers(0, 3)) == 0 and gt == 'fixed' and bt == 'affine':
      kp = abs(g[0]) or 1.0     # servo-shaped general (gain == -bias[1]): circle semantics ambiguous on 3D rotations
      g = [kp]
      b = [0.0, -kp, draw(num(-2, 0, 1))]
    else:
      b = [draw(num(-2, 2, 1)), draw(num(-5, 5, 1)), draw(num(-2, 2, 1))] if bt == 'affine' else []
    if b and g[0] == -b[1] and b[2] > 0:
      b[2] = -b[2]     # "position-like" parameters with biasprm[2] > 0 are read as a dampratio by the compiler
    if gt != 'fixed' or draw(st.booleans()):
      attrs['gaintype'] = gt
    if bt != 'none' or draw(st.booleans()):
      attrs['biastype'] = bt
    if dt != 'none':
      attrs['dyntype'] = dt
    attrs['gainprm'] = fmt(g)
    if b:
      attrs['biasprm'] = fmt(b)
    dp = [1.0]
    if dt in ('filter', 'filterexact'):
      dp = [draw(num(0.002, 1.0, 3))]
      attrs['dynprm'] = fmt(dp)
    spec.update(dyn=dt, gain=gt, bias=bt, gainprm=_prm(g), biasprm=_prm(b), dynprm=_prm(dp))
  elif kind in ('muscle', 'general_muscle'):
    p = dict(DEFAULT_MUSCLE)
    if draw(st.booleans()):
      r0 = draw(num(0.5, 0.9, 2))
      p['range'] = (r0, r0 + draw(num(0.1, 0.6, 2)))
    if draw(st.booleans()):
      p['force'] = draw(num(1, 500, 0))
    if draw(st.booleans()):
      p['scale'] = draw(num(10, 1000, 0))
    if draw(st.integers(0, 2)) == 0:
      p['lmin'] = draw(num(0.2, 0.8, 2))
      p['lmax'] = draw(num(1.2, 2.0, 2))
      p['vmax'] = draw(num(0.5, 5, 1))
      p['fpmax'] = draw(num(0.5, 3, 1))
      p['fvmax'] = draw(num(1.1, 2.0, 1))
    if draw(st.booleans()):
      p['timeconst'] = (draw(num(0.005, 0.1, 3)), draw(num(0.005, 0.2, 3)))
    if draw(st.integers(0, 2)) == 0:
      p['tausmooth'] = draw(num(0.05, 1.0, 2))
    lr0 = draw(num(-1.0, 0.5, 2))
    lr = (lr0, lr0 + draw(num(0.1, 2.0, 2)))
    attrs['lengthrange'] = fmt(list(lr))
    prm9 = [p['range'][0], p['range'][1], p['force'], p['scale'], p['lmin'], p['lmax'], p['vmax'], p['fpmax'],
            p['fvmax']]
    dp = [p['timeconst'][0], p['timeconst'][1], p['tausmooth']]
    if kind == 'muscle':
      for key in ('force', 'scale', 'lmin', 'lmax', 'vmax', 'fpmax', 'fvmax', 'tausmooth'):
        if p[key] != DEFAULT_MUSCLE[key] or draw(st.integers(0, 3)) == 0:
          attrs[key] = fmt(p[key])
      if p['range'] != DEFAULT_MUSCLE['range']:
        attrs['range'] = fmt(list(p['range']))
      if p['timeconst'] != DEFAULT_MUSCLE['timeconst']:
        attrs['timeconst'] = fmt(list(p['timeconst']))
    else:
      tag = 'general'
      attrs.update(dyntype='muscle', gaintype='muscle', biastype='muscle', gainprm=fmt(prm9), biasprm=fmt(prm9),
                   dynprm=fmt(dp))
    spec.update(dyn='muscle', gain='muscle', bias='muscle', gainprm=_prm(prm9), biasprm=_prm(prm9), dynprm=_prm(dp),
                lengthrange=list(lr))
  elif kind == 'adhesion':
    gn = draw(num(0.1, 10, 1))
    attrs['gain'] = fmt(gn)
    spec.update(dyn='none', gain='fixed', bias='none', gainprm=_prm([gn]), biasprm=_prm([]))
  elif kind == 'pid':
    kp = draw(num(0.5, 50, 1))
    kv = draw(num(0, 5, 1))
    attrs['kp'] = fmt(kp)
    attrs['kv'] = fmt(kv)
    inputs = draw(st.sampled_from([None, 'pos', 'pos vel', 'pos vel ff', 'pos ff', 'vel', 'vel ff', 'ff']))
    if inputs is not None:
      attrs['input'] = inputs
    toks = (inputs or 'pos vel').split()
    nctrl = len(toks)
    ki = imax = 0.0
    if 'pos' in toks and draw(st.booleans()):
      ki = draw(num(0.1, 5, 1))
      attrs['ki'] = fmt(ki)
      if draw(st.booleans()):
        imax = draw(num(0.1, 2, 1))
        attrs['imax'] = fmt(imax)
    slew = 0.0
    if 'pos' in toks and draw(st.integers(0, 4)) == 0:
      slew = draw(num(0.1, 5, 1))
      attrs['slewmax'] = fmt(slew)
      spec['oracle'] = 'invariants'     # slew-rate limiter refers to the dcmotor technical note (not transcribed)
    spec.update(dyn='pid' if (ki or slew) else 'none', gain='pid', bias='affine', gainprm=_prm([ki]),
                biasprm=_prm([0, -kp, -kv]), dynprm=_prm([imax]), inputs=toks, kp=kp, kv=kv, ki=ki, imax=imax,
                slew=slew)
    for key, tok in (('velrange', 'vel'), ('ffrange', 'ff')):
      if tok in toks and draw(st.booleans()):
        r = draw(_range())
        attrs[key] = fmt(list(r))
        spec[key] = list(r)
  elif kind == 'orientation':
    kp = draw(num(0.5, 20, 1))
    kv = draw(num(0, 3, 1))
    attrs['kp'] = fmt(kp)
    attrs['kv'] = fmt(kv)
    chart = draw(st.sampled_from(['expmap', 'expmap', 'quat']))
    if chart != 'expmap' or draw(st.booleans()):
      attrs['input'] = chart
    nctrl = 3 if chart == 'expmap' else 4
    spec.update(dyn='none', gain='so3', bias='so3', gainprm=_prm([kp]), biasprm=_prm([0, -kp, -kv]), chart=chart,
                kp=kp, kv=kv)
  elif kind == 'dcmotor':
    R = draw(num(0.5, 5, 1))
    K = draw(num(0.05, 1, 2))
    attrs['resistance'] = fmt(R)
    attrs['motorconst'] = fmt([K, K])
    stateful = draw(st.integers(0, 2)) == 0
    if stateful:
      attrs['inductance'] = fmt([0, draw(num(0.001, 0.05, 3))])
    # stateless voltage-commanded motor: torque = K/R (V - K*velocity) (XMLreference dcmotor/controller sentence);
    # with electrical dynamics (armature-current state) only the invariants are checked
    spec.update(dyn='dcmotor', gain='dcmotor', bias='dcmotor',
                oracle='invariants' if stateful else 'force', R=R, K=K)
  spec['tag'] = tag
  spec['nctrl'] = nctrl
  # ---- limits
  if kind in ('damper', 'adhesion'):
    r = draw(_range(nonneg=True))
    attrs['ctrlrange'] = fmt(list(r))
    spec['ctrllimited'] = True
    spec['ctrlrange'] = list(r)
  elif kind == 'pid':
    if 'pos' in spec['inputs']:
      draw(_limited(spec, attrs, 'ctrl', draw(_range())))
    else:
      spec['ctrllimited'] = False
      spec['ctrlrange'] = [0.0, 0.0]
  elif kind == 'dcmotor':
    draw(_limited(spec, attrs, 'ctrl', draw(_range(1, 24, digits=0))))
  elif kind in ('muscle', 'general_muscle'):
    draw(_limited(spec, attrs, 'ctrl', draw(st.sampled_from([(0.0, 1.0), (0.1, 0.8), (-0.5, 1.5)]))))
  elif kind == 'orientation':
    draw(_limited(spec, attrs, 'ctrl', draw(_range(0.5, 4)), flag=False))
  else:
    draw(_limited(spec, attrs, 'ctrl', draw(_range())))
  if kind == 'orientation':
    mode = draw(st.sampled_from(['none', 'auto', 'true']))
    spec['forcelimited'] = mode != 'none'
    spec['forcerange'] = [0.0, 0.0]
    if mode != 'none':
      spec['forcerange'] = [0.0, draw(num(0.1, 5, 1))]
      attrs['forcerange'] = fmt(spec['forcerange'])
      if mode == 'true':
        attrs['forcelimited'] = 'true'
  elif kind == 'dcmotor':
    spec['forcelimited'] = False
    spec['forcerange'] = [0.0, 0.0]
  else:
    draw(_limited(spec, attrs, 'force', draw(_range(0.1, 20, digits=1)), p_range=3))
  if tag in ('general', 'intvelocity') and spec.get('dyn') in ('integrator', 'filter', 'filterexact', 'muscle'):
    # actlimited/actrange exist only on general and intvelocity (schema); actearly only on general
    rng = draw(st.sampled_from([(0.0, 1.0), (0.2, 0.7)])) if spec['dyn'] == 'muscle' else draw(_range(0.1, 2))
    draw(_limited(spec, attrs, 'act', rng, p_range=3))
    if tag == 'general' and draw(st.integers(0, 2)) == 0:
      attrs['actearly'] = 'true'
      spec['actearly'] = True
  else:
    spec['actlimited'] = False
    spec['actrange'] = [0.0, 0.0]
  # ---- control delay through the history buffer (family 'delay'): scalar-input actuators only
  spec['delay'] = None
  if family == 'delay' and nctrl == 1 and kind != 'dcmotor' and draw(st.integers(0, 3)) != 0:
    ns = draw(st.integers(1, 5))
    frac = draw(st.sampled_from([1.0, 1.0, 0.5, 0.3, 1.3]))      # delay = frac * nsample * timestep (1.3: non-causal read)
    interp = draw(st.sampled_from(['zoh', 'zoh', 'linear', 'cubic']))
    attrs['nsample'] = str(ns)
    if interp != 'zoh' or draw(st.booleans()):
      attrs['interp'] = interp
    spec['delay'] = dict(nsample=ns, frac=frac, interp=interp)     # the delay attribute is filled in by act_models (needs dt)
    attrs['delay'] = '@DELAY%d@' % k
  spec['attrs'] = {k_: str(v) for k_, v in attrs.items()}
  return '<%s%s/>' % (tag, _a(attrs)), spec


def _tendon_kinds(xml, names):
  out = {}
  for t in names:
    out[t] = 'fixed' if ('<fixed name="%s"' % t) in xml else 'spatial'
  return out


@st.composite
def act_models(draw, family='tree', max_bodies=4, max_act=5):
  """family 'tree': no contacts, every transmission except body. family 'contact': colliding geoms + plane,
  adhesion/body transmissions plus the others."""
  contact = family == 'contact'
  delayfam = family == 'delay'
  # own option element: integrator, timestep, the two flags of interest, actuatorgroupdisable
  integ = draw(st.sampled_from(['Euler', 'implicit', 'implicitfast', 'RK4']))
  oa = dict(timestep=fmt(draw(num(0.0005, 0.01, 4))), integrator=integ,
            jacobian=draw(st.sampled_from(['dense', 'sparse', 'auto'])))
  condim1 = False
  if contact:
    oa['cone'] = draw(st.sampled_from(['pyramidal', 'pyramidal', 'elliptic']))
    condim1 = draw(st.integers(0, 2)) == 0     # frictionless sub-family: every geom (and the floor) condim 1
  if draw(st.integers(0, 3)) == 0:
    oa['gravity'] = fmt([draw(num(-3, 3, 1)), draw(num(-3, 3, 1)), draw(num(-10, 2, 1))])
  gd = []
  if draw(st.integers(0, 2)) == 0:
    gd = sorted(set(draw(st.lists(st.sampled_from([0, 1, 2, 3, 4, 5, 7, 29, 30]), min_size=1, max_size=3))))
    oa['actuatorgroupdisable'] = ' '.join(str(g) for g in gd)
  fl = {}
  if draw(st.integers(0, 5)) == 0:
    fl['clampctrl'] = 'disable'
  if draw(st.integers(0, 11)) == 0:
    fl['actuation'] = 'disable'
  if draw(st.integers(0, 11)) == 0:
    fl['gravity'] = 'disable'
  optx = '<option%s>%s</option>' % (_a(oa), '<flag%s/>' % _a(fl) if fl else '')
  gm = draw(mg.models(max_bodies=max_bodies, actuators=False, sensors=False, equalities=False, tendons=True,
                      contacts=contact, plane=True if contact else False, opt=optx, sites=True,
                      geom_kwargs=(dict(margin=True, condims=(1,)) if condim1 else dict(margin=True)) if contact else None,
                      joint_kwargs=dict(limits=False, frictionloss=False)))
  info = gm.info
  xml = gm.xml
  if condim1:
    xml = xml.replace('<worldbody>', '<default><geom condim="1"/></default><worldbody>', 1)
  # modelgen can put a hinge and a ball joint on one body (4 rotational dofs on one anchor: singular inertia matrix,
  # engine errors unrelated to actuation): turn such hinges into slides
  byb = {}
  for jn, jt, bn in info['joints']:
    byb.setdefault(bn, []).append((jn, jt))
  fixed = []
  for jn, jt, bn in info['joints']:
    if jt == 'hinge' and any(t == 'ball' for _, t in byb[bn]):
      xml = xml.replace('<joint name="%s" type="hinge"' % jn, '<joint name="%s" type="slide"' % jn)
      jt = 'slide'
    fixed.append((jn, jt, bn))
  info = dict(info, joints=fixed)
  tkinds = _tendon_kinds(xml, info['tendons'])
  labels = set(info.get('labels', []))
  # make sure there are sites to attach to: add one site per body lacking one (cheap, deterministic)
  # joint-level actuator force ranges and actuator gravcomp
  jfrc = {}
  for jn, jt, bn in info['joints']:
    if draw(st.integers(0, 2)) == 0:
      r = draw(_range(0.05, 5))
      mode = draw(st.sampled_from(['auto', 'auto', 'true', 'false']))
      extra = ' actuatorfrcrange="%s"' % fmt(list(r))
      if mode != 'auto':
        extra += ' actuatorfrclimited="%s"' % mode
      xml = xml.replace('<joint name="%s"' % jn, '<joint%s name="%s"' % (extra, jn))
      jfrc[jn] = dict(range=list(r), limited=(mode != 'false') and jt in ('hinge', 'slide'), jtype=jt, mode=mode)
  gravcomp = {}
  if draw(st.booleans()):
    for bn in info['bodies']:
      if draw(st.integers(0, 2)):
        gc = draw(num(0.1, 1.5, 1))
        xml = xml.replace('<body name="%s"' % bn, '<body gravcomp="%s" name="%s"' % (fmt(gc), bn))
        gravcomp[bn] = gc
    for jn, jt, bn in info['joints']:
      if draw(st.integers(0, 2)):
        xml = xml.replace('<joint name="%s"' % jn, '<joint actuatorgravcomp="true" name="%s"' % jn)
        gravcomp['@' + jn] = True
        if jn not in jfrc and jt in ('hinge', 'slide') and draw(st.booleans()):
          r = draw(_range(0.05, 3))
          xml = xml.replace('<joint actuatorgravcomp="true" name="%s"' % jn,
                            '<joint actuatorgravcomp="true" actuatorfrcrange="%s" name="%s"' % (fmt(list(r)), jn))
          jfrc[jn] = dict(range=list(r), limited=True, jtype=jt, mode='auto')
  tfrc = {}
  for tn in info['tendons']:
    if draw(st.integers(0, 1)) == 0:
      r = draw(_range(0.05, 5))
      mode = draw(st.sampled_from(['auto', 'true', 'true', 'true', 'false']))
      extra = ' actuatorfrcrange="%s"' % fmt(list(r))
      if mode != 'auto':
        extra += ' actuatorfrclimited="%s"' % mode
      xml = xml.replace('<%s name="%s"' % (tkinds[tn], tn), '<%s%s name="%s"' % (tkinds[tn], extra, tn))
      tfrc[tn] = dict(range=list(r), limited=mode != 'false', mode=mode)
  info = dict(info, tfrc=tfrc)
  na = draw(st.integers(1, max_act))
  acts = []
  ax = ''
  for k in range(na):
    r = draw(_actuator(k, info, tkinds, family))
    if r is None:
      continue
    ax += r[0]
    acts.append(r[1])
  if not acts:
    # fall back to a motor on anything available
    r = draw(_actuator(0, info, tkinds, family, only=('motor', 'position', 'general')))
    if r is not None:
      ax += r[0]
      acts.append(r[1])
  dt = float(oa['timestep'])
  for k, s_ in enumerate(acts):
    dl = s_.get('delay')
    key = '@DELAY%s@' % s_['name'][1:]
    if dl:
      dl['delay'] = float(fmt(dl['frac'] * dl['nsample'] * dt))
      ax = ax.replace(key, fmt(dl['delay']))
      s_['attrs']['delay'] = fmt(dl['delay'])
  if acts:
    xml = xml.replace('</mujoco>', '<actuator>%s</actuator></mujoco>' % ax)
  for s in acts:
    labels.add('act:' + s['kind'])
    labels.add('trn:' + s['trn']['kind'])
  info = dict(info, acts=acts, jfrc=jfrc, tfrc=tfrc, gravcomp=gravcomp, groupdisable=gd, flags=fl,
              integrator=integ, family=family, condim1=condim1, timestep=dt, tkinds=tkinds, labels=sorted(labels))
  return ActModel(xml, info)
