"""Generator of constrained states for C09/C10/C11: models from vf.modelgen with the constraint-relevant features boosted
(default condim / frictionloss classes, floor raised into the bodies, explicit contact pairs with 5 independent friction
coefficients, tendon limits and friction loss, equalities) and states reached by settling (k mj_step calls from a
generated state).  All randomness is drawn from Hypothesis.
"""
import re

import numpy as np
from hypothesis import strategies as st

from . import modelgen as mg

KNOWN_COMPUTEY = 'pre and post-count of Y_rownnz'


def reduced_M(m):
  """True if some dof's row of the sparse inertia matrix has fewer entries than its chain of ancestor dofs ('simple'
  dofs with diagonal inertia).  This is the input class of known finding C10/computeY-simple-dof (sparse Jacobian + anything
  that builds the whitened Jacobian Y: PGS, noslip or the diagexact flag, raises an engine error); checks keep those on dense
  storage for such models and count the exclusion."""
  par = np.asarray(m.dof_parentid)
  nnz = np.asarray(m.M_rownnz)
  for i in range(int(m.nv)):
    n, j = 1, int(par[i])
    while j >= 0:
      n += 1
      j = int(par[j])
    if int(nnz[i]) != n:
      return True
  return False

TYPE_NAMES = ['equality', 'friction_dof', 'friction_tendon', 'limit_joint', 'limit_tendon', 'contact_frictionless',
              'contact_pyramidal', 'contact_elliptic']


class Case(dict):
  """A generated case; a plain dict (JSON-able for replay files) with attribute access."""

  def __init__(self, gm=None, seed=0, nsettle=0, cone='pyramidal', vel=0.0, pos=0.1, **kw):
    if gm is not None:
      kw.update(xml=gm.xml, labels=gm.labels())
    dict.__init__(self, seed=seed, nsettle=nsettle, cone=cone, vel=vel, pos=pos, **kw)

  def __getattr__(self, k):
    try:
      return self[k]
    except KeyError:
      raise AttributeError(k)

  def key(self):
    return (self.xml, self.seed, self.nsettle, self.cone, self.vel, self.pos)

  def sample(self, **kw):
    d = dict(xml=self.xml, seed=self.seed, nsettle=self.nsettle, cone=self.cone, vel_scale=self.vel, pos_scale=self.pos)
    d.update(kw)
    return d


@st.composite
def cases(draw, max_bodies=5, actuators=True, integrators=('Euler', 'implicit', 'implicitfast'), adhesion=False):
  gm = draw(mg.models(plane=True, max_bodies=max_bodies, actuators=actuators, tendons=True, equalities=True, sites=True,
                      geom_kwargs=dict(margin=True),
                      opt_kwargs=dict(flags=False, islands=None, integrators=integrators, timestep=(0.001, 0.005),
                                      solvers=('Newton',), jacobians=('dense',))))
  xml = gm.xml
  # raise the floor into the bodies (contacts at once, also for bodies that cannot fall)
  z = draw(st.sampled_from([0.0, 0.0, 0.1, 0.2, 0.3, 0.45]))
  if z:
    xml = xml.replace('<geom name="floor" type="plane" size="3 3 .1"', '<geom name="floor" type="plane" size="3 3 .1" pos="0 0 %s"' % z)
  # default classes boosting constraint features
  dg, dj = {}, {}
  if draw(st.booleans()):
    dg['condim'] = str(draw(st.sampled_from([1, 3, 4, 6])))
  if draw(st.integers(0, 3)) == 0:
    dg['solimp'] = mg.fmt([draw(mg.num(0.5, 0.95)), draw(mg.num(0.95, 0.99)), draw(mg.num(0.001, 0.01, 3))])
  if draw(st.integers(0, 3)) == 0:
    dg['solref'] = mg.fmt([draw(mg.num(0.005, 0.05, 3)), draw(mg.num(0.5, 1.5, 1))])
  if draw(st.integers(0, 2)) == 0:
    dj['frictionloss'] = mg.fmt(draw(mg.num(0.01, 3)))
  if draw(st.integers(0, 3)) == 0:
    dj['margin'] = mg.fmt(draw(mg.num(0, 0.1)))
  # polynomial joint damping f(v) = -(a v + b v|v| + c v^3) (doc joint/damping): default class and/or explicit joints
  polydamp = draw(st.integers(0, 2)) == 0
  if polydamp:
    if draw(st.booleans()):
      dj['damping'] = mg.fmt([draw(mg.num(0, 1)), draw(mg.num(0, 1)), draw(mg.num(0, 0.5))])
    coefs = [(draw(mg.num(0, 1)), draw(mg.num(0, 0.5))) for _ in range(4)]
    cnt = [0]

    def poly(mo):
      b, c = coefs[cnt[0] % len(coefs)]
      cnt[0] += 1
      return '%sdamping="%s %s %s"' % (mo.group(1), mo.group(2), mg.fmt(b), mg.fmt(c))
    xml = re.sub(r'(<joint [^>]*?)damping="([^" ]+)"', poly, xml)
  dflt = ''
  if dg or dj:
    dflt = '<default>%s%s</default>' % ('<geom%s/>' % mg._attrs(dg) if dg else '', '<joint%s/>' % mg._attrs(dj) if dj else '')
    xml = xml.replace('<mujoco>', '<mujoco>' + dflt, 1)
    gm.info['labels'] = sorted(set(gm.info['labels']) | {'default:' + k for k in list(dg) + list(dj)})
  if polydamp:
    gm.info['labels'] = sorted(set(gm.info['labels']) | {'polydamping'})
  # explicit pairs floor-geom with anisotropic friction
  # (only geoms of bodies that carry a joint: an explicit pair between two static geoms makes mj_forward fail in this
  #  tree with dense Jacobians + islands, see the C10 report; such models are kept out of the generator)
  jbodies = set(b for (_, _, b) in gm.info['joints'])
  geoms = [g for g in gm.info['geoms'] if 'b' + g[1:].split('_')[0] in jbodies]
  if geoms and draw(st.integers(0, 2)) == 0:
    npair = draw(st.integers(1, min(3, len(geoms))))
    gs = draw(st.lists(st.sampled_from(geoms), min_size=npair, max_size=npair, unique=True))
    px = ''
    for g in gs:
      pa = dict(geom1='floor', geom2=g, condim=str(draw(st.sampled_from([1, 3, 4, 6]))),
                friction=mg.fmt([draw(mg.num(0.1, 1.5)), draw(mg.num(0.1, 1.5)), draw(mg.num(0.001, 0.1, 3)),
                                 draw(mg.num(0.0001, 0.02, 4)), draw(mg.num(0.0001, 0.02, 4))]))
      if draw(st.integers(0, 2)) == 0:
        pa['solreffriction'] = mg.fmt([draw(mg.num(0.005, 0.05, 3)), draw(mg.num(0.5, 1.5, 1))])
      if draw(st.integers(0, 2)) == 0:
        pa['margin'] = mg.fmt(draw(mg.num(0, 0.05, 3)))
      px += '<pair%s/>' % mg._attrs(pa)
    xml = xml.replace('</mujoco>', '<contact>%s</contact></mujoco>' % px)
    gm.info['labels'] = sorted(set(gm.info['labels']) | {'pair:anisotropic'})
  gm.xml = xml
  seed = draw(mg.state_seed())
  nsettle = draw(st.sampled_from([0, 1, 3, 10, 30]))
  cone = draw(st.sampled_from(['pyramidal', 'elliptic']))
  vel = draw(st.sampled_from([0.0, 0.3, 1.0, 3.0]))
  pos = draw(st.sampled_from([0.1, 0.5, 1.0]))
  # solver / storage used while settling (applied after compilation; the compiled model itself uses Newton + dense)
  solver = draw(st.sampled_from(['Newton', 'CG', 'PGS']))
  jacobian = draw(st.sampled_from(['dense', 'sparse']))
  diagexact = draw(st.integers(0, 2)) == 0      # exact diagonal of A for the impedance (enable flag, off by default)
  if diagexact:
    gm.info['labels'] = sorted(set(gm.info['labels']) | {'diagexact'})
  return Case(gm, seed, nsettle, cone, vel, pos, solver=solver, jacobian=jacobian, diagexact=diagexact)


def prepare(lib, case, ck=None, ctrl=True, forces=True):
  """Compile, set the generated state, settle.  Returns (m, d) after the last mj_step (d holds the integration state
  incl. qacc_warmstart; derived quantities are those of the previous step) or None when discarded."""
  from . import mj
  try:
    m = lib.model_from_xml(case.xml)
  except mj.MjError:
    if ck:
      ck.discard('compile')
    return None
  E = lib.enums
  m.opt.cone = E.mjCONE_ELLIPTIC if case.cone == 'elliptic' else E.mjCONE_PYRAMIDAL
  m.opt.noslip_iterations = 0
  if case.get('diagexact'):
    m.opt.enableflags = int(m.opt.enableflags) | E.mjENBL_DIAGEXACT
  m.opt.solver = dict(Newton=E.mjSOL_NEWTON, CG=E.mjSOL_CG, PGS=E.mjSOL_PGS)[case.get('solver', 'Newton')]
  m.opt.jacobian = E.mjJAC_SPARSE if case.get('jacobian', 'dense') == 'sparse' else E.mjJAC_DENSE
  if (m.opt.solver == E.mjSOL_PGS or case.get('diagexact')) and m.opt.jacobian == E.mjJAC_SPARSE and reduced_M(m):
    # input class of known finding C10/computeY-simple-dof, excluded by construction (counted)
    m.opt.jacobian = E.mjJAC_DENSE
    if ck:
      ck.label('excluded:sparse-dual-on-reduced-M(settle)')
  d = lib.make_data(m)
  if m.nv == 0:
    if ck:
      ck.discard('nv=0')
    return None
  mg.apply_state(lib, m, d, case.seed, vel_scale=case.vel, pos_scale=case.pos, ctrl=ctrl, forces=forces)
  lib.warnings()
  # singular / ill-conditioned inertia (e.g. a hinge and a ball joint in one body): label + skip (HARNESS rule 2)
  lib.mj_fwdPosition(m, d)
  M = lib.fullM(m, d)
  ev = np.linalg.eigvalsh(M) if np.all(np.isfinite(M)) else np.array([np.nan])
  if not np.all(np.isfinite(ev)) or ev[0] <= 0 or ev[-1] / ev[0] > 1e8 or not np.all(np.isfinite(m.dof_invweight0)):
    if ck:
      ck.discard('illconditioned-M')
    return None
  newton = int(m.opt.solver) == E.mjSOL_NEWTON
  for _ in range(case.nsettle):
    dprev = lib.copy_data(m, d) if newton else None
    try:
      lib.mj_step(m, d)
    except mj.MjError as e:
      if newton and 'rank-deficient' in str(e) and illconditioned_hessian(lib, m, dprev):
        if ck:
          ck.discard('illconditioned-hessian(settle)')
        return None
      raise
  w = lib.warnings()
  bad = (not np.all(np.isfinite(d.qpos))) or (not np.all(np.isfinite(d.qvel))) or np.max(np.abs(d.qvel), initial=0) > 1e3
  if bad or w:
    if ck:
      ck.discard('unstable-settle')
    return None
  return m, d


def illconditioned_hessian(lib, m, d0, limit=1e8):
  """True if the constrained problem at the state of d0 has a stiffness/inertia ratio (largest eigenvalue of
  M^-1/2 J'DJ M^-1/2) above `limit`; measured with a dense CG forward pass (no Hessian factorisation).  Used to classify
  'rank-deficient Hessian' errors of the Newton solver: legitimate only for numerically singular problems (e.g. R ~ 1e-15
  rows of contacts that cannot move their body), label + skip per HARNESS rule 2."""
  from .oracle import cons
  E = lib.enums
  keep = (int(m.opt.solver), int(m.opt.jacobian), int(m.opt.iterations), int(m.opt.noslip_iterations))
  m.opt.solver, m.opt.jacobian, m.opt.iterations, m.opt.noslip_iterations = E.mjSOL_CG, E.mjJAC_DENSE, 1, 0
  try:
    d = lib.copy_data(m, d0)
    lib.mj_forward(m, d)
    if int(d.nefc) == 0:
      return False
    P = cons.Problem(lib, m, d)
    Y = np.linalg.solve(np.linalg.cholesky(P.M), P.J.T)
    return bool(1.0 + float(np.linalg.eigvalsh((Y * P.D) @ Y.T)[-1]) > limit)
  finally:
    m.opt.solver, m.opt.jacobian, m.opt.iterations, m.opt.noslip_iterations = keep


def composition(lib, d):
  """Labels describing which constraint kinds are present in d (after mj_forward)."""
  t = np.asarray(d.efc_type)[:int(d.nefc)]
  labs = []
  for k in np.unique(t):
    labs.append('efc:' + TYPE_NAMES[int(k)])
  if d.ncon:
    for dim in np.unique(np.asarray(d.contact['dim'])[np.asarray(d.contact['efc_address']) >= 0]):
      labs.append('condim%d' % int(dim))
  return labs
