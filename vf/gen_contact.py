"""Contact-rich scenes for the arena-exhaustion check (C20): piles of free bodies on a plane, plus optional articulated
chain with limits / friction loss / equality / tendon limit so that every constraint type contributes efc rows."""
from hypothesis import strategies as st

from .modelgen import fmt, num, _attrs

GEOMS = ('sphere', 'box', 'capsule', 'ellipsoid', 'cylinder')


@st.composite
def scenes(draw, max_objects=14, min_objects=3):
  n = draw(st.integers(min_objects, max_objects))
  opt = dict(timestep='0.002',
             solver=draw(st.sampled_from(['PGS', 'CG', 'Newton', 'Newton'])),
             cone=draw(st.sampled_from(['pyramidal', 'elliptic'])),
             jacobian=draw(st.sampled_from(['dense', 'sparse', 'auto'])),
             integrator=draw(st.sampled_from(['Euler', 'implicitfast', 'implicit', 'RK4'])))
  if draw(st.integers(0, 3)) == 0:
    opt['noslip_iterations'] = str(draw(st.integers(1, 3)))
  flags = {}
  if draw(st.integers(0, 2)) == 0:
    flags['island'] = 'disable'
  if draw(st.integers(0, 3)) == 0:
    flags['multiccd'] = 'enable'
  if draw(st.integers(0, 5)) == 0:
    flags['midphase'] = 'disable'
  if draw(st.integers(0, 5)) == 0:
    flags['warmstart'] = 'disable'
  world = '<geom name="floor" type="plane" size="5 5 .1" condim="%d"/>' % draw(st.sampled_from([1, 3, 3, 4, 6]))
  cols = draw(st.integers(1, 4))
  spacing = draw(st.sampled_from([0.12, 0.18, 0.3]))       # < 2*size: neighbours touch
  cluster = draw(st.integers(0, 2)) == 0                   # all bodies within a few cm: every pair passes the broadphase
  labels = set()
  for i in range(n):
    gt = draw(st.sampled_from(GEOMS))
    r = draw(st.sampled_from([0.08, 0.1, 0.12]))
    size = {'sphere': [r], 'box': [r, r * 0.8, r * 0.6], 'capsule': [r * 0.6, r], 'ellipsoid': [r, r * 0.7, r * 0.5],
            'cylinder': [r * 0.7, r * 0.6]}[gt]
    x, y, level = (i % cols) * spacing, ((i // cols) % cols) * spacing, i // (cols * cols)
    z = r * 0.9 + level * 0.17
    if cluster:
      # no deep penetration (that honestly blows up); a large margin makes every pair pass the broadphase and produce
      # (mostly inactive) contacts
      x, y, z = (i % 4) * 0.26, ((i // 4) % 4) * 0.26, r * 0.98 + (i // 16) * 0.26
    ga = dict(type=gt, size=fmt(size), condim=str(draw(st.sampled_from([1, 3, 3, 4, 6]))))
    if draw(st.integers(0, 4)) == 0:
      ga['margin'] = '0.02'
    if cluster:
      ga['margin'] = '0.6'
    world += '<body pos="%s"><freejoint/><geom%s/></body>' % (fmt([x, y, z]), _attrs(ga))
    labels.add('geom:' + gt)
  extra = ''
  if draw(st.booleans()):
    # articulated chain with joint limits (active at qpos0), friction loss, a connect constraint and a limited tendon
    nl = draw(st.integers(2, 5))
    chain = ''
    for k in range(nl):
      chain += ('<body pos="0.15 0 0"><joint name="h%d" type="hinge" axis="0 1 0" range="0.1 1" limited="true" '
                'frictionloss="0.1"/><geom type="capsule" size="0.03" fromto="0 0 0 0.15 0 0"/>' % k)
    chain += '<site name="tip" pos="0.15 0 0"/>' + '</body>' * nl
    world += '<body name="base" pos="-1 -1 0.5">' + chain + '</body><site name="anchor" pos="-0.2 -1 0.5"/>'
    extra += '<equality><connect body1="base" anchor="0 0 0.3"/></equality>'
    extra += ('<tendon><spatial name="t" limited="true" range="0 0.1"><site site="anchor"/><site site="tip"/></spatial>'
              '</tendon>')
    labels.add('chain')
  optx = '<option%s>%s</option>' % (_attrs(opt), ('<flag%s/>' % _attrs(flags)) if flags else '')
  body = '%s<worldbody>%s</worldbody>%s' % (optx, world, extra)
  labels |= {'solver:' + opt['solver'], 'cone:' + opt['cone'], 'jac:' + opt['jacobian'],
             'island:' + ('off' if 'island' in flags else 'on'), 'nobj=%d' % (n // 4 * 4)}
  if 'noslip_iterations' in opt:
    labels.add('noslip')
  labels.add('layout:cluster' if cluster else 'layout:pile')
  return dict(body=body, labels=sorted(labels), nobj=n)


def render(scene, memory=None):
  size = '<size memory="%d"/>' % memory if memory is not None else ''
  return '<mujoco>%s%s</mujoco>' % (size, scene['body'])
