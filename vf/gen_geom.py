"""Generators for two-geom collision scenes (C13, C15) and helpers shared by the geometry checks.

A scene is one model: geom A on a mocap body (bodies 1), geom B on a free body (body 2); poses are set through
mocap_pos/mocap_quat and qpos so that many poses can be evaluated per compiled model.
All continuous randomness comes from a numpy RandomState seeded by a Hypothesis-drawn integer.
"""
import math

import numpy as np

from vf.oracle import geomref as gr

PRIMS = ('sphere', 'capsule', 'ellipsoid', 'cylinder', 'box')
NSIZE = dict(plane=3, sphere=1, capsule=2, ellipsoid=3, cylinder=2, box=3)


def fmt(x):
  if isinstance(x, (list, tuple, np.ndarray)):
    return ' '.join(repr(float(v)) for v in x)
  return repr(float(x))


def quat2mat(q):
  q = np.asarray(q, dtype=float)
  q = q / np.linalg.norm(q)
  w, x, y, z = q
  return np.array([[1 - 2 * (y * y + z * z), 2 * (x * y - w * z), 2 * (x * z + w * y)],
                   [2 * (x * y + w * z), 1 - 2 * (x * x + z * z), 2 * (y * z - w * x)],
                   [2 * (x * z - w * y), 2 * (y * z + w * x), 1 - 2 * (x * x + y * y)]])


def mat2quat(R):
  """Rotation matrix -> unit quaternion (w,x,y,z), Shepperd's method."""
  t = np.trace(R)
  if t > 0:
    s = math.sqrt(t + 1.0) * 2
    q = [0.25 * s, (R[2, 1] - R[1, 2]) / s, (R[0, 2] - R[2, 0]) / s, (R[1, 0] - R[0, 1]) / s]
  else:
    i = int(np.argmax(np.diag(R)))
    j, k = (i + 1) % 3, (i + 2) % 3
    s = math.sqrt(max(R[i, i] - R[j, j] - R[k, k] + 1.0, 0.0)) * 2
    q = [0, 0, 0, 0]
    q[0] = (R[k, j] - R[j, k]) / s
    q[1 + i] = 0.25 * s
    q[1 + j] = (R[j, i] + R[i, j]) / s
    q[1 + k] = (R[k, i] + R[i, k]) / s
  q = np.array(q)
  return q / np.linalg.norm(q)


def rand_quat(rng):
  q = rng.normal(size=4)
  return q / np.linalg.norm(q)


def axis_angle(axis, ang):
  a = np.asarray(axis, dtype=float)
  a = a / np.linalg.norm(a)
  return quat2mat([math.cos(ang / 2), *(math.sin(ang / 2) * a)])


def signed_perm(rng):
  """Random proper rotation that maps axes to +-axes."""
  while True:
    p = rng.permutation(3)
    R = np.zeros((3, 3))
    for i in range(3):
      R[i, p[i]] = rng.choice([-1.0, 1.0])
    if np.linalg.det(R) > 0:
      return R


def rand_unit(rng):
  v = rng.normal(size=3)
  return v / np.linalg.norm(v)


def perp_unit(rng, a):
  a = np.asarray(a, dtype=float)
  na = np.linalg.norm(a)
  a = a / na if na > 0 else np.array([0.0, 0.0, 1.0])
  while True:
    v = np.cross(a, rng.normal(size=3))
    n = np.linalg.norm(v)
    if n > 1e-3:
      return v / n


def rand_size(rng, typ, scale, aniso=4.0):
  """Sizes of a primitive with overall scale `scale` and anisotropy up to `aniso`."""
  n = NSIZE[typ]
  s = scale * np.exp(rng.uniform(-math.log(aniso) / 2, math.log(aniso) / 2, size=n))
  if rng.rand() < 0.15 and n > 1:       # equal sizes (sphere-like ellipsoid, cube)
    s[:] = s[0]
  return s


def orient(rng, kind, RA=None):
  if kind == 'random':
    return quat2mat(rand_quat(rng))
  if kind == 'identity':
    return np.eye(3)
  if kind == 'axis90':
    return signed_perm(rng)
  if kind == 'parallel':            # same axes as A (possibly permuted signs): parallel capsules, face-face boxes
    return RA @ signed_perm(rng) if rng.rand() < 0.5 else RA.copy()
  if kind == 'parallel-z':          # same z axis as A, twisted about it
    return RA @ axis_angle([0, 0, 1], rng.uniform(-math.pi, math.pi)) @ (np.diag([1.0, -1, -1]) if rng.rand() < .5 else np.eye(3))
  if kind == 'tilt':                # almost parallel
    return RA @ axis_angle(rand_unit(rng), 10 ** rng.uniform(-7, -2))
  raise ValueError(kind)


ORIENT_KINDS = ('random', 'random', 'identity', 'axis90', 'parallel', 'parallel-z', 'tilt')
DIR_KINDS = ('random', 'random', 'A-axis', 'A-diag2', 'A-diag3', 'B-axis', 'perp-Az', 'perp-Bz', 'near-A-axis')


def direction(rng, kind, RA, RB):
  if kind == 'random':
    return rand_unit(rng)
  if kind == 'A-axis':
    return RA[:, rng.randint(3)] * rng.choice([-1.0, 1.0])
  if kind == 'B-axis':
    return RB[:, rng.randint(3)] * rng.choice([-1.0, 1.0])
  if kind == 'A-diag2':
    i = rng.randint(3)
    v = RA[:, i] * rng.choice([-1.0, 1.0]) + RA[:, (i + 1) % 3] * rng.choice([-1.0, 1.0])
    return v / np.linalg.norm(v)
  if kind == 'A-diag3':
    v = RA @ rng.choice([-1.0, 1.0], size=3)
    return v / np.linalg.norm(v)
  if kind == 'perp-Az':
    return perp_unit(rng, RA[:, 2])
  if kind == 'perp-Bz':
    return perp_unit(rng, RB[:, 2])
  if kind == 'near-A-axis':
    v = RA[:, rng.randint(3)] * rng.choice([-1.0, 1.0]) + 10 ** rng.uniform(-8, -2) * rand_unit(rng)
    return v / np.linalg.norm(v)
  raise ValueError(kind)


def geom_xml(name, typ, size, margin=0.0, gap=0.0, mesh=None, extra=''):
  a = ' name="%s" type="%s"' % (name, typ)
  if typ == 'mesh':
    a += ' mesh="%s"' % mesh
  elif typ == 'plane':
    a += ' size="%s"' % fmt([size[0], size[1], 0.1])
  else:
    a += ' size="%s"' % fmt(size[:NSIZE[typ]])
  if margin:
    a += ' margin="%s"' % fmt(margin)
  if gap:
    a += ' gap="%s"' % fmt(gap)
  return '<geom%s%s/>' % (a, extra)


def two_geom_xml(ga, gb, option='', asset=''):
  return ('<mujoco>%s%s<worldbody><body name="a" mocap="true">%s</body>'
          '<body name="b"><freejoint/>%s</body></worldbody></mujoco>' % (option, asset, ga, gb))


def set_pose(lib, m, d, PA, RA, PB, RB):
  d.mocap_pos[0] = PA
  d.mocap_quat[0] = mat2quat(RA)
  d.qpos[0:3] = PB
  d.qpos[3:7] = mat2quat(RB)
  lib.mj_forward(m, d)


def place(rng, A, B_typ, B_size, RB, dvec, delta, B_verts=None):
  """Position of B's centre such that the support point of B along -dvec is at (support point of A along dvec)
  + delta*dvec.  A is a geomref.Shape already posed. For a plane A, dvec must be the plane normal."""
  if A.typ == 'plane':
    lat = A.mat[:, 0] * rng.uniform(-0.5, 0.5) + A.mat[:, 1] * rng.uniform(-0.5, 0.5)
    pA = A.pos + lat
  else:
    pA = gr.support(A, dvec)
  sB = RB @ gr.support_local(B_typ, B_size, RB.T @ (-dvec), B_verts)
  return pA + delta * dvec - sB


# ----------------------------------------------------------------------------- meshes

def icosphere(sub=1):
  t = (1 + 5 ** 0.5) / 2
  v = [(-1, t, 0), (1, t, 0), (-1, -t, 0), (1, -t, 0), (0, -1, t), (0, 1, t), (0, -1, -t), (0, 1, -t),
       (t, 0, -1), (t, 0, 1), (-t, 0, -1), (-t, 0, 1)]
  f = [(0, 11, 5), (0, 5, 1), (0, 1, 7), (0, 7, 10), (0, 10, 11), (1, 5, 9), (5, 11, 4), (11, 10, 2), (10, 7, 6),
       (7, 1, 8), (3, 9, 4), (3, 4, 2), (3, 2, 6), (3, 6, 8), (3, 8, 9), (4, 9, 5), (2, 4, 11), (6, 2, 10),
       (8, 6, 7), (9, 8, 1)]
  v = [np.array(p, dtype=float) / np.linalg.norm(p) for p in v]
  for _ in range(sub):
    cache = {}
    nf = []

    def mid(i, j):
      k = (min(i, j), max(i, j))
      if k not in cache:
        p = v[i] + v[j]
        v.append(p / np.linalg.norm(p))
        cache[k] = len(v) - 1
      return cache[k]
    for a, b, c in f:
      ab, bc, ca = mid(a, b), mid(b, c), mid(c, a)
      nf += [(a, ab, ca), (b, bc, ab), (c, ca, bc), (ab, bc, ca)]
    f = nf
  return np.array(v), np.array(f)


def uv_cylinder(n=12):
  """Closed cylinder radius 1, half height 1: vertices and outward triangles."""
  ang = 2 * np.pi * np.arange(n) / n
  top = np.stack([np.cos(ang), np.sin(ang), np.ones(n)], axis=1)
  bot = np.stack([np.cos(ang), np.sin(ang), -np.ones(n)], axis=1)
  v = np.concatenate([top, bot, [[0, 0, 1.0]], [[0, 0, -1.0]]])
  f = []
  for i in range(n):
    j = (i + 1) % n
    f += [(i, n + i, n + j), (i, n + j, j), (2 * n, i, j), (2 * n + 1, n + j, n + i)]
  return v, np.array(f)


def box_mesh():
  v = np.array([[sx, sy, sz] for sx in (-1., 1.) for sy in (-1., 1.) for sz in (-1., 1.)])
  f = [(0, 1, 3), (0, 3, 2), (4, 6, 7), (4, 7, 5), (0, 4, 5), (0, 5, 1), (2, 3, 7), (2, 7, 6), (0, 2, 6), (0, 6, 4),
       (1, 5, 7), (1, 7, 3)]
  return v, np.array(f)


def tetra_mesh():
  v = np.array([[1., 1, 1], [1, -1, -1], [-1, 1, -1], [-1, -1, 1]])
  f = [(0, 1, 2), (0, 3, 1), (0, 2, 3), (1, 3, 2)]
  return v, np.array(f)


def random_hull_points(rng, n):
  """Points in general position on a perturbed sphere (all are hull vertices with high probability)."""
  p = rng.normal(size=(n, 3))
  p /= np.linalg.norm(p, axis=1, keepdims=True)
  return p * rng.uniform(0.85, 1.0, size=(n, 1))


def mesh_asset(name, verts, faces=None, extra=''):
  s = '<mesh name="%s" vertex="%s"' % (name, ' '.join('%.9g' % x for x in np.asarray(verts).ravel()))
  if faces is not None:
    s += ' face="%s"' % ' '.join(str(int(i)) for i in np.asarray(faces).ravel())
  return s + extra + '/>'


def hull_faces(verts):
  """Triangulated convex hull faces of a point set by brute force (O(n^4) worst case, fine for n<=60):
  a triple is a hull face iff all other points are on one side. Coplanar faces yield all consistent triangles,
  which is harmless for plane-based membership tests."""
  v = np.asarray(verts, dtype=float)
  n = len(v)
  sc = np.max(np.linalg.norm(v - v.mean(axis=0), axis=1))
  faces = []
  for i in range(n):
    for j in range(i + 1, n):
      for k in range(j + 1, n):
        nn = np.cross(v[j] - v[i], v[k] - v[i])
        ln = np.linalg.norm(nn)
        if ln < 1e-9 * sc * sc:
          continue
        s = (v - v[i]) @ (nn / ln)
        if np.all(s <= 1e-7 * sc):
          faces.append((i, j, k))
        elif np.all(s >= -1e-7 * sc):
          faces.append((i, k, j))
  return np.array(faces, dtype=int)


# ----------------------------------------------------------------------------- engine evaluation (in-process / worker)

CON_DTYPE = np.dtype([('dist', 'f8'), ('pos', 'f8', (3,)), ('frame', 'f8', (9,)), ('geom', 'i4', (2,)),
                      ('includemargin', 'f8')])


def pack_result(ncon, dist, pos, frame, geom, includemargin, xpos, xmat, gd=None):
  con = np.zeros(ncon, dtype=CON_DTYPE)
  if ncon:
    con['dist'] = dist
    con['pos'] = np.asarray(pos, dtype=float).reshape(ncon, 3)
    con['frame'] = np.asarray(frame, dtype=float).reshape(ncon, 9)
    con['geom'] = np.asarray(geom, dtype=np.int32).reshape(ncon, 2)
    con['includemargin'] = includemargin
  res = dict(ncon=ncon, con=con, xpos=np.asarray(xpos, dtype=float).reshape(-1, 3),
             xmat=np.asarray(xmat, dtype=float).reshape(-1, 3, 3))
  if gd is not None:
    res.update(d12=float(gd[0]), f12=np.asarray(gd[1], dtype=float), d21=float(gd[2]), f21=np.asarray(gd[3], dtype=float))
  return res


def eval_pose(lib, m, d, mocap_pos, mocap_quat, qpos, distmax=None, raw=False):
  """Set the pose of a two-geom scene, run mj_forward and (optionally) the two mj_geomDistance queries."""
  d.mocap_pos[0] = mocap_pos
  d.mocap_quat[0] = mocap_quat
  d.qpos[:] = qpos
  lib.mj_forward(m, d)
  n = int(d.ncon)
  c = d.contact[:n]
  out = dict(ncon=n, dist=[float(x) for x in c['dist']], pos=np.array(c['pos']).ravel().tolist(),
             frame=np.array(c['frame']).ravel().tolist(), geom=np.array(c['geom']).ravel().tolist(),
             includemargin=[float(x) for x in c['includemargin']], xpos=np.array(d.geom_xpos).ravel().tolist(),
             xmat=np.array(d.geom_xmat).ravel().tolist())
  if distmax is not None:
    f12, f21 = np.zeros(6), np.zeros(6)
    d12 = lib.mj_geomDistance(m, d, 0, 1, float(distmax), f12)
    d21 = lib.mj_geomDistance(m, d, 1, 0, float(distmax), f21)
    out['gd'] = [float(d12), f12.tolist(), float(d21), f21.tolist()]
  if raw:
    return out
  return pack_result(out['ncon'], out['dist'], out['pos'], out['frame'], out['geom'], out['includemargin'], out['xpos'],
                     out['xmat'], out.get('gd'))


class WorkerDied(Exception):
  def __init__(self, rc):
    Exception.__init__(self, 'collision worker died rc=%s' % rc)
    self.rc = rc


class EngineWorker:
  """Small subprocess that evaluates two-geom poses (checks/c13_worker.py): a crash of the collider kills the worker, not
  the check. One JSON request per line, one JSON reply per line."""

  def __init__(self):
    self.p = None

  def start(self):
    import os
    import subprocess
    import sys
    root = os.path.dirname(os.path.dirname(os.path.abspath(__file__)))
    env = dict(os.environ)
    env['PYTHONPATH'] = root + (':' + env['PYTHONPATH'] if env.get('PYTHONPATH') else '')
    self.p = subprocess.Popen([sys.executable, '-W', 'ignore', '-m', 'checks.c13_worker'], cwd=root, env=env,
                              stdin=subprocess.PIPE, stdout=subprocess.PIPE, text=True, bufsize=1)

  def stop(self):
    if self.p is not None:
      try:
        self.p.stdin.close()
        self.p.wait(timeout=10)
      except Exception:
        self.p.kill()
      self.p = None

  def call(self, req, timeout=120):
    import json
    import select
    if self.p is None or self.p.poll() is not None:
      self.start()
    try:
      self.p.stdin.write(json.dumps(req) + '\n')
      self.p.stdin.flush()
      r, _, _ = select.select([self.p.stdout], [], [], timeout)
      line = self.p.stdout.readline() if r else ''
    except (BrokenPipeError, OSError):
      line = ''
    if not line:
      rc = None
      try:
        if self.p.poll() is None:
          self.p.kill()             # hung (e.g. endless loop in the collider): treat like a death, rc = 'timeout'
          rc = 'timeout'
        else:
          rc = self.p.returncode
      finally:
        self.p = None
      raise WorkerDied(rc)
    out = json.loads(line)
    if 'error' in out:
      from vf import mj
      raise mj.MjError(out['error'])
    return pack_result(out['ncon'], out['dist'], out['pos'], out['frame'], out['geom'], out['includemargin'], out['xpos'],
                       out['xmat'], out.get('gd'))


def guarded_eval(ck, lib, worker, req, pair, convex, stats, what=''):
  """Evaluate a request in the worker. On worker death: journal, re-run ONCE in a fresh worker; a deterministic death is the
  known EPA buffer overrun only if `convex` (both geoms non-sphere convex types routed through mjc_Convex) AND the same pose
  survives with ccd_iterations + 37; everything else is a plain violation. Returns None when the pose died."""
  ck.journal(dict(stage='collision worker', what=what, **req))
  try:
    return worker.call(req)
  except WorkerDied as e1:
    rc1 = e1.rc
  try:
    worker.call(req)
    ck.violation('collision worker died (rc=%s) on a pose that survives when repeated in a fresh process: non-deterministic '
                 'crash; request=%s' % (rc1, req), dict(req), bucket='worker-death-nondeterministic')
    return None
  except WorkerDied as e2:
    rc2 = e2.rc
  m_ = lib.model_from_xml(req['xml'])
  it0 = int(m_.opt.ccd_iterations)
  # Root cause (confirmed by instrumenting addEdge in a scratch build): epa()'s horizon arrays hold 24 edges and addEdge() has
  # no bound check; after enough EPA iterations on curved / flat-capped geoms a new support point sees a silhouette of > 24
  # edges (39 observed) and the arrays are overrun into the neighbouring stack memory. With ccd_iterations <= 20 the polytope
  # has at most 25 vertices and the horizon cannot exceed the buffer, so the same pose must survive there; it may or may
  # not survive with other large limits (200: dies, 237: dies, 1000: survives for the second reproducer).
  survived = None
  if convex:
    for it in (20, it0 + 37):
      try:
        worker.call(dict(req, ccd_iterations=it))
        survived = it
        break
      except WorkerDied:
        continue
  msg = ('mj_forward / mj_geomDistance kills the process (rc %s, %s) on a %s-%s pose; deterministic; ccd_iterations %d; re-run with '
         'ccd_iterations 20 / %d: %s; request=%s' % (rc1, rc2, pair[0], pair[1], it0, it0 + 37,
                                                     'survives with %d' % survived if survived else 'not retried / dies too', req))
  if convex and survived and it0 > 24:
    stats['finding:epa-buffer-overrun-iteration-limit'] = stats.get('finding:epa-buffer-overrun-iteration-limit', 0) + 1
    ck.violation('native EPA overruns its horizon buffer (24 edges, addEdge has no bound check) after many iterations -- '
                 + msg, dict(req), bucket='known:epa-buffer-overrun-iteration-limit',
                 fingerprint='%s:epa-buffer-overrun-iteration-limit' % ck.pid)
  else:
    ck.violation(msg, dict(req), bucket='worker-death:%s-%s' % pair)
  return None


EPA_CRASH_REPRO = dict(
    xml='<mujoco><option ccd_tolerance="1e-06" ccd_iterations="200"></option><worldbody><body name="a" mocap="true"><geom name="ga" '
        'type="cylinder" size="0.7525543373101293 0.7492616839243159" margin="0.0002317796440039266" gap="0.019960588564669045"/>'
        '</body><body name="b"><freejoint/><geom name="gb" type="box" size="1.1415245304822925 2.0626289699860276 2.207039358751939" '
        'margin="0.0005174820399203894" gap="0.0031575881191011415"/></body></worldbody></mujoco>',
    mocap_pos=[0.7536486137932363, -0.4895831557413479, 0.45171329183285036],
    mocap_quat=[0.633130995548563, 0.7075576255332753, -0.28083651594308495, -0.1401363633692142],
    qpos=[1.6729409851619716, 1.8866785473474532, 3.628184071731406, 0.5472098691669472, 0.7609263052723836,
          -0.022318155879388627, -0.34792875269077067], distmax=1.0)
