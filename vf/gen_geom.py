"""Generators for two-geom collision scenes (C13, C15) and helpers shared by the geometry checks.

A scene is one model: geom A on a mocap body (bodies 1), geom B on a free body (body 2); poses are set through
mocap_pos/mocap_quat and qpos so that many poses can be evaluated per compiled model.
All continuous randomness comes from a numpy RandomState seeded by a Hypothesis-drawn integer.
"""
import math

import numpy as np

from vf.oracle import geomref as gr

PRIMS = ('sphere', 'capsule', 'ellipsoid', 'cylinder', 'box')
NSIZE = dict(plane=3, sphere=1, capsule=2, ellipsoid=3, cylinder=2, box=3)


def fmt(x):
  if isinstance(x, (list, tuple, np.ndarray)):
    return ' '.join(repr(float(v)) for v in x)
  return repr(float(x))


def quat2mat(q):
  q = np.asarray(q, dtype=float)
  q = q / np.linalg.norm(q)
  w, x, y, z = q
  return np.array([[1 - 2 * (y * y + z * z), 2 * (x * y - w * z), 2 * (x * z + w * y)],
                   [2 * (x * y + w * z), 1 - 2 * (x * x + z * z), 2 * (y * z - w * x)],
                   [2 * (x * z - w * y), 2 * (y * z + w * x), 1 - 2 * (x * x + y * y)]])


def mat2quat(R):
  """Rotation matrix -> unit quaternion (w,x,y,z), Shepperd's method."""
  t = np.trace(R)
  if t > 0:
    s = math.sqrt(t + 1.0) * 2
    q = [0.25 * s, (R[2, 1] - R[1, 2]) / s, (R[0, 2] - R[2, 0]) / s, (R[1, 0] - R[0, 1]) / s]
  else:
    i = int(np.argmax(np.diag(R)))
    j, k = (i + 1) % 3, (i + 2) % 3
    s = math.sqrt(max(R[i, i] - R[j, j] - R[k, k] + 1.0, 0.0)) * 2
    q = [0, 0, 0, 0]
    q[0] = (R[k, j] - R[j, k]) / s
    q[1 + i] = 0.25 * s
    q[1 + j] = (R[j, i] + R[i, j]) / s
    q[1 + k] = (R[k, i] + R[i, k]) / s
  q = np.array(q)
  return q / np.linalg.norm(q)


def rand_quat(rng):
  q = rng.normal(size=4)
  return q / np.linalg.norm(q)


def axis_angle(axis, ang):
  a = np.asarray(axis, dtype=float)
  a = a / np.linalg.norm(a)
  return quat2mat([math.cos(ang / 2), *(math.sin(ang / 2) * a)])


def signed_perm(rng):
  """Random proper rotation that maps axes to +-axes."""
  while True:
    p = rng.permutation(3)
    R = np.zeros((3, 3))
    for i in range(3):
      R[i, p[i]] = rng.choice([-1.0, 1.0])
    if np.linalg.det(R) > 0:
      return R


def rand_unit(rng):
  v = rng.normal(size=3)
  return v / np.linalg.norm(v)


def perp_unit(rng, a):
  while True:
    v = np.cross(a, rng.normal(size=3))
    n = np.linalg.norm(v)
    if n > 1e-3:
      return v / n


def rand_size(rng, typ, scale, aniso=4.0):
  """Sizes of a primitive with overall scale `scale` and anisotropy up to `aniso`."""
  n = NSIZE[typ]
  s = scale * np.exp(rng.uniform(-math.log(aniso) / 2, math.log(aniso) / 2, size=n))
  if rng.rand() < 0.15 and n > 1:       # equal sizes (sphere-like ellipsoid, cube)
    s[:] = s[0]
  return s


def orient(rng, kind, RA=None):
  if kind == 'random':
    return quat2mat(rand_quat(rng))
  if kind == 'identity':
    return np.eye(3)
  if kind == 'axis90':
    return signed_perm(rng)
  if kind == 'parallel':            # same axes as A (possibly permuted signs): parallel capsules, face-face boxes
    return RA @ signed_perm(rng) if rng.rand() < 0.5 else RA.copy()
  if kind == 'parallel-z':          # same z axis as A, twisted about it
    return RA @ axis_angle([0, 0, 1], rng.uniform(-math.pi, math.pi)) @ (np.diag([1.0, -1, -1]) if rng.rand() < .5 else np.eye(3))
  if kind == 'tilt':                # almost parallel
    return RA @ axis_angle(rand_unit(rng), 10 ** rng.uniform(-7, -2))
  raise ValueError(kind)


ORIENT_KINDS = ('random', 'random', 'identity', 'axis90', 'parallel', 'parallel-z', 'tilt')
DIR_KINDS = ('random', 'random', 'A-axis', 'A-diag2', 'A-diag3', 'B-axis', 'perp-Az', 'perp-Bz', 'near-A-axis')


def direction(rng, kind, RA, RB):
  if kind == 'random':
    return rand_unit(rng)
  if kind == 'A-axis':
    return RA[:, rng.randint(3)] * rng.choice([-1.0, 1.0])
  if kind == 'B-axis':
    return RB[:, rng.randint(3)] * rng.choice([-1.0, 1.0])
  if kind == 'A-diag2':
    i = rng.randint(3)
    v = RA[:, i] * rng.choice([-1.0, 1.0]) + RA[:, (i + 1) % 3] * rng.choice([-1.0, 1.0])
    return v / np.linalg.norm(v)
  if kind == 'A-diag3':
    v = RA @ rng.choice([-1.0, 1.0], size=3)
    return v / np.linalg.norm(v)
  if kind == 'perp-Az':
    return perp_unit(rng, RA[:, 2])
  if kind == 'perp-Bz':
    return perp_unit(rng, RB[:, 2])
  if kind == 'near-A-axis':
    v = RA[:, rng.randint(3)] * rng.choice([-1.0, 1.0]) + 10 ** rng.uniform(-8, -2) * rand_unit(rng)
    return v / np.linalg.norm(v)
  raise ValueError(kind)


def geom_xml(name, typ, size, margin=0.0, gap=0.0, mesh=None, extra=''):
  a = ' name="%s" type="%s"' % (name, typ)
  if typ == 'mesh':
    a += ' mesh="%s"' % mesh
  elif typ == 'plane':
    a += ' size="%s"' % fmt([size[0], size[1], 0.1])
  else:
    a += ' size="%s"' % fmt(size[:NSIZE[typ]])
  if margin:
    a += ' margin="%s"' % fmt(margin)
  if gap:
    a += ' gap="%s"' % fmt(gap)
  return '<geom%s%s/>' % (a, extra)


def two_geom_xml(ga, gb, option='', asset=''):
  return ('<mujoco>%s%s<worldbody><body name="a" mocap="true">%s</body>'
          '<body name="b"><freejoint/>%s</body></worldbody></mujoco>' % (option, asset, ga, gb))


def set_pose(lib, m, d, PA, RA, PB, RB):
  d.mocap_pos[0] = PA
  d.mocap_quat[0] = mat2quat(RA)
  d.qpos[0:3] = PB
  d.qpos[3:7] = mat2quat(RB)
  lib.mj_forward(m, d)


def place(rng, A, B_typ, B_size, RB, dvec, delta, B_verts=None):
  """Position of B's centre such that the support point of B along -dvec is at (support point of A along dvec)
  + delta*dvec.  A is a geomref.Shape already posed. For a plane A, dvec must be the plane normal."""
  if A.typ == 'plane':
    lat = A.mat[:, 0] * rng.uniform(-0.5, 0.5) + A.mat[:, 1] * rng.uniform(-0.5, 0.5)
    pA = A.pos + lat
  else:
    pA = gr.support(A, dvec)
  sB = RB @ gr.support_local(B_typ, B_size, RB.T @ (-dvec), B_verts)
  return pA + delta * dvec - sB


# ----------------------------------------------------------------------------- meshes

def icosphere(sub=1):
  t = (1 + 5 ** 0.5) / 2
  v = [(-1, t, 0), (1, t, 0), (-1, -t, 0), (1, -t, 0), (0, -1, t), (0, 1, t), (0, -1, -t), (0, 1, -t),
       (t, 0, -1), (t, 0, 1), (-t, 0, -1), (-t, 0, 1)]
  f = [(0, 11, 5), (0, 5, 1), (0, 1, 7), (0, 7, 10), (0, 10, 11), (1, 5, 9), (5, 11, 4), (11, 10, 2), (10, 7, 6),
       (7, 1, 8), (3, 9, 4), (3, 4, 2), (3, 2, 6), (3, 6, 8), (3, 8, 9), (4, 9, 5), (2, 4, 11), (6, 2, 10),
       (8, 6, 7), (9, 8, 1)]
  v = [np.array(p, dtype=float) / np.linalg.norm(p) for p in v]
  for _ in range(sub):
    cache = {}
    nf = []

    def mid(i, j):
      k = (min(i, j), max(i, j))
      if k not in cache:
        p = v[i] + v[j]
        v.append(p / np.linalg.norm(p))
        cache[k] = len(v) - 1
      return cache[k]
    for a, b, c in f:
      ab, bc, ca = mid(a, b), mid(b, c), mid(c, a)
      nf += [(a, ab, ca), (b, bc, ab), (c, ca, bc), (ab, bc, ca)]
    f = nf
  return np.array(v), np.array(f)


def uv_cylinder(n=12):
  """Closed cylinder radius 1, half height 1: vertices and outward triangles."""
  ang = 2 * np.pi * np.arange(n) / n
  top = np.stack([np.cos(ang), np.sin(ang), np.ones(n)], axis=1)
  bot = np.stack([np.cos(ang), np.sin(ang), -np.ones(n)], axis=1)
  v = np.concatenate([top, bot, [[0, 0, 1.0]], [[0, 0, -1.0]]])
  f = []
  for i in range(n):
    j = (i + 1) % n
    f += [(i, n + i, n + j), (i, n + j, j), (2 * n, i, j), (2 * n + 1, n + j, n + i)]
  return v, np.array(f)


def box_mesh():
  v = np.array([[sx, sy, sz] for sx in (-1., 1.) for sy in (-1., 1.) for sz in (-1., 1.)])
  f = [(0, 1, 3), (0, 3, 2), (4, 6, 7), (4, 7, 5), (0, 4, 5), (0, 5, 1), (2, 3, 7), (2, 7, 6), (0, 2, 6), (0, 6, 4),
       (1, 5, 7), (1, 7, 3)]
  return v, np.array(f)


def tetra_mesh():
  v = np.array([[1., 1, 1], [1, -1, -1], [-1, 1, -1], [-1, -1, 1]])
  f = [(0, 1, 2), (0, 3, 1), (0, 2, 3), (1, 3, 2)]
  return v, np.array(f)


def random_hull_points(rng, n):
  """Points in general position on a perturbed sphere (all are hull vertices with high probability)."""
  p = rng.normal(size=(n, 3))
  p /= np.linalg.norm(p, axis=1, keepdims=True)
  return p * rng.uniform(0.85, 1.0, size=(n, 1))


def mesh_asset(name, verts, faces=None, extra=''):
  s = '<mesh name="%s" vertex="%s"' % (name, ' '.join('%.9g' % x for x in np.asarray(verts).ravel()))
  if faces is not None:
    s += ' face="%s"' % ' '.join(str(int(i)) for i in np.asarray(faces).ravel())
  return s + extra + '/>'


def hull_faces(verts):
  """Triangulated convex hull faces of a point set by brute force (O(n^4) worst case, fine for n<=60):
  a triple is a hull face iff all other points are on one side. Coplanar faces yield all consistent triangles,
  which is harmless for plane-based membership tests."""
  v = np.asarray(verts, dtype=float)
  n = len(v)
  sc = np.max(np.linalg.norm(v - v.mean(axis=0), axis=1))
  faces = []
  for i in range(n):
    for j in range(i + 1, n):
      for k in range(j + 1, n):
        nn = np.cross(v[j] - v[i], v[k] - v[i])
        ln = np.linalg.norm(nn)
        if ln < 1e-9 * sc * sc:
          continue
        s = (v - v[i]) @ (nn / ln)
        if np.all(s <= 1e-7 * sc):
          faces.append((i, j, k))
        elif np.all(s >= -1e-7 * sc):
          faces.append((i, k, j))
  return np.array(faces, dtype=int)
