"""Rich MJCF documents for the model-IO / compiler properties (C31, C32, C33).

rich_models(**kw) -> strategy of GenModel: a modelgen model enriched (through ElementTree rewriting) with
  assets (inline meshes, inline hfield, builtin textures, materials + geoms that use them), nested default classes
  with class= / childclass= assignments, <frame> wrappers (nested, with childclass), <replicate> blocks (incl. the
  "direct children interleaved with frame children" shape), contact pairs / excludes, custom numeric/text/tuple,
  keyframes, compiler / size / visual / statistic settings, geom adhesion / surfacevel, body gravcomp, user data.
Every feature adds a label so that evidence shows what the generator reached.
"""
import math
import xml.etree.ElementTree as ET

from hypothesis import strategies as st

from . import modelgen as mg
from .modelgen import fmt, num

MESHES = {
    'tetra': ('0 0 0  1 0 0  0 1 0  0 0 1', '0 2 1  0 1 3  0 3 2  1 2 3'),
    'cube': ('-1 -1 -1  1 -1 -1  1 1 -1  -1 1 -1  -1 -1 1  1 -1 1  1 1 1  -1 1 1', None),
    'octa': ('1 0 0  -1 0 0  0 1 0  0 -1 0  0 0 1  0 0 -1', None),
    'wedge': ('0 0 0  2 0 0  0 1 0  2 1 0  0 0 1  2 0 1', None),
}


def _set(el, **kw):
  for k, v in kw.items():
    if v is not None:
      el.set(k, v if isinstance(v, str) else fmt(v))


@st.composite
def _quat(draw):
  q = draw(mg.unit_quat())
  return fmt(q)


@st.composite
def _pose(draw, scale=0.3):
  a = dict(pos=fmt([draw(num(-scale, scale)) for _ in range(3)]))
  o = draw(mg.orientation())
  if o:
    a[o[0]] = o[1]
  return a


def _walk_bodies(el):
  for c in el:
    if c.tag == 'body':
      yield c
      yield from _walk_bodies(c)
    elif c.tag in ('frame', 'replicate'):
      yield from _walk_bodies(c)


@st.composite
def rich_models(draw, max_bodies=4, assets=True, defaults=True, frames=True, replicate=True, contact=True,
                custom=True, keyframes=True, compiler=True, sizes=True, visual=True, extras=True, min_meshes=0,
                min_textures=0, usethread=None, base_kwargs=None, hull=True, memory=None, fusestatic=True, muscles=False):
  kw = dict(max_bodies=max_bodies, sensors=True, mocap=True, userdata=True, cameras=True, lights=True,
            opt_kwargs=dict(sleep=False))
  kw.update(base_kwargs or {})
  gm = draw(mg.models(**kw))
  labels = set(gm.info['labels'])
  root = ET.fromstring(gm.xml)
  world = root.find('worldbody')
  info = dict(gm.info)

  # ---------------- compiler / size / visual / statistic
  comp = {}
  if compiler:
    if draw(st.integers(0, 2)) == 0:
      comp['angle'] = draw(st.sampled_from(['radian', 'degree']))
    if draw(st.integers(0, 3)) == 0:
      comp['eulerseq'] = draw(st.sampled_from(['xyz', 'zyx', 'XYZ', 'ZYX', 'xzy', 'YXZ', 'zxz']))
    if draw(st.integers(0, 3)) == 0:
      comp['autolimits'] = draw(st.sampled_from(['true', 'false']))
    if draw(st.integers(0, 4)) == 0:
      comp['boundmass'] = fmt(draw(num(0.01, 0.5)))
    if draw(st.integers(0, 4)) == 0:
      comp['boundinertia'] = fmt(draw(num(0.001, 0.05, 3)))
    if draw(st.integers(0, 11)) == 0:      # rare: the writer drops it (C32 finding), which masks everything else
      comp['settotalmass'] = fmt(draw(num(1, 30, 1)))
    if draw(st.integers(0, 4)) == 0:
      comp['balanceinertia'] = 'true'
    if draw(st.integers(0, 4)) == 0:
      comp['inertiafromgeom'] = draw(st.sampled_from(['true', 'auto']))
    if draw(st.integers(0, 5)) == 0:
      comp['alignfree'] = 'true'
    if draw(st.integers(0, 5)) == 0:
      comp['saveinertial'] = 'true'
    if draw(st.integers(0, 11)) == 0:      # rare: the writer drops it (C32 finding)
      comp['inertiagrouprange'] = '0 %d' % draw(st.integers(2, 5))
    if fusestatic and draw(st.integers(0, 11)) == 0:   # rare: several known fusestatic findings mask other things
      comp['fusestatic'] = 'true'
  if usethread is not None:
    comp['usethread'] = 'true' if usethread else 'false'
  if comp:
    c = ET.Element('compiler')
    _set(c, **comp)
    root.insert(0, c)
    for k in comp:
      if k != 'usethread':
        labels.add('compiler:' + k)
  nuser = {}
  if memory:
    s = root.find('size')
    if s is None:
      s = ET.Element('size')
      root.insert(1 if comp else 0, s)
    s.set('memory', memory)
  if sizes and draw(st.integers(0, 2)) == 0:
    s = root.find('size')
    if s is None:
      s = ET.Element('size')
      root.insert(1 if comp else 0, s)
    for k in ('nuser_body', 'nuser_jnt', 'nuser_geom', 'nuser_site', 'nuser_cam', 'nuser_tendon', 'nuser_actuator',
              'nuser_sensor'):
      if draw(st.integers(0, 2)) == 0:
        nuser[k] = draw(st.integers(1, 3))
        s.set(k, str(nuser[k]))
    if nuser:
      labels.add('nuser')
  if visual and draw(st.integers(0, 2)) == 0:
    v = ET.SubElement(root, 'visual')
    if draw(st.booleans()):
      _set(ET.SubElement(v, 'global'), fovy=fmt(draw(num(20, 90, 0))), offwidth=str(draw(st.integers(100, 900))),
           azimuth=fmt(draw(num(-180, 180, 0))))
    if draw(st.booleans()):
      _set(ET.SubElement(v, 'quality'), shadowsize=str(draw(st.sampled_from([512, 1024, 4096]))),
           numslices=str(draw(st.integers(8, 40))))
    if draw(st.booleans()):
      _set(ET.SubElement(v, 'headlight'), ambient=fmt([draw(num(0, 1)) for _ in range(3)]),
           active=str(draw(st.integers(0, 1))))
    if draw(st.booleans()):
      _set(ET.SubElement(v, 'map'), stiffness=fmt(draw(num(10, 500, 0))), znear=fmt(draw(num(0.001, 0.1, 3))),
           fogend=fmt(draw(num(5, 20, 0))))
    if draw(st.booleans()):
      _set(ET.SubElement(v, 'scale'), forcewidth=fmt(draw(num(0.01, 0.5))), com=fmt(draw(num(0.1, 1))),
           framelength=fmt(draw(num(0.1, 2))))
    if draw(st.booleans()):
      _set(ET.SubElement(v, 'rgba'), fog=fmt([draw(num(0, 1)) for _ in range(4)]),
           contactforce=fmt([draw(num(0, 1)) for _ in range(4)]))
    labels.add('visual')
  if visual and draw(st.integers(0, 3)) == 0:
    s = ET.SubElement(root, 'statistic')
    if draw(st.booleans()):
      s.set('extent', fmt(draw(num(0.5, 5))))
    if draw(st.booleans()):
      s.set('center', fmt([draw(num(-1, 1)) for _ in range(3)]))
    if draw(st.booleans()):
      s.set('meansize', fmt(draw(num(0.05, 1))))
    if draw(st.booleans()):
      s.set('meanmass', fmt(draw(num(0.1, 5))))
    if draw(st.booleans()):
      s.set('meaninertia', fmt(draw(num(0.01, 1))))
    labels.add('statistic')

  # ---------------- assets
  meshnames, texnames, matnames, hfname = [], [], [], None
  if assets:
    a = ET.Element('asset')
    nmesh = draw(st.integers(min_meshes, max(min_meshes, 3)))
    for i in range(nmesh):
      kind = draw(st.sampled_from(sorted(MESHES) if hull else ['tetra']))
      v, f = MESHES[kind]
      m = ET.SubElement(a, 'mesh', name='mesh%d' % i, vertex=v)
      if f and draw(st.booleans()):
        m.set('face', f)
      s = draw(num(0.05, 0.3))
      if draw(st.booleans()):
        m.set('scale', fmt([s, draw(num(0.05, 0.3)), draw(num(0.05, 0.3))]))
      else:
        m.set('scale', fmt([s, s, s]))
      if draw(st.integers(0, 3)) == 0:
        m.set('inertia', draw(st.sampled_from(['convex', 'exact', 'legacy', 'shell'])))
      if draw(st.integers(0, 3)) == 0:
        m.set('refpos', fmt([draw(num(-0.1, 0.1)) for _ in range(3)]))
      if draw(st.integers(0, 3)) == 0:
        m.set('refquat', draw(_quat()))
      meshnames.append('mesh%d' % i)
      labels.add('mesh')
    if draw(st.integers(0, 2)) == 0:
      nr, nc = draw(st.integers(2, 4)), draw(st.integers(2, 4))
      elev = [draw(st.integers(0, 9)) / 10 for _ in range(nr * nc)]
      ET.SubElement(a, 'hfield', name='hf', nrow=str(nr), ncol=str(nc), size='0.5 0.5 0.2 0.05', elevation=fmt(elev))
      hfname = 'hf'
      labels.add('hfield')
    ntex = draw(st.integers(min_textures, max(min_textures, 3)))
    for i in range(ntex):
      ty = draw(st.sampled_from(['2d', 'cube', 'skybox']))
      t = ET.SubElement(a, 'texture', name='tex%d' % i, type=ty,
                        builtin=draw(st.sampled_from(['checker', 'gradient', 'flat'])),
                        rgb1=fmt([draw(num(0, 1, 1)) for _ in range(3)]), rgb2=fmt([draw(num(0, 1, 1)) for _ in range(3)]),
                        width=str(draw(st.sampled_from([4, 8, 16, 32]))))
      t.set('height', str(int(t.get('width')) * (6 if ty != '2d' and draw(st.booleans()) else 1)) if ty != '2d'
            else str(draw(st.sampled_from([4, 8, 16]))))
      if draw(st.integers(0, 2)) == 0:
        t.set('mark', draw(st.sampled_from(['edge', 'cross', 'random'])))
        t.set('markrgb', fmt([draw(num(0, 1, 1)) for _ in range(3)]))
      if draw(st.integers(0, 9)) == 0:       # rare: the writer drops it (C32 finding)
        t.set('nchannel', str(draw(st.sampled_from([3, 4]))))
      texnames.append(('tex%d' % i, ty))
      labels.add('texture')
    nmat = draw(st.integers(0, 3))
    for i in range(nmat):
      m = ET.SubElement(a, 'material', name='mat%d' % i, rgba=fmt([draw(num(0, 1, 1)) for _ in range(4)]))
      t2 = [t for t, ty in texnames if ty != 'skybox']
      if t2 and draw(st.booleans()):
        m.set('texture', draw(st.sampled_from(t2)))
        if draw(st.booleans()):
          m.set('texrepeat', fmt([draw(num(1, 4, 0)), draw(num(1, 4, 0))]))
        if draw(st.booleans()):
          m.set('texuniform', 'true')
      for k in ('emission', 'specular', 'shininess', 'reflectance'):
        if draw(st.integers(0, 3)) == 0:
          m.set(k, fmt(draw(num(0, 1))))
      matnames.append('mat%d' % i)
      labels.add('material')
    if len(a):
      idx = [i for i, c in enumerate(root) if c.tag == 'worldbody'][0]
      root.insert(idx, a)
    # geoms using the assets
    bodies = list(_walk_bodies(world))
    for i, mn in enumerate(meshnames):
      if draw(st.integers(0, 3)) == 0 and i >= min_meshes:
        continue
      parent = draw(st.sampled_from(bodies + [world])) if bodies else world
      g = ET.SubElement(parent, 'geom', name='gm%d' % i, type='mesh', mesh=mn)
      _set(g, **draw(_pose(0.3)))
      if not kw.get('contacts', True):
        _set(g, contype='0', conaffinity='0')
      if draw(st.integers(0, 2)) == 0:
        other = draw(st.sampled_from(['sphere', 'box', 'capsule', 'ellipsoid', 'cylinder']))
        g.set('type', other)       # primitive fitted to the mesh
        g.set('fitscale', fmt(draw(num(0.8, 1.3))))
        labels.add('meshfit')
    if hfname:
      g = ET.SubElement(world, 'geom', name='ghf', type='hfield', hfield=hfname, pos='0 0 -1')
    allgeoms = [g for g in root.iter('geom') if g.get('name')]
    for g in allgeoms:
      if matnames and draw(st.integers(0, 3)) == 0:
        g.set('material', draw(st.sampled_from(matnames)))
    for s in root.iter('site'):
      if matnames and draw(st.integers(0, 3)) == 0 and s.get('site') is None:
        s.set('material', draw(st.sampled_from(matnames)))

  # ---------------- extras: adhesion, surfacevel, gravcomp, user data
  if extras:
    for g in list(root.iter('geom')):
      if g.get('name') is None:
        continue
      if draw(st.integers(0, 7)) == 0:
        g.set('adhesion', fmt(draw(num(0.1, 5, 1))))
        labels.add('geom-adhesion')
      if draw(st.integers(0, 7)) == 0:
        g.set('surfacevel', fmt([draw(num(-1, 1, 1)) for _ in range(draw(st.sampled_from([3, 6])))]))
        labels.add('surfacevel')
      if 'nuser_geom' in nuser and draw(st.booleans()):
        g.set('user', fmt([draw(num(-5, 5, 1)) for _ in range(draw(st.integers(1, nuser['nuser_geom'])))]))
    for b in _walk_bodies(world):
      if b.get('mocap') != 'true' and draw(st.integers(0, 6)) == 0:
        b.set('gravcomp', fmt(draw(num(0.1, 1.5, 1))))
        labels.add('gravcomp')
      if 'nuser_body' in nuser and draw(st.booleans()):
        b.set('user', fmt([draw(num(-5, 5, 1)) for _ in range(nuser['nuser_body'])]))
    for j in world.iter('joint'):
      if j.get('joint') is None and 'nuser_jnt' in nuser and draw(st.booleans()) and j.get('name'):
        j.set('user', fmt([draw(num(-5, 5, 1)) for _ in range(nuser['nuser_jnt'])]))

  # ---------------- <freejoint/> spelling (created without defaults) for some free joints
  for b in list(_walk_bodies(world)):
    for j in list(b):
      if j.tag == 'joint' and j.get('type') == 'free' and draw(st.booleans()):
        fj = ET.Element('freejoint')
        if j.get('name'):
          fj.set('name', j.get('name'))
        b.insert(list(b).index(j), fj)
        b.remove(j)
        labels.add('freejoint')

  # ---------------- defaults
  if defaults and draw(st.integers(0, 3)) != 0:
    d0 = ET.Element('default')
    classes = []

    def fill(d, depth):
      if draw(st.booleans()):
        ga = {}
        if draw(st.booleans()):
          ga['friction'] = fmt([draw(num(0.2, 1.5)), draw(num(0.001, 0.05, 3)), draw(num(0.0001, 0.005, 4))])
        if draw(st.booleans()):
          ga['rgba'] = fmt([draw(num(0, 1, 1)) for _ in range(4)])
        if draw(st.integers(0, 2)) == 0:
          ga['solref'] = fmt([draw(num(0.005, 0.05, 3)), draw(num(0.5, 1.5, 1))])
        if draw(st.integers(0, 2)) == 0:
          ga['solimp'] = fmt([draw(num(0.8, 0.9)), draw(num(0.9, 0.99)), draw(num(0.001, 0.01, 3))])
        if draw(st.integers(0, 2)) == 0:
          ga['margin'] = fmt(draw(num(0, 0.02, 3)))
        if draw(st.integers(0, 2)) == 0:
          ga['density'] = fmt(draw(num(200, 3000, 0)))
        if draw(st.integers(0, 3)) == 0:
          ga['group'] = str(draw(st.integers(0, 5)))
        if draw(st.integers(0, 3)) == 0:
          ga['condim'] = str(draw(st.sampled_from([1, 3, 4, 6])))
        if draw(st.integers(0, 3)) == 0:
          ga['solmix'] = fmt(draw(num(0.5, 2, 1)))
        if draw(st.integers(0, 4)) == 0:
          ga['priority'] = str(draw(st.integers(0, 2)))
        if depth >= 1 and draw(st.integers(0, 2)) == 0:
          # a nested class that sets an attribute back to the built-in default (the parent class may override it)
          ga[draw(st.sampled_from(['friction', 'margin', 'condim', 'solmix']))] = None
          ga = {k: (v if v is not None else dict(friction='1 0.005 0.0001', margin='0', condim='3', solmix='1')[k])
                for k, v in ga.items()}
          labels.add('default-reset-to-builtin')
        _set(ET.SubElement(d, 'geom'), **ga)
      if draw(st.booleans()):
        ja = {}
        if draw(st.booleans()):
          ja['damping'] = fmt(draw(num(0, 2)))
        if draw(st.booleans()):
          ja['armature'] = fmt(draw(num(0, 0.3)))
        if draw(st.integers(0, 2)) == 0:
          ja['stiffness'] = fmt(draw(num(0, 10, 1)))
        if draw(st.integers(0, 2)) == 0:
          ja['frictionloss'] = fmt(draw(num(0, 0.5)))
        if draw(st.integers(0, 3)) == 0:
          ja['solreflimit'] = fmt([draw(num(0.005, 0.05, 3)), draw(num(0.5, 1.5, 1))])
        if draw(st.integers(0, 3)) == 0:
          ja['margin'] = fmt(draw(num(0, 0.02, 3)))
        if draw(st.integers(0, 4)) == 0:
          ja['group'] = str(draw(st.integers(0, 5)))
        if draw(st.integers(0, 2)) == 0:
          ja['axis'] = draw(st.sampled_from(['0 1 0', '1 0 0', '1 1 0', '0 0 1']))
        if depth >= 1 and draw(st.integers(0, 2)) == 0:
          ja[draw(st.sampled_from(['damping', 'armature', 'stiffness', 'frictionloss']))] = '0'
          labels.add('default-reset-to-builtin')
        _set(ET.SubElement(d, 'joint'), **ja)
      if draw(st.integers(0, 2)) == 0:
        _set(ET.SubElement(d, 'site'), size=fmt([draw(num(0.005, 0.05, 3))]),
             rgba=fmt([draw(num(0, 1, 1)) for _ in range(4)]),
             type=draw(st.sampled_from(['sphere', 'box', 'capsule', 'ellipsoid', 'cylinder'])))
      if draw(st.integers(0, 3)) == 0:
        _set(ET.SubElement(d, 'camera'), fovy=fmt(draw(num(20, 100, 0))))
      if draw(st.integers(0, 3)) == 0:
        _set(ET.SubElement(d, 'light'), diffuse=fmt([draw(num(0, 1, 1)) for _ in range(3)]))
      if draw(st.integers(0, 3)) == 0:
        te = ET.SubElement(d, 'tendon')
        _set(te, width=fmt(draw(num(0.001, 0.02, 3))), rgba=fmt([draw(num(0, 1, 1)) for _ in range(4)]))
        if draw(st.booleans()):
          # a springlength RANGE in a default class; tendons of the model may override it with the single value that
          # equals the lower end (a single value means the degenerate range [a, a])
          te.set('springlength', '0.3 %s' % fmt(draw(num(0.4, 1.5))))
          labels.add('default-springlength-range')
      if draw(st.integers(0, 3)) == 0:
        _set(ET.SubElement(d, 'general'), ctrlrange=fmt([-draw(num(0.5, 2, 1)), draw(num(0.5, 2, 1))]),
             ctrllimited='true')
      if draw(st.integers(0, 3)) == 0:
        _set(ET.SubElement(d, 'motor'), gear=fmt(draw(num(0.5, 3, 1))))
      if draw(st.integers(0, 3)) == 0:
        _set(ET.SubElement(d, 'position'), kp=fmt(draw(num(1, 20, 1))))
      if draw(st.integers(0, 3)) == 0:
        _set(ET.SubElement(d, 'equality'), solref=fmt([draw(num(0.005, 0.05, 3)), draw(num(0.5, 1.5, 1))]))
      if meshnames and draw(st.integers(0, 3)) == 0:
        _set(ET.SubElement(d, 'mesh'), inertia=draw(st.sampled_from(['convex', 'legacy', 'exact'])))
      if matnames and draw(st.integers(0, 3)) == 0:
        _set(ET.SubElement(d, 'material'), specular=fmt(draw(num(0, 1))), shininess=fmt(draw(num(0, 1))))
      if depth < 3:
        for _ in range(draw(st.integers(0, 2 if depth < 2 else 1))):
          cname = 'c%d' % len(classes)
          classes.append((cname, depth + 1))
          sub = ET.SubElement(d, 'default')
          sub.set('class', cname)
          fill(sub, depth + 1)
    fill(d0, 0)
    idx = [i for i, c in enumerate(root) if c.tag in ('asset', 'worldbody')][0]
    root.insert(idx, d0)
    tsec0 = root.find('tendon')
    if tsec0 is not None and len(tsec0) and draw(st.integers(0, 2)) == 0:
      # the main default carries the range, so every tendon inherits it
      te0 = d0.find('tendon')
      if te0 is None:
        te0 = ET.SubElement(d0, 'tendon')
      if te0.get('springlength') is None:
        te0.set('springlength', '0.3 %s' % fmt(draw(num(0.4, 1.5))))
      labels.add('default-springlength-range')
      tsec0[0].set('springlength', '0.3')
      labels.add('tendon-springlength=default-lower-end')
    if tsec0 is not None and 'default-springlength-range' in labels:
      for e in tsec0:
        k = draw(st.integers(0, 3))
        if k == 0:
          e.set('springlength', '0.3')             # equals the lower end of the class range
          labels.add('tendon-springlength=default-lower-end')
        elif k == 1:
          e.set('springlength', fmt(draw(num(0.1, 1.0))))
    labels.add('default')
    if classes:
      labels.add('default-class')
      if any(dep >= 2 for _, dep in classes):
        labels.add('default-nested')
      cn = [c for c, _ in classes]
      for tag in ('geom', 'joint', 'site', 'camera', 'light'):
        for e in world.iter(tag):
          if draw(st.integers(0, 2)) == 0:
            e.set('class', draw(st.sampled_from(cn)))
      for b in _walk_bodies(world):
        if draw(st.integers(0, 3)) == 0:
          b.set('childclass', draw(st.sampled_from(cn)))
          labels.add('childclass')
      for sect, tags in (('actuator', None), ('tendon', None), ('equality', None)):
        s = root.find(sect)
        if s is not None:
          for e in s:
            if draw(st.integers(0, 2)) == 0:
              e.set('class', draw(st.sampled_from(cn)))
      am = root.find('asset')
      if am is not None:
        for e in am:
          if e.tag in ('mesh', 'material') and draw(st.integers(0, 2)) == 0:
            e.set('class', draw(st.sampled_from(cn)))
    info['classes'] = [c for c, _ in classes]

  # ---------------- frames
  if frames:
    cn = info.get('classes', [])

    def wrap(parent, depth):
      kids = list(parent)
      i = 0
      while i < len(kids):
        c = kids[i]
        if c.tag in FR_TAGS and draw(st.integers(0, 4)) == 0:
          k = draw(st.integers(1, 2))
          grp = [x for x in kids[i:i + k] if x.tag in FR_TAGS]
          pos = list(parent).index(grp[0])
          fr = ET.Element('frame')
          _set(fr, **draw(_pose(0.3)))
          if draw(st.integers(0, 2)) == 0:
            fr.set('name', 'fr%d' % len(framelist))
          if cn and draw(st.integers(0, 2)) == 0:
            fr.set('childclass', draw(st.sampled_from(cn)))
            labels.add('frame-childclass')
          for x in grp:
            parent.remove(x)
            fr.append(x)
          parent.insert(pos, fr)
          framelist.append(fr)
          labels.add('frame')
          if depth > 0:
            labels.add('frame-nested')
          if draw(st.integers(0, 2)) == 0:
            wrap(fr, depth + 1)
          i += len(grp)
        else:
          i += 1
      for c in list(parent):
        if c.tag == 'body':
          wrap(c, 0)
    framelist = []
    # with fusestatic, a camera or light inside a <frame> of a static body that gets fused is a heap-use-after-free in
    # mjCCamera::Compile / mjCLight::Compile of this tree (reported; replays/C33): such documents are not generated, because
    # the outcome of reading freed memory is not reproducible
    FR_TAGS = ('body', 'geom', 'site') if comp.get('fusestatic') else ('body', 'geom', 'site', 'camera', 'light')
    wrap(world, 0)
    # The writer emits the direct children of a body before its <frame> children (C32 finding
    # 'replicate-frame-geom-order'); most documents are therefore normalised so that frames follow the direct
    # non-body children, which keeps the element order reproducible; 1 in 6 keeps the interleaved order.
    if framelist and draw(st.integers(0, 5)) != 0:
      def normalise(parent):
        kids = list(parent)
        first = [k for k in kids if k.tag not in ('frame', 'replicate', 'body')]
        rest = [k for k in kids if k.tag in ('frame', 'replicate', 'body')]
        for k in kids:
          parent.remove(k)
        for k in first + rest:
          parent.append(k)
        for k in rest:
          normalise(k)
      normalise(world)
    elif framelist:
      labels.add('frame-interleaved')

  # ---------------- replicate
  if replicate and draw(st.integers(0, 2)) == 0:
    parent = draw(st.sampled_from([world] + list(_walk_bodies(world))[:3]))
    rp = ET.SubElement(parent, 'replicate', count=str(draw(st.integers(1, 4))))
    if draw(st.booleans()):
      rp.set('offset', fmt([draw(num(-0.3, 0.3)) for _ in range(3)]))
    if draw(st.booleans()):
      rp.set('euler', fmt([draw(st.integers(-90, 90)) for _ in range(3)]))
    if draw(st.integers(0, 2)) == 0:
      rp.set('sep', draw(st.sampled_from(['_', '-', 'x'])))
    shape = draw(st.sampled_from(['body', 'body', 'geoms', 'geoms', 'mixed', 'nested', 'nested']))
    nc = dict(contype='0', conaffinity='0') if not kw.get('contacts', True) else {}
    if shape in ('body', 'nested'):
      rb = ET.SubElement(rp, 'body', name='rb', pos=fmt([draw(num(-0.3, 0.3)) for _ in range(3)]))
      ET.SubElement(rb, 'joint', name='rj', type=draw(st.sampled_from(['hinge', 'slide', 'ball'])))
      _set(ET.SubElement(rb, 'geom', name='rg', size='0.05'), **nc)
      if shape == 'nested':
        r2 = ET.SubElement(rb, 'replicate', count='2', offset='0.1 0 0')
        _set(ET.SubElement(r2, 'site', name='rs'), **draw(_pose(0.1)))
    else:
      _set(ET.SubElement(rp, 'geom', name='rga', size='0.04', pos='0 0 0.5'), **nc)
      if shape == 'mixed':
        fr = ET.SubElement(rp, 'frame')
        _set(fr, **draw(_pose(0.2)))
        _set(ET.SubElement(fr, 'geom', name='rgf', type='box', size='0.03 0.04 0.05'), **nc)
        _set(ET.SubElement(rp, 'geom', name='rgb', type='capsule', size='0.03 0.05'), **nc)
        if draw(st.booleans()):
          _set(ET.SubElement(rp, 'site', name='rsa'), **draw(_pose(0.1)))
          fr2 = ET.SubElement(rp, 'frame')
          _set(fr2, **draw(_pose(0.2)))
          ET.SubElement(fr2, 'site', name='rsf')
          ET.SubElement(rp, 'site', name='rsb', pos='0.1 0 0')
    labels.add('replicate')
    labels.add('replicate:' + shape)

  # ---------------- equalities the base generator does not produce: site-based connect / weld, tendon couplings
  if extras:
    sn = [x.get('name') for x in world.iter('site') if x.get('name') and not x.get('name').startswith('r')]
    tn = []
    tsec = root.find('tendon')
    if tsec is not None:
      tn = [t.get('name') for t in tsec if t.get('name')]
    new = []
    if len(sn) >= 2 and draw(st.integers(0, 1)) == 0:
      for kind in ('connect', 'weld'):
        if draw(st.booleans()):
          s1, s2 = draw(st.lists(st.sampled_from(sn), min_size=2, max_size=2, unique=True))
          e = ET.Element(kind, name='es_' + kind, site1=s1, site2=s2)
          if draw(st.integers(0, 3)) == 0:
            e.set('active', 'false')
          new.append(e)
          labels.add('eq:%s-site' % kind)
    if tn and draw(st.integers(0, 1)) == 0:
      e = ET.Element('tendon', name='et0', tendon1=draw(st.sampled_from(tn)))
      if len(tn) >= 2 and draw(st.booleans()):
        e.set('tendon2', [t for t in tn if t != e.get('tendon1')][0])
      e.set('polycoef', fmt([draw(num(-0.1, 0.1)), draw(num(0.5, 1.5, 1)), 0, 0, 0]))
      new.append(e)
      labels.add('eq:tendon')
    if new:
      esec = root.find('equality')
      if esec is None:
        esec = ET.SubElement(root, 'equality')
      for e in new:
        esec.append(e)

  # ---------------- muscles (their length ranges are computed by the compiler, in parallel when usethread is on);
  # they come after the other actuators, and there are at least two of them
  if muscles and draw(st.integers(0, 2)) == 0:
    hjel = [j for j in world.iter('joint') if j.get('type') in ('hinge', 'slide') and j.get('name')
            and not j.get('name').startswith('r')]
    for j in hjel:      # length ranges are taken from the joint limits (uselimit): the simulation-based search often
      if j.get('range') is None:       # does not converge on random models
        j.set('range', '-1 1')
      j.set('limited', 'true')
    hj = [j.get('name') for j in hjel]
    if hj:
      asec = root.find('actuator')
      if asec is None:
        asec = ET.SubElement(root, 'actuator')
      if len(asec) == 0 or draw(st.booleans()):
        ET.SubElement(asec, 'motor', name='mot_pre0', joint=hj[0])
        ET.SubElement(asec, 'motor', name='mot_pre1', joint=hj[-1], gear='2')
      for k in range(draw(st.integers(2, 3))):
        mu = ET.SubElement(asec, 'muscle', name='mus%d' % k, joint=draw(st.sampled_from(hj)))
        if draw(st.booleans()):
          mu.set('force', fmt(draw(num(10, 200, 0))))
      comp_el = root.find('compiler')
      if comp_el is None:
        comp_el = ET.Element('compiler')
        root.insert(0, comp_el)
      ET.SubElement(comp_el, 'lengthrange', uselimit='true', inttotal='1', interval='0.5', timestep='0.002')
      # the length-range simulation of this tree does not terminate when the simulated model diverges (autoreset sets
      # time back to 0 and the loop waits for time > inttotal): keep the physics of muscle documents benign
      op = root.find('option')
      if op is not None:
        fl = op.find('flag')
        if fl is not None:
          op.remove(fl)
        op.set('integrator', 'implicitfast')
        for k in ('impratio', 'noslip_iterations', 'iterations'):
          if k in op.attrib:
            del op.attrib[k]
      labels.add('muscle')

  # ---------------- contact
  if contact and draw(st.integers(0, 2)) == 0:
    gn = [g.get('name') for g in world.iter('geom') if g.get('name') and not g.get('name').startswith('r')]
    bn = [b.get('name') for b in _walk_bodies(world) if b.get('name') and b.get('name') != 'rb']
    c = ET.Element('contact')
    if len(gn) >= 2:
      for i in range(draw(st.integers(0, 2))):
        g1, g2 = draw(st.lists(st.sampled_from(gn), min_size=2, max_size=2, unique=True))
        p = ET.SubElement(c, 'pair', geom1=g1, geom2=g2)
        if draw(st.booleans()):
          p.set('name', 'pair%d' % i)
        if draw(st.booleans()):
          p.set('condim', str(draw(st.sampled_from([1, 3, 4, 6]))))
        if draw(st.booleans()):
          p.set('friction', fmt([draw(num(0.1, 1.5)) for _ in range(draw(st.sampled_from([2, 5])))] ))
        if draw(st.integers(0, 2)) == 0:
          p.set('margin', fmt(draw(num(0, 0.05, 3))))
        if draw(st.integers(0, 2)) == 0:
          p.set('solreffriction', fmt([draw(num(0.005, 0.05, 3)), draw(num(0.5, 1.5, 1))]))
        if draw(st.integers(0, 3)) == 0:
          p.set('adhesion', fmt(draw(num(0.1, 3, 1))))
          labels.add('pair-adhesion')
        labels.add('pair')
    if len(bn) >= 2 and draw(st.booleans()):
      b1, b2 = draw(st.lists(st.sampled_from(bn), min_size=2, max_size=2, unique=True))
      ET.SubElement(c, 'exclude', body1=b1, body2=b2, name='ex0')
      labels.add('exclude')
    if len(c):
      root.append(c)

  # ---------------- custom
  if custom and draw(st.integers(0, 2)) == 0:
    c = ET.SubElement(root, 'custom')
    for i in range(draw(st.integers(0, 2))):
      n = draw(st.integers(1, 4))
      ET.SubElement(c, 'numeric', name='num%d' % i, size=str(n + draw(st.integers(0, 2))),
                    data=fmt([draw(num(-5, 5, 1)) for _ in range(n)]))
      labels.add('numeric')
    for i in range(draw(st.integers(0, 2))):
      ET.SubElement(c, 'text', name='txt%d' % i, data=draw(st.sampled_from(['hello', 'a b c', 'x', 'some text 123'])))
      labels.add('text')
    if draw(st.booleans()):
      t = ET.SubElement(c, 'tuple', name='tup0')
      for b in [b.get('name') for b in _walk_bodies(world) if b.get('name') and b.get('name') != 'rb'][:2]:
        ET.SubElement(t, 'element', objtype='body', objname=b, prm=fmt(draw(num(-1, 1, 1))))
      if len(t):
        labels.add('tuple')
      else:
        c.remove(t)
    if not len(c):
      root.remove(c)

  # ---------------- keyframes (time only here; C32 adds full keys after a first compile)
  if keyframes and draw(st.integers(0, 2)) == 0:
    k = ET.SubElement(root, 'keyframe')
    for i in range(draw(st.integers(1, 2))):
      ET.SubElement(k, 'key', name='key%d' % i, time=fmt(draw(num(0, 5, 1))))
    labels.add('keyframe')

  xml = ET.tostring(root, encoding='unicode')
  info['labels'] = sorted(labels)
  return mg.GenModel(xml, info)


def add_full_key(lib, m, xml, seed):
  """Second phase: append a keyframe with full qpos/qvel/act/ctrl/mpos/mquat vectors of the right sizes."""
  import numpy as np
  rng = np.random.RandomState(seed)
  qpos = np.array(m.qpos0, dtype=float).copy()
  if m.nv:
    lib.mj_integratePos(m, qpos, rng.uniform(-0.5, 0.5, m.nv), 1.0)
  if m.nq > m.nv and rng.rand() < 0.4:
    # a key that differs from qpos0 only in coordinates with index >= nv that belong to scalar joints
    q2 = np.array(m.qpos0, dtype=float).copy()
    changed = False
    for j in range(m.njnt):
      adr = int(m.jnt_qposadr[j])
      if int(m.jnt_type[j]) in (2, 3) and adr >= m.nv:
        q2[adr] += round(float(rng.uniform(0.05, 0.3)), 2)
        changed = True
    if changed:
      qpos = q2
  a = ['name="fullkey"', 'time="%s"' % fmt(round(float(rng.uniform(0, 3)), 2))]
  if m.nq:
    a.append('qpos="%s"' % fmt(qpos))
  if m.nv:
    a.append('qvel="%s"' % fmt(np.round(rng.uniform(-1, 1, m.nv), 3)))
  if m.na:
    a.append('act="%s"' % fmt(np.round(rng.uniform(-1, 1, m.na), 3)))
  if m.nu:
    a.append('ctrl="%s"' % fmt(np.round(rng.uniform(-1, 1, m.nu), 3)))
  if m.nmocap:
    a.append('mpos="%s"' % fmt(np.round(rng.uniform(-1, 1, 3 * m.nmocap), 3)))
    q = rng.normal(size=(m.nmocap, 4))
    q /= np.linalg.norm(q, axis=1, keepdims=True)
    # half of the time: the conjugate of the body's own quaternion (same w, opposite vector part) - a keyframe value
    # that differs from the model value in some components only
    for b in range(m.nbody):
      k = int(m.body_mocapid[b])
      if k >= 0 and rng.rand() < 0.5:
        q[k] = np.asarray(m.body_quat[b]) * [1, -1, -1, -1]
    a.append('mquat="%s"' % fmt(q.ravel()))
  key = '<key %s/>' % ' '.join(a)
  if '</keyframe>' in xml:
    return xml.replace('</keyframe>', key + '</keyframe>')
  return xml.replace('</mujoco>', '<keyframe>' + key + '</keyframe></mujoco>')
