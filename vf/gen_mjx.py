"""Generators and helpers shared by the MJX checks (C43, C44, C45).

  models(...)            Hypothesis strategy of GenModel restricted to the feature set MJX-JAX accepts
                         (doc/mjx.rst feature table + mjx/_src/io.py gates), built on vf.modelgen.
  UNSUPPORTED / unsupported_xml(name)   small family with exactly one deliberately unsupported feature (gate test).
  pinned(kind)           feature-pinned templates for C43 (capsule-capsule + elliptic, tendons, RK4 + stateful actuators).
  known_mjx_crash(case)  sub-domains in which mjx.forward raises (reported findings), to be discarded by the checks.
  build(lib, xml)        compile with the tree engine (ctypes) and with the wheel (mujoco.MjModel, needed by
                         mjx.put_model); returns Case(tm, mm, mx, dx0) or raises Unsupported / CompileDiscard.
  skew(case)             names of model arrays that differ between the wheel-compiled model (what MJX consumed) and
                         the tree-compiled model: the version-skew guard.
  states / batch_data    batched states derived from integer seeds (all randomness from Hypothesis).
"""
import re

import numpy as np
from hypothesis import strategies as st

from . import modelgen as mg
from . import mjxload

SUPPORTED_GEOMS_A = ('sphere', 'capsule', 'box')        # exact / polytope narrow phase in MJX
SUPPORTED_GEOMS_B = ('sphere', 'capsule', 'ellipsoid', 'cylinder')   # ellipsoid/cylinder pairs use SDF descent


class Unsupported(Exception):
  """put_model / make_data raised NotImplementedError."""


class CompileDiscard(Exception):
  pass


class Case:
  pass


# ------------------------------------------------------------------ options

@st.composite
def options(draw, integrators=('Euler', 'Euler', 'implicitfast', 'implicitfast', 'RK4'), solvers=('Newton',), cones=('pyramidal', 'elliptic'),
            flags=True, fluid=True, iterations=60, timestep=(0.0005, 0.01), gravity=True, passive_flags=False):
  a = dict(timestep=mg.fmt(draw(mg.num(timestep[0], timestep[1], 4))))
  a['integrator'] = draw(st.sampled_from(list(integrators)))
  a['solver'] = draw(st.sampled_from(list(solvers)))
  a['cone'] = draw(st.sampled_from(list(cones)))
  a['jacobian'] = draw(st.sampled_from(['dense', 'auto']))
  a['iterations'] = str(iterations)
  a['tolerance'] = '1e-15'    # not 0: MJX's Newton solver returns NaN when it converges exactly (0/0 in the line search, F27)
  a['ls_iterations'] = '50'
  a['ls_tolerance'] = '1e-9'
  if gravity and draw(st.integers(0, 3)) == 0:
    a['gravity'] = mg.fmt([draw(mg.num(-3, 3, 1)), draw(mg.num(-3, 3, 1)), draw(mg.num(-10, 2, 1))])
  if draw(st.integers(0, 2)) == 0:
    a['impratio'] = mg.fmt(draw(mg.num(0.5, 10, 1)))
  if fluid and a['integrator'] != 'implicitfast' and draw(st.integers(0, 3)) == 0:
    a['density'] = mg.fmt(draw(mg.num(0, 100, 0)))
    a['viscosity'] = mg.fmt(draw(mg.num(0, 0.5, 3)))
    if draw(st.booleans()):
      a['wind'] = mg.fmt([draw(mg.num(-2, 2, 1)) for _ in range(3)])
  fl = {}
  if flags:
    names = ['warmstart', 'filterparent', 'refsafe', 'eulerdamp', 'actuation', 'limit', 'frictionloss', 'equality',
             'clampctrl', 'gravity']
    if passive_flags:
      names += ['spring', 'damper']
    for f in names:
      if draw(st.integers(0, 11)) == 0:
        fl[f] = 'disable'
  xml = '<option%s>' % mg._attrs(a)
  if fl:
    xml += '<flag%s/>' % mg._attrs(fl)
  xml += '</option>'
  return xml, dict(a, flags=fl)


def _labels_from_opt(o):
  ls = ['int:' + o['integrator'], 'cone:' + o['cone'], 'solver:' + o['solver']]
  if 'density' in o:
    ls.append('fluid')
  for f in o['flags']:
    ls.append('dsbl:' + f)
  return ls


@st.composite
def models(draw, max_bodies=3, family=None, contacts=True, sensors=True, opt_kwargs=None, mocap=True,
           actuators=True, tendons=True, equalities=True, plane=None, spread=0.6, stateful=True, min_bodies=1,
           actearly=False, joint_types=mg.JOINT_TYPES, userdata=False, extras=False):
  oxml, oinfo = draw(options(**(opt_kwargs or {})))
  fam = family or draw(st.sampled_from(['A', 'A', 'B']))
  gts = SUPPORTED_GEOMS_A if fam == 'A' else SUPPORTED_GEOMS_B
  condims = (3, 4, 6) if oinfo['cone'] == 'elliptic' else (1, 3, 4, 6)
  gm = draw(mg.models(max_bodies=max_bodies, min_bodies=min_bodies, geom_types=gts, contacts=contacts, sensors=sensors,
                      opt=oxml, mocap=mocap, actuators=actuators, tendons=tendons, equalities=equalities,
                      plane=plane, spread=spread, stateful_actuators=stateful, joint_types=joint_types, userdata=userdata,
                      geom_kwargs=dict(condims=condims, small=True)))
  if not actearly:
    gm.xml = gm.xml.replace(' actearly="true"', '')
  xl = set()
  if extras:
    # features vf.modelgen does not draw: tendon spring dead-bands (springlength="lo hi"), body gravcomp, joint
    # actuatorgravcomp and actuatorfrcrange
    parts = re.split(r'(<fixed [^>]*>|<spatial [^>]*>|<body [^>]*>|<joint [^>]*>)', gm.xml)
    for i, t in enumerate(parts):
      if t.startswith('<fixed ') and 'stiffness=' in t and draw(st.booleans()):
        parts[i] = t[:-1] + ' springlength="-%s %s">' % (mg.fmt(draw(mg.num(0.0, 0.4))), mg.fmt(draw(mg.num(0.02, 0.5))))
        xl.add('tendon:deadband')
      elif t.startswith('<spatial ') and 'stiffness=' in t and draw(st.booleans()):
        lo = draw(mg.num(0.1, 0.6))
        parts[i] = t[:-1] + ' springlength="%s %s">' % (mg.fmt(lo), mg.fmt(lo + draw(mg.num(0.05, 0.6))))
        xl.add('tendon:deadband')
      elif t.startswith('<body ') and 'mocap=' not in t and draw(st.integers(0, 2)) == 0:
        parts[i] = t[:-1] + ' gravcomp="%s">' % mg.fmt(draw(mg.num(0.2, 1.5, 1)))
        xl.add('gravcomp')
      elif t.startswith('<joint ') and ('type="hinge"' in t or 'type="slide"' in t) and draw(st.integers(0, 2)) == 0:
        add = ' actuatorfrcrange="-%s %s"' % (mg.fmt(draw(mg.num(0.1, 3, 1))), mg.fmt(draw(mg.num(0.1, 3, 1))))
        xl.add('actuatorfrcrange')
        if draw(st.booleans()):
          add += ' actuatorgravcomp="true"'
          xl.add('actuatorgravcomp')
        parts[i] = t[:-2] + add + '/>'
    gm.xml = ''.join(parts)
  gm.info['option'] = oinfo
  gm.info['family'] = fam
  gm.info['labels'] = sorted(set(gm.info['labels']) | set(_labels_from_opt(oinfo)) | {'family:' + fam} | xl)
  return gm


# ------------------------------------------------------------------ deliberately unsupported features

_BASE = ('<mujoco>%(opt)s<worldbody><geom name="floor" type="plane" size="3 3 .1"/>'
         '<body name="b1" pos="0 0 0.3"><joint name="j1" type="hinge" axis="0 1 0"/>'
         '<geom name="g1" type="%(g1)s" size="0.1 0.1 0.1"/><site name="s1"/>'
         '<body name="b2" pos="0.3 0 0"><joint name="j2" type="slide" axis="1 0 0"/>'
         '<geom name="g2" type="%(g2)s" size="0.08 0.1 0.07"/><site name="s2" pos="0.1 0 0"/></body></body>'
         '<body name="b3" pos="0.1 0.05 0.55"><joint name="j3" type="free"/><geom name="g3" type="%(g3)s" size="0.09 0.06 0.05"/></body>'
         '</worldbody>%(extra)s</mujoco>')

UNSUPPORTED = {
    # name -> dict of substitutions (features documented as unsupported by MJX-JAX in doc/mjx.rst / rejected in io.py)
    'integrator-implicit': dict(opt='<option integrator="implicit"/>'),
    'solver-pgs': dict(opt='<option solver="PGS"/>'),
    'enable-override': dict(opt='<option><flag override="enable"/></option>'),
    'enable-energy': dict(opt='<option><flag energy="enable"/></option>'),
    'enable-fwdinv': dict(opt='<option><flag fwdinv="enable"/></option>'),
    'implicitfast-fluid': dict(opt='<option integrator="implicitfast" density="10" viscosity="0.1"/>'),
    'collide-box-cylinder': dict(g1='box', g3='cylinder'),
    'collide-box-ellipsoid': dict(g1='ellipsoid', g3='box'),
    'elliptic-condim1': dict(opt='<option cone="elliptic"/>', g3='sphere" condim="1', g1='sphere" condim="1',
                             g2='sphere" condim="1', floorcondim1=True),
    'trn-slidercrank': dict(extra='<actuator><general cranksite="s1" slidersite="s2" cranklength="0.2"/></actuator>'),
    'trn-body-adhesion': dict(extra='<actuator><adhesion body="b3" ctrlrange="0 1" gain="2"/></actuator>'),
    'sensor-plugin-free-unsupported-user': dict(extra='<sensor><user dim="2" objtype="site" objname="s1"/></sensor>'),
    'sensor-jointlimitpos': dict(extra='<sensor><jointlimitpos joint="j1"/></sensor>'),
    'sensor-contact-site': dict(extra='<sensor><contact site="s1"/></sensor>'),
    'sensor-contact-body': dict(extra='<sensor><contact body1="b1"/></sensor>'),
    'sensor-contact-netforce': dict(extra='<sensor><contact geom1="g1" reduce="netforce"/></sensor>'),
    'dyntype-user': dict(extra='<actuator><general joint="j1" dyntype="user"/></actuator>'),
    'gaintype-user': dict(extra='<actuator><general joint="j1" gaintype="user"/></actuator>'),
    'biastype-user': dict(extra='<actuator><general joint="j1" biastype="user"/></actuator>'),
    'flex': dict(extra='', flex=True),
}


def unsupported_xml(name):
  d = dict(opt='', g1='sphere', g2='capsule', g3='sphere', extra='')
  spec = UNSUPPORTED[name]
  d.update({k: v for k, v in spec.items() if k in d})
  xml = _BASE % d
  if spec.get('floorcondim1'):
    xml = xml.replace('name="floor"', 'name="floor" condim="1"')
  if spec.get('flex'):
    xml = xml.replace('</worldbody>', '<flexcomp name="fx" type="grid" count="3 3 1" spacing=".1 .1 .1" pos="1 1 1" '
                      'radius=".01" dim="2"/></worldbody>')
  return xml


# ------------------------------------------------------------------ building

def build(lib, xml, need_data=True):
  """Compile xml with the tree engine and the wheel, put it on device.  Returns a Case."""
  mujoco, mjx, jax, jp = mjxload.load()
  from . import mj
  c = Case()
  c.xml = xml
  try:
    c.tm = lib.model_from_xml(xml)
  except mj.MjError as e:
    raise CompileDiscard('tree: ' + str(e)[:200])
  try:
    c.mm = mujoco.MjModel.from_xml_string(xml)
  except Exception as e:   # the wheel is not the code under test
    raise CompileDiscard('wheel: ' + str(e)[:200])
  if c.tm.nv == 0:
    raise CompileDiscard('nv=0')    # mjx/_src/scan.py: explicit ValueError 'Scan across Model with zero DoFs unsupported'
  try:
    c.mx = mjx.put_model(c.mm)
    c.dx0 = mjx.make_data(c.mm) if need_data else None
  except NotImplementedError as e:
    raise Unsupported(str(e)[:300])
  return c


_SKIP_MODEL_FIELDS = {'names', 'opt', 'stat', 'mesh_convex', 'text_data', 'paths'}


def _close(a, b, rtol):
  a = np.asarray(a)
  b = np.asarray(b)
  if a.size != b.size:
    return False
  if a.size == 0:
    return True
  a = a.reshape(-1)
  b = b.reshape(-1)
  if a.dtype.kind == 'f' or b.dtype.kind == 'f':
    a = a.astype(np.float64)
    b = b.astype(np.float64)
    return bool(np.all(np.abs(a - b) <= rtol * (np.abs(a) + np.abs(b)) + 1e-300) or np.array_equal(a, b, equal_nan=True))
  return bool(np.array_equal(a, b))


def skew(c, rtol=1e-13):
  """Model arrays consumed by MJX (wheel compiled) that differ from the tree-compiled model."""
  mujoco, mjx, jax, jp = mjxload.load()
  lib = c.tm._lib
  out = []
  for f in mjx.Model.fields():
    n = f.name
    if n in _SKIP_MODEL_FIELDS or n.startswith('_'):
      continue
    if not hasattr(c.mm, n):
      continue
    a = getattr(c.mm, n)
    if n in lib.model_fields:
      b = getattr(c.tm, n)
    else:
      try:
        b = getattr(c.tm, n)
      except AttributeError:
        continue
    if not _close(a, b, rtol):
      out.append(n)
  for n in ('timestep', 'impratio', 'tolerance', 'ls_tolerance', 'gravity', 'wind', 'magnetic', 'density', 'viscosity',
            'integrator', 'cone', 'jacobian', 'solver', 'iterations', 'ls_iterations', 'disableflags', 'enableflags',
            'noslip_iterations', 'o_margin'):
    try:
      a = getattr(c.mm.opt, n)
      b = getattr(c.tm.opt, n)
    except AttributeError:
      continue
    if not _close(a, b, rtol):
      out.append('opt.' + n)
  return out


# ------------------------------------------------------------------ states

STATE_FIELDS = ('qpos', 'qvel', 'act', 'ctrl', 'qfrc_applied', 'xfrc_applied', 'mocap_pos', 'mocap_quat', 'time',
                'eq_active', 'qacc_warmstart')


def make_state(lib, tm, seed, settle=0, vel_scale=1.0, pos_scale=1.0, forces=True, warm=True):
  """One state (dict of numpy arrays) for the tree model, derived from an integer seed."""
  d = lib.make_data(tm)
  rng = mg.apply_state(lib, tm, d, seed, vel_scale=vel_scale, pos_scale=pos_scale, forces=forces)
  d.time = float(rng.randint(0, 100)) / 8.0
  if tm.neq and rng.rand() < 0.3:
    d.eq_active[:] = rng.randint(0, 2, size=tm.neq)
  for _ in range(settle):
    lib.mj_step(tm, d)
  if warm and tm.nv and rng.rand() < 0.5:
    d.qacc_warmstart[:] = rng.uniform(-1, 1, tm.nv)
  s = {}
  for f in STATE_FIELDS:
    s[f] = np.array([d.time]) if f == 'time' else np.array(getattr(d, f), dtype=np.float64 if f != 'eq_active' else np.uint8).copy()
  if not np.all(np.isfinite(s['qpos'])) or not np.all(np.isfinite(s['qvel'])):
    return None
  # moderate states only (DESIGN 3.1): a settling run that blew up (fluid drag, stiff actuators) is not a test input
  if s['qvel'].size and (np.max(np.abs(s['qvel'])) > 50 or np.max(np.abs(s['qpos'])) > 50):
    return None
  if s['act'].size and np.max(np.abs(s['act'])) > 50:
    return None
  return s


def set_state(tm, d, s):
  for f in STATE_FIELDS:
    if f == 'time':
      d.time = float(s['time'][0])
    else:
      a = getattr(d, f)
      if a.size:
        a[...] = s[f]


def batch_data(c, states):
  """Batched mjx.Data (leading dim = len(states)) with the given states."""
  mujoco, mjx, jax, jp = mjxload.load()
  B = len(states)
  dxb = jax.tree_util.tree_map(lambda x: jp.broadcast_to(x, (B,) + x.shape), c.dx0)
  rep = {}
  for f in STATE_FIELDS:
    arr = np.stack([s[f] for s in states])
    if f == 'time':
      arr = arr[:, 0]
    if f == 'eq_active':
      arr = arr.astype(bool) if getattr(c.dx0, f).dtype == bool else arr.astype(getattr(c.dx0, f).dtype)
    rep[f] = jp.asarray(arr)
  return dxb.replace(**rep)


def single_data(c, s):
  mujoco, mjx, jax, jp = mjxload.load()
  rep = {}
  for f in STATE_FIELDS:
    arr = s[f]
    if f == 'time':
      arr = arr[0]
    if f == 'eq_active':
      arr = np.asarray(arr).astype(getattr(c.dx0, f).dtype)
    rep[f] = jp.asarray(arr)
  return c.dx0.replace(**rep)


def index(tree, i):
  mujoco, mjx, jax, jp = mjxload.load()
  return jax.tree_util.tree_map(lambda x: np.asarray(x[i]), tree)


# ------------------------------------------------------------------ sub-domains excluded because of reported findings

def known_mjx_crash(c, gm=None):
  """Returns a label if the model hits one of the reported MJX exceptions, else None.
  F2 : cone=elliptic with constraint rows but no contact slot of condim>1: solver._update_constraint indexes with
       jp.array([]) (float64) -> TypeError at trace time.
  F15: touch sensor in a model with constraint rows but no contact slot: sensor.sensor_acc -> ValueError
       'Need at least one array to concatenate'."""
  mujoco, mjx, jax, jp = mjxload.load()
  if c.dx0 is None:
    return None
  cone = int(c.mm.opt.cone)
  if (cone == int(mujoco.mjtCone.mjCONE_ELLIPTIC) and c.dx0._impl.nefc > 0
      and not np.any(np.asarray(c.dx0._impl.contact.dim) > 1)):
    return 'finding:elliptic-without-frictional-contact-slot-TypeError'
  if (int(c.mm.opt.disableflags) & int(mujoco.mjtDisableBit.mjDSBL_EQUALITY)) and c.mm.neq and c.mm.nsensor:
    # F31: smooth.rne_postconstraint slices efc_force[:3*nconnect] although the equality rows are disabled: wrong
    # force/torque/accelerometer sensors, or TypeError when fewer rows exist
    acc = {int(getattr(mujoco.mjtSensor, 'mjSENS_' + n)) for n in ('ACCELEROMETER', 'FORCE', 'TORQUE', 'FRAMELINACC', 'FRAMEANGACC')}
    if (np.any(np.isin(np.asarray(c.mm.eq_type), (int(mujoco.mjtEq.mjEQ_CONNECT), int(mujoco.mjtEq.mjEQ_WELD))))
        and np.any(np.isin(np.asarray(c.mm.sensor_type), list(acc)))):
      return 'finding:equality-disabled-rne-postconstraint'
  if (c.dx0._impl.ncon == 0 and c.dx0._impl.nefc > 0 and c.mm.nsensor
      and np.any(np.asarray(c.mm.sensor_type) == int(mujoco.mjtSensor.mjSENS_TOUCH))):
    return 'finding:touch-sensor-without-contact-slot-ValueError'
  return None


def get_data_roundtrips_contacts(md):
  """io._get_contact keeps contacts with dist <= 0 only; contacts inside a positive margin are dropped by get_data."""
  n = int(md.ncon)
  return n == 0 or bool(np.all(np.asarray(md.contact.dist)[:n] <= 0))


# ------------------------------------------------------------------ feature-pinned templates (C43)
# Random structures rarely combine the features some code paths need (a capsule-capsule contact under the elliptic
# cone with impratio != 1, damped/limited tendons with tendon actuators, RK4 with stateful actuators and ball limits).
# One template per worker is run before the random models; numeric parameters are drawn by Hypothesis.

_OPT = ('<option timestep="%(dt)s" integrator="%(int)s" solver="Newton" cone="%(cone)s" jacobian="dense" iterations="60" '
        'tolerance="1e-15" ls_iterations="50" ls_tolerance="1e-9" impratio="%(imp)s"/>')

_T_CONTACT = ('<mujoco>' + _OPT + '<worldbody><geom name="floor" type="plane" size="3 3 .1" condim="3"/>'
              '<body name="b1" pos="0 0 %(z1)s"><joint name="j1_0" type="free"/><geom name="g1" type="capsule" size="%(r1)s %(l1)s" '
              'condim="%(cd1)s" friction="%(f1)s 0.02 0.003" euler="90 %(e1)s 0"/></body>'
              '<body name="b2" pos="0.02 0.01 %(z2)s"><joint name="j2_0" type="free"/><geom name="g2" type="capsule" size="%(r2)s %(l2)s" '
              'condim="%(cd2)s" friction="%(f2)s 0.01 0.002" euler="%(e2)s 90 0"/></body>'
              '</worldbody></mujoco>')

_T_TENDON = ('<mujoco>' + _OPT + '<worldbody>'
             '<body name="b1" pos="0 0 1" gravcomp="%(gc1)s"><joint name="h1" type="hinge" axis="0 1 0" damping="%(d1)s" armature="0.1" '
             'actuatorgravcomp="true" actuatorfrcrange="-%(fr)s %(fr)s"/>'
             '<geom type="capsule" size=".04 .2" pos="0 0 -.2"/><site name="s1" pos="0.05 0 -0.3"/>'
             '<body name="b2" pos="0 0 -.4" gravcomp="%(gc2)s"><joint name="h2" type="hinge" axis="1 0 0" damping="%(d2)s" actuatorgravcomp="%(agc2)s"/>'
             '<geom type="capsule" size=".04 .2" pos="0 0 -.2"/><site name="s2" pos="0 0.05 -0.35"/></body></body>'
             '<body name="b3" pos="0.5 0 1"><joint name="sl" type="slide" axis="0 0 1" damping="0.3"/><geom type="sphere" size=".08"/>'
             '<site name="s3" pos="0 0 .1"/></body></worldbody>'
             '<tendon><fixed name="t0" damping="%(td)s" stiffness="%(ts)s" springlength="-%(sl0)s %(sl1)s" frictionloss="%(tf)s" armature="0.07" '
             'limited="true" range="-0.3 0.3"><joint joint="h1" coef="1"/><joint joint="h2" coef="-0.7"/></fixed>'
             '<spatial name="t1" damping="%(td2)s" stiffness="5" springlength="%(sp0)s %(sp1)s"><site site="s1"/><site site="s2"/><site site="s3"/></spatial>'
             '<fixed name="t2" stiffness="%(ts2)s" springlength="-0.7 0.8"><joint joint="h1" coef="0.8"/><joint joint="sl" coef="1"/></fixed></tendon>'
             '<equality><joint joint1="h2" joint2="sl" polycoef="0 0.5 0 0 0"/><tendon tendon1="t0" active="%(eqa)s"/></equality>'
             '<actuator><position name="a0" tendon="t1" kp="20" kv="1"/><general name="a1" joint="h1" dyntype="filter" dynprm="0.1" gainprm="3"/></actuator>'
             '<sensor><tendonpos tendon="t1"/><tendonvel tendon="t0"/><actuatorfrc actuator="a0"/><jointpos joint="h2"/></sensor></mujoco>')

_T_RK4 = ('<mujoco>' + _OPT + '<worldbody><geom name="floor" type="plane" size="3 3 .1"/>'
          '<body name="b1" pos="0 0 .6"><joint name="bj" type="ball" range="0 %(rng)s" limited="true" damping=".2" stiffness="2"/>'
          '<geom type="capsule" size=".05 .15" pos="0 0 -.2"/>'
          '<body name="b2" pos="0 0 -.4"><joint name="hj" type="hinge" axis="0 1 0" range="-40 40" limited="true" frictionloss=".1" damping="%(d1)s"/>'
          '<geom type="sphere" size=".07" pos="0 0 -.15" condim="%(cd1)s"/></body></body></worldbody>'
          '<actuator><general name="a0" joint="hj" dyntype="filterexact" dynprm="0.05" gainprm="4" actlimited="true" actrange="-1 1"/>'
          '<intvelocity name="a1" joint="hj" kp="5" actrange="-0.5 0.5"/><general name="a2" joint="bj" gear="0 1 0" dyntype="integrator" gainprm="2"/></actuator>'
          '<sensor><ballquat joint="bj"/><actuatorfrc actuator="a0"/><jointvel joint="hj"/></sensor></mujoco>')


@st.composite
def pinned(draw, kind):
  n = lambda lo, hi, d=2: mg.fmt(draw(mg.num(lo, hi, d)))
  if kind == 'contact':
    r1, r2 = draw(mg.num(0.06, 0.09)), draw(mg.num(0.05, 0.08))
    pen1, pen2 = draw(mg.num(0.003, 0.02, 3)), draw(mg.num(0.003, 0.03, 3))
    p = dict(dt='0.002', int='Euler', cone='elliptic', imp=n(1.5, 8, 1), r1=mg.fmt(r1), r2=mg.fmt(r2), l1=n(0.15, 0.25), l2=n(0.15, 0.25),
             z1=mg.fmt(r1 - pen1), z2=mg.fmt(r1 - pen1 + r1 + r2 - pen2), cd1=str(draw(st.sampled_from([3, 4, 6]))),
             cd2=str(draw(st.sampled_from([3, 4, 6]))), cd3=str(draw(st.sampled_from([3, 4]))), f1=n(0.3, 1.2), f2=n(0.3, 1.2),
             e1=str(draw(st.integers(-25, 25))), e2=str(draw(st.integers(-20, 20))))
    xml, scale, labels = _T_CONTACT % p, 0.004, ['pinned:contact', 'geom:capsule', 'jnt:free']
  elif kind == 'tendon':
    p = dict(dt='0.004', int='Euler', cone='pyramidal', imp='1', d1=n(0.1, 1.5), d2=n(0.1, 1.5),
             td=n(0.2, 2), ts=n(1, 15, 1), tf=n(0.05, 0.5), td2=n(0.1, 1.5), eqa=draw(st.sampled_from(['true', 'false'])),
             # spring dead-bands (springlength="lo hi", lo < hi): t0 narrow (lengths below / inside / above occur over the state
             # batch), t2 wide (almost always inside), t1 spatial around its typical length
             sl0=n(0.05, 0.2), sl1=n(0.05, 0.25), sp0=n(0.55, 0.7), sp1=n(0.8, 1.0), ts2=n(2, 12, 1),
             # gravity compensation routed through the actuators (actuatorgravcomp) with a joint force limit that the
             # filter actuator (|force| <= 3) plus the gravcomp torque (up to ~4) saturates for most states
             gc1=n(0.5, 1.5, 1), gc2=n(0.3, 1.2, 1), fr=n(0.8, 2.5, 1), agc2=draw(st.sampled_from(['true', 'false'])))
    xml, scale, labels = _T_TENDON % p, 0.6, ['pinned:tendon', 'tendon:fixed', 'tendon:spatial', 'tendon:deadband', 'gravcomp', 'actuatorgravcomp', 'actuatorfrcrange',
                          'eq:joint', 'eq:tendon', 'jnt:hinge', 'jnt:slide']
  else:
    p = dict(dt='0.003', int='RK4', cone='pyramidal', imp='1', rng=str(draw(st.integers(15, 40))), d1=n(0.05, 0.5),
             cd1=str(draw(st.sampled_from([1, 3, 4]))))
    xml, scale, labels = _T_RK4 % p, 0.5, ['pinned:rk4', 'jnt:ball', 'jnt:hinge', 'act:filterexact', 'act:intvelocity', 'act:integrator']
  oinfo = dict(integrator=p['int'], cone=p['cone'], solver='Newton', flags={})
  info = dict(option=oinfo, labels=sorted(labels + ['int:' + p['int'], 'cone:' + p['cone']]), pos_scale=scale, family='pinned')
  return mg.GenModel(xml, info)
