"""Loading pure-Python modules of the tree under test (vb.REPO, i.e. /repo or a mutant worktree).

/venv has a prebuilt `mujoco` 3.13.0 wheel which also ships mujoco.minimize / mujoco.sysid / mujoco.introspect.
Those are NOT the tree.  The helpers below load the tree's files by path and verify where they came from.
"""
import importlib
import importlib.util
import os
import sys
import types

from vf import build as vb


class TreeLoadError(Exception):
  pass


def _stub(name, **attrs):
  if name in sys.modules:
    return sys.modules[name]
  try:
    return importlib.import_module(name)
  except ImportError:
    m = types.ModuleType(name)
    m.__dict__.update(attrs)
    m.__vf_stub__ = True
    sys.modules[name] = m
    return m


def load_by_path(modname, relpath):
  """Load vb.REPO/relpath as module `modname` (fresh module object, registered in sys.modules)."""
  path = os.path.join(vb.REPO, relpath)
  spec = importlib.util.spec_from_file_location(modname, path)
  mod = importlib.util.module_from_spec(spec)
  sys.modules[modname] = mod
  spec.loader.exec_module(mod)
  check_origin(mod)
  return mod


def check_origin(mod):
  f = os.path.realpath(getattr(mod, '__file__', '') or '')
  if not f.startswith(os.path.realpath(vb.REPO) + os.sep):
    raise TreeLoadError('module %s loaded from %s, not from the tree %s' % (mod.__name__, f, vb.REPO))


def docgen(name):
  """Module doc/generate/<name>.py of the tree (siblings import each other by bare name)."""
  d = os.path.join(vb.REPO, 'doc', 'generate')
  if d not in sys.path:
    sys.path.insert(0, d)
  if name in sys.modules:
    mod = sys.modules[name]
  else:
    mod = importlib.import_module(name)
  check_origin(mod)
  return mod


def minimize():
  """python/mujoco/minimize.py of the tree (its `import mujoco` is the installed wheel: only mju_boxQP is used)."""
  return load_by_path('vf_tree_minimize', 'python/mujoco/minimize.py')


def _fake_pkg(name, path):
  m = types.ModuleType(name)
  m.__path__ = [path]
  m.__package__ = name
  m.__file__ = os.path.join(path, '__init__.py')
  sys.modules[name] = m
  return m


def sysid(*names):
  """Modules python/mujoco/sysid/_src/<name>.py of the tree, imported under their real dotted names
  (mujoco.sysid._src.<name>) so that their mutual imports resolve inside the tree.  The package __init__ files are
  not executed (they pull plotting/optimisation dependencies that are not installed)."""
  import mujoco  # installed wheel (reference engine / spec compiler)
  _stub('colorama', Fore=types.SimpleNamespace(RED='', GREEN='', YELLOW='', RESET='', CYAN='', BLUE='', MAGENTA='',
                                               WHITE=''),
        Style=types.SimpleNamespace(RESET_ALL='', BRIGHT='', DIM='', NORMAL=''), init=lambda *a, **k: None)
  _stub('tabulate', tabulate=lambda *a, **k: '')
  _stub('yaml', safe_load=lambda *a, **k: {}, safe_dump=lambda *a, **k: '', dump=lambda *a, **k: '',
        YAMLError=Exception)
  base = os.path.join(vb.REPO, 'python', 'mujoco', 'sysid')
  cur = sys.modules.get('mujoco.sysid')
  if cur is None or getattr(cur, '__path__', [None])[0] != base:
    for k in [k for k in sys.modules if k == 'mujoco.sysid' or k.startswith('mujoco.sysid.')]:
      del sys.modules[k]
    pkg = _fake_pkg('mujoco.sysid', base)
    sub = _fake_pkg('mujoco.sysid._src', os.path.join(base, '_src'))
    pkg._src = sub
    mujoco.sysid = pkg
  out = []
  for n in names:
    mod = importlib.import_module('mujoco.sysid._src.' + n)
    check_origin(mod)
    out.append(mod)
  return out if len(out) != 1 else out[0]


def introspect(*names):
  """Modules python/mujoco/introspect/<name>.py of the tree, loaded as package vf_tree_introspect.<name>
  (they import each other relatively or as mujoco.introspect.<x>; both are mapped to the tree)."""
  base = os.path.join(vb.REPO, 'python', 'mujoco', 'introspect')
  import mujoco
  cur = sys.modules.get('mujoco.introspect')
  if cur is None or getattr(cur, '__path__', [None])[0] != base:
    for k in [k for k in sys.modules if k == 'mujoco.introspect' or k.startswith('mujoco.introspect.')]:
      del sys.modules[k]
    pkg = _fake_pkg('mujoco.introspect', base)
    mujoco.introspect = pkg
  out = []
  for n in names:
    mod = importlib.import_module('mujoco.introspect.' + n)
    check_origin(mod)
    out.append(mod)
  return out if len(out) != 1 else out[0]
