"""gen_rewrite - abstract models ("programs") and renderers producing the SAME model in different MJCF spellings (C36).

The abstract model is plain dicts/lists in canonical units (unit quaternions, radians, explicit values).  `Renderer`
turns it into MJCF text; which spelling is used (orientation attribute kinds, degrees, default classes, frames,
<replicate>, <attach>, sibling order, fusestatic/discardvisual) is decided by Hypothesis draws made while rendering.
The plain rendering (`kinds=()`) uses quat / radian / explicit attributes / written-out copies / inline bodies.

All rotation conversions below are written from doc/modeling.rst "Frame orientations" and the compiler/eulerseq
documentation (numpy only); they are the independent oracle of the check, never taken from the C++ sources.
"""
import math

import numpy as np
from hypothesis import strategies as st

from . import modelgen as mg

fmt = mg.fmt
num = mg.num

# ---------------------------------------------------------------------------------------------- rotation oracle


def qnormalize(q):
  q = np.asarray(q, dtype=np.float64)
  return q / np.linalg.norm(q)


def qmul(a, b):
  w1, x1, y1, z1 = a
  w2, x2, y2, z2 = b
  return np.array([w1 * w2 - x1 * x2 - y1 * y2 - z1 * z2,
                   w1 * x2 + x1 * w2 + y1 * z2 - z1 * y2,
                   w1 * y2 - x1 * z2 + y1 * w2 + z1 * x2,
                   w1 * z2 + x1 * y2 - y1 * x2 + z1 * w2])


def qconj(q):
  return np.array([q[0], -q[1], -q[2], -q[3]])


def q2mat(q):
  w, x, y, z = q
  return np.array([[1 - 2 * (y * y + z * z), 2 * (x * y - w * z), 2 * (x * z + w * y)],
                   [2 * (x * y + w * z), 1 - 2 * (x * x + z * z), 2 * (y * z - w * x)],
                   [2 * (x * z - w * y), 2 * (y * z + w * x), 1 - 2 * (x * x + y * y)]])


def mat2q(R):
  """Rotation matrix -> unit quaternion (largest-component branch for accuracy)."""
  t = [1 + R[0, 0] + R[1, 1] + R[2, 2], 1 + R[0, 0] - R[1, 1] - R[2, 2],
       1 - R[0, 0] + R[1, 1] - R[2, 2], 1 - R[0, 0] - R[1, 1] + R[2, 2]]
  k = int(np.argmax(t))
  if k == 0:
    q = [t[0], R[2, 1] - R[1, 2], R[0, 2] - R[2, 0], R[1, 0] - R[0, 1]]
  elif k == 1:
    q = [R[2, 1] - R[1, 2], t[1], R[0, 1] + R[1, 0], R[0, 2] + R[2, 0]]
  elif k == 2:
    q = [R[0, 2] - R[2, 0], R[0, 1] + R[1, 0], t[2], R[1, 2] + R[2, 1]]
  else:
    q = [R[1, 0] - R[0, 1], R[0, 2] + R[2, 0], R[1, 2] + R[2, 1], t[3]]
  return qnormalize(q)


def qrot(q, v):
  return q2mat(q) @ np.asarray(v, dtype=np.float64)


def axis_rot(k, a):
  """Right-handed rotation by angle a about coordinate axis k."""
  c, s = math.cos(a), math.sin(a)
  i, j = (k + 1) % 3, (k + 2) % 3
  R = np.eye(3)
  R[i, i] = c
  R[j, j] = c
  R[i, j] = -s
  R[j, i] = s
  return R


def axisangle2q(axis, angle):
  ax = np.asarray(axis, dtype=np.float64)
  ax = ax / np.linalg.norm(ax)
  return np.concatenate([[math.cos(angle / 2)], math.sin(angle / 2) * ax])


def euler2mat(seq, ang):
  """Documented semantics: the n-th character is the axis of the n-th rotation; lower case = axis rotating with the
  frame (intrinsic: post-multiply), upper case = axis fixed in the parent frame (extrinsic: pre-multiply)."""
  R = np.eye(3)
  for c, a in zip(seq, ang):
    E = axis_rot('xyz'.index(c.lower()), a)
    R = R @ E if c.islower() else E @ R
  return R


def product_order(seq):
  """Indices n (into seq/angles) in left-to-right matrix product order."""
  order = []
  for n, c in enumerate(seq):
    if c.islower():
      order.append(n)
    else:
      order.insert(0, n)
  return order


def seq_universal(seq):
  o = product_order(seq)
  ax = ['xyz'.index(seq[n].lower()) for n in o]
  return ax[0] != ax[1] and ax[1] != ax[2]


ALL_SEQS = [a + b + c for a in 'xyzXYZ' for b in 'xyzXYZ' for c in 'xyzXYZ']
UNIVERSAL_SEQS = [s for s in ALL_SEQS if seq_universal(s)]
PURE_SEQS = [s for s in UNIVERSAL_SEQS if s.islower() or s.isupper()]     # the 24 classical sequences


def _perm_sign(i, j, k):
  return 1.0 if (j - i) % 3 == 1 else -1.0


def mat2euler(seq, R):
  """Angles (in the order of seq) such that euler2mat(seq, angles) == R, or None for a non-universal sequence."""
  if not seq_universal(seq):
    return None
  o = product_order(seq)
  i, j, k = ['xyz'.index(seq[n].lower()) for n in o]
  if i != k:                      # R = Ri(a) Rj(b) Rk(c), all different
    s = _perm_sign(i, j, k)
    sb = s * R[i, k]
    cb = math.hypot(R[i, i], R[i, j])
    b = math.atan2(sb, cb)
    if cb > 1e-9:
      a = math.atan2(-s * R[j, k], R[k, k])
      c = math.atan2(-s * R[i, j], R[i, i])
    else:                         # gimbal lock: put everything in a
      c = 0.0
      a = math.atan2(s * R[k, j], R[j, j])
  else:                           # R = Ri(a) Rj(b) Ri(c)
    l = 3 - i - j
    s = _perm_sign(i, j, l)
    cb = R[i, i]
    sb = math.hypot(R[i, j], R[i, l])
    b = math.atan2(sb, cb)
    if sb > 1e-9:
      a = math.atan2(R[j, i], -s * R[l, i])
      c = math.atan2(R[i, j], s * R[i, l])
    else:
      c = 0.0
      a = math.atan2(s * R[l, j], R[j, j])
  out = [0.0, 0.0, 0.0]
  out[o[0]], out[o[1]], out[o[2]] = a, b, c
  if np.max(np.abs(euler2mat(seq, out) - R)) > 1e-12:
    return None
  return out


def zaxis_applicable(q):
  """zaxis = minimal rotation mapping (0,0,1) to the given vector: exactly the rotations whose axis is perpendicular
  to z (quaternion z component 0) with angle < pi."""
  q = np.asarray(q)
  return abs(q[3]) <= 1e-15 and abs(q[0]) > 0.05


def zaxis2q(v):
  v = np.asarray(v, dtype=np.float64)
  v = v / np.linalg.norm(v)
  ax = np.cross([0, 0, 1.0], v)
  s = np.linalg.norm(ax)
  if s < 1e-14:
    return np.array([1.0, 0, 0, 0])
  return axisangle2q(ax / s, math.atan2(s, v[2]))


# poses: (pos, quat)
IDENT = (np.zeros(3), np.array([1.0, 0, 0, 0]))


def pose(p, q):
  return (np.asarray(p, dtype=np.float64), np.asarray(q, dtype=np.float64))


def compose(A, B):
  return (A[0] + qrot(A[1], B[0]), qmul(A[1], B[1]))


def inverse(A):
  qi = qconj(A[1])
  return (-qrot(qi, A[0]), qi)


def is_ident(A):
  return not np.any(A[0]) and abs(abs(A[1][0]) - 1.0) == 0.0 and not np.any(A[1][1:])


def selftest():
  """Round trips of the conversion oracle over all universal sequences (raises AssertionError)."""
  rng = np.random.RandomState(7)
  for s in UNIVERSAL_SEQS:
    for _ in range(4):
      q = qnormalize(rng.normal(size=4))
      e = mat2euler(s, q2mat(q))
      assert e is not None, s
  for s in ('xyz', 'XYZ', 'zxz', 'ZyX', 'xYz', 'Xyx', 'zXy'):
    for b in (math.pi / 2, -math.pi / 2, 0.0, math.pi):
      R = euler2mat(s, [0.3, b, -0.4])
      assert mat2euler(s, R) is not None, (s, b)
  # extrinsic XYZ equals intrinsic zyx with reversed angles (classical identity)
  a = [0.3, -0.7, 1.1]
  assert np.allclose(euler2mat('XYZ', a), euler2mat('zyx', a[::-1]), atol=1e-15)
  assert len(PURE_SEQS) == 24
  for _ in range(20):
    q = qnormalize(rng.normal(size=4))
    assert np.allclose(q2mat(mat2q(q2mat(q))), q2mat(q), atol=1e-14)
    P, Q = (rng.normal(size=3), q), (rng.normal(size=3), qnormalize(rng.normal(size=4)))
    X = compose(inverse(P), compose(P, Q))
    assert np.allclose(X[0], Q[0], atol=1e-14) and np.allclose(q2mat(X[1]), q2mat(Q[1]), atol=1e-14)
  q = qnormalize([3, 1, -2, 0])
  assert np.allclose(q2mat(zaxis2q(q2mat(q)[:, 2])), q2mat(q), atol=1e-14)


# ---------------------------------------------------------------------------------------------- abstract model

def _ints(lo, hi):
  return st.integers(lo, hi)


def _vec(draw, lo, hi, digits=2, n=3):
  return [draw(num(lo, hi, digits)) for _ in range(n)]


def draw_quat(draw):
  """Unit quaternion from small integers; a share of identity and of 'zaxis-compatible' (z component 0) rotations."""
  k = draw(_ints(0, 5))
  if k == 0:
    return [1.0, 0.0, 0.0, 0.0]
  if k <= 2:
    q = [draw(_ints(1, 4)), draw(_ints(-4, 4)), draw(_ints(-4, 4)), 0]
  else:
    q = [draw(_ints(-4, 4)) for _ in range(4)]
  n = math.sqrt(sum(c * c for c in q))
  if n == 0:
    return [1.0, 0.0, 0.0, 0.0]
  return [c / n for c in q]


def draw_axis(draw):
  ax = [draw(_ints(-2, 2)) for _ in range(3)]
  if not any(ax):
    ax = [0, 0, 1]
  n = math.sqrt(sum(c * c for c in ax))
  return [c / n for c in ax]


def draw_joint(draw, name, jt):
  j = dict(k='joint', name=name, type=jt, pos=[0.0, 0.0, 0.0], axis=[0.0, 0.0, 1.0], limited=False, range=[0.0, 0.0],
           ref=0.0, springref=0.0, stiffness=0.0, damping=0.0, armature=0.0, frictionloss=0.0)
  if jt == 'free':
    return j
  if draw(st.booleans()):
    j['pos'] = _vec(draw, -0.2, 0.2)
  if jt != 'ball':
    j['axis'] = draw_axis(draw)
  if draw(_ints(0, 2)) == 0:
    j['limited'] = True
    if jt == 'ball':
      j['range'] = [0.0, draw(num(0.4, 2.0))]
    elif jt == 'hinge':
      j['range'] = [-draw(num(0.1, 2.0)), draw(num(0.1, 2.0))]
    else:
      j['range'] = [-draw(num(0.05, 0.5)), draw(num(0.05, 0.5))]
  if jt in ('hinge', 'slide'):
    if draw(_ints(0, 2)) == 0:
      j['ref'] = draw(num(-0.5, 0.5))
    if draw(_ints(0, 2)) == 0:
      j['springref'] = draw(num(-0.5, 0.5))
  if draw(st.booleans()):
    j['stiffness'] = draw(num(0, 5, 1))
  if draw(st.booleans()):
    j['damping'] = draw(num(0, 1))
  j['armature'] = draw(num(0.01, 0.2))
  if draw(_ints(0, 5)) == 0:
    j['frictionloss'] = draw(num(0, 0.3))
  return j


GEOM_NSIZE = dict(sphere=1, capsule=2, cylinder=2, ellipsoid=3, box=3)


def draw_geom(draw, name, massive=False):
  t = draw(st.sampled_from(sorted(GEOM_NSIZE)))
  g = dict(k='geom', name=name, type=t, size=[draw(num(0.04, 0.25)) for _ in range(GEOM_NSIZE[t])],
           pos=_vec(draw, -0.2, 0.2) if draw(st.booleans()) else [0.0, 0.0, 0.0], quat=draw_quat(draw),
           density=draw(num(200, 3000, 0)), mass=None, contype=1, conaffinity=0, condim=draw(st.sampled_from([1, 3, 4, 6])),
           friction=[draw(num(0.1, 1.5)), draw(num(0.001, 0.1, 3)), draw(num(0.0001, 0.01, 4))],
           group=draw(_ints(0, 3)), rgba=[draw(num(0, 1, 1)) for _ in range(4)])
  if draw(_ints(0, 3)) == 0:
    g['mass'] = draw(num(0.1, 5))
  if draw(_ints(0, 2)) == 0:      # purely visual geom (candidate for discardvisual)
    g['contype'] = 0
  if not massive and draw(_ints(0, 5)) == 0:
    g['density'] = 0.0
    g['mass'] = None
  return g


def draw_site(draw, name):
  t = draw(st.sampled_from(['sphere', 'capsule', 'box', 'cylinder', 'ellipsoid']))
  return dict(k='site', name=name, type=t, size=[draw(num(0.01, 0.05, 3)) for _ in range(GEOM_NSIZE[t])],
              pos=_vec(draw, -0.2, 0.2), quat=draw_quat(draw), group=draw(_ints(0, 3)),
              rgba=[draw(num(0, 1, 1)) for _ in range(4)])


def draw_camera(draw, name):
  return dict(k='camera', name=name, pos=_vec(draw, -0.3, 0.3), quat=draw_quat(draw), fovy=float(draw(_ints(20, 90))))


def draw_inertial(draw):
  d0, d1 = draw(num(0.01, 0.2, 3)), draw(num(0.01, 0.2, 3))
  lo, hi = abs(d0 - d1) + 0.002, d0 + d1 - 0.002
  d2 = draw(num(lo, hi, 3)) if hi > lo + 0.002 else round((d0 + d1) / 2 + abs(d0 - d1) / 2, 4)
  return dict(pos=_vec(draw, -0.1, 0.1), quat=draw_quat(draw), mass=draw(num(0.2, 5)), diag=[d0, d1, d2])


def draw_body(draw, name, idx, toplevel, allow_static=True):
  b = dict(k='body', name=name, pos=_vec(draw, -0.5, 0.5), quat=draw_quat(draw), inertial=None, items=[], gravcomp=0.0)
  cfgs = ['hinge', 'slide', 'ball', 'hinge+slide', 'hinge+hinge', 'hinge']
  if toplevel:
    cfgs += ['free', 'free']
  if allow_static:
    cfgs += ['static', 'static']
  cfg = draw(st.sampled_from(cfgs))
  if cfg != 'static':
    for k, jt in enumerate(cfg.split('+')):
      b['items'].append(draw_joint(draw, 'j%s_%d' % (idx, k), jt))
  if draw(_ints(0, 3)) == 0:
    b['inertial'] = draw_inertial(draw)
  ng = draw(_ints(1, 2))
  for k in range(ng):
    b['items'].append(draw_geom(draw, 'g%s_%d' % (idx, k), massive=(k == 0 and cfg != 'static' and b['inertial'] is None)))
  for k in range(draw(_ints(0, 2))):
    b['items'].append(draw_site(draw, 's%s_%d' % (idx, k)))
  if draw(_ints(0, 5)) == 0:
    b['items'].append(draw_camera(draw, 'c%s' % idx))
  if cfg != 'static' and draw(_ints(0, 6)) == 0:
    b['gravcomp'] = draw(num(0.1, 1, 1))
  return b


def draw_replicate(draw, idx):
  """A replicate node: base pose B, incremental transform (offset, rquat), count, separator and content."""
  rk = draw(st.sampled_from(['none', 'axis', 'axis', 'general']))
  if rk == 'none':
    rq = [1.0, 0.0, 0.0, 0.0]
  elif rk == 'axis':
    ax = [0, 0, 0]
    ax[draw(_ints(0, 2))] = 1
    rq = list(axisangle2q(ax, draw(num(-1.5, 1.5))))
  else:
    rq = draw_quat(draw)
  count = draw(st.sampled_from([2, 2, 3, 3, 4, 11]))
  content = draw(st.sampled_from(['body', 'body', 'geoms'])) if count < 11 else 'geoms'
  items = []
  if content == 'body':
    b = draw_body(draw, 'rb%d' % idx, 'r%d' % idx, False, allow_static=False)
    b['items'] = [it for it in b['items'] if it['k'] != 'camera']
    if draw(_ints(0, 2)) == 0:
      c = draw_body(draw, 'rc%d' % idx, 'rc%d' % idx, False)
      c['items'] = [it for it in c['items'] if it['k'] != 'camera']
      b['items'].append(c)
    items.append(b)
  else:
    items.append(draw_geom(draw, 'rg%d' % idx))
    if draw(st.booleans()):
      items.append(draw_site(draw, 'rs%d' % idx))
  base = (draw(st.sampled_from([[0.0, 0.0, 0.0], _vec(draw, -0.3, 0.3)])), [1.0, 0.0, 0.0, 0.0])
  if draw(_ints(0, 2)) == 0:
    base = (_vec(draw, -0.3, 0.3), draw_quat(draw))
  return dict(k='replicate', id=idx, count=count, sep=draw(st.sampled_from(['', '_', '-r'])),
              offset=_vec(draw, -0.4, 0.4) if draw(_ints(0, 4)) else [0.0, 0.0, 0.0], rquat=rq, rkind=rk,
              base=base, items=items)


def walk(items, fn, parent=None):
  """Depth-first visit of abstract items: fn(item, parent_item)."""
  for it in items:
    fn(it, parent)
    if it['k'] in ('body', 'replicate'):
      walk(it['items'], fn, it)


def collect(model, kind):
  out = []
  walk(model['world'], lambda it, p: out.append(it) if it['k'] == kind else None)
  return out


@st.composite
def abstract_model(draw, max_bodies=5, replicate=None, attach=None, extras=True):
  nb = draw(_ints(2, max_bodies))
  parents = [0] + [draw(_ints(0, i)) for i in range(1, nb)]
  if max(parents) == 0:
    parents[-1] = 1
  bodies = []
  for i in range(nb):
    bodies.append(draw_body(draw, 'b%d' % (i + 1), i + 1, parents[i] == 0))
  world = []
  for i, b in enumerate(bodies):
    (world if parents[i] == 0 else bodies[parents[i] - 1]['items']).append(b)
  world_geom = draw(_ints(0, 3)) == 0
  if world_geom:
    g = draw_geom(draw, 'gw')
    world.insert(0, g)
  if draw(_ints(0, 2)) == 0:
    world.insert(0, draw_site(draw, 'sw'))
  model = dict(world=world, tendons=[], actuators=[], sensors=[], attach=None)

  # ---- attach: mark one subtree (before replicate nodes are added, so it never contains one)
  use_attach = draw(_ints(0, 2)) == 0 if attach is None else attach
  att_names = set()
  if use_attach:
    root = bodies[draw(_ints(0, nb - 1))]
    prefix = draw(st.sampled_from(['x_', 'pre/', 'A']))
    suffix = draw(st.sampled_from(['', '', '_y']))
    def ren(it, p):
      if 'name' in it:
        att_names.add(prefix + it['name'] + suffix)
        it['name'] = prefix + it['name'] + suffix
    ren(root, None)
    walk(root['items'], ren)
    model['attach'] = dict(root=root['name'], prefix=prefix, suffix=suffix)

  # ---- replicate nodes
  use_rep = draw(_ints(0, 2)) == 0 if replicate is None else replicate
  rep_names = set()
  if use_rep:
    for r in range(draw(_ints(1, 2))):
      host = draw(_ints(0, nb))
      rep = draw_replicate(draw, r)
      tgt = world if host == 0 else bodies[host - 1]['items']
      if host and bodies[host - 1]['name'] in att_names:
        tgt = world
      tgt.append(rep)
      walk(rep['items'], lambda it, p: rep_names.add(it['name']))

  if extras:
    _draw_extras(draw, model, att_names, rep_names)
  model['option'] = dict(timestep=draw(st.sampled_from([0.001, 0.002])),
                         gravity=draw(st.sampled_from([[0.0, 0.0, -9.81], [0.0, 0.0, -9.81], [1.0, -2.0, -5.0], [0.0, 0.0, 0.0]])),
                         integrator=draw(st.sampled_from(['Euler', 'Euler', 'RK4', 'implicit', 'implicitfast'])),
                         nocontact=draw(st.booleans()))
  return model


def _draw_extras(draw, model, att_names, rep_names):
  """Tendons, actuators and sensors.  Tendons never reference replicated elements (a tendon half inside a replicate has
  no documented expansion); elements referencing only the attached subtree are owned by the child model."""
  joints = collect(model, 'joint')
  sites = collect(model, 'site')
  bodies = collect(model, 'body')
  geoms = collect(model, 'geom')
  hs = [j for j in joints if j['type'] in ('hinge', 'slide')]
  hs_out = [j for j in hs if j['name'] not in rep_names]
  sites_out = [s for s in sites if s['name'] not in rep_names]
  att = model['attach']

  def owner(refs):
    return 'child' if att and all(r in att_names for r in refs) else 'parent'

  def cname(base, refs):
    if owner(refs) == 'child':
      return att['prefix'] + base + att['suffix']
    return base
  tendons = []
  if draw(st.booleans()):
    for k in range(draw(_ints(1, 2))):
      t = dict(stiffness=draw(num(0, 5, 1)) if draw(st.booleans()) else 0.0, damping=draw(num(0, 1)) if draw(st.booleans()) else 0.0,
               frictionloss=0.0, limited=False, range=[0.0, 0.0], springlength=None, margin=draw(num(0, 0.01, 3)))
      if hs_out and (draw(st.booleans()) or len(sites_out) < 2):
        js = draw(st.lists(st.sampled_from([j['name'] for j in hs_out]), min_size=1, max_size=3, unique=True))
        t.update(kind='fixed', joints=[(j, draw(num(-2, 2, 1)) or 1.0) for j in js])
        refs = js
        if draw(_ints(0, 2)) == 0:
          t['limited'] = True
          t['range'] = [-draw(num(0.5, 3.0)), draw(num(0.5, 3.0))]
      elif len(sites_out) >= 2:
        ss = draw(st.lists(st.sampled_from([s['name'] for s in sites_out]), min_size=2, max_size=3, unique=True))
        t.update(kind='spatial', sites=ss)
        refs = ss
        if draw(_ints(0, 2)) == 0:
          t['limited'] = True
          t['range'] = [0.0, draw(num(1.0, 4.0))]
      else:
        break
      if draw(_ints(0, 3)) == 0:
        t['springlength'] = draw(num(0.0, 0.5))
      t['name'] = cname('t%d' % k, refs)
      t['owner'] = owner(refs)
      t['refs'] = list(refs)
      tendons.append(t)
  model['tendons'] = tendons
  acts = []
  if (hs or tendons) and draw(_ints(0, 3)) != 0:
    for k in range(draw(_ints(1, 3))):
      tg = draw(st.sampled_from((['joint'] * 2 if hs else []) + (['tendon'] if tendons else []) +
                                (['site'] if [s for s in sites if s['name'] != 'sw'] else [])))
      a = dict(gear=[draw(num(-3, 3, 1)) or 1.0, 0.0, 0.0, 0.0, 0.0, 0.0], ctrllimited=False, ctrlrange=[0.0, 0.0],
               forcelimited=False, forcerange=[0.0, 0.0])
      if tg == 'joint':
        a['joint'] = draw(st.sampled_from([j['name'] for j in hs]))
        ref = a['joint']
      elif tg == 'tendon':
        a['tendon'] = draw(st.sampled_from([t['name'] for t in tendons]))
        ref = a['tendon']
      else:
        a['site'] = draw(st.sampled_from([s['name'] for s in sites if s['name'] != 'sw']))
        a['gear'] = [draw(num(-1, 1, 1)) for _ in range(6)]
        ref = a['site']
      if draw(st.booleans()):
        a['ctrllimited'] = True
        a['ctrlrange'] = [-draw(num(0.1, 2, 1)), draw(num(0.1, 2, 1))]
      if draw(_ints(0, 2)) == 0:
        a['forcelimited'] = True
        a['forcerange'] = [-draw(num(0.1, 5, 1)), draw(num(0.1, 5, 1))]
      kind = draw(st.sampled_from(['motor', 'position', 'general', 'general']))
      a['kind'] = kind
      if kind == 'position':
        a['kp'] = draw(num(0.5, 20, 1))
        a['kv'] = draw(num(0, 2, 1))
      elif kind == 'general':
        a['gainprm'] = [draw(num(0.1, 10, 1)), 0.0, 0.0]
        a['biastype'] = draw(st.sampled_from(['none', 'affine']))
        a['biasprm'] = [draw(num(-1, 1, 1)), draw(num(-5, 0, 1)), draw(num(-1, 0, 1))]
        a['dyntype'] = draw(st.sampled_from(['none', 'none', 'filter', 'integrator']))
        a['dynprm'] = [draw(num(0.05, 1))]
      # ownership: a tendon owned by the parent keeps the actuator in the parent
      refs = [ref]
      if tg == 'tendon':
        tt = [t for t in tendons if t['name'] == ref][0]
        own = tt['owner']
      else:
        own = owner(refs)
      a['owner'] = own
      a['name'] = (att['prefix'] + 'a%d' % k + att['suffix']) if own == 'child' else 'a%d' % k
      a['refs'] = refs
      acts.append(a)
  model['actuators'] = acts
  sens = []
  if draw(st.booleans()):
    cands = []
    for j in hs:
      cands += [('jointpos', 'joint', j['name']), ('jointvel', 'joint', j['name'])]
    for j in joints:
      if j['type'] == 'ball':
        cands.append(('ballquat', 'joint', j['name']))
    for s in sites:
      cands += [('framepos', 'site', s['name']), ('framequat', 'site', s['name']), ('framelinvel', 'site', s['name'])]
      if s['name'] != 'sw':
        cands += [('gyro', 'site', s['name']), ('accelerometer', 'site', s['name']), ('force', 'site', s['name'])]
    for b in bodies:
      cands += [('subtreecom', 'body', b['name']), ('framepos', 'body', b['name']), ('framequat', 'xbody', b['name'])]
    for g in geoms:
      cands.append(('framepos', 'geom', g['name']))
    for t in tendons:
      cands.append(('tendonpos', 'tendon', t['name']))
    for a in acts:
      if a['refs'][0] not in rep_names:       # a replicated actuator has no single name to refer to
        cands.append(('actuatorfrc', 'actuator', a['name']))
    chosen = draw(st.lists(st.sampled_from(cands), min_size=1, max_size=5, unique=True))
    for k, (typ, ot, on) in enumerate(chosen):
      if ot == 'tendon':
        own = [t for t in tendons if t['name'] == on][0]['owner']
      elif ot == 'actuator':
        own = [a for a in acts if a['name'] == on][0]['owner']
      else:
        own = owner([on])
      nm = (att['prefix'] + 'n%d' % k + att['suffix']) if own == 'child' else 'n%d' % k
      sens.append(dict(name=nm, type=typ, objtype=ot, obj=on, owner=own, refs=[on]))
  model['sensors'] = sens


# ---------------------------------------------------------------------------------------------- expansion helpers

def rep_suffix(rep, i):
  """Documented naming: separator + index with the minimum number of digits needed to represent the element count."""
  return rep['sep'] + str(i).zfill(len(str(rep['count'])))


def rep_transforms(rep, mode='doc', euler=None):
  """Pose of replica i relative to the replicate's parent.  mode 'doc': documented cumulative semantics
  T_0 = base, T_i = T_{i-1} o (offset, rot).  mode 'impl': the alternative 'rotation of replica i = euler(i*e)'
  used only to recognise the known finding (euler = (seq, angles) as written in the XML)."""
  step = pose(rep['offset'], rep['rquat'])
  out = []
  T = IDENT
  p = np.zeros(3)
  for i in range(rep['count']):
    if mode == 'doc':
      out.append(compose(pose(*rep['base']), T))
      T = compose(T, step)
    else:
      q = mat2q(euler2mat(euler[0], [i * a for a in euler[1]]))
      out.append(compose(pose(*rep['base']), (p.copy(), q)))
      p = p + qrot(q, step[0])
  return out


def _copy(it):
  if isinstance(it, dict):
    return {k: _copy(v) for k, v in it.items()}
  if isinstance(it, (list, tuple)):
    return type(it)(_copy(v) for v in it)
  return it


def expand_replicate(rep, mode='doc', euler=None):
  """Written-out copies of a replicate node (list of abstract items with suffixed names and composed poses)."""
  out = []
  for i, T in enumerate(rep_transforms(rep, mode, euler)):
    suf = rep_suffix(rep, i)
    for it in rep['items']:
      c = _copy(it)
      P = compose(T, pose(c['pos'], c['quat']))
      c['pos'], c['quat'] = list(P[0]), list(P[1])
      c['name'] = c['name'] + suf
      if c['k'] == 'body':
        walk(c['items'], lambda x, p: x.__setitem__('name', x['name'] + suf))
      out.append(c)
  return out


def rep_membership(model):
  """name -> replicate node for every named element inside a replicate."""
  mem = {}
  for rep in collect(model, 'replicate'):
    walk(rep['items'], lambda it, p, rep=rep: mem.__setitem__(it['name'], rep))
  return mem


# ---------------------------------------------------------------------------------------------- renderer

ALL_KINDS = ('orient', 'degree', 'defaults', 'frame', 'replicate', 'attach', 'fuse', 'discard', 'order')

DEFAULTABLE = {
    'joint': ['type', 'pos', 'axis', 'limited', 'range', 'ref', 'springref', 'stiffness', 'damping', 'armature',
              'frictionloss'],
    'geom': ['type', 'size', 'pos', 'ORI', 'density', 'contype', 'conaffinity', 'condim', 'friction', 'group', 'rgba'],
    'site': ['type', 'size', 'pos', 'ORI', 'group', 'rgba'],
    'camera': ['fovy', 'pos', 'ORI'],
    'tendon': ['stiffness', 'damping', 'frictionloss', 'limited', 'range', 'margin'],
    'general': ['gear', 'ctrllimited', 'ctrlrange', 'forcelimited', 'forcerange'],
}
ORI_ATTRS = ('quat', 'axisangle', 'euler', 'xyaxes', 'zaxis')

# documented internal defaults (XMLreference) of attributes that the 'defaults' rewrite may leave out entirely
BUILTIN = {
    ('joint', 'pos'): '0 0 0', ('joint', 'ref'): '0', ('joint', 'springref'): '0', ('joint', 'stiffness'): '0',
    ('joint', 'damping'): '0', ('joint', 'frictionloss'): '0', ('joint', 'armature'): '0', ('joint', 'axis'): '0 0 1',
    ('geom', 'pos'): '0 0 0', ('geom', 'density'): '1000', ('geom', 'condim'): '3', ('geom', 'group'): '0',
    ('geom', 'type'): 'sphere', ('geom', 'contype'): '1', ('geom', 'friction'): '1 0.005 0.0001',
    ('site', 'pos'): '0 0 0', ('site', 'group'): '0', ('site', 'type'): 'sphere',
    ('camera', 'pos'): '0 0 0', ('camera', 'fovy'): '45',
    ('tendon', 'stiffness'): '0', ('tendon', 'damping'): '0', ('tendon', 'frictionloss'): '0',
    ('general', 'ctrllimited'): 'false', ('general', 'forcelimited'): 'false', ('general', 'gear'): '1 0 0 0 0 0',
}


def _canon(s):
  """Numeric canonical form of an attribute string for comparing with a documented default ('0.0 0.0' == '0 0')."""
  try:
    return tuple(float(x) for x in s.split())
  except ValueError:
    return s


class Renderer:
  """Renders one document (parent or attached child).  draw=None -> plain rendering."""

  def __init__(self, draw, kinds=(), rep_mode='doc', rep_euler=None, is_child=False, strip=None, stats=None,
               noncumulative=False):
    self.draw = draw
    self.kinds = set(kinds) if draw is not None else set()
    self.rep_mode = rep_mode
    self.rep_euler_in = rep_euler or {}
    self.rep_euler = {}            # replicate id -> (seq, angles in radians) as written
    self.is_child = is_child
    self.noncumulative = noncumulative
    self.strip = strip or (lambda n: n)
    self.stats = stats if stats is not None else set()
    self.child = None              # info about the attached child document
    self.elems = {k: [] for k in DEFAULTABLE}
    k = self.kinds
    self.angle = 'degree' if 'degree' in k else 'radian'
    self.seq = 'xyz'
    if 'orient' in k or 'replicate' in k:
      self.seq = self.d(st.one_of(st.sampled_from(PURE_SEQS), st.sampled_from(UNIVERSAL_SEQS)), 'xyz')
    if 'degree' in k:
      self.stats.add('degree')

  # -- drawing helper
  def d(self, strategy, default):
    return default if self.draw is None else self.draw(strategy)

  def flag(self, kind, p=2):
    """True with probability 1/p... when the rewrite kind is active."""
    return kind in self.kinds and self.draw(st.integers(0, p - 1)) == 0

  def ang(self, x):
    return x * 180.0 / math.pi if self.angle == 'degree' else x

  # -- orientation spelling
  def spell_ori(self, q, kind=None):
    q = np.asarray(q, dtype=np.float64)
    if 'orient' not in self.kinds:
      kind = kind or 'quat'
      if kind == 'quat':
        return 'quat', fmt(list(q))
    if kind is None:
      opts = ['quat', 'axisangle', 'euler', 'euler', 'xyaxes']
      if zaxis_applicable(q):
        opts += ['zaxis', 'zaxis', 'zaxis']
      kind = self.draw(st.sampled_from(opts))
    draw = self.draw
    R = q2mat(q)
    if kind == 'euler':
      e = mat2euler(self.seq, R)
      if e is None:
        kind = 'quat'
        self.stats.add('orient:euler-fallback')
      else:
        self.stats.add('orient:euler')
        self.stats.add('eulerseq:' + ('intrinsic' if self.seq.islower() else 'extrinsic' if self.seq.isupper() else 'mixed'))
        return 'euler', fmt([self.ang(a) for a in e])
    if kind == 'quat':
      s = draw(st.sampled_from([1.0, 1.0, 2.0, 0.5, -1.0, -3.0])) if 'orient' in self.kinds else 1.0
      if s != 1.0:
        self.stats.add('orient:quat-scaled')
      return 'quat', fmt(list(q * s))
    if kind == 'axisangle':
      v = q[1:]
      n = np.linalg.norm(v)
      if n < 1e-300:
        ax, a = np.array([0.0, 0.0, 1.0]), 0.0
      else:
        ax, a = v / n, 2 * math.atan2(n, q[0])
      s = draw(st.sampled_from([1.0, 2.0, 0.25, -1.0, -2.0]))
      ax = ax * s
      if s < 0:
        a = -a
      self.stats.add('orient:axisangle')
      return 'axisangle', fmt(list(ax) + [self.ang(a)])
    if kind == 'xyaxes':
      s1 = draw(st.sampled_from([1.0, 2.0, 0.5]))
      s2 = draw(st.sampled_from([1.0, 3.0, 0.5]))
      c = draw(st.sampled_from([0.0, 0.0, 0.5, -1.0]))
      self.stats.add('orient:xyaxes' + ('-skew' if c else ''))
      return 'xyaxes', fmt(list(R[:, 0] * s1) + list(R[:, 1] * s2 + c * R[:, 0]))
    if kind == 'zaxis':
      s = draw(st.sampled_from([1.0, 2.0, 0.5]))
      self.stats.add('orient:zaxis')
      return 'zaxis', fmt(list(R[:, 2] * s))
    raise ValueError(kind)

  # -- render tree
  def node(self, t, a=None, **kw):
    n = dict(t=t, a=a, ch=[], cls=None, childclass=None, E=None)
    n.update(kw)
    return n

  def draw_pose(self):
    d = self.draw
    return pose(_vec(d, -0.3, 0.3) if d(st.booleans()) else [0.0, 0.0, 0.0], draw_quat(d))

  def order(self, items):
    if 'order' not in self.kinds or len(items) < 2:
      return list(items)
    perm = self.draw(st.permutations(list(range(len(items)))))
    out = [items[i] for i in perm]
    js = [it for it in items if it['k'] == 'joint']      # joints keep their relative order (it is semantic)
    k = 0
    for i, it in enumerate(out):
      if it['k'] == 'joint':
        out[i] = js[k]
        k += 1
    if [id(x) for x in out] != [id(x) for x in items]:
      self.stats.add('order:permuted')
    return out

  def build(self, items, Fa, depth=0, permute=True):
    if permute:
      items = self.order(items)
    out = []
    i = 0
    while i < len(items):
      carrier = False
      if depth < 2 and 'frame' not in self.kinds and self.flag('defaults', 5):
        carrier = True            # a frame used (also) as a carrier of childclass, a common idiom
      if depth < 2 and (carrier or self.flag('frame', 3)):
        n = self.draw(st.integers(1, 3))
        Fp = IDENT if carrier and self.draw(st.booleans()) else self.draw_pose()
        f = self.node('frame', pose=Fp)
        f['ch'] = self.build(items[i:i + n], compose(Fa, Fp), depth + 1, permute=False)
        self.stats.add('frame:nested' if depth else 'frame')
        if np.any(Fp[0]) and abs(Fp[1][0]) != 1.0:
          self.stats.add('frame:pos+rot')
        out.append(f)
        i += n
      else:
        out += self.make(items[i], Fa, depth)
        i += 1
    return out

  def local(self, Fa, it):
    return compose(inverse(Fa), pose(it['pos'], it['quat']))

  def make(self, it, Fa, depth):
    k = it['k']
    if k == 'joint':
      Fi = inverse(Fa)
      n = self.node('joint', it, pos=Fi[0] + qrot(Fi[1], it['pos']), axis=qrot(Fi[1], it['axis']))
      if not is_ident(Fa):
        self.stats.add('frame:joint')
      self.elems['joint'].append(n)
      return [n]
    if k in ('geom', 'site', 'camera'):
      n = self.node(k, it, pose=self.local(Fa, it))
      self.elems[k].append(n)
      return [n]
    if k == 'body':
      att = self.model['attach']
      if att and att['root'] == it['name'] and 'attach' in self.kinds and not self.is_child:
        return self.make_attach(it, Fa)
      n = self.node('body', it, pose=self.local(Fa, it))
      n['ch'] = self.build(it['items'], IDENT, 0)
      return [n]
    if k == 'replicate':
      keep = 'replicate' in self.kinds and self.rep_mode == 'doc'
      if not keep:
        out = []
        eu = self.rep_euler_in.get(it['id'])
        for c in expand_replicate(it, self.rep_mode if eu else 'doc', eu):
          out += self.make(c, Fa, depth)
        return out
      e = mat2euler(self.seq, q2mat(it['rquat']))
      if e is None:
        raise RenderSkip('replicate-euler')
      # known finding 'replicate-euler-not-cumulative': with the euler angles as written, the implementation's
      # rotation euler(i*e) differs from the documented cumulative rotation.  Such replicates are written out in the
      # main stream (counted) and exercised only by the dedicated probe (noncumulative=True).
      dev = max(np.max(np.abs(a[0] - b[0])) + np.max(np.abs(q2mat(a[1]) - q2mat(b[1])))
                for a, b in zip(rep_transforms(it, 'doc'), rep_transforms(it, 'impl', (self.seq, list(e)))))
      if dev > 1e-13:
        if not self.noncumulative:
          self.stats.add('replicate:excluded-noncumulative(known-finding)')
          out = []
          for c in expand_replicate(it):
            out += self.make(c, Fa, depth)
          return out
        self.stats.add('replicate:noncumulative')
      self.rep_euler[it['id']] = (self.seq, list(e))
      self.kept_reps.append(it)
      self.stats.add('replicate:kept')
      self.stats.add('replicate:rot-' + it['rkind'])
      if it['count'] >= 10:
        self.stats.add('replicate:2digit')
      r = self.node('replicate', it, euler=e)
      r['ch'] = self.build(it['items'], IDENT, 1)
      B = compose(inverse(Fa), pose(*it['base']))
      if is_ident(B):
        return [r]
      self.stats.add('replicate:in-frame')
      return [self.wrap_frames(B, [r])]
    raise ValueError(k)

  def wrap_frames(self, B, ch):
    """Frame chain whose composition is exactly B (one frame, or two nested ones when frames are being rewritten)."""
    if 'frame' in self.kinds and self.draw(st.booleans()):
      F1 = self.draw_pose()
      inner = self.node('frame', pose=compose(inverse(F1), B))
      inner['ch'] = ch
      outer = self.node('frame', pose=F1)
      outer['ch'] = [inner]
      self.stats.add('frame:nested')
      return outer
    f = self.node('frame', pose=B)
    f['ch'] = ch
    return f

  def make_attach(self, body, Fa):
    att = self.model['attach']
    api = self.draw(st.booleans()) or bool(att['suffix'])
    if 'fuse' in self.kinds:
      # known finding 'attach-shallow-fusestatic-use-after-free': mjs_attach by reference + fusestatic frees a body that
      # the child spec still owns (process dies on mj_deleteSpec); rewrite_case never combines a suffix with fuse
      api = False
      self.stats.add('attach:api-excluded-with-fuse(known-finding)')
    T = self.local(Fa, body)
    G = self.draw_pose() if self.draw(st.booleans()) else IDENT
    Tc = compose(inverse(G), T)             # pose of the body inside the child model
    pre, suf = att['prefix'], att['suffix']

    def strip(n):
      assert n.startswith(pre) and n.endswith(suf), n
      return n[len(pre):len(n) - len(suf)] if suf else n[len(pre):]
    kinds = set(self.kinds) - {'attach', 'fuse', 'discard'}
    if self.draw(st.booleans()):            # child may use its own angle unit / eulerseq (compiler flags are carried over)
      kinds ^= {'degree'}
    cr = Renderer(self.draw, kinds, is_child=True, strip=strip, stats=self.stats)
    cb = _copy(body)
    cb['pos'], cb['quat'] = list(Tc[0]), list(Tc[1])
    cmodel = dict(world=[cb], attach=None, option=None,
                  tendons=[t for t in self.model['tendons'] if t['owner'] == 'child'],
                  actuators=[a for a in self.model['actuators'] if a['owner'] == 'child'],
                  sensors=[s for s in self.model['sensors'] if s['owner'] == 'child'])
    cxml = cr.render(cmodel)
    self.child = dict(xml=cxml, file='child_c36.xml', body=strip(body['name']), prefix=pre, suffix=suf, api=api,
                      angle=cr.angle, seq=cr.seq)
    self.stats.add('attach:api' if api else 'attach:xml')
    if cr.angle != self.angle:
      self.stats.add('attach:child-other-angle')
    if api:
      f = self.node('frame', pose=G, name='attach_here')
      return [f]
    a = self.node('attach', None, model='childmodel', body=self.child['body'], prefix=pre)
    if is_ident(G):
      return [a]
    f = self.node('frame', pose=G)
    f['ch'] = [a]
    return [f]


class RenderSkip(Exception):
  pass


def _b(x):
  return 'true' if x else 'false'


def _attrs(pairs):
  return ''.join(' %s="%s"' % (k, v) for k, v in pairs)


class _Part2:
  # ---------------------------------------------------------------- defaults plan
  def all_nodes(self, nodes=None, out=None):
    out = [] if out is None else out
    for n in (self.tree if nodes is None else nodes):
      out.append(n)
      self.all_nodes(n['ch'], out)
    return out

  def plan_classes(self):
    """Class tree + assignment of class= / childclass=; fills n['active'] (class index or None) for every element."""
    self.classes = []
    if 'defaults' not in self.kinds:
      for n in self.all_nodes() + self.extra_nodes:
        n['active'] = None
      return
    d = self.draw
    ncls = d(st.integers(1, 4))
    pre = 'k' if self.is_child else 'cl'
    for c in range(ncls):
      self.classes.append(dict(name=(d(st.sampled_from(['main', None])) if c == 0 else '%s%d' % (pre, c)),
                               parent=None if c == 0 else d(st.integers(0, c - 1)), spec={}, ori={}, val={}, members={}))

    def pick(p):
      return d(st.integers(0, ncls - 1)) if ncls > 1 and d(st.integers(0, p - 1)) == 0 else None

    def assign(nodes, inherited):
      for n in nodes:
        t = n['t']
        if t in ('body', 'frame'):
          cc = pick(2 if t == 'frame' else 3)
          if cc is not None and self.classes[cc]['name'] is not None:
            n['childclass'] = cc
            self.stats.add('defaults:childclass-' + t)
          assign(n['ch'], n['childclass'] if n['childclass'] is not None else inherited)
        elif t == 'replicate':
          assign(n['ch'], inherited)
        elif t in DEFAULTABLE:
          c = pick(4)
          if c is not None and self.classes[c]['name'] is not None:
            n['cls'] = c
          n['active'] = n['cls'] if n['cls'] is not None else (inherited if inherited is not None else 0)
    assign(self.tree, None)
    for n in self.extra_nodes:
      c = pick(3)
      if c is not None and self.classes[c]['name'] is not None:
        n['cls'] = c
      n['active'] = n['cls'] if n['cls'] is not None else 0
    # members: elements whose active class is c or a descendant of c
    def chain(c):
      out = []
      while c is not None:
        out.append(c)
        c = self.classes[c]['parent']
      return out
    self.chain = chain
    allel = [n for n in self.all_nodes() if n['t'] in DEFAULTABLE] + self.extra_nodes
    for n in allel:
      et = 'general' if n['t'] in ('motor', 'position', 'general') else n['t']
      n['et'] = et
      for c in chain(n['active']):
        self.classes[c]['members'].setdefault(et, []).append(n)
    bytype = {}
    for n in allel:
      bytype.setdefault(n['et'], []).append(n)
    for ci, cl in enumerate(self.classes):
      for et in DEFAULTABLE:
        pool = cl['members'].get(et) or bytype.get(et)
        if not pool or not d(st.booleans()):
          continue
        spec = {}
        for a in DEFAULTABLE[et]:
          if d(st.integers(0, 2)) == 0:
            if et == 'joint' and a == 'type' and (self.kept_reps or self.child is not None or self.is_child):
              # regression coverage of the fixed finding 'attach-default-joint-type-heap-overflow' (class-level joint
              # type + mjs_attach overflowed a heap buffer in ComputeReference before the fix)
              self.stats.add('defaults:joint-type-with-attach(fixed-finding-regression)')
            spec[a] = pool[d(st.integers(0, len(pool) - 1))]
        if 'ORI' in spec:
          inh = [self.classes[c]['ori'].get(et) for c in chain(cl['parent']) if self.classes[c]['ori'].get(et)]
          cl['ori'][et] = inh[0] if inh else (d(st.sampled_from(['quat', 'euler', 'axisangle', 'xyaxes']))
                                              if 'orient' in self.kinds else 'quat')
        if spec:
          cl['spec'][et] = spec

  def forced_ori(self, n):
    if n.get('active') is None:
      return None
    for c in self.chain(n['active']):
      k = self.classes[c]['ori'].get(n['et'])
      if k:
        return k
    return None

  def resolved(self, c, et):
    out = {}
    for ci in reversed(self.chain(c)):
      out.update(self.classes[ci]['val'].get(et, {}))
    return out

  # ---------------------------------------------------------------- explicit attribute sets (strings)
  def ori_of(self, n, q, kind=None):
    a, s = self.spell_ori(q, kind)
    n['ori_ident'] = (abs(abs(q[0]) - 1.0) == 0.0)
    return (a, s)

  def spell(self, n):
    t, a = n['t'], n['a']
    nm = lambda x: self.strip(x)
    if t == 'joint':
      rot = a['type'] in ('hinge', 'ball')
      hin = a['type'] == 'hinge'
      E = [('name', nm(a['name'])), ('type', a['type']), ('pos', fmt(list(n['pos']))), ('axis', fmt(list(n['axis']))),
           ('limited', _b(a['limited'])), ('range', fmt([self.ang(x) if rot else x for x in a['range']])),
           ('ref', fmt(self.ang(a['ref']) if hin else a['ref'])),
           ('springref', fmt(self.ang(a['springref']) if hin else a['springref'])),
           ('stiffness', fmt(a['stiffness'])), ('damping', fmt(a['damping'])), ('armature', fmt(a['armature'])),
           ('frictionloss', fmt(a['frictionloss']))]
      if self.angle == 'degree' and (a['limited'] and rot or hin and (a['ref'] or a['springref'])):
        self.stats.add('degree:joint-angle')
    elif t == 'geom':
      E = [('name', nm(a['name'])), ('type', a['type']), ('size', fmt(a['size'])), ('pos', fmt(list(n['pose'][0]))),
           ('ORI', self.ori_of(n, n['pose'][1], self.forced_ori(n))), ('density', fmt(a['density']))]
      if a['mass'] is not None:
        E.append(('mass', fmt(a['mass'])))
      E += [('contype', str(a['contype'])), ('conaffinity', str(a['conaffinity'])), ('condim', str(a['condim'])),
            ('friction', fmt(a['friction'])), ('group', str(a['group'])), ('rgba', fmt(a['rgba']))]
    elif t == 'site':
      E = [('name', nm(a['name'])), ('type', a['type']), ('size', fmt(a['size'])), ('pos', fmt(list(n['pose'][0]))),
           ('ORI', self.ori_of(n, n['pose'][1], self.forced_ori(n))), ('group', str(a['group'])), ('rgba', fmt(a['rgba']))]
    elif t == 'camera':
      E = [('name', nm(a['name'])), ('pos', fmt(list(n['pose'][0]))),
           ('ORI', self.ori_of(n, n['pose'][1], self.forced_ori(n))), ('fovy', fmt(a['fovy']))]   # fovy: always degrees
    elif t == 'tendon':
      E = [('name', nm(a['name'])), ('stiffness', fmt(a['stiffness'])), ('damping', fmt(a['damping'])),
           ('frictionloss', fmt(a['frictionloss'])), ('limited', _b(a['limited'])), ('range', fmt(a['range'])),
           ('margin', fmt(a['margin']))]
      if a['springlength'] is not None:
        E.append(('springlength', fmt(a['springlength'])))
    elif t in ('motor', 'position', 'general'):
      tg = [k for k in ('joint', 'tendon', 'site') if k in a][0]
      E = [('name', nm(a['name']) + n.get('suf', '')), (tg, nm(a[tg]) + n.get('suf', '')), ('gear', fmt(a['gear'])),
           ('ctrllimited', _b(a['ctrllimited'])), ('ctrlrange', fmt(a['ctrlrange'])),
           ('forcelimited', _b(a['forcelimited'])), ('forcerange', fmt(a['forcerange']))]
      if t == 'position':
        E += [('kp', fmt(a['kp'])), ('kv', fmt(a['kv']))]
      elif t == 'general':
        E += [('gainprm', fmt(a['gainprm'])), ('biastype', a['biastype']), ('biasprm', fmt(a['biasprm'])),
              ('dyntype', a['dyntype']), ('dynprm', fmt(a['dynprm']))]
    else:
      raise ValueError(t)
    n['E'] = E

  # ---------------------------------------------------------------- emission
  def emit_attrs(self, n):
    et = n['et'] if 'et' in n else n['t']
    D = self.resolved(n['active'], et) if n.get('active') is not None else {}
    E = dict(n['E'])
    out = []
    drop = set()
    dflt = 'defaults' in self.kinds
    if dflt and et in ('joint', 'tendon') and 'limited' not in D and 'range' not in D:
      if E['limited'] == 'false' and _canon(E['range']) == (0.0, 0.0) and self.draw(st.booleans()):
        drop |= {'limited', 'range'}
        self.stats.add('defaults:autolimits')
      elif E['limited'] == 'true' and self.draw(st.booleans()):
        drop.add('limited')
        self.stats.add('defaults:autolimits')
    for k, v in n['E']:
      if k in drop:
        continue
      if k == 'ORI':
        attr, s = v
        if attr in D:
          if D[attr] == s and self.draw(st.integers(0, 4)) != 0:
            self.stats.add('defaults:omitted')
            continue
        elif n.get('ori_ident') and not any(o in D for o in ORI_ATTRS) and (dflt or 'orient' in self.kinds) and \
            self.draw(st.booleans()):
          continue
        out.append((attr, s))
        continue
      if k in D:
        if D[k] == v and self.draw(st.integers(0, 4)) != 0:
          self.stats.add('defaults:omitted')
          if len(self.chain(n['active'])) > 1 and k not in self.classes[n['active']]['val'].get(et, {}):
            self.stats.add('defaults:inherited-from-parent-class')
          continue
        if D[k] != v:
          self.stats.add('defaults:override')
      elif dflt and (et, k) in BUILTIN and _canon(BUILTIN[(et, k)]) == _canon(v) and self.draw(st.booleans()):
        self.stats.add('defaults:builtin-omitted')
        continue
      out.append((k, v))
    if n['cls'] is not None:
      out.append(('class', self.classes[n['cls']]['name']))
      self.stats.add('defaults:class-attr')
    return _attrs(out)

  def emit_pose(self, n, P, name=None):
    out = []
    if name:
      out.append(('name', name))
    rw = bool(self.kinds & {'defaults', 'orient', 'frame'})
    if np.any(P[0]) or not (rw and self.draw(st.booleans())):
      out.append(('pos', fmt(list(P[0]))))
    a, s = self.spell_ori(P[1])
    if not (abs(abs(P[1][0]) - 1.0) == 0.0 and rw and self.draw(st.booleans())):
      out.append((a, s))
    return out

  def emit(self, nodes):
    s = ''
    for n in nodes:
      t = n['t']
      if t == 'body':
        a = n['a']
        at = self.emit_pose(n, n['pose'], self.strip(a['name']))
        if a['gravcomp']:
          at.append(('gravcomp', fmt(a['gravcomp'])))
        if a.get('simple_false'):
          at.append(('simple', 'false'))
        if n['childclass'] is not None:
          at.append(('childclass', self.classes[n['childclass']]['name']))
        inner = ''
        if a['inertial']:
          I = a['inertial']
          oa, os_ = self.spell_ori(np.asarray(I['quat']))
          inner += '<inertial%s/>' % _attrs([('pos', fmt(I['pos'])), (oa, os_), ('mass', fmt(I['mass'])),
                                             ('diaginertia', fmt(I['diag']))])
        s += '<body%s>%s%s</body>' % (_attrs(at), inner, self.emit(n['ch']))
      elif t == 'frame':
        at = self.emit_pose(n, n['pose'], n.get('name'))
        if n['childclass'] is not None:
          at.append(('childclass', self.classes[n['childclass']]['name']))
        s += '<frame%s>%s</frame>' % (_attrs(at), self.emit(n['ch']))
      elif t == 'replicate':
        a = n['a']
        at = [('count', str(a['count']))]
        if a['sep']:
          at.append(('sep', a['sep']))
        if np.any(a['offset']) or self.draw(st.booleans()):
          at.append(('offset', fmt(a['offset'])))
        if np.any(n['euler']) or self.draw(st.booleans()):
          at.append(('euler', fmt([self.ang(x) for x in n['euler']])))
        s += '<replicate%s>%s</replicate>' % (_attrs(at), self.emit(n['ch']))
      elif t == 'attach':
        s += '<attach%s/>' % _attrs([('model', n['model']), ('body', n['body']), ('prefix', n['prefix'])])
      else:
        s += '<%s%s/>' % (t, self.emit_attrs(n))
    return s

  def emit_defaults(self):
    if not self.classes:
      return ''
    kids = {}
    for i, c in enumerate(self.classes):
      kids.setdefault(c['parent'], []).append(i)

    def one(i):
      c = self.classes[i]
      s = '<default%s>' % (_attrs([('class', c['name'])]) if c['name'] else '')
      # the settings of a class and its nested classes may come in any order: inheritance is by structure, not by
      # document order (XMLreference, default classes)
      parts = ['<%s%s/>' % (et, _attrs(list(vals.items()))) for et, vals in c['val'].items() if vals]
      parts += [one(k) for k in kids.get(i, [])]
      if len(parts) > 1 and kids.get(i) and self.draw is not None and self.flag('defaults', 2):
        order = self.draw(st.permutations(list(range(len(parts)))))
        parts = [parts[j] for j in order]
        self.stats.add('defaults:nested-before-settings')
      return s + ''.join(parts) + '</default>'
    return one(0)

  # ---------------------------------------------------------------- whole document
  def render(self, model):
    self.model = model
    self.kept_reps = []
    # the root body of a child model is never wrapped in frames: what happens to frames enclosing an attached body is
    # not documented (observed: they are ignored while the body's own pos/quat is kept)
    self.tree = self.build(model['world'], IDENT, 2 if self.is_child else 0)
    # extras (tendons / actuators / sensors) of this document
    mem = rep_membership(model) if not self.is_child else {}
    kept = set(id(r) for r in self.kept_reps)
    own = (lambda x: x['owner'] == 'parent') if self.child is not None else (lambda x: True)
    self.extra_nodes = []
    tnodes, anodes, snodes = [], [], []
    for t in model['tendons']:
      if own(t):
        tnodes.append(self.node('tendon', t))
    for kind, lst, dst in (('act', model['actuators'], anodes), ('sens', model['sensors'], snodes)):
      for x in lst:
        if not own(x):
          continue
        rep = mem.get(x['refs'][0])
        if rep is None or id(rep) in kept:
          sufs = ['']
        else:
          sufs = [rep_suffix(rep, i) for i in range(rep['count'])]
        for suf in sufs:
          dst.append(self.node(x['kind'] if kind == 'act' else 'sensor', x, suf=suf))
    if 'order' in self.kinds:
      for lst in (anodes, snodes):
        if len(lst) > 1:
          perm = self.draw(st.permutations(list(range(len(lst)))))
          lst[:] = [lst[i] for i in perm]
    self.extra_nodes = tnodes + anodes
    self.plan_classes()
    for n in self.all_nodes():
      if n['t'] in DEFAULTABLE:
        self.spell(n)
    for n in self.extra_nodes:
      self.spell(n)
    # class values from their source elements
    for cl in self.classes:
      for et, spec in cl['spec'].items():
        vals = {}
        for a, src in spec.items():
          E = dict(src['E'])
          if a == 'ORI':
            kind = cl['ori'][et]
            if E['ORI'][0] == kind:
              vals[kind] = E['ORI'][1]
            else:
              q = src['pose'][1]
              at, s = self.spell_ori(q, kind)
              if at == kind:
                vals[kind] = s
          elif a in E:
            vals[a] = E[a]
        cl['val'][et] = vals
      # an orientation kind that ended up without value must not force anybody
      for et in list(cl['ori']):
        if cl['ori'][et] not in cl['val'].get(et, {}):
          inherited = [c for c in self.chain(cl['parent']) if self.classes[c]['ori'].get(et)] if cl['parent'] is not None else []
          if not inherited:
            raise RenderSkip('class-ori')
    if any(c['val'].get(et) for c in self.classes for et in c['val']):
      self.stats.add('defaults:classes')
      if any(c['parent'] not in (None, 0) for c in self.classes):
        self.stats.add('defaults:nested>=3')
    body = self.emit(self.tree)
    nm = self.strip
    tx = ''
    for n in tnodes:
      t = n['a']
      if t['kind'] == 'fixed':
        inner = ''.join('<joint joint="%s" coef="%s"/>' % (nm(j), fmt(c)) for j, c in t['joints'])
        tx += '<fixed%s>%s</fixed>' % (self.emit_attrs(n), inner)
      else:
        inner = ''.join('<site site="%s"/>' % nm(s) for s in t['sites'])
        tx += '<spatial%s>%s</spatial>' % (self.emit_attrs(n), inner)
    ax = ''.join('<%s%s/>' % (n['t'], self.emit_attrs(n)) for n in anodes)
    sx = ''
    for n in snodes:
      x, suf = n['a'], n['suf']
      at = [('name', nm(x['name']) + suf)]
      if x['type'].startswith('frame'):
        at += [('objtype', x['objtype']), ('objname', nm(x['obj']) + suf)]
      else:
        at += [(x['objtype'], nm(x['obj']) + suf)]
      sx += '<%s%s/>' % (x['type'], _attrs(at))
    comp = [('angle', self.angle)] if not (self.angle == 'degree' and self.draw(st.booleans())) else []
    if self.seq != 'xyz' or (self.draw is not None and self.draw(st.booleans())):
      comp.append(('eulerseq', self.seq))
    if not self.is_child:
      if 'fuse' in self.kinds:
        comp.append(('fusestatic', 'true'))
      if 'discard' in self.kinds:
        comp.append(('discardvisual', 'true'))
    xml = '<mujoco%s><compiler%s/>' % (' model="childmodel"' if self.is_child else '', _attrs(comp))
    if model.get('option'):
      o = model['option']
      xml += '<option%s>%s</option>' % (_attrs([('timestep', fmt(o['timestep'])), ('gravity', fmt(o['gravity'])),
                                                 ('integrator', o['integrator'])]),
                                        '<flag contact="disable"/>' if o['nocontact'] else '')
    if self.child is not None and not self.child['api']:
      xml += '<asset><model name="childmodel" file="%s"/></asset>' % self.child['file']
    xml += self.emit_defaults()
    xml += '<worldbody>%s</worldbody>' % body
    if tx:
      xml += '<tendon>%s</tendon>' % tx
    if ax:
      xml += '<actuator>%s</actuator>' % ax
    if sx:
      xml += '<sensor>%s</sensor>' % sx
    return xml + '</mujoco>'


for _k, _v in list(_Part2.__dict__.items()):
  if not _k.startswith('__'):
    setattr(Renderer, _k, _v)


# ---------------------------------------------------------------------------------------------- cases

@st.composite
def rewrite_case(draw, max_bodies=5, only=None, noncumulative=False, replicate=None, attach=None):
  """A (model, rewrite) pair: dict(plain=xml, rw=xml, child=..., kinds=[...], stats=[...], alt=xml|None, seed=int)."""
  model = draw(abstract_model(max_bodies=max_bodies, replicate=replicate, attach=attach))
  avail = [k for k in ALL_KINDS if (k != 'replicate' or collect(model, 'replicate')) and (k != 'attach' or model['attach'])]
  if only:
    avail = [k for k in avail if k in only] or [only[0]]
  seed = draw(st.integers(0, 2 ** 31 - 1))
  nk = draw(st.sampled_from([1, 1, 1, 2, 2, 3, 4]))
  # the seed rotates the choice so that Hypothesis' preference for small integers does not favour the first kinds
  kinds = sorted(set(avail[(draw(st.integers(0, len(avail) - 1)) + seed) % len(avail)] for _ in range(nk)))
  extra_stats = []
  if 'fuse' in kinds:
    # known finding 'fusestatic-xbody-sensor-rejected': a static body referenced only through a sensor with
    # objtype="xbody" is fused anyway and the model then fails to compile (dedicated probe in the check)
    static = set(b['name'] for b in collect(model, 'body') if not any(it['k'] == 'joint' for it in b['items']))
    if any(sn['objtype'] == 'xbody' and sn['obj'] in static for sn in model['sensors']):
      kinds.remove('fuse')
      kinds = kinds or ['order']
      extra_stats.append('fuse:excluded-xbody-sensor-on-static-body(known-finding)')
  if 'attach' in kinds and 'fuse' in kinds and model['attach']['suffix']:
    kinds.remove('fuse')          # a suffix needs the API route, which is excluded together with fuse (see make_attach)
  plain = Renderer(None).render(model)
  rw = Renderer(draw, kinds, noncumulative=noncumulative)
  case = dict(kinds=kinds, seed=seed, plain=plain, rw=None, child=None, alt=None, stats=[], skip=None)
  try:
    case['rw'] = rw.render(model)
  except RenderSkip as e:
    case['skip'] = str(e)
    return case
  case['child'] = rw.child
  case['stats'] = sorted(rw.stats) + extra_stats
  if rw.rep_euler:
    case['alt'] = Renderer(None, rep_mode='impl', rep_euler=rw.rep_euler).render(model)
  case['nrep'] = len(collect(model, 'replicate'))
  case['attach'] = model['attach']
  return case
