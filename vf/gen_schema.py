"""schemagen - MJCF documents generated from the tree's own schema file (src/xml/mjcf.schema).

The schema is parsed with the tree's parser (doc/generate/mjcf_schema.py, imported by file path) and used as a
grammar.  Semantics are taken from the language description in that module's docstring and from the header of
mjcf.schema itself:

  * child cardinalities  ? (<=1)  ! (exactly 1)  * (any)  R (any, recursive)
  * attribute types/arity: double[3] exactly 3 tokens, double[1..3] 1 to 3, double[] any, enum<e> one keyword of e,
    flags<e> several keywords, bool = true/false, id<ns>/ref<ns> names, chars[n] character count
  * facets: required, nodefault (not settable in <default>), min/max/positive, pattern
  * presence constraints: exclusive (at most one bundle present), together (all or none), requires a b, oneof (at
    least one bundle complete); `group ... variant` = its attributes are mutually exclusive
  * element facets: xml=tag, alias=body (worldbody/frame/replicate)
  * rows in <default> context are the "defaultable projection" of the primary declaration: attributes minus
    name/class minus (nodefault); no <plugin> children (doc/generate/generate_mjcf_table.py, comment in `default`).

Everything random comes from a `random.Random` that the caller seeds from a Hypothesis-drawn integer.

API
  g = Generator(repo)                       parse schema, build the catalogue of element contexts and violation sites
  doc = g.conforming(rng, size)             random conforming document (Node tree);  doc.render() -> str
  node = g.graft(rng, doc, ctxkey, dense)   make sure an instance of context `ctxkey` exists, return it
  info = g.violate(rng, doc, node, site)    inject exactly one labelled violation at `node`
  g.sites[kind] -> list of Site             every place of the schema where a violation of that kind can be injected
"""
import importlib.util
import os
import re

KINDS = ['unknown_attr', 'unknown_child', 'dup_optional', 'missing_required_child', 'bad_enum', 'bad_bool',
         'too_many', 'too_few', 'non_numeric', 'out_of_range', 'required_missing',
         'exclusive', 'together', 'requires', 'oneof', 'variant']

BODYLIKE = ('body', 'frame', 'replicate')
MAX_BODY_NEST = 2        # body-like elements nested below worldbody in the catalogue
OBJTYPES = ['body', 'geom', 'site', 'joint', 'camera']

# Semantic hints (NOT schema knowledge): values that make the reader/compiler accept an element more often, so that the
# base document of a violation test is accepted and the injected violation is the only reason for a rejection.
# They are applied with probability RECIPE_P; the remaining documents explore the declared type freely.
RECIPES = {
    'composite': {'type': 'cable', 'count': '3 1 1', 'curve': 's', 'size': '1', 'initial': 'none', 'vertex': None,
                  'quat': '1 0 0 0'},
    'flexcomp': {'type': 'grid', 'count': '2 2 1', 'spacing': '0.1 0.1 0.1', 'dim': '2', 'file': None, 'point': None,
                 'element': None, 'texcoord': None, 'dof': None, 'cellcount': None, 'quat': None, 'axisangle': None,
                 'xyaxes': None, 'zaxis': None, 'euler': None, 'mass': '1', 'radius': '0.01', 'inertiabox': '0.01',
                 'scale': '1 1 1'},
    'compiler': {'coordinate': 'local', 'inertiagrouprange': '0 5'},
    'extension_plugin': {'plugin': 'mujoco.pid'},
    'texture': {'gridlayout': None, 'gridsize': '1 1', 'file': None, 'fileright': None, 'fileleft': None,
                'fileup': None, 'filedown': None, 'filefront': None, 'fileback': None, 'width': '4', 'height': '4',
                'builtin': 'flat', 'nchannel': '3', 'content_type': None},
    'hfield': {'nrow': '2', 'ncol': '2', 'elevation': None, 'file': None, 'content_type': None, 'size': '1 1 1 1'},
    'mesh': {'builtin': None, 'params': None, 'file': None, 'content_type': None, 'maxhullvert': '-1',
             'vertex': '0 0 0 1 0 0 0 1 0 0 0 1', 'face': None, 'normal': None, 'texcoord': None},
    'skin': {'file': None, 'group': '0'},
    'model': {'file': '@SUBMODEL@', 'content_type': None},
    'attach': {'model': None, 'frame': None},
    'layer': {'role': 'rgb'},
    'numeric': {'size': None, 'data': '1 2 3'},
    'sensor_contact': {'num': '1'},
    'user': {'dim': '1'},
    'size': {'memory': None},
    'option': {'actuatorgroupdisable': '0 3'},
    'key': {'qpos': None, 'qvel': None, 'act': None, 'mpos': None, 'mquat': None, 'ctrl': None},
    'global': {'offwidth': '64', 'offheight': '64'},
    'quality': {'shadowsize': '16', 'offsamples': '0'},
    'composite_geom': {'type': 'capsule', 'size': '0.01 0.02'},
    # count > 1 around a cable composite runs into two memory errors of the attach code (reported findings); most documents
    # stay away from them so that the native worker is not restarted hundreds of times per run (process creation is slow here)
    'replicate': {'count': '1'},
    'config': {'value': '1'},
    'dcmotor': {'motorconst': '0.05', 'resistance': '1', 'thermal': None, 'lugre': None, 'controller': None,
                'nominal': None, 'saturation': None, 'inductance': None, 'cogging': None, 'input': None},
    'damper': {'ctrlrange': '0 1', 'kv': '1'},
    'adhesion': {'ctrlrange': '0 1', 'gain': '1'},
    'position': {'dampratio': None, 'kp': '1', 'kv': '0.1'},
    'intvelocity': {'dampratio': None, 'inheritrange': None, 'kp': '1', 'kv': '0.1'},
    'orientation': {'dampratio': None, 'kp': '1', 'kv': '0.1'},
    'pid': {'dampratio': None, 'inheritrange': None, 'slewmax': '1', 'kp': '1', 'kv': '0.1', 'ki': '0.1', 'imax': '1'},
    'velocity': {'kv': '1'},
    'material': {'texture': None},
    'pin': {'id': '0 1', 'range': '0 1', 'grid': '0 0', 'gridrange': '0 0 1 1'},
    'bone': {'bindpos': '0 0 0', 'bindquat': '1 0 0 0', 'vertid': '0', 'vertweight': '1'},
    'fixed_joint': {'coef': '1'},
    'pulley': {'divisor': '2'},
    'sensor_plugin': {'objtype': None, 'objname': None, 'reftype': None, 'refname': None},
    'muscle': {'timeconst': '0.01 0.04', 'range': '0.75 1.05', 'force': '1', 'scale': '200', 'lmin': '0.5', 'lmax': '1.6',
               'vmax': '1.5', 'fpmax': '1.3', 'fvmax': '1.2', 'tausmooth': '0'},
    'cylinder': {'timeconst': '0.1', 'area': '1', 'diameter': None},
}
# every actuator shortcut: one transmission target only (the combinations are semantic errors of the reader)
for _a in ('general', 'motor', 'position', 'velocity', 'intvelocity', 'damper', 'cylinder', 'muscle', 'dcmotor', 'pid',
           'actuator_plugin', 'orientation', 'adhesion'):
  RECIPES.setdefault(_a, {})
  for _k in ('cranklength', 'slidersite', 'cranksite', 'refsite', 'jointinparent', 'tendon', 'site', 'body'):
    RECIPES[_a].setdefault(_k, None)
RECIPE_P = 0.95


def load_schema_module(repo):
  path = os.path.join(repo, 'doc', 'generate', 'mjcf_schema.py')
  spec = importlib.util.spec_from_file_location('vf_tree_mjcf_schema', path)
  mod = importlib.util.module_from_spec(spec)
  import sys
  sys.modules['vf_tree_mjcf_schema'] = mod      # dataclasses needs the module to be importable by name
  spec.loader.exec_module(mod)
  return mod


def header_consts(repo):
  """Numeric #defines (mjNREF, ...) used as symbolic arity bounds."""
  out = {}
  for h in ('mjmodel.h', 'mjtype.h', 'mjspec.h'):
    p = os.path.join(repo, 'include', 'mujoco', h)
    if os.path.exists(p):
      for m in re.finditer(r'^\s*#define\s+(mj[A-Z]\w*)\s+(\d+)\b', open(p, errors='replace').read(), flags=re.M):
        out[m.group(1)] = int(m.group(2))
  return out


class Node:
  __slots__ = ('tag', 'ctx', 'attrs', 'children', 'parent', 'mark')

  def __init__(self, tag, ctx):
    self.tag = tag
    self.ctx = ctx          # Ctx or None (foreign element injected as a violation)
    self.attrs = []         # list of [name, value]
    self.children = []
    self.parent = None
    self.mark = None        # label of the injected violation, if this node carries it

  def get(self, name):
    for a in self.attrs:
      if a[0] == name:
        return a[1]
    return None

  def has(self, name):
    return any(a[0] == name for a in self.attrs)

  def set(self, name, value):
    for a in self.attrs:
      if a[0] == name:
        a[1] = value
        return
    self.attrs.append([name, value])

  def remove(self, name):
    self.attrs = [a for a in self.attrs if a[0] != name]

  def add(self, child):
    child.parent = self
    self.children.append(child)
    return child

  def depth(self):
    d, n = 0, self
    while n.parent is not None:
      d += 1
      n = n.parent
    return d

  def path(self):
    p, n = [], self
    while n is not None:
      p.append(n.tag)
      n = n.parent
    return '/'.join(reversed(p))

  def walk(self):
    yield self
    for c in self.children:
      yield from c.walk()

  def count(self):
    return sum(1 for _ in self.walk())

  def clone(self, memo=None):
    n = Node(self.tag, self.ctx)
    n.attrs = [list(a) for a in self.attrs]
    n.mark = self.mark
    if memo is not None:
      memo[id(self)] = n
    for c in self.children:
      n.add(c.clone(memo))
    return n

  def render(self, indent=0):
    out = []
    self._render(out, indent)
    return ''.join(out)

  def _render(self, out, indent):
    pad = ' ' * indent
    out.append(pad + '<' + self.tag)
    for k, v in self.attrs:
      out.append(' %s="%s"' % (k, esc(v)))
    if not self.children:
      out.append('/>\n')
      return
    out.append('>\n')
    for c in self.children:
      c._render(out, indent + 1)
    out.append(pad + '</' + self.tag + '>\n')


def esc(v):
  return (str(v).replace('&', '&amp;').replace('<', '&lt;').replace('>', '&gt;').replace('"', '&quot;')
          .replace('\n', '&#10;').replace('\t', '&#9;'))


class Ctx:
  """An element declaration in a context (path from the root), with its effective grammar."""

  def __init__(self):
    self.key = ''            # path of tags, e.g. mujoco/worldbody/body/geom
    self.decl = None         # schema Element
    self.name = ''           # declaration name
    self.tag = ''
    self.project = False     # <default> context projection
    self.attrs = []          # effective schema Attr list
    self.attr = {}           # name -> Attr
    self.constraints = []    # (kind, bundles)
    self.variants = []       # lists of attribute names that are mutually exclusive
    self.children = []       # (card, Ctx)
    self.parent = None
    self.card = '!'
    self.depth = 0
    self.dropped = []        # attributes of the primary declaration that the projection removes

  def under_alias(self):
    """'self' if this element is frame/replicate, 'desc' if an ancestor is, else ''."""
    if self.tag in ('frame', 'replicate'):
      return 'self'
    c = self.parent
    while c is not None:
      if c.tag in ('frame', 'replicate'):
        return 'desc'
      c = c.parent
    return ''

  def elemkey(self):
    return ('default/' if self.project else '') + self.name


class Site:
  __slots__ = ('kind', 'ctx', 'detail')

  def __init__(self, kind, ctx, detail):
    self.kind = kind
    self.ctx = ctx
    self.detail = detail

  def label(self):
    d = self.detail
    if isinstance(d, (tuple, list)):
      d = ':'.join(str(x) for x in d)
    return '%s@%s:%s' % (self.kind, self.ctx.elemkey(), d)


class Generator:
  def __init__(self, repo, submodel_path=None):
    self.repo = repo
    self.ms = load_schema_module(repo)
    self.schema = self.ms.parse_file(os.path.join(repo, 'src', 'xml', 'mjcf.schema'))
    self.consts = header_consts(repo)
    self.submodel_path = submodel_path
    self.ctxs = {}
    self.all_tags = set()
    self.all_attr_names = set()
    for e in self.schema.elements.values():
      self.all_tags.add(e.xml_name())
      for a in self.schema.expanded_attrs(e):
        self.all_attr_names.add(a.name)
    self.root = self._visit(self.schema.elements['mujoco'], None, '!', False, 0, 0)
    self.ctx_list = [c for c in self.ctxs.values()]
    self.sites = {k: [] for k in KINDS}
    self._enumerate_sites()
    self._uid = 0

  # ------------------------------------------------------------------ schema -> contexts
  def _group_members(self, name, seen=None):
    seen = seen if seen is not None else set()
    out = []
    if name in seen:
      return out
    seen.add(name)
    g = self.schema.groups[name]
    out.append(g)
    for m in g.members:
      if isinstance(m, self.ms.Use):
        out += self._group_members(m.group, seen)
    return out

  def _visit(self, decl, parent, card, project, depth, bodynest):
    ms = self.ms
    c = Ctx()
    c.decl, c.name, c.tag, c.project, c.parent, c.card, c.depth = decl, decl.name, decl.xml_name(), project, parent, card, depth
    c.key = (parent.key + '/' if parent else '') + c.tag
    if c.key in self.ctxs:        # same tag twice under one parent cannot happen (validated), but be safe
      c.key += '#' + decl.name
    attrs = list(self.schema.expanded_attrs(decl))
    if project:
      kept = [a for a in attrs if a.name not in ('name', 'class') and not a.facets.get('nodefault')]
      c.dropped = [a.name for a in attrs if a not in kept]
      attrs = kept
    c.attrs = attrs
    c.attr = {a.name: a for a in attrs}
    names = set(c.attr)
    # constraints of the element and of the groups it uses; variant groups
    cons = list(decl.constraints())
    groups = []
    for m in decl.members:
      if isinstance(m, ms.Use):
        groups += self._group_members(m.group)
    for g in groups:
      for m in g.members:
        if isinstance(m, ms.Constraint):
          cons.append(m)
      if g.variant:
        v = [m.name for m in g.members if isinstance(m, ms.Attr) and m.name in names]
        if len(v) >= 2:
          c.variants.append(v)
    for con in cons:
      if all(all(n in names for n in b) for b in con.bundles):
        c.constraints.append((con.kind, [tuple(b) for b in con.bundles]))
    self.ctxs[c.key] = c
    # children
    for ch in decl.children():
      cname = ch.name
      if project and cname == 'plugin':
        continue                       # plugin configuration is not settable per class
      if decl.name == 'mujoco' and cname == 'body':
        cname = 'worldbody'            # NameMatch: at level 1 the body row matches the tag worldbody
      cdecl = self.schema.elements[cname]
      nest = bodynest
      if cdecl.name in BODYLIKE:
        if bodynest >= MAX_BODY_NEST:
          continue
        nest = bodynest + 1
      if cdecl.name == 'default' and decl.name == 'default' and parent is not None and parent.name == 'default':
        continue                       # default/default/default: two levels are enough
      cproject = project or (decl.name == 'default' and not cname.startswith('default_') and cname != 'default')
      sub = self._visit(cdecl, c, ch.card, cproject, depth + 1, nest)
      c.children.append((ch.card, sub))
    return c

  # ------------------------------------------------------------------ violation sites
  def _hi(self, a):
    hi = a.arity.hi
    if isinstance(hi, str):
      return self.consts.get(hi)
    return hi

  def _enumerate_sites(self):
    S = self.sites
    for c in self.ctx_list:
      if c is self.root:
        continue
      S['unknown_attr'].append(Site('unknown_attr', c, 'fresh'))
      for d in c.dropped:
        S['unknown_attr'].append(Site('unknown_attr', c, 'dropped:' + d))
      S['unknown_child'].append(Site('unknown_child', c, 'fresh'))
      S['unknown_child'].append(Site('unknown_child', c, 'foreign'))
      for card, sub in c.children:
        if card in '?!':
          S['dup_optional'].append(Site('dup_optional', c, sub.key))
        if card == '!':
          S['missing_required_child'].append(Site('missing_required_child', c, sub.key))
      for a in c.attrs:
        numeric = a.type in ('double', 'float', 'int')
        if a.type in ('enum', 'flags'):
          S['bad_enum'].append(Site('bad_enum', c, a.name))
        if a.type == 'bool':
          S['bad_bool'].append(Site('bad_bool', c, a.name))
        if numeric:
          hi = self._hi(a)
          if hi is not None:
            S['too_many'].append(Site('too_many', c, a.name))
          if a.arity.lo >= 2:
            S['too_few'].append(Site('too_few', c, a.name))
          S['non_numeric'].append(Site('non_numeric', c, a.name))
          if any(f in a.facets for f in ('min', 'max', 'positive')):
            S['out_of_range'].append(Site('out_of_range', c, a.name))
        if a.facets.get('required'):
          S['required_missing'].append(Site('required_missing', c, a.name))
      for i, (kind, bundles) in enumerate(c.constraints):
        S[kind].append(Site(kind, c, i))
      for i, v in enumerate(c.variants):
        S['variant'].append(Site('variant', c, i))

  # ------------------------------------------------------------------ values
  def uid(self, prefix):
    self._uid += 1
    return '%s%d' % (prefix, self._uid)

  def _num(self, rng, a, idx=0, n=1):
    f = a.facets
    name = a.name
    if a.type == 'int':
      lo = int(f['min']) if 'min' in f else None
      hi = int(f['max']) if 'max' in f else None
      if f.get('positive'):
        lo = max(lo or 1, 1)
      cand = [0, 1, 2, 3, 1, 2, 5, -1]
      if name in ('group',):
        cand = [0, 1, 2, 3, 4, 5]
      if name in ('condim',):
        cand = [1, 3, 4, 6]
      if name in ('nsample', 'dim', 'num', 'count', 'nrow', 'ncol', 'width', 'height', 'subgrid', 'activelayers'):
        cand = [1, 2, 3]
      v = rng.choice(cand)
      if lo is not None and v < lo:
        v = lo
      if hi is not None and v > hi:
        v = hi
      return str(v)
    lo = f.get('min')
    hi = f.get('max')
    if name in ('quat', 'refquat', 'bindquat', 'relpose') and n >= 4:
      base = ['1', '0', '0', '0', '0', '0', '0'] if name != 'relpose' else ['0', '0', '0', '1', '0', '0', '0']
      if rng.random() < 0.6:
        return base[idx % len(base)]
      return rng.choice(['0.5', '1', '-0.5', '0.7'])
    if name in ('axis', 'zaxis', 'dir') and n == 3:
      return ['0', '0', '1'][idx] if rng.random() < 0.6 else rng.choice(['1', '0.5', '-1', '0.3'])
    if name == 'xyaxes' and n == 6:
      return ['1', '0', '0', '0', '1', '0'][idx]
    if name == 'axisangle' and n == 4:
      return ['0', '0', '1', '30'][idx]
    if name in ('range', 'ctrlrange', 'forcerange', 'actrange', 'lengthrange', 'actuatorfrcrange', 'velrange',
                'ffrange', 'posrange', 'interval') and n == 2:
      return ['-1', '1'][idx] if name != 'interval' else ['0.1', '0'][idx]
    if name in ('solimp', 'solimplimit', 'solimpfriction', 'o_solimp', 'solimpfix'):
      return ['0.9', '0.95', '0.001', '0.5', '2'][idx % 5]
    if name in ('solref', 'solreflimit', 'solreffriction', 'o_solref', 'solreffix'):
      return ['0.02', '1'][idx % 2]
    if name in ('rgba', 'rgb1', 'rgb2', 'markrgb') or (a.type == 'float' and n in (3, 4)):
      return rng.choice(['0', '0.5', '1', '0.2'])
    v = rng.choice(['1', '0.5', '2', '0.1', '0.01', '3', '0.3', '1', '0', '-1', '-0.5', '10', '1e-3'])
    fv = float(v)
    if f.get('positive') and fv <= 0:
      v = '0.5'
    if lo is not None and fv < lo:
      v = repr(float(lo)) if lo != int(lo) else str(int(lo))
    if hi is not None and float(v) > hi:
      v = repr(float(hi)) if hi != int(hi) else str(int(hi))
    return v

  def _arity(self, rng, a, want=None):
    lo = a.arity.lo
    hi = self._hi(a)
    if hi is None:
      hi = max(lo, 6)
      if isinstance(a.arity.hi, str):     # unknown symbolic bound: stay at the lower bound
        hi = lo
    lo = max(lo, 1)
    if want is not None:
      return want
    if lo >= hi:
      return lo
    return rng.choice([lo, hi, rng.randint(lo, hi)])

  def value(self, rng, ctx, a, doc=None):
    """A conforming value for attribute `a` of context `ctx`."""
    t = a.type
    name = a.name
    if t in ('double', 'float', 'int'):
      n = self._arity(rng, a)
      if a.arity.hi is None and name in ('vertex', 'point', 'vertweight', 'vertid', 'face', 'element', 'texcoord',
                                         'normal', 'bindpos'):
        n = 3 * rng.randint(1, 3)
      return ' '.join(self._num(rng, a, i, n) for i in range(n))
    if t == 'bool':
      return rng.choice(['true', 'false'])
    if t == 'enum':
      return rng.choice(self.schema.enums[a.target].keywords())
    if t == 'flags':
      kws = self.schema.enums[a.target].keywords()
      k = rng.randint(1, min(3, len(kws)))
      idx = sorted(rng.sample(range(len(kws)), k))
      return ' '.join(kws[i] for i in idx)       # declaration order = canonical order
    if t == 'id':
      return self.uid(a.target[:3])
    if t == 'ref':
      pool = doc.ids.get(a.target, []) if doc is not None else []
      if a.target == 'default':
        return rng.choice(pool) if pool else None       # unknown class is a parse-time error: omit when none exists
      if pool and rng.random() < 0.8:
        return rng.choice(pool)
      return self.uid('no' + a.target[:3])
    if t == 'chars':
      pat = a.facets.get('pattern')
      if pat == '[xyzXYZ]{3}':
        return ''.join(rng.choice('xyzXYZ') for _ in range(3))
      lo, hi = max(a.arity.lo, 1), a.arity.hi if isinstance(a.arity.hi, int) else max(a.arity.lo, 1)
      return ''.join(rng.choice('.RLUDFB') for _ in range(rng.randint(lo, hi)))
    if t == 'file':
      return rng.choice(['nofile.bin', 'a/b.png', 'mesh.stl'])
    # string
    if name in ('objtype', 'reftype'):
      return rng.choice(OBJTYPES)
    if name == 'role':
      return rng.choice(self.schema.enums['texrole'].keywords()) if rng.random() < 0.9 else 'zzrole'
    if name == 'memory':
      return rng.choice(['-1', '1M', '100K', '2000000', '1m'])
    if name == 'data':
      return ' '.join(rng.choice(['1', '2', '0.5']) for _ in range(rng.randint(1, 4)))
    if name == 'curve':
      return rng.choice(['s', 'cos(s)', 'sin(s)', '0', 's cos(s) sin(s)'])
    if name == 'plugin':
      if ctx.parent is not None and ctx.parent.name == 'composite':
        return 'mujoco.elasticity.cable'
      return rng.choice(['mujoco.pid', 'mujoco.elasticity.cable', 'no.such.plugin'])
    if name in ('body', 'node') and ctx.name == 'flex':
      pool = doc.ids.get('body', []) if doc is not None else []
      return ' '.join(rng.choice(pool) for _ in range(3)) if pool else 'world world world'
    r = rng.random()
    if r < 0.80:
      return self.uid('s')
    if r < 0.86:
      return 'two words'
    if r < 0.90:
      return '%s%s%s%s%s%s'
    if r < 0.93:
      return '%n%n%d%10000s'
    if r < 0.96:
      return 'A' * rng.choice([60, 300, 1100])
    return rng.choice(['', ' ', '../x', 'a&b<c>"d\'', '0', 'true'])

  # ------------------------------------------------------------------ conformance of one node (reference validator)
  def node_errors(self, node):
    """Violations of the declared grammar at this node (attributes and direct children). Empty list = conforming."""
    c = node.ctx
    errs = []
    names = [a[0] for a in node.attrs]
    for n in names:
      if n not in c.attr:
        errs.append('unknown_attr:' + n)
    for a in c.attrs:
      if a.facets.get('required') and a.name not in names:
        errs.append('required_missing:' + a.name)
    for n, v in node.attrs:
      a = c.attr.get(n)
      if a is not None:
        e = self.value_error(a, v)
        if e:
          errs.append('%s:%s' % (e, n))
    present = set(names)
    for kind, bundles in c.constraints:
      anyb = [any(n in present for n in b) for b in bundles]
      allb = [all(n in present for n in b) for b in bundles]
      flat = [n for b in bundles for n in b]
      npres = sum(1 for n in flat if n in present)
      if kind == 'exclusive' and sum(anyb) > 1:
        errs.append('exclusive')
      if kind == 'together' and npres not in (0, len(flat)):
        errs.append('together')
      if kind == 'requires' and bundles[0][0] in present and bundles[1][0] not in present:
        errs.append('requires')
      if kind == 'oneof' and not any(allb):
        errs.append('oneof')
    for v in c.variants:
      if sum(1 for n in v if n in present) > 1:
        errs.append('variant')
    counts = {}
    for ch in node.children:
      counts[ch.tag] = counts.get(ch.tag, 0) + 1
    allowed = {sub.tag: card for card, sub in c.children}
    for tag, k in counts.items():
      if tag not in allowed:
        errs.append('unknown_child:' + tag)
      elif allowed[tag] in '?!' and k > 1:
        errs.append('dup_optional:' + tag)
    for card, sub in c.children:
      if card == '!' and counts.get(sub.tag, 0) == 0:
        errs.append('missing_required_child:' + sub.tag)
    return errs

  _FLOAT = re.compile(r'^[+-]?(\d+\.?\d*|\.\d+)([eE][+-]?\d+)?$')
  _INT = re.compile(r'^[+-]?\d+$')

  def value_error(self, a, v):
    """Type/arity/facet check of one attribute value against its declaration ('' = conforming)."""
    t = a.type
    if t == 'enum':
      return '' if v in self.schema.enums[a.target].keywords() else 'bad_enum'
    if t == 'flags':
      kws = self.schema.enums[a.target].keywords()
      toks = v.split()
      return '' if toks and all(x in kws for x in toks) else 'bad_enum'
    if t == 'bool':
      return '' if v in ('true', 'false') else 'bad_bool'
    if t in ('double', 'float', 'int'):
      toks = v.split()
      rx = self._INT if t == 'int' else self._FLOAT
      if not all(rx.match(x) for x in toks):
        return 'non_numeric'
      hi = self._hi(a)
      if hi is not None and len(toks) > hi:
        return 'too_many'
      if len(toks) < a.arity.lo:
        return 'too_few'
      f = a.facets
      for x in toks:
        x = float(x)
        if ('min' in f and x < f['min']) or ('max' in f and x > f['max']) or (f.get('positive') and x <= 0):
          return 'out_of_range'
      return ''
    if t == 'chars':
      lo = a.arity.lo
      hi = a.arity.hi if isinstance(a.arity.hi, int) else None
      if len(v) < lo or (hi is not None and len(v) > hi):
        return 'bad_chars'
      pat = a.facets.get('pattern')
      if pat and not re.fullmatch(pat, v):
        return 'bad_chars'
    return ''

  def doc_errors(self, doc):
    out = []
    for n in doc.root.walk():
      if n.ctx is None:
        out.append('foreign:' + n.tag)
      else:
        out += ['%s@%s' % (e, n.path()) for e in self.node_errors(n)]
    return out

  # ------------------------------------------------------------------ building nodes
  def make_node(self, rng, ctx, doc, dense=False, forbid=(), minimal=False):
    """A conforming instance of ctx (attributes only; children are added by later operations)."""
    node = Node(ctx.tag, ctx)
    p = 0.9 if dense else rng.choice([0.1, 0.25, 0.5])
    if minimal:
      p = 0.0        # required attributes only (plus what the presence constraints need)
    recipe = RECIPES.get(ctx.name) if (rng.random() < RECIPE_P and minimal != 'pure') else None
    chosen = []
    for a in ctx.attrs:
      if a.name in forbid:
        continue
      req = bool(a.facets.get('required'))
      take = req or rng.random() < p
      if recipe is not None and a.name in recipe:
        if recipe[a.name] is None:
          take = req
        elif minimal == 'recipe':
          take = True
        elif not take and ctx.name in ('composite', 'flexcomp', 'model', 'hfield', 'mesh', 'texture', 'layer', 'user',
                                       'extension_plugin', 'composite_geom', 'config', 'dcmotor', 'bone', 'fixed_joint',
                                       'pulley', 'damper', 'adhesion'):
          take = True
      if take:
        chosen.append(a)
    # top-level default: the class may only be 'main'; nested default: class is needed
    for a in chosen:
      v = None
      if recipe is not None and recipe.get(a.name) is not None and a.name in recipe:
        v = recipe[a.name]
        if v == '@SUBMODEL@':
          v = self.submodel_path or 'nofile.xml'
      if v is None:
        v = self.value(rng, ctx, a, doc)
      if v is None:
        continue
      node.attrs.append([a.name, v])
    if ctx.name == 'plugin' and ctx.parent is not None and ctx.parent.name == 'composite' and rng.random() < RECIPE_P:
      node.remove('instance')
      node.set('plugin', 'mujoco.elasticity.cable')
    if ctx.name == 'default':
      node.remove('class')
      if ctx.parent is not None and ctx.parent.name == 'default':
        node.set('class', self.uid('cls'))
      elif rng.random() < 0.3:
        node.set('class', 'main')
    if ctx.name == 'numeric' and node.has('size') and node.has('data'):
      node.set('size', str(len(node.get('data').split()) + rng.randint(0, 2)))
    self.repair(rng, node, doc)
    return node

  def repair(self, rng, node, doc):
    """Add/remove optional attributes until the presence constraints and variant groups hold."""
    c = node.ctx
    for _ in range(12):
      errs = [e for e in self.node_errors(node) if e.split(':')[0] in ('exclusive', 'together', 'requires', 'oneof',
                                                                        'variant')]
      if not errs:
        return True
      present = {a[0] for a in node.attrs}
      for v in c.variants:
        have = [n for n in v if n in present]
        if len(have) > 1:
          keep = rng.choice(have)
          for n in have:
            if n != keep:
              node.remove(n)
      present = {a[0] for a in node.attrs}
      for kind, bundles in c.constraints:
        flat = [n for b in bundles for n in b]
        if kind == 'exclusive':
          active = [b for b in bundles if any(n in present for n in b)]
          if len(active) > 1:
            # prefer to keep a bundle that holds a required attribute
            keep = rng.choice(active)
            for b in active:
              if any(c.attr[n].facets.get('required') for n in b):
                keep = b
            for b in active:
              if b is not keep:
                for n in b:
                  if n not in keep:
                    node.remove(n)
        elif kind == 'together':
          k = sum(1 for n in flat if n in present)
          if k not in (0, len(flat)):
            if rng.random() < 0.5:
              for n in flat:
                if n not in present:
                  self._add_attr(rng, node, n, doc)
            else:
              for n in flat:
                node.remove(n)
        elif kind == 'requires':
          if bundles[0][0] in present and bundles[1][0] not in present:
            self._add_attr(rng, node, bundles[1][0], doc)
        elif kind == 'oneof':
          if not any(all(n in present for n in b) for b in bundles):
            # complete the bundle that is already started, else a random one
            started = [b for b in bundles if any(n in present for n in b)]
            b = rng.choice(started or bundles)
            for n in b:
              if n not in present:
                self._add_attr(rng, node, n, doc)
        present = {a[0] for a in node.attrs}
    return not [e for e in self.node_errors(node) if e.split(':')[0] in ('exclusive', 'together', 'requires', 'oneof',
                                                                         'variant')]

  def _add_attr(self, rng, node, name, doc):
    a = node.ctx.attr[name]
    v = self.value(rng, node.ctx, a, doc)
    if v is None:
      v = self.uid('x')
    node.set(name, v)

  # ------------------------------------------------------------------ documents
  def new_doc(self, rng):
    doc = Doc(self)
    doc.root = Node('mujoco', self.root)
    if rng.random() < 0.3:
      doc.root.set('model', self.uid('m'))
    return doc

  def graft(self, rng, doc, ctx, dense=False, reuse=0.7, new_leaf=True, minimal=False):
    """Make sure a path root..ctx exists in the document; returns the (new) instance of ctx."""
    chain = []
    c = ctx
    while c is not None:
      chain.append(c)
      c = c.parent
    chain.reverse()
    node = doc.root
    for i, c in enumerate(chain[1:], start=1):
      last = (i == len(chain) - 1)
      existing = [ch for ch in node.children if ch.ctx is c]
      if existing:
        if c.card in '?!':                       # a second instance would itself be a violation
          node = existing[0]
          continue
        if (not last and rng.random() < reuse) or (last and not new_leaf):
          node = rng.choice(existing)
          continue
      child = self.make_node(rng, c, doc, dense=dense and last, minimal=minimal)
      node.add(child)
      doc.register(child)
      if minimal != 'pure':
        self._hooks(rng, doc, child, force=bool(minimal))
      node = child
    return node

  def _hooks(self, rng, doc, node, force=False):
    """Semantic hints that need more than one element (same status as RECIPES: not schema knowledge)."""
    if rng.random() >= RECIPE_P and not force:
      return
    name = node.ctx.name
    if name == 'composite':
      for card, sub in node.ctx.children:
        if sub.name == 'composite_geom':
          ch = self.make_node(rng, sub, doc)
          node.add(ch)
    elif name == 'flexcomp':
      n = node.parent
      while n is not None and n.ctx.name != 'body':
        n = n.parent
      if n is not None and not n.has('name'):
        n.set('name', self.uid('bod'))
        doc.register(n)
    elif name == 'attach':
      # self-attach of a separate top-level body
      # (the target has to be known to the spec when the attach element is read: own worldbody section, placed first)
      wbc = self.ctxs.get('mujoco/worldbody')
      bc = self.ctxs.get('mujoco/worldbody/body')
      gc = self.ctxs.get('mujoco/worldbody/body/geom')
      if wbc is not None and bc is not None and gc is not None:
        wb = Node(wbc.tag, wbc)
        wb.parent = doc.root
        doc.root.children.insert(0, wb)
        tgt = Node(bc.tag, bc)
        tgt.set('name', self.uid('bod'))
        wb.add(tgt)
        doc.register(tgt)
        ge = Node(gc.tag, gc)
        ge.set('size', '0.1')
        tgt.add(ge)
        for k in ('model', 'frame'):
          node.remove(k)
        node.set('body', tgt.get('name'))

  def conforming(self, rng, size, weights=None):
    doc = self.new_doc(rng)
    # a few default classes first so that class/childclass references can resolve
    if rng.random() < 0.5:
      top = self.ctxs['mujoco/default']
      sub = self.ctxs.get('mujoco/default/default')
      for _ in range(rng.randint(1, 2)):
        if sub is not None:
          self.graft(rng, doc, sub)
      del top
    pool = self.ctx_list
    for _ in range(size):
      c = rng.choice(pool)
      if c is self.root:
        continue
      self.graft(rng, doc, c, dense=rng.random() < 0.2)
    return doc

  # ------------------------------------------------------------------ violations
  def violate(self, rng, doc, node, site):
    """Inject the violation `site` (kind, ctx, detail) at `node` (an instance of site.ctx). Returns a dict describing
    what was done, or None if it cannot be applied to this instance."""
    c = node.ctx
    kind, d = site.kind, site.detail
    info = dict(kind=kind, element=c.elemkey(), path=node.path(), depth=node.depth(), detail=None)

    def present():
      return {a[0] for a in node.attrs}

    if kind == 'unknown_attr':
      if d == 'fresh':
        name = rng.choice(['zzbogus', 'nam', 'Name', 'xpos', 'sizee'])
        if name in c.attr:
          name = 'zzbogus'
        if rng.random() < 0.4:
          foreign = sorted(self.all_attr_names - set(c.attr))
          name = rng.choice(foreign)
      else:
        name = d.split(':', 1)[1]
      if name in c.attr or node.has(name):
        return None
      node.attrs.append([name, '1'])
      info['detail'] = name
    elif kind == 'unknown_child':
      allowed = {sub.tag for _, sub in c.children}
      if d == 'fresh':
        tag = 'zzbogus'
      else:
        cand = sorted(t for t in self.all_tags if t not in allowed and t not in ('include', 'mujoco'))
        # NameMatch treats frame/replicate/body/worldbody specially on the body row: keep them out of foreign tags
        cand = [t for t in cand if t not in ('frame', 'replicate', 'body', 'worldbody')] or ['zzbogus']
        tag = rng.choice(cand)
      if tag in allowed:
        return None
      bad = Node(tag, None)
      node.children.insert(rng.randint(0, len(node.children)), bad)
      bad.parent = node
      info['detail'] = tag
    elif kind == 'dup_optional':
      sub = self.ctxs[d]
      have = [ch for ch in node.children if ch.ctx is sub]
      while len(have) < 2:
        ch = self.make_node(rng, sub, doc)
        node.add(ch)
        doc.register(ch)
        have.append(ch)
      info['detail'] = sub.tag
    elif kind == 'missing_required_child':
      sub = self.ctxs[d]
      node.children = [ch for ch in node.children if ch.ctx is not sub]
      info['detail'] = sub.tag
    elif kind == 'bad_enum':
      a = c.attr[d]
      kws = self.schema.enums[a.target].keywords()
      custom = a.facets.get('reading') == 'custom' or d == 'input'
      kw = rng.choice(kws)
      cands = ['zz' + kw, kw + 'x']
      if not custom:
        if len(kw) > 1 and kw[:-1] not in kws:
          cands.append(kw[:-1])                # proper prefix of a keyword
        if kw.swapcase() not in kws and kw.swapcase() != kw:
          cands.append(kw.swapcase())          # keywords are case-sensitive (FindKey compares strings)
      bad = rng.choice(cands)
      if a.type == 'flags' and rng.random() < 0.5 and len(kws) > 1:
        bad = kws[0] + ' ' + 'zz' + kw
      node.set(d, bad)
      info['detail'] = '%s=%s' % (d, bad)
    elif kind == 'bad_bool':
      bad = rng.choice(['yes', '1', 'True', 'tru', 'falsey', '0'])
      node.set(d, bad)
      info['detail'] = '%s=%s' % (d, bad)
    elif kind == 'too_many':
      a = c.attr[d]
      n = self._hi(a) + 1
      node.set(d, ' '.join(self._num(rng, a, i, n) for i in range(n)))
      info['detail'] = '%s:%d values' % (d, n)
    elif kind == 'too_few':
      a = c.attr[d]
      n = a.arity.lo - 1
      node.set(d, ' '.join(self._num(rng, a, i, a.arity.lo) for i in range(n)))
      info['detail'] = '%s:%d values' % (d, n)
    elif kind == 'non_numeric':
      a = c.attr[d]
      n = self._arity(rng, a)
      toks = [self._num(rng, a, i, n) for i in range(n)]
      i = rng.randrange(n)
      style = rng.choice(['word', 'trail', 'comma'] + (['fraction'] if a.type == 'int' else []))
      if style == 'word':
        toks[i] = rng.choice(['abc', 'x', '--1', '1e', 'true'])
      elif style == 'trail':
        toks[i] = toks[i] + rng.choice(['x', 'f', '_', '..'])
      elif style == 'comma':
        toks[i] = toks[i] + ','
      else:
        toks[i] = '1.5'
      node.set(d, ' '.join(toks))
      info['detail'] = '%s=%s (%s)' % (d, ' '.join(toks), style)
    elif kind == 'out_of_range':
      a = c.attr[d]
      f = a.facets
      if 'min' in f and (rng.random() < 0.5 or not ('max' in f or f.get('positive'))):
        v = f['min'] - (1 if a.type == 'int' else 0.5)
      elif 'max' in f:
        v = f['max'] + (1 if a.type == 'int' else 0.5)
      else:
        v = rng.choice([0, -1])
      v = str(int(v)) if a.type == 'int' or v == int(v) else repr(v)
      node.set(d, v)
      info['detail'] = '%s=%s' % (d, v)
    elif kind == 'required_missing':
      if not node.has(d):
        return None
      node.remove(d)
      info['detail'] = d
    elif kind in ('exclusive', 'together', 'requires', 'oneof'):
      ckind, bundles = c.constraints[d]
      flat = [n for b in bundles for n in b]
      if kind == 'exclusive':
        act = [b for b in bundles if any(n in present() for n in b)]
        first = act[0] if act else rng.choice(bundles)
        others = [b for b in bundles if b is not first]
        second = rng.choice(others)
        for n in first:
          if not node.has(n):
            self._add_attr(rng, node, n, doc)
        for n in (second if rng.random() < 0.5 else second[:1]):
          if not node.has(n):
            self._add_attr(rng, node, n, doc)
        info['detail'] = '|'.join(' '.join(b) for b in (first, second))
      elif kind == 'together':
        keep = rng.choice(flat)
        for n in flat:
          node.remove(n)
        self._add_attr(rng, node, keep, doc)
        info['detail'] = 'only ' + keep
      elif kind == 'requires':
        self._add_attr(rng, node, bundles[0][0], doc)
        node.remove(bundles[1][0])
        info['detail'] = bundles[0][0]
      else:
        # no bundle complete.  If a bundle has several attributes that no 'together' constraint ties, the sharpest
        # violation is the PARTIAL bundle (one attribute of it and nothing else): a validator that counts a bundle as
        # specified as soon as any member is present accepts exactly that.
        tied = set()
        for ck2, bs2 in c.constraints:
          if ck2 == 'together':
            tied |= set(n for b2 in bs2 for n in b2)
        multi = [b for b in bundles if len(b) > 1 and not set(b) <= tied]
        if multi:
          b = rng.choice(multi)
          keep = rng.choice(b)
          for n in flat:
            node.remove(n)
          self._add_attr(rng, node, keep, doc)
          info['detail'] = 'partial bundle: only ' + keep
        else:
          # drop one attribute of every bundle (keep the others so that it is not just "empty")
          for b in bundles:
            if all(node.has(n) for n in b):
              node.remove(rng.choice(b))
          info['detail'] = 'none of ' + '|'.join(' '.join(b) for b in bundles)
    elif kind == 'variant':
      v = c.variants[d]
      have = [n for n in v if node.has(n)]
      pick = have[:1] + rng.sample([n for n in v if n not in have[:1]], 2 - len(have[:1]))
      for n in have[1:]:
        node.remove(n)
      for n in pick:
        if not node.has(n):
          self._add_attr(rng, node, n, doc)
      info['detail'] = ' '.join(pick)
    else:
      return None
    node.mark = kind
    # the reference validator must see exactly this violation at this node (and nothing else anywhere)
    info['errors'] = self.doc_errors(doc)
    return info


class Doc:
  def __init__(self, gen):
    self.gen = gen
    self.root = None
    self.ids = {}

  def register(self, node):
    if node.ctx is None:
      return
    for a in node.ctx.attrs:
      if a.type == 'id' and node.has(a.name):
        self.ids.setdefault(a.target, []).append(node.get(a.name))

  def render(self):
    return self.root.render()

  def clone(self):
    memo = {}
    d = Doc(self.gen)
    d.root = self.root.clone(memo)
    d.ids = {k: list(v) for k, v in self.ids.items()}
    return d, memo
