"""schemalang: grammar-based generator for the MJCF schema *language* (doc/generate/mjcf_schema.py), used by C41/C42.

Written from the documented grammar (module docstring of mjcf_schema.py and the syntax reference at the top of
src/xml/mjcf.schema), not from the parser code.

  valid_schema(profile)    Hypothesis strategy -> Model (abstract schema, valid by construction)
  render(model)            -> (text, expect)  text of the schema + expected declaration lines
  mutations                one-rule-breaking edits of a valid model (labelled), each must be rejected
  token_soup / edit_text   random token streams and token-level edits of valid texts

Model = dict(enums=[...], groups=[...], elements=[...], order=[('enum'|'group'|'element', index), ...])
  enum    = dict(name, ctype, items=[(key, quoted, value)], doc, oneline)
  group   = dict(name, variant, members=[...], doc)
  element = dict(name, spec, facets=[(k, v)], members=[...], doc)
  member  = dict(kind='attr', name, type, target, arity, default, facets=[(k, v)], doc)
            arity: None (scalar) | ('n', n) | ('range', lo, hi) | ('sym', lo, IDENT) | ('any',)
            default: None | ('num', text) | ('str', text) | ('ident', text) | ('vec', [text, ...])
            facet value v: True | ('num', text) | ('str', text) | ('ident', text)
          | dict(kind='use', group) | dict(kind='child', name, card, doc) | dict(kind='set', field, value, doc)
          | dict(kind='con', verb, bundles=[(name, ...), ...], doc)
          | dict(kind='raw', text)   (mutations only)
"""
import copy

from hypothesis import strategies as st

SCALARS = ['double', 'float', 'int', 'bool', 'string', 'file', 'chars']
NUMERIC = ('double', 'float', 'int')
CARDS = ['?', '!', '*', 'R']
VERBS = ['exclusive', 'together', 'requires', 'oneof']
ATTR_FACETS = ['field', 'required', 'nodefault', 'pattern', 'reading', 'writing', 'min', 'max', 'positive']
NUM_TEXTS = ['0', '1', '-1', '2', '3', '0.5', '.25', '1e-3', '1e-05', '2.', '3.14159', '-0.001', '1E5', '100', '1e+2',
             '-2.5', '0.0001', '7', '10', '0.005']
INT_TEXTS = ['0', '1', '-1', '2', '3', '5', '10', '100', '-7', '20']
SYMS = ['mjNREF', 'mjNIMP', 'mjNEQDATA', 'mjNGAIN', 'mjNBIAS', 'mjNDYN', 'mjNFLUID']   # mjN* macros of mjmodel.h
SAFE_USE_DEPTH = 60          # generated `use` nesting bound (see C41: deep chains are a known finding, probed separately)

# names that the generators of doc/generate treat specially; synthetic schemas avoid them unless asked for
RESERVED = {'use', 'child', 'set', 'enum', 'group', 'element'}


def ident_pool(prefix, n):
  return ['%s%d' % (prefix, i) for i in range(n)]


# ----------------------------------------------------------------------------------------------- valid models
@st.composite
def valid_schema(draw, profile='lang', max_groups=6, max_elements=6, counters=None):
  """profile 'lang': anything the language allows.  profile 'gen': additionally what every generator of doc/generate
  documents as its precondition (root `mujoco`, all elements reachable, child graph a tree apart from self recursion,
  symbolic bounds that exist in mjmodel.h, numeric range facets on scalars only, one id per element, refs into populated
  namespaces)."""
  gen = profile == 'gen'
  b = lambda p=0.5: draw(st.floats(0, 1)) < p
  pick = lambda xs: draw(st.sampled_from(list(xs)))
  docs = lambda: (pick(['doc text', 'x (a, b)', 'units: m/s', 'see <b> & "q"', 'v1.2']) if b(0.3) else None)

  # ---- enums
  n_enum = draw(st.integers(0, 4))
  enums = []
  for i in range(n_enum):
    nitems = draw(st.integers(1, 5))
    keys = []
    pool = ['a', 'b', 'none', 'auto', 'true', 'false', 'local', 'k%d' % i, '2d', '3d', 'x-y', 'with space' if not gen else 'w_s']
    for k in draw(st.permutations(pool))[:nitems]:
      quoted = (not k.replace('_', 'a').isalnum()) or k[0].isdigit() or b(0.15)
      val = pick(['0', '1', '2', '-1', 'mjGEOM_PLANE', 'mjX_%d' % len(keys), '16'])
      keys.append((k, quoted, val))
    enums.append(dict(name='e%d' % i if b(0.8) else pick(['onoff', 'kind', 'mode']) + str(i),
                      ctype=('mjtE%d' % i) if b(0.5) else None, items=keys, doc=docs(), oneline=b(0.3)))

  # ---- namespaces: decided up front so that refs can be generated anywhere
  n_elem = draw(st.integers(1, max_elements))
  n_group = draw(st.integers(0, max_groups))
  nspool = ['ns%d' % i for i in range(draw(st.integers(0, 3)))]
  declared_ns = set()
  attr_names = ident_pool('a', 14) + ['name', 'class', 'pos', 'size', 'type', 'exclusive', 'oneof']

  def gen_attr(name, in_variant, allow_id=True, scalar_facets_only=gen):
    kinds = ['num', 'num', 'num', 'bool', 'string', 'file', 'chars']
    if enums:
      kinds += ['enum', 'enum', 'flags']
    if nspool and allow_id:
      kinds += ['id']
    if declared_ns:
      kinds += ['ref']
    k = pick(kinds)
    a = dict(kind='attr', name=name, type=None, target=None, arity=None, default=None, facets=[], doc=docs())
    fac = {}
    if k == 'num':
      a['type'] = pick(NUMERIC)
      form = pick(['scalar', 'scalar', 'n', 'range', 'sym', 'any'])
      texts = INT_TEXTS if a['type'] == 'int' else NUM_TEXTS
      if form == 'scalar':
        if b(0.6):
          a['default'] = ('num', pick(texts))
      elif form == 'n':
        n = draw(st.integers(0, 6))
        a['arity'] = ('n', n)
        if n == 1 and b(0.5):
          a['default'] = ('num', pick(texts))       # [1] is the scalar arity (1,1): scalar default spelling
        elif n > 1 and b(0.5):
          a['default'] = ('vec', [pick(texts) for _ in range(n)])
      elif form == 'range':
        lo = draw(st.integers(0, 4))
        hi = lo + draw(st.integers(1, 4))
        a['arity'] = ('range', lo, hi)
        if b(0.5):
          a['default'] = ('vec', [pick(texts) for _ in range(draw(st.integers(max(lo, 1), hi)))])
      elif form == 'sym':
        lo = draw(st.integers(0, 2))
        a['arity'] = ('sym', lo, pick(SYMS))
        if b(0.4):
          a['default'] = ('vec', [pick(texts) for _ in range(max(lo, 1) if gen else draw(st.integers(max(lo, 1), 2)))])
      else:
        a['arity'] = ('any',)
        if b(0.3):
          a['default'] = ('vec', [pick(texts) for _ in range(draw(st.integers(1, 4)))])
      if a['arity'] is None or not scalar_facets_only:
        if b(0.25):
          lo_t, hi_t = sorted([pick(texts), pick(texts)], key=float)
          which = pick(['min', 'max', 'both'])
          if which in ('min', 'both'):
            fac['min'] = ('num', lo_t)
          if which in ('max', 'both'):
            fac['max'] = ('num', hi_t)
        elif b(0.15):
          fac['positive'] = True
    elif k == 'bool':
      a['type'] = 'bool'
      if b(0.6):
        a['default'] = ('ident', pick(['true', 'false']))
    elif k in ('string', 'file'):
      a['type'] = k
      if k == 'string' and b(0.2):
        a['arity'] = pick([('any',), ('n', 2)])
      elif b(0.5):
        a['default'] = ('str', pick(['xyz', '', 'a b', 'file.png', '1 2 3']))
      if k == 'string' and b(0.2):
        fac['pattern'] = ('str', pick(['[xyz]{3}', '.*', '[a-z]+']))
    elif k == 'chars':
      a['type'] = 'chars'
      a['arity'] = ('n', draw(st.integers(1, 12))) if b() else ('range', 1, draw(st.integers(2, 12)))
      if b(0.3):
        fac['pattern'] = ('str', '[xyzXYZ]{3}')
    elif k in ('enum', 'flags'):
      a['type'] = k
      e = pick(enums)
      a['target'] = e['name']
      if k == 'enum' and b(0.6):
        key, quoted, _ = pick(e['items'])
        a['default'] = ('str', key) if quoted else ('ident', key)
    elif k == 'id':
      a['type'] = 'id'
      a['target'] = pick(nspool)
      declared_ns.add(a['target'])
    else:
      a['type'] = 'ref'
      a['target'] = pick(sorted(declared_ns))
    if a['default'] is None and not in_variant and b(0.15):
      fac['required'] = True
    if b(0.15):
      fac['nodefault'] = True
    if b(0.15):
      fac['field'] = ('ident', pick(['fieldname', 'classname', 'data']))
    if b(0.08):
      fac['reading'] = ('ident', 'custom')
    elif b(0.08):
      fac['writing'] = ('ident', 'custom')
    order = draw(st.permutations(sorted(fac)))
    a['facets'] = [(f, fac[f]) for f in order]
    return a

  def gen_constraints(names, n_max=2):
    out = []
    names = list(names)
    if len(names) < 2:
      return out
    for _ in range(draw(st.integers(0, n_max))):
      verb = pick(VERBS)
      chosen = draw(st.permutations(names))[:draw(st.integers(2, min(len(names), 5)))]
      if verb == 'requires':
        bundles = [(chosen[0],), (chosen[1],)]
      else:
        nb = draw(st.integers(2, len(chosen)))
        cuts = sorted(draw(st.permutations(list(range(1, len(chosen)))))[:nb - 1])
        bundles = [tuple(chosen[x:y]) for x, y in zip([0] + cuts, cuts + [len(chosen)])]
      out.append(dict(kind='con', verb=verb, bundles=bundles, doc=docs()))
    return out

  # ---- an element that declares ids first, so refs have targets (ids may also live in groups)
  groups = []
  expanded = {}          # group name -> list of attr names after expansion
  depth = {}
  for gi in range(n_group - 1, -1, -1):       # build from the leaves: group i may use groups j > i
    name = 'g%d' % gi
    variant = b(0.2)
    members = []
    acc = []
    d = 0
    if not variant:
      cands = [g for g in groups if not g['variant'] or True]
      for g in draw(st.permutations(cands))[:draw(st.integers(0, 2))]:
        if not set(expanded[g['name']]) & set(acc) and depth[g['name']] + 1 <= SAFE_USE_DEPTH:
          members.append(dict(kind='use', group=g['name']))
          acc += expanded[g['name']]
          d = max(d, depth[g['name']] + 1)
    own = []
    free = [n for n in attr_names if n not in acc]
    n_own = draw(st.integers(0 if members else 1, 3))
    if gen and b(0.6):
      n_own = max(n_own, 2)         # room for a presence constraint inside the group
    for n in draw(st.permutations(free))[:n_own]:
      at = gen_attr(n, variant, allow_id=not gen)
      own.append(n)
      members.insert(draw(st.integers(0, len(members))), at)
    # expansion order = member order
    exp = []
    for m in members:
      exp += expanded[m['group']] if m['kind'] == 'use' else [m['name']]
    gc = gen_constraints(own, 1)
    if gen and not gc and len(own) >= 2 and b(0.7):
      # generators collect the constraints of all (transitively) used groups per element: make constraint-bearing groups
      # frequent so that elements reaching >= 2 of them occur in every run
      gc = [dict(kind='con', verb=pick(VERBS[:2] + ['oneof']), bundles=[(own[0],), (own[1],)], doc=docs())]
    members += gc
    groups.append(dict(name=name, variant=variant, members=members, doc=docs()))
    expanded[name] = exp
    depth[name] = d
  groups.reverse()

  # ---- elements
  special = {}
  if gen:
    names = ['mujoco'] + ['el%d' % i for i in range(1, n_elem)]
    # special names that the generators document: default (projection context), default_* (not projected), plugin
    # (dropped in projected contexts), body/worldbody (top-level body is spelled worldbody, worldbody aliases body)
    if n_elem >= 3 and b(0.45):
      k = draw(st.integers(1, n_elem - 2))
      names[k] = 'default'
      special['default'] = k
      if b(0.5):
        names[n_elem - 1] = 'plugin' if b(0.6) else 'default_sub'
    if b(0.3):
      names += ['body', 'worldbody']
      special['body'] = len(names) - 2
  else:
    names = ['el%d' % i for i in range(n_elem)]
  elements = []
  for ei, name in enumerate(names):
    members = []
    acc = []
    n_use = draw(st.integers(0, 3))
    if gen and b(0.5):
      n_use = max(n_use, 2)
    for g in draw(st.permutations(groups))[:n_use + 2]:
      if sum(1 for m in members if m['kind'] == 'use') >= n_use:
        break
      if not set(expanded[g['name']]) & set(acc):
        members.append(dict(kind='use', group=g['name']))
        acc += expanded[g['name']]
    free = [n for n in attr_names if n not in acc]
    have_id = gen and name == 'plugin'
    chosen = draw(st.permutations(free))[:draw(st.integers(0, 4))]
    if gen:
      # the projection in default contexts is keyed on the attribute names `name` and `class`: make them frequent
      for special_name, p_ in (('name', 0.45), ('class', 0.45)):
        if special_name in free and special_name not in chosen and b(p_):
          chosen = [special_name] + list(chosen)
    for n in chosen:
      at = gen_attr(n, False, allow_id=not (gen and have_id))
      have_id = have_id or at['type'] == 'id'
      acc.append(n)
      members.insert(draw(st.integers(0, len(members))), at)
    if b(0.25):
      for _ in range(draw(st.integers(1, 2))):
        members.insert(0, dict(kind='set', field=pick(['type', 'objtype', 'reftype']), value=pick(['mjSENS_TOUCH', 'mjOBJ_SITE']),
                               doc=docs()))
    exp = []
    for m in members:
      if m['kind'] == 'use':
        exp += expanded[m['group']]
      elif m['kind'] == 'attr':
        exp.append(m['name'])
    members += gen_constraints(exp, 2)
    facets = []
    plain = not gen or name.startswith('el')
    if b(0.2) and plain:
      # gen profile: tags that do not occur in dm_control's hand-harvested overlay tables (SINGLETONS etc.)
      tags = ['jnt', 'gm', 'tag'] if gen else ['joint', 'geom', 'tag']
      facets.append(('xml', ('ident', pick(tags)) if b(0.7) else ('str', pick(['joint', 'x-tag']) if not gen else 'jnt')))
    if b(0.15):
      facets.append(('field', ('ident', pick(['global', 'quality', 'map']))))
    elements.append(dict(name=name, spec=('mjsS%d' % ei) if b(0.5) else None, facets=facets, members=members, doc=docs()))
  # children
  if gen:
    # tree: element i>0 gets exactly one parent among 0..i-1  (all reachable from mujoco), plus optional self recursion
    for i in range(1, n_elem):
      lo_parent = 0
      parent = elements[draw(st.integers(lo_parent, i - 1))]
      if parent['name'] == 'plugin' or elements[i]['name'] == 'plugin':
        # `plugin` is dropped from projected (default) contexts by the generators, so it must also be reachable from an
        # unprojected one (as in the real schema): its tree parent is the root; a second link from the default context
        # is added below to exercise the exclusion
        parent = elements[0]
      parent['members'].append(dict(kind='child', name=elements[i]['name'], card=pick(['?', '!', '*']), doc=docs()))
    if 'plugin' in names and 'default' in special:
      elements[special['default']]['members'].append(dict(kind='child', name='plugin', card=pick(['?', '*']), doc=docs()))
    for e in elements[1:n_elem]:
      if e['name'] == 'default' or (e['name'].startswith('el') and b(0.2)):
        e['members'].insert(draw(st.integers(0, len(e['members']))) if b() else len(e['members']),
                            dict(kind='child', name=e['name'], card='R', doc=docs()))
    if 'body' in special:
      body, world = elements[special['body']], elements[special['body'] + 1]
      elements[0]['members'].append(dict(kind='child', name='body', card=pick(['!', '?']), doc=docs()))
      body['members'].append(dict(kind='child', name='body', card='R', doc=docs()))
      world['members'].append(dict(kind='child', name='body', card='*', doc=docs()))
      world['facets'].append(('alias', ('ident', 'body')))
    # alias leaves: validated against another element's row; the table emitter has no row for them
    for e in elements[1:n_elem]:
      leaf = not any(m['kind'] == 'child' for m in e['members'])
      if leaf and e['name'].startswith('el') and b(0.15):
        e['facets'].append(('alias', ('ident', pick([x['name'] for x in elements[:n_elem]]))))
    # constraints must stay before/after children in any order: shuffle child positions a little
  else:
    for e in elements:
      for t in draw(st.permutations(elements))[:draw(st.integers(0, 3))]:
        e['members'].append(dict(kind='child', name=t['name'], card=pick(CARDS), doc=docs()))
      if b(0.15):
        facets_alias = pick(elements)['name']
        e['facets'].append(('alias', ('ident', facets_alias)))
  # ---- refs need a declared namespace: if none was declared, drop nothing (refs are only drawn from declared_ns)
  order = [('enum', i) for i in range(len(enums))] + [('group', i) for i in range(len(groups))] + \
          [('element', i) for i in range(len(elements))]
  if not (gen and False):
    order = list(draw(st.permutations(order))) if b(0.6) else order
  model = dict(enums=enums, groups=groups, elements=elements, order=order, expanded=expanded, depth=depth, profile=profile,
               special=sorted(special))
  return model


# ----------------------------------------------------------------------------------------------- rendering
def _arity_txt(ar):
  if ar is None:
    return ''
  if ar[0] == 'n':
    return '[%d]' % ar[1]
  if ar[0] == 'range':
    return '[%d..%d]' % (ar[1], ar[2])
  if ar[0] == 'sym':
    return '[%d..%s]' % (ar[1], ar[2])
  if ar[0] == 'any':
    return '[]'
  if ar[0] == 'raw':
    return ar[1]
  raise ValueError(ar)


def _val_txt(v):
  if v is True:
    return None
  kind, t = v
  if kind == 'str':
    return '"%s"' % t
  if kind == 'vec':
    return '{' + ', '.join(t) + '}'
  return t


def _facets_txt(facets):
  if not facets:
    return ''
  parts = []
  for k, v in facets:
    t = _val_txt(v)
    parts.append(k if t is None else '%s=%s' % (k, t))
  return ' (' + ', '.join(parts) + ')'


def _type_txt(a):
  if a['type'] in ('enum', 'flags', 'id', 'ref'):
    return '%s<%s>' % (a['type'], a['target'])
  return a['type'] + _arity_txt(a['arity'])


def member_txt(m):
  k = m['kind']
  if k == 'attr':
    s = '%s : %s' % (m['name'], _type_txt(m))
    if m['default'] is not None:
      s += ' = ' + _val_txt(m['default'])
    return s + _facets_txt(m['facets'])
  if k == 'use':
    return 'use %s' % m['group']
  if k == 'child':
    return 'child %s %s' % (m['name'], m['card'])
  if k == 'set':
    return 'set %s = %s' % (m['field'], m['value'])
  if k == 'con':
    return m['verb'] + ' ' + ' '.join('+'.join(bd) for bd in m['bundles'])
  if k == 'raw':
    return m['text']
  raise ValueError(k)


def render(model, style=0):
  """Returns (text, lines) where lines maps ('enum'|'group'|'element', name) -> line of the declaration and
  (kind, name, member_index) -> line of that member.  style varies layout only."""
  out = []
  lines = {}

  def emit(s, doc=None):
    out.append(s + ('   # %s' % doc if doc else ''))
    return len(out)
  if style % 3 == 1:
    emit('# generated schema')
    emit('')
  ind = '  ' if style % 2 == 0 else '\t'
  for what, i in model['order']:
    if what == 'enum':
      e = model['enums'][i]
      head = 'enum %s%s {' % (e['name'], (' : %s' % e['ctype']) if e['ctype'] else '')
      items = ['%s = %s' % (('"%s"' % k) if q else k, v) for k, q, v in e['items']]
      if e.get('oneline'):
        lines[('enum', e['name'])] = emit(head + ' ' + ' '.join(items) + ' }', e['doc'])
      else:
        lines[('enum', e['name'])] = emit(head, e['doc'])
        for it in items:
          emit(ind + it)
        emit('}')
    elif what == 'group':
      g = model['groups'][i]
      lines[('group', g['name'])] = emit('group %s%s {' % (g['name'], ' variant' if g['variant'] else ''), g['doc'])
      for j, m in enumerate(g['members']):
        lines[('group', g['name'], j)] = emit(ind + member_txt(m), m.get('doc'))
      emit('}')
    else:
      e = model['elements'][i]
      head = 'element %s%s%s {' % (e['name'], (' : %s' % e['spec']) if e['spec'] else '', _facets_txt(e['facets']))
      if not e['members'] and style % 5 == 0:
        lines[('element', e['name'])] = emit(head + '}', e['doc'])
      else:
        lines[('element', e['name'])] = emit(head, e['doc'])
        for j, m in enumerate(e['members']):
          lines[('element', e['name'], j)] = emit(ind + member_txt(m), m.get('doc'))
        emit('}')
    if style % 2:
      emit('')
  return '\n'.join(out) + ('\n' if style % 4 else ''), lines


# ----------------------------------------------------------------------------------------------- expected values
def expected_arity(a):
  ar = a['arity']
  if a['type'] in ('enum', 'flags', 'id', 'ref') or ar is None:
    return (1, 1)
  if ar[0] == 'n':
    return (ar[1], ar[1])
  if ar[0] == 'range':
    return (ar[1], ar[2])
  if ar[0] == 'sym':
    return (ar[1], ar[2])
  return (0, None)


def expected_value(v):
  if v is None:
    return None
  if v is True:
    return True
  kind, t = v
  if kind == 'num':
    return float(t)
  if kind == 'vec':
    return tuple(float(x) for x in t)
  return t


# ----------------------------------------------------------------------------------------------- mutations
def _containers(model):
  return [('group', g) for g in model['groups']] + [('element', e) for e in model['elements']]


def _attrs_of(container):
  return [m for m in container['members'] if m['kind'] == 'attr']


def _new_attr(name='zz', **kw):
  a = dict(kind='attr', name=name, type='int', target=None, arity=None, default=None, facets=[], doc=None)
  a.update(kw)
  return a


def _fresh_element(model, members, name='mut_el', facets=()):
  e = dict(name=name, spec=None, facets=list(facets), members=members, doc=None)
  model['elements'].append(e)
  model['order'].append(('element', len(model['elements']) - 1))
  return e


def _fresh_group(model, members, name='mut_g', variant=False):
  g = dict(name=name, variant=variant, members=members, doc=None)
  model['groups'].append(g)
  model['order'].append(('group', len(model['groups']) - 1))
  return g


def _fresh_enum(model, items, name='mut_e'):
  e = dict(name=name, ctype=None, items=items, doc=None, oneline=False)
  model['enums'].append(e)
  model['order'].append(('enum', len(model['enums']) - 1))
  return e


def _host(model, r):
  """A random existing container to put a broken member into (or a fresh element)."""
  cs = _containers(model)
  if cs and r.random() < 0.7:
    return r.choice(cs)
  return ('element', _fresh_element(model, [], name='mut_host'))


def _dup_decl(model, r, what):
  xs = model[what + 's']
  if not xs:
    if what == 'enum':
      _fresh_enum(model, [('a', False, '0')])
    elif what == 'group':
      _fresh_group(model, [_new_attr()])
    xs = model[what + 's']
  src = copy.deepcopy(r.choice(xs))
  xs.append(src)
  model['order'].insert(r.randrange(len(model['order']) + 1), (what, len(xs) - 1))


def m_dup_enum(model, r): _dup_decl(model, r, 'enum')
def m_dup_group(model, r): _dup_decl(model, r, 'group')
def m_dup_element(model, r): _dup_decl(model, r, 'element')


def m_dup_enum_keyword(model, r):
  e = r.choice(model['enums']) if model['enums'] else _fresh_enum(model, [('a', False, '0')])
  k, q, v = r.choice(e['items'])
  # the duplicate may be spelled the other way round (quoted vs bare) when that is lexically possible
  q2 = (not q) if (k.replace('_', 'a').isalnum() and k and not k[0].isdigit() and r.random() < 0.5) else q
  e['items'].insert(r.randrange(len(e['items']) + 1), (k, q2, '7'))


def m_dangling_use(model, r):
  _host(model, r)[1]['members'].insert(0, dict(kind='use', group='nosuch_group'))


def m_dangling_child(model, r):
  e = r.choice(model['elements'])
  e['members'].append(dict(kind='child', name='nosuch_element', card=r.choice(CARDS), doc=None))


def m_dangling_enum(model, r):
  _host(model, r)[1]['members'].insert(0, _new_attr(type=r.choice(['enum', 'flags']), target='nosuch_enum'))


def m_dangling_ref(model, r):
  _host(model, r)[1]['members'].insert(0, _new_attr(type='ref', target='nosuch_ns'))


def m_dangling_alias(model, r):
  r.choice(model['elements'])['facets'].append(('alias', ('ident', 'nosuch_element')))
  for e in model['elements']:      # keep at most one alias facet per element (duplicate facet is another rule)
    al = [f for f in e['facets'] if f[0] == 'alias']
    if len(al) > 1:
      e['facets'] = [f for f in e['facets'] if f[0] != 'alias'] + [al[-1]]


def m_use_cycle(model, r):
  n = r.randint(1, 4)
  names = ['cyc%d' % i for i in range(n)]
  for i, nm in enumerate(names):
    _fresh_group(model, [_new_attr(name='c%d' % i), dict(kind='use', group=names[(i + 1) % n])], name=nm)
  if r.random() < 0.5:       # optionally reached from an existing container as well
    _host(model, r)[1]['members'].append(dict(kind='use', group=names[0]))


def m_dup_attr_direct(model, r):
  cs = [c for c in _containers(model) if _attrs_of(c[1]) and c[0] == 'element']
  if not cs:
    e = _fresh_element(model, [_new_attr(name='q')])
    cs = [('element', e)]
  c = r.choice(cs)[1]
  a = copy.deepcopy(r.choice(_attrs_of(c)))
  a['facets'] = [f for f in a['facets'] if f[0] != 'required'] if a['default'] is not None else a['facets']
  pos = [i for i, m in enumerate(c['members']) if m['kind'] != 'con']
  c['members'].insert(r.choice(pos + [max(pos) + 1]) if pos else 0, a)


def m_dup_attr_via_use(model, r):
  """An element declares an attribute that one of its used groups already brings in, 1-3 levels down."""
  levels = r.randint(1, 3)
  inner = _fresh_group(model, [_new_attr(name='deep_attr', type='double')], name='dupg0')
  for i in range(1, levels):
    inner = _fresh_group(model, [_new_attr(name='lvl%d' % i), dict(kind='use', group=inner['name'])], name='dupg%d' % i)
  mem = [dict(kind='use', group=inner['name']), _new_attr(name='deep_attr')]
  r.shuffle(mem)
  _fresh_element(model, mem, name='mut_dup')


def m_dup_attr_two_uses(model, r):
  """Two used groups share an attribute name (or the same group is spliced twice / diamond)."""
  base = _fresh_group(model, [_new_attr(name='shared_attr')], name='dia0')
  if r.random() < 0.5:
    a = _fresh_group(model, [dict(kind='use', group='dia0'), _new_attr(name='left')], name='dia1')
    bb = _fresh_group(model, [_new_attr(name='right'), dict(kind='use', group='dia0')], name='dia2')
    _fresh_element(model, [dict(kind='use', group='dia1'), dict(kind='use', group='dia2')], name='mut_dia')
  else:
    _fresh_element(model, [dict(kind='use', group='dia0'), _new_attr(name='between'), dict(kind='use', group='dia0')],
                   name='mut_twice')


def m_arity_decreasing(model, r):
  lo = r.randint(1, 5)
  hi = r.randint(0, lo)      # hi <= lo, including the boundary hi == lo
  _host(model, r)[1]['members'].insert(0, _new_attr(type='double', arity=('raw', '[%d..%d]' % (lo, hi))))


def m_arity_bad(model, r):
  txt = r.choice(['[-1]', '[1.5]', '[1e2]', '[2..1.5]', '[a]', '[..3]', '[1..]', '[1,2]'])
  _host(model, r)[1]['members'].insert(0, _new_attr(type='double', arity=('raw', txt)))


def m_default_too_long(model, r):
  n = r.randint(1, 4)
  ar = r.choice([('n', n), ('range', max(0, n - 2), n)]) if n > 1 else ('n', n)
  if ar[0] == 'range' and ar[1] >= ar[2]:
    ar = ('n', n)
  _host(model, r)[1]['members'].insert(0, _new_attr(type='double', arity=ar, default=('vec', ['1'] * (n + r.randint(1, 2)))))


def m_default_too_short(model, r):
  n = r.randint(2, 5)
  ar = r.choice([('n', n), ('range', n, n + 2), ('sym', n, 'mjNREF')])
  k = r.randint(1, n - 1)
  dflt = ('vec', ['1'] * k) if (k > 1 or r.random() < 0.5) else ('num', '1')
  _host(model, r)[1]['members'].insert(0, _new_attr(type='double', arity=ar, default=dflt))


def m_default_wrong_type(model, r):
  which = r.choice(['num-str', 'num-ident', 'str-num', 'scalar-vec', 'enum-num', 'enum-notkw', 'bool-num', 'bool-other',
                    'id-default', 'ref-default', 'chars-default', 'str-vec', 'file-ident'])
  host = _host(model, r)[1]
  if which == 'num-str':
    host['members'].insert(0, _new_attr(type=r.choice(NUMERIC), default=('str', '1')))
  elif which == 'num-ident':
    host['members'].insert(0, _new_attr(type=r.choice(NUMERIC), default=('ident', 'one')))
  elif which == 'str-num':
    host['members'].insert(0, _new_attr(type=r.choice(['string', 'file']), default=('num', '1')))
  elif which == 'str-vec':
    host['members'].insert(0, _new_attr(type='string', default=('vec', ['1', '2'])))
  elif which == 'file-ident':
    host['members'].insert(0, _new_attr(type='file', default=('num', '0')))
  elif which == 'scalar-vec':
    host['members'].insert(0, _new_attr(type=r.choice(NUMERIC), default=('vec', ['1', '2'])))
  elif which in ('enum-num', 'enum-notkw'):
    e = _fresh_enum(model, [('a', False, '0'), ('b', False, '1')], name='mut_enum')
    d = ('num', '0') if which == 'enum-num' else r.choice([('ident', 'c'), ('str', 'A'), ('ident', 'mut_enum')])
    host['members'].insert(0, _new_attr(type='enum', target='mut_enum', default=d))
  elif which == 'bool-num':
    host['members'].insert(0, _new_attr(type='bool', default=('num', r.choice(['0', '1']))))
  elif which == 'bool-other':
    host['members'].insert(0, _new_attr(type='bool', default=r.choice([('ident', 'maybe'), ('ident', 'True'), ('str', 'yes')])))
  elif which == 'id-default':
    host['members'].insert(0, _new_attr(type='id', target='mutns', default=('str', 'x')))
  elif which == 'ref-default':
    host['members'].insert(0, _new_attr(name='zid', type='id', target='mutns'))
    host['members'].insert(0, _new_attr(type='ref', target='mutns', default=r.choice([('ident', 'x'), ('str', 'x')])))
  else:
    host['members'].insert(0, _new_attr(type='chars', arity=('n', 3), default=('str', 'xyz')))


def m_required_with_default(model, r):
  t = r.choice(['int', 'string', 'bool'])
  d = {'int': ('num', '1'), 'string': ('str', 's'), 'bool': ('ident', 'true')}[t]
  _host(model, r)[1]['members'].insert(0, _new_attr(type=t, default=d, facets=[('required', True)]))


def m_facet_wrong_type(model, r):
  which = r.choice(['pattern-num', 'min-str', 'max-bool', 'positive-str', 'min-gt-max', 'min-strval', 'min-ident',
                    'pattern-enum'])
  host = _host(model, r)[1]
  if which == 'pattern-num':
    host['members'].insert(0, _new_attr(type=r.choice(NUMERIC), facets=[('pattern', ('str', 'x'))]))
  elif which == 'pattern-enum':
    _fresh_enum(model, [('a', False, '0')], name='mut_enum')
    host['members'].insert(0, _new_attr(type='enum', target='mut_enum', facets=[('pattern', ('str', 'x'))]))
  elif which == 'min-str':
    host['members'].insert(0, _new_attr(type=r.choice(['string', 'file']), facets=[('min', ('num', '0'))]))
  elif which == 'max-bool':
    host['members'].insert(0, _new_attr(type='bool', facets=[('max', ('num', '1'))]))
  elif which == 'positive-str':
    host['members'].insert(0, _new_attr(type=r.choice(['string', 'bool', 'file']), facets=[('positive', True)]))
  elif which == 'min-gt-max':
    fs = [('min', ('num', r.choice(['2', '0.5', '1e3']))), ('max', ('num', r.choice(['0', '-1', '0.25'])))]
    r.shuffle(fs)
    host['members'].insert(0, _new_attr(type=r.choice(NUMERIC), facets=fs))
  elif which == 'min-strval':
    host['members'].insert(0, _new_attr(type='double', facets=[(r.choice(['min', 'max']), ('str', '0'))]))
  else:
    host['members'].insert(0, _new_attr(type='double', facets=[(r.choice(['min', 'max']), ('ident', 'mjMINVAL'))]))


def m_unknown_facet(model, r):
  if r.random() < 0.5:
    _host(model, r)[1]['members'].insert(0, _new_attr(facets=[(r.choice(['frobnicate', 'xml', 'alias', 'default', 'Required']), True)]))
  else:
    r.choice(model['elements'])['facets'].append((r.choice(['required', 'nodefault', 'min', 'frob']), True))


def m_duplicate_facet(model, r):
  if r.random() < 0.6:
    _host(model, r)[1]['members'].insert(0, _new_attr(facets=[('nodefault', True), ('field', ('ident', 'f')), ('nodefault', True)]))
  else:
    _fresh_element(model, [], name='mut_f', facets=[('xml', ('ident', 'a')), ('xml', ('ident', 'b'))])


def m_element_facet_no_value(model, r):
  _fresh_element(model, [], name='mut_f', facets=[(r.choice(['xml', 'alias']), True)])


def m_variant_rules(model, r):
  if r.random() < 0.5:
    _fresh_group(model, [_new_attr(name='inner_a')], name='mut_inner')
    _fresh_group(model, [_new_attr(name='va'), dict(kind='use', group='mut_inner')], name='mut_var', variant=True)
  else:
    _fresh_group(model, [_new_attr(name='va'), _new_attr(name='vb', facets=[('required', True)])], name='mut_var', variant=True)
  if r.random() < 0.5:
    _fresh_element(model, [dict(kind='use', group='mut_var')], name='mut_var_user')


def m_requires_arity_element(model, r):
  mem = [_new_attr(name='x'), _new_attr(name='y'), _new_attr(name='z')]
  bundles = r.choice([[('x',), ('y', 'z')], [('x', 'y'), ('z',)], [('x',), ('y',), ('z',)]])
  mem.append(dict(kind='con', verb='requires', bundles=bundles, doc=None))
  _fresh_element(model, mem, name='mut_req')


def m_constraint_unknown_attr(model, r):
  where = r.choice(['element', 'group', 'group-via-use'])
  con = dict(kind='con', verb=r.choice(VERBS[:2] + ['oneof']), bundles=[('x',), ('nosuch_attr',)], doc=None)
  if where == 'element':
    _fresh_element(model, [_new_attr(name='x'), con], name='mut_con')
  elif where == 'group':
    _fresh_group(model, [_new_attr(name='x'), con], name='mut_cong')
  else:
    # a group constraint may only name the group's own attributes, not those of groups it uses
    _fresh_group(model, [_new_attr(name='nosuch_attr')], name='mut_inner')
    _fresh_group(model, [_new_attr(name='x'), dict(kind='use', group='mut_inner'), con], name='mut_cong')


def m_constraint_single_bundle(model, r):
  _fresh_element(model, [_new_attr(name='x'), _new_attr(name='y'),
                         dict(kind='raw', text=r.choice(VERBS) + ' ' + r.choice(['x', 'x+y']))], name='mut_con1')


def m_group_forbidden_member(model, r):
  txt = r.choice(['child mut_grp_host *', 'set type = mjSENS_TOUCH'])
  _fresh_group(model, [_new_attr(name='x'), dict(kind='raw', text=txt)], name='mut_grp_host')


def m_empty_decl(model, r):
  if r.random() < 0.5:
    _fresh_enum(model, [], name='mut_empty')
  else:
    _fresh_group(model, [], name='mut_empty')


def m_vector_forbidden(model, r):
  which = r.choice(['bool', 'file', 'chars-any', 'chars-sym', 'chars-none'])
  host = _host(model, r)[1]
  if which in ('bool', 'file'):
    host['members'].insert(0, _new_attr(type=which, arity=r.choice([('n', 2), ('any',), ('range', 0, 3), ('n', 0)])))
  elif which == 'chars-any':
    host['members'].insert(0, _new_attr(type='chars', arity=('any',)))
  elif which == 'chars-sym':
    host['members'].insert(0, _new_attr(type='chars', arity=('sym', 1, 'mjNREF')))
  else:
    host['members'].insert(0, _new_attr(type='chars', arity=None) if False else _new_attr(type='chars', arity=('any',)))


def m_unknown_type(model, r):
  _host(model, r)[1]['members'].insert(0, dict(kind='raw', text='zz : ' + r.choice(['number', 'Double', 'vector[3]', 'enum', 'ref'])))


def m_dup_child(model, r):
  e = r.choice(model['elements'])
  t = r.choice(model['elements'])['name']
  e['members'] = [m for m in e['members'] if not (m['kind'] == 'child' and m['name'] == t)]
  e['members'].append(dict(kind='child', name=t, card=r.choice(CARDS), doc=None))
  e['members'].insert(r.randrange(len(e['members']) + 1), dict(kind='child', name=t, card=r.choice(CARDS), doc=None))


def m_bad_cardinality(model, r):
  e = r.choice(model['elements'])
  e['members'].append(dict(kind='raw', text='child %s %s' % (e['name'], r.choice(['+', 'X', '1', '', '**']))))


def m_syntax(model, r):
  txt = r.choice(['zz ; double', 'zz : double = ', 'zz : double = {1 2}', 'zz : double[3', 'zz : enum<e', 'zz : double (min=)',
                  'zz : double (min=1', 'zz double', ': double', 'zz : double = {}', 'zz :: int', 'use', 'child'])
  _host(model, r)[1]['members'].insert(0, dict(kind='raw', text=txt))


MUTATIONS = dict(
    dup_enum=m_dup_enum, dup_group=m_dup_group, dup_element=m_dup_element, dup_enum_keyword=m_dup_enum_keyword,
    dangling_use=m_dangling_use, dangling_child=m_dangling_child, dangling_enum=m_dangling_enum,
    dangling_ref=m_dangling_ref, dangling_alias=m_dangling_alias, use_cycle=m_use_cycle,
    dup_attr_direct=m_dup_attr_direct, dup_attr_via_use=m_dup_attr_via_use, dup_attr_two_uses=m_dup_attr_two_uses,
    arity_decreasing=m_arity_decreasing, arity_bad=m_arity_bad, default_too_long=m_default_too_long,
    default_too_short=m_default_too_short, default_wrong_type=m_default_wrong_type,
    required_with_default=m_required_with_default, facet_wrong_type=m_facet_wrong_type, unknown_facet=m_unknown_facet,
    duplicate_facet=m_duplicate_facet, element_facet_no_value=m_element_facet_no_value, variant_rules=m_variant_rules,
    requires_arity_element=m_requires_arity_element, constraint_unknown_attr=m_constraint_unknown_attr,
    constraint_single_bundle=m_constraint_single_bundle, group_forbidden_member=m_group_forbidden_member,
    empty_decl=m_empty_decl, vector_forbidden=m_vector_forbidden, unknown_type=m_unknown_type, dup_child=m_dup_child,
    bad_cardinality=m_bad_cardinality, syntax=m_syntax)


def mutate(model, name, seed):
  import random
  m = copy.deepcopy(model)
  MUTATIONS[name](m, random.Random(seed))
  return m


# ----------------------------------------------------------------------------------------------- token soup
VOCAB = ['enum', 'group', 'element', 'use', 'child', 'set', 'variant', 'exclusive', 'together', 'requires', 'oneof',
         'double', 'float', 'int', 'bool', 'string', 'file', 'chars', 'id', 'ref', 'flags', 'required', 'nodefault', 'field',
         'pattern', 'min', 'max', 'positive', 'xml', 'alias', 'reading', 'writing', 'true', 'false',
         'a', 'b', 'g', 'e', 'x', 'mjNREF', '{', '}', '(', ')', '[', ']', '<', '>', ':', '=', ',', '?', '!', '*', '+', 'R',
         '..', '0', '1', '3', '-1', '1.5', '.5', '2.', '1e3', '1e-05', '0..3', '1..', '"s"', '""', '"a b"', '# c', '\n', '\n',
         '\n', ' ', '\t', '"', '.', '-', ';', '@', '\r', '\x00', 'é', '9' * 30]


def token_soup():
  toks = st.lists(st.sampled_from(VOCAB), min_size=0, max_size=60).map(lambda ts: ' '.join(ts))
  raw = st.text(max_size=80)
  chars = st.text(alphabet='{}()[]<>:=,?!*+."#\n \tabeg019-', max_size=120)
  return st.one_of(toks, toks, raw, chars)


def edit_text(text, seed, nedits=1):
  """Token-level edits of a (valid) schema text: delete / duplicate / swap / replace a token or a line."""
  import random
  import re
  r = random.Random(seed)
  toks = re.findall(r'"[^"\n]*"|#[^\n]*|\n|[ \t]+|[A-Za-z_][A-Za-z0-9_]*|-?[0-9.][0-9.eE+-]*|.', text)
  idx = [i for i, t in enumerate(toks) if not t.isspace() or t == '\n']
  ops = []
  for _ in range(nedits):
    if not idx:
      break
    i = r.choice(idx)
    op = r.choice(['del', 'dup', 'swap', 'repl', 'repl', 'delline', 'dupline', 'ins'])
    ops.append(op)
    if op == 'del':
      toks[i] = ''
    elif op == 'dup':
      toks[i] = toks[i] + ' ' + toks[i]
    elif op == 'swap':
      j = r.choice(idx)
      toks[i], toks[j] = toks[j], toks[i]
    elif op == 'repl':
      words = [t for t in toks if t[:1].isalpha() or t[:1] == '_']
      toks[i] = r.choice(words + VOCAB[:34]) if words else r.choice(VOCAB)
    elif op == 'ins':
      toks[i] = toks[i] + ' ' + r.choice(VOCAB) + ' '
    else:
      lines = ''.join(toks).split('\n')
      k = r.randrange(len(lines))
      if op == 'delline':
        del lines[k]
      else:
        lines.insert(k, lines[k])
      return '\n'.join(lines), ops
  return ''.join(toks), ops
