"""Hypothesis generator for C28: modelgen trees + a <sensor> block with every sensor element of the MJCF reference.

sensor_models(...) -> GenModel whose info has
  info['base_xml']   the model without any <sensor> block (ends with '</mujoco>')
  info['sensors']    list of dict(xml=<element text>, kind=<element name>, obj=<object type label>, ref=<reference label>,
                     cutoff=float, hist=None|'history'|'delay'|'interval'|'delay+interval', attrs=dict)
  build_xml(base_xml, sensors)  renders a model with an arbitrary sub-list of the sensors (used for the
                     remove-one-sensor isolation check).

Sites get a random volume type/size (they are sensor zones for touch / insidesite / contact), cameras get a
resolution and an orientation, a world camera and a world site are added.  Everything is drawn from Hypothesis.
"""
import re

from hypothesis import strategies as st

from vf import modelgen as mg

FRAME_OBJ = ('body', 'xbody', 'geom', 'site', 'camera')
SITE_TYPES = ('sphere', 'capsule', 'ellipsoid', 'cylinder', 'box')

SITE_SENSORS = ('touch', 'accelerometer', 'velocimeter', 'gyro', 'force', 'torque', 'magnetometer')
FRAME_POS = ('framepos', 'framequat', 'framexaxis', 'frameyaxis', 'framezaxis')
FRAME_VEL = ('framelinvel', 'frameangvel')
FRAME_ACC = ('framelinacc', 'frameangacc')
RAY_FIELDS = ('dist', 'dir', 'origin', 'point', 'normal', 'depth')
CON_FIELDS = ('found', 'force', 'torque', 'dist', 'pos', 'normal', 'tangent')
CON_REDUCE = ('none', 'mindist', 'maxforce', 'netforce')
# element names whose documented cutoff is the generic clamp
NO_XML_CUTOFF = ('framequat', 'framexaxis', 'frameyaxis', 'framezaxis', 'ballquat')


def build_xml(base_xml, sensors):
  if not sensors:
    return base_xml
  block = '<sensor>%s</sensor>' % ''.join(s['xml'] for s in sensors)
  assert base_xml.endswith('</mujoco>')
  return base_xml[:-len('</mujoco>')] + block + '</mujoco>'


def _attrs(d):
  return ''.join(' %s="%s"' % (k, v) for k, v in d.items() if v is not None)


@st.composite
def _site_volume(draw):
  t = draw(st.sampled_from(SITE_TYPES))
  if t == 'sphere':
    size = [draw(mg.num(0.03, 0.4))]
  elif t in ('capsule', 'cylinder'):
    size = [draw(mg.num(0.03, 0.3)), draw(mg.num(0.03, 0.3))]
  else:
    size = [draw(mg.num(0.03, 0.4)) for _ in range(3)]
  return t, size


@st.composite
def _subset_in_order(draw, fields, min_size=1):
  mask = draw(st.lists(st.booleans(), min_size=len(fields), max_size=len(fields)))
  sel = [f for f, b in zip(fields, mask) if b]
  if len(sel) < min_size:
    sel = [draw(st.sampled_from(list(fields)))]
  return sel


# input classes that can be excluded by construction (open known findings of C28; see checks/c28.py)
ALL_EXCLUSIONS = ('static-acc', 'rk4-delay', 'ekinetic-stale', 'capsulebox-distmax', 'ccd-concentric')


@st.composite
def sensor_models(draw, max_bodies=5, max_sensors=10, min_sensors=3, history=True, model_kwargs=None,
                  exclude=('rk4-delay',)):
  kw = dict(max_bodies=max_bodies, sensors=False, sites=True, cameras=True, actuators=True, tendons=True, plane=True,
            equalities=True, opt_kwargs=dict(sleep=False))
  kw.update(model_kwargs or {})
  gm = draw(mg.models(**kw))
  info = dict(gm.info)
  xml = gm.xml

  # ---- sites: give every site a volume (type + size)
  for s in list(info['sites']):
    t, size = draw(_site_volume())
    xml = xml.replace('<site name="%s"' % s, '<site name="%s" type="%s" size="%s"' % (s, t, mg.fmt(size)), 1)
  # ---- cameras: resolution, orientation, sometimes fovy / orthographic
  cams = re.findall(r'<camera name="(c\d+)"', xml)
  for c in cams:
    extra = ' resolution="%d %d"' % (draw(st.integers(1, 3)), draw(st.integers(1, 3)))
    extra += ' quat="%s"' % mg.fmt(draw(mg.unit_quat()))
    if draw(st.booleans()):
      extra += ' fovy="%s"' % mg.fmt(draw(mg.num(20, 100, 0)))
    xml = xml.replace('<camera name="%s"' % c, '<camera name="%s"%s' % (c, extra), 1)
  # ---- world camera and a guaranteed world site / extra body site
  world_extra = ''
  if draw(st.booleans()):
    ortho = draw(st.integers(0, 3)) == 0
    world_extra += '<camera name="cw" pos="%s" quat="%s" resolution="%d %d"%s/>' % (
        mg.fmt([draw(mg.num(-1, 1)), draw(mg.num(-1, 1)), draw(mg.num(0.2, 2))]), mg.fmt(draw(mg.unit_quat())),
        draw(st.integers(1, 3)), draw(st.integers(1, 3)),
        ' projection="orthographic" fovy="%s"' % mg.fmt(draw(mg.num(0.5, 3, 1))) if ortho else '')
    cams.append('cw')
  if 's0' not in info['sites'] and draw(st.booleans()):
    t, size = draw(_site_volume())
    world_extra += '<site name="s0" pos="%s" type="%s" size="%s" quat="%s"/>' % (
        mg.fmt([draw(mg.num(-0.5, 0.5)), draw(mg.num(-0.5, 0.5)), draw(mg.num(0, 0.5))]), t, mg.fmt(size),
        mg.fmt(draw(mg.unit_quat())))
    info['sites'] = list(info['sites']) + ['s0']
  xml = xml.replace('<worldbody>', '<worldbody>' + world_extra, 1)
  # every body without a site gets one with probability 1/2 (more attachment points deep in the tree)
  for b in info['bodies']:
    sname = 's' + b[1:]
    if sname not in info['sites'] and draw(st.booleans()):
      t, size = draw(_site_volume())
      sx = '<site name="%s" pos="%s" quat="%s" type="%s" size="%s"/>' % (
          sname, mg.fmt([draw(mg.num(-0.2, 0.2)) for _ in range(3)]), mg.fmt(draw(mg.unit_quat())), t, mg.fmt(size))
      # insert right after the opening tag of that body
      mt = re.search(r'<body name="%s"[^>]*>' % b, xml)
      xml = xml[:mt.end()] + sx + xml[mt.end():]
      info['sites'] = list(info['sites']) + [sname]
  if draw(st.integers(0, 2)) == 0:
    xml = xml.replace('<option', '<option magnetic="%s"' % mg.fmt([draw(mg.num(-1, 1, 1)) for _ in range(3)]), 1)

  # ---- limit margins (so that efc_pos - efc_margin differs from efc_pos)
  for mt in list(re.finditer(r'<(joint|fixed|spatial) name="([a-z0-9_]+)"[^>]*limited="true"', xml)):
    if draw(st.booleans()):
      tag = '<%s name="%s"' % (mt.group(1), mt.group(2))
      xml = xml.replace(tag, tag + ' margin="%s"' % mg.fmt(draw(mg.num(0.01, 0.3))), 1)

  # ---- half of the unlimited tendons become limited
  for mt in list(re.finditer(r'<(fixed|spatial) name="([a-z0-9_]+)"[^>]*>', xml)):
    if 'limited=' not in mt.group(0) and draw(st.booleans()):
      tag = '<%s name="%s"' % (mt.group(1), mt.group(2))
      xml = xml.replace(tag, tag + ' limited="true" range="0 1"', 1)
  # ---- half of the limited tendons get a narrow range so that the limit is active in many states
  for mt in list(re.finditer(r'<(fixed|spatial) name="([a-z0-9_]+)"[^>]*limited="true"[^>]*>', xml)):
    if draw(st.booleans()):
      tag = mt.group(0)
      if mt.group(1) == 'fixed':
        rng = '-%s %s' % (mg.fmt(draw(mg.num(0.01, 0.1))), mg.fmt(draw(mg.num(0.01, 0.1))))
      else:
        rng = '0 %s' % mg.fmt(draw(mg.num(0.1, 0.6)))
      xml = xml.replace(tag, re.sub(r'range="[^"]*"', 'range="%s"' % rng, tag), 1)

  sites = list(info['sites'])
  bsites = [s for s in sites if s != 's0']
  bodies = list(info['bodies'])
  geoms = list(info['geoms']) + (['floor'] if 'name="floor"' in xml else []) + (['gw'] if 'name="gw"' in xml else [])
  joints = list(info['joints'])
  hs = [j for j, t, _ in joints if t in ('hinge', 'slide')]
  balls = [j for j, t, _ in joints if t == 'ball']
  limited = [j for j, t, _ in joints if t != 'free' and re.search(r'<joint name="%s"[^>]*limited="true"' % j, xml)]
  tendons = list(info['tendons'])
  ltendons = [t for t in tendons if re.search(r'<(fixed|spatial) name="%s"[^>]*limited="true"' % t, xml)]
  acts = list(info['actuators'])
  info['cameras'] = cams

  # ---- bodies whose weld root has no degrees of freedom (no joint on the body nor on any ancestor).  Acceleration
  # sensors on them are a known finding of the tree (C28:static-acc): excluded from this stream by construction
  # (checks/c28.py has a dedicated probe for that class).
  jbodies = set(b for _, _, b in joints)
  static = {'world'}
  stack = ['world']
  for mt in re.finditer(r'<body name="(b\d+)"|</body>', xml):
    if mt.group(1):
      b = mt.group(1)
      if stack[-1] in static and b not in jbodies:
        static.add(b)
      stack.append(b)
    else:
      stack.pop()

  def owner(objtype, name):
    if objtype in ('body', 'xbody'):
      return name
    return 'b' + re.match(r'[a-z]+(\d+)', name).group(1) if re.match(r'[a-z]+[1-9]', name) else 'world'
  info['static_bodies'] = sorted(static)
  rk4 = 'integrator="RK4"' in xml
  info['excluded_rk4_delay'] = 0
  info['excluded_capsulebox_cutoff'] = 0
  info['excluded_same_body_pairs'] = 0
  gtype = dict(re.findall(r'<geom name="([a-z0-9_]+)" type="([a-z]+)"', xml))
  energy_flag = 'energy="enable"' in xml
  info['excluded_ekinetic_energyflag'] = 0
  info['excluded_static_acc'] = 0

  def frame_objs():
    out = [('body', b) for b in bodies] + [('xbody', b) for b in bodies] + [('geom', g) for g in geoms]
    out += [('site', s) for s in sites] + [('camera', c) for c in cams]
    return out

  fobjs = frame_objs()
  kinds = []
  if sites:
    kinds += ['site', 'site', 'rangefinder', 'insidesite']
  if cams:
    kinds += ['rangefinder_cam']
    if sites:
      kinds += ['camprojection']
  if hs:
    kinds += ['joint']
  if balls:
    kinds += ['ball', 'ball']
  if limited:
    kinds += ['jointlimit']
  if tendons:
    kinds += ['tendon']
  if ltendons:
    kinds += ['tendonlimit', 'tendonlimit', 'tendonlimit']
  if acts:
    kinds += ['actuator']
  kinds += ['framepos', 'framepos', 'framevel', 'framevel', 'frameacc', 'subtree', 'global', 'contact']
  if len(geoms) >= 2:
    kinds += ['collision']
  kinds += ['user']

  n = draw(st.integers(min_sensors, max_sensors))
  sensors = []
  for k in range(n):
    kind = draw(st.sampled_from(kinds))
    a = dict(name='sn%d' % k)
    obj = ref = 'none'
    if kind == 'site':
      el = draw(st.sampled_from(SITE_SENSORS))
      # force/torque need a site on a non-world body to be meaningful; the world site is still legal
      cand = bsites if bsites and draw(st.integers(0, 5)) else sites
      if el == 'accelerometer':
        dyn = [x for x in cand if owner('site', x) not in static] if 'static-acc' in exclude else cand
        info['excluded_static_acc'] += len(cand) - len(dyn)
        if not dyn:
          el = 'gyro'
        else:
          cand = dyn
      a['site'] = draw(st.sampled_from(cand))
      obj = 'site'
    elif kind == 'rangefinder':
      el = 'rangefinder'
      a['site'] = draw(st.sampled_from(sites))
      if draw(st.booleans()):
        a['data'] = ' '.join(draw(_subset_in_order(RAY_FIELDS)))
      obj = 'site'
    elif kind == 'rangefinder_cam':
      el = 'rangefinder'
      a['camera'] = draw(st.sampled_from(cams))
      if draw(st.booleans()):
        a['data'] = ' '.join(draw(_subset_in_order(RAY_FIELDS)))
      obj = 'camera'
    elif kind == 'camprojection':
      el = 'camprojection'
      a['site'] = draw(st.sampled_from(sites))
      a['camera'] = draw(st.sampled_from(cams))
      obj, ref = 'site', 'camera'
    elif kind == 'insidesite':
      el = 'insidesite'
      ot, on = draw(st.sampled_from(fobjs))
      a['objtype'], a['objname'] = ot, on
      a['site'] = draw(st.sampled_from(sites))
      obj, ref = ot, 'site'
    elif kind == 'joint':
      el = draw(st.sampled_from(['jointpos', 'jointvel', 'jointactuatorfrc']))
      a['joint'] = draw(st.sampled_from(hs))
      obj = 'joint'
    elif kind == 'ball':
      el = draw(st.sampled_from(['ballquat', 'ballangvel']))
      a['joint'] = draw(st.sampled_from(balls))
      obj = 'joint'
    elif kind == 'jointlimit':
      el = draw(st.sampled_from(['jointlimitpos', 'jointlimitvel', 'jointlimitfrc']))
      a['joint'] = draw(st.sampled_from(limited))
      obj = 'joint'
    elif kind == 'tendon':
      el = draw(st.sampled_from(['tendonpos', 'tendonvel', 'tendonactuatorfrc']))
      a['tendon'] = draw(st.sampled_from(tendons))
      obj = 'tendon'
    elif kind == 'tendonlimit':
      el = draw(st.sampled_from(['tendonlimitpos', 'tendonlimitvel', 'tendonlimitfrc']))
      a['tendon'] = draw(st.sampled_from(ltendons))
      obj = 'tendon'
    elif kind == 'actuator':
      el = draw(st.sampled_from(['actuatorpos', 'actuatorvel', 'actuatorfrc']))
      a['actuator'] = draw(st.sampled_from(acts))
      obj = 'actuator'
    elif kind in ('framepos', 'framevel', 'frameacc'):
      el = draw(st.sampled_from(FRAME_POS if kind == 'framepos' else FRAME_VEL if kind == 'framevel' else FRAME_ACC))
      cand = fobjs
      if kind == 'frameacc':
        dyn = [x for x in fobjs if owner(*x) not in static] if 'static-acc' in exclude else fobjs
        info['excluded_static_acc'] += len(cand) - len(dyn)
        if not dyn:
          el = 'framelinvel'
        else:
          cand = dyn
      ot, on = draw(st.sampled_from(cand))
      a['objtype'], a['objname'] = ot, on
      obj = ot
      if kind != 'frameacc' and draw(st.integers(0, 3)) != 0:
        rt, rn = draw(st.sampled_from(fobjs + [('body', 'world'), ('xbody', 'world')]))
        a['reftype'], a['refname'] = rt, rn
        ref = rt if rn != 'world' else 'world' + rt
    elif kind == 'subtree':
      el = draw(st.sampled_from(['subtreecom', 'subtreelinvel', 'subtreeangmom']))
      a['body'] = draw(st.sampled_from(bodies + ['world']))
      obj = 'body' if a['body'] != 'world' else 'worldbody'
    elif kind == 'global':
      el = draw(st.sampled_from(['clock', 'e_potential', 'e_kinetic']))
      if el == 'e_kinetic' and energy_flag and 'ekinetic-stale' in exclude:
        # known finding C28:ekinetic-stale (e_kinetic is evaluated in the position stage with a stale lazy flag when
        # the energy flag is enabled): excluded by construction
        info['excluded_ekinetic_energyflag'] += 1
        el = 'e_potential'
    elif kind == 'collision':
      el = draw(st.sampled_from(['distance', 'normal', 'fromto']))
      usebody1 = draw(st.booleans())
      usebody2 = draw(st.booleans())
      if usebody1 and usebody2 and len(bodies) < 2:
        usebody2 = False
      if usebody1:
        a['body1'] = draw(st.sampled_from(bodies))
      else:
        a['geom1'] = draw(st.sampled_from(geoms))
      def gbody(g):
        return 'b' + g[1:].split('_')[0] if g[1:2].isdigit() else 'world'
      b1 = a.get('body1') or gbody(a['geom1'])
      if usebody2 and not [b for b in bodies if b != b1]:
        usebody2 = False
      if usebody2:
        a['body2'] = draw(st.sampled_from([b for b in bodies if b != b1]))
      else:
        cand = [g for g in geoms if g != a.get('geom1') and gbody(g) != a.get('body1')]
        if 'ccd-concentric' in exclude:
          # known finding C28:ccd-concentric (concentric convex geoms report distance 0): two geoms of one body are
          # concentric whenever both are declared without pos -> same-body pairs excluded by construction
          c2 = [g for g in cand if gbody(g) != b1]
          info['excluded_same_body_pairs'] += len(cand) - len(c2)
          cand = c2 or ['floor']
        if not cand:
          cand = [g for g in geoms if g != a.get('geom1')]
        a['geom2'] = draw(st.sampled_from(cand))
      obj = 'body' if usebody1 else 'geom'
      ref = 'body' if usebody2 else 'geom'
    elif kind == 'contact':
      el = 'contact'
      first = draw(st.sampled_from(['none', 'geom1', 'body1', 'subtree1', 'subtree1', 'site']))
      second = draw(st.sampled_from(['none', 'none', 'geom2', 'body2', 'subtree2']))
      if first == 'site' and not sites:
        first = 'none'
      for key in (first, second):
        if key == 'none':
          continue
        if key.startswith('geom'):
          a[key] = draw(st.sampled_from(geoms))
        elif key == 'site':
          a[key] = draw(st.sampled_from(sites))
        else:
          a[key] = draw(st.sampled_from(bodies + ['world']))
      a['num'] = str(draw(st.sampled_from([1, 1, 2, 3, 4])))
      if draw(st.integers(0, 4)) != 0:
        a['data'] = ' '.join(draw(_subset_in_order(CON_FIELDS)))
      if draw(st.booleans()):
        a['reduce'] = draw(st.sampled_from(CON_REDUCE))
      obj, ref = first.rstrip('12'), second.rstrip('12')
    else:
      el = 'user'
      a['dim'] = str(draw(st.integers(1, 4)))
      if draw(st.booleans()):
        a['needstage'] = draw(st.sampled_from(['pos', 'vel', 'acc']))
      if draw(st.booleans()):
        a['datatype'] = draw(st.sampled_from(['real', 'positive']))
    cutoff = 0.0
    if el in ('distance', 'normal', 'fromto'):
      choices = [0.0, 0.05, 0.3, 1.0, 3.0, 3.0, 10.0]

      def gset(key_g, key_b):
        if key_g in a:
          return [a[key_g]]
        return [g for g in geoms if g.startswith('g' + a[key_b][1:] + '_')]
      t1 = set(gtype.get(g) for g in gset('geom1', 'body1'))
      t2 = set(gtype.get(g) for g in gset('geom2', 'body2'))
      if 'capsulebox-distmax' in exclude and (('capsule' in t1 and 'box' in t2) or ('box' in t1 and 'capsule' in t2)):
        # known finding C28:capsulebox-distmax (capsule-box collider misses pairs with d^2 > distmax + sizes when
        # distmax > 1): excluded by construction by keeping the cutoff <= 1
        choices = [0.0, 0.05, 0.3, 1.0, 1.0]
        info['excluded_capsulebox_cutoff'] += 1
      cutoff = draw(st.sampled_from(choices))
    elif el in NO_XML_CUTOFF:
      cutoff = 0.0      # compile error: 'cutoff applied to axis or quaternion datatype'
    elif draw(st.integers(0, 2)) == 0:
      cutoff = draw(st.sampled_from([0.001, 0.02, 0.1, 0.5, 1.0, 3.0, 20.0]))
    if cutoff:
      a['cutoff'] = mg.fmt(cutoff)
    hist = None
    if history and el != 'user' and draw(st.integers(0, 7)) == 0:
      a['nsample'] = str(draw(st.integers(1, 4)))
      modes = ['history', 'delay', 'interval', 'delay+interval']
      if rk4 and 'rk4-delay' in exclude:
        # known finding C28:rk4-delay (delay>0 samples are taken from the last RK stage): excluded by construction
        modes = ['history', 'interval']
        info['excluded_rk4_delay'] += 1
      mode = draw(st.sampled_from(modes))
      if 'delay' in mode:
        a['delay'] = mg.fmt(draw(mg.num(0.001, 0.03, 3)))
      if 'interval' in mode:
        a['interval'] = mg.fmt(draw(mg.num(0.001, 0.03, 3)))
      if draw(st.booleans()):
        a['interp'] = draw(st.sampled_from(['zoh', 'linear', 'cubic']))
      hist = mode
    sensors.append(dict(xml='<%s%s/>' % (el, _attrs(a)), kind=el, obj=obj, ref=ref, cutoff=cutoff, hist=hist,
                        attrs=a))

  info['base_xml'] = xml
  info['sensors'] = sensors
  labels = set(info.get('labels', []))
  info['labels'] = sorted(labels)
  return mg.GenModel(build_xml(xml, sensors), info)


# --------------------------------------------------------------------------- touch family

@st.composite
def touch_models(draw):
  """Bodies resting on the floor / on each other with touch zones that are thin compared with the penetration of the
  (soft or stiff) contact: thin pads, thin discs and small dots on or slightly off the contact surface, next to generous
  zones and far zones.  Sensor body is geom2's body (body on the floor), geom1's body (world pad under a body, lower
  body of a stack) or both.  info['state_mode'] = 'settle': the check lets the bodies settle for a few steps."""
  soft = draw(st.sampled_from([None, None, '.1 1', '.05 1', '.2 1', '.03 1']))
  sr = ' solref="%s"' % soft if soft else ''
  floor_soft = sr if draw(st.booleans()) else ''
  xml = '<mujoco><option timestep="%s"%s/><worldbody><geom name="floor" type="plane" size="3 3 .1"%s/>' % (
      mg.fmt(draw(st.sampled_from([0.001, 0.002, 0.004]))),
      ' cone="elliptic"' if draw(st.booleans()) else '', floor_soft)
  sites = []        # (name, on world?)

  def thin():
    return draw(st.sampled_from([0.0001, 0.0002, 0.0005, 0.001, 0.002]))

  def body(name, x, y, zbase, stacked):
    gt = draw(st.sampled_from(['box', 'box', 'sphere', 'cylinder', 'capsule', 'ellipsoid']))
    if gt == 'box':
      sz = [draw(mg.num(0.05, 0.2)), draw(mg.num(0.05, 0.2)), draw(mg.num(0.04, 0.12))]
      hz, fx, fy = sz[2], sz[0], sz[1]
    elif gt == 'sphere':
      sz = [draw(mg.num(0.05, 0.15))]
      hz, fx, fy = sz[0], 0.03, 0.03
    elif gt == 'cylinder':
      sz = [draw(mg.num(0.05, 0.15)), draw(mg.num(0.04, 0.12))]
      hz, fx, fy = sz[1], sz[0], sz[0]
    elif gt == 'capsule':
      sz = [draw(mg.num(0.04, 0.1)), draw(mg.num(0.03, 0.1))]
      hz, fx, fy = sz[0] + sz[1], 0.03, 0.03
    else:
      sz = [draw(mg.num(0.06, 0.15)), draw(mg.num(0.06, 0.15)), draw(mg.num(0.04, 0.1))]
      hz, fx, fy = sz[2], 0.03, 0.03
    gx = draw(mg.num(-0.02, 0.02))
    tilt = [draw(st.integers(-3, 3)), draw(st.integers(-3, 3)), draw(st.integers(-180, 180))] if gt in ('box', 'cylinder') \
        else [0, 0, draw(st.integers(-180, 180))]
    z = zbase + hz - draw(st.sampled_from([0.0, 0.0005, 0.002]))
    bx = '<body name="%s" pos="%s" euler="%s"><freejoint/><geom name="g%s" type="%s" size="%s" mass="%s" pos="%s 0 0"%s/>' % (
        name, mg.fmt([x, y, z]), mg.fmt(tilt), name, gt, mg.fmt(sz), mg.fmt(draw(mg.num(0.5, 8, 1))), mg.fmt(gx),
        sr if draw(st.booleans()) else '')
    # zones on the bottom face (z = -hz) and the top face (z = +hz)
    faces = [('bot', -hz)] + ([('top', hz)] if stacked else [])
    for fname, fz in faces:
      off = draw(st.sampled_from([0.0, 0.0, 0.0002, -0.0002, 0.001])) * (1 if fz > 0 else -1)   # + = outside the geom
      for kind in draw(st.lists(st.sampled_from(['pad', 'pad', 'half', 'disc', 'dot', 'generous']), min_size=2,
                                max_size=4, unique=True)):
        sn = '%s_%s_%s' % (name, fname, kind)
        if kind == 'pad':
          sx = '<site name="%s" type="box" size="%s" pos="%s"/>' % (sn, mg.fmt([fx * 1.3, fy * 1.3, thin()]),
                                                                 mg.fmt([gx, 0, fz + off]))
        elif kind == 'half':
          sx = '<site name="%s" type="box" size="%s" pos="%s"/>' % (sn, mg.fmt([fx * 0.65, fy * 1.3, thin()]),
                                                                 mg.fmt([gx + fx * 0.65, 0, fz + off]))
        elif kind == 'disc':
          sx = '<site name="%s" type="cylinder" size="%s" pos="%s"/>' % (sn, mg.fmt([max(fx, fy) * 1.5, thin()]),
                                                                      mg.fmt([gx, 0, fz + off]))
        elif kind == 'dot':
          sx = '<site name="%s" type="%s" size="%s" pos="%s"/>' % (
              sn, draw(st.sampled_from(['sphere', 'ellipsoid'])).replace('ellipsoid', 'sphere'),
              mg.fmt([draw(st.sampled_from([0.0005, 0.001, 0.003, 0.01]))]), mg.fmt([gx, 0, fz + off]))
        else:
          sx = '<site name="%s" type="%s" size="%s" pos="%s"/>' % (
              sn, draw(st.sampled_from(['box', 'ellipsoid'])), mg.fmt([fx * 1.5, fy * 1.5, 0.03]), mg.fmt([gx, 0, fz]))
        bx += sx
        sites.append(sn)
    fs = name + '_far'
    bx += '<site name="%s" type="sphere" size="0.01" pos="%s"/>' % (fs, mg.fmt([gx + fx * 3 + 0.1, 0, 0]))
    sites.append(fs)
    return bx + '</body>', hz, gt

  nb = draw(st.integers(1, 2))
  x = 0.0
  for k in range(nb):
    stacked = draw(st.integers(0, 2)) == 0
    bx, hz, gt = body('a%d' % k, x, draw(mg.num(-0.2, 0.2)), 0.0, stacked and True)
    xml += bx
    # world pad under the body (the world body is geom1's body of the floor contact)
    if draw(st.booleans()):
      wn = 'w%d_%s' % (k, draw(st.sampled_from(['pad', 'disc'])))
      if wn.endswith('pad'):
        xml += '<site name="%s" type="box" size="%s" pos="%s"/>' % (wn, mg.fmt([0.3, 0.3, thin()]), mg.fmt([x, 0, 0]))
      else:
        xml += '<site name="%s" type="cylinder" size="%s" pos="%s"/>' % (wn, mg.fmt([0.35, thin()]), mg.fmt([x, 0, 0]))
      sites.append(wn)
    if stacked and gt in ('box', 'cylinder'):
      bx2, _, _ = body('b%d' % k, x, 0.0, 2 * hz, False)
      xml += bx2
    x += 0.8
  xml += '</worldbody></mujoco>'
  n = draw(st.integers(3, min(8, len(sites))))
  chosen = draw(st.lists(st.sampled_from(sites), min_size=n, max_size=n, unique=True))
  sensors = []
  for k, sn in enumerate(chosen):
    a = dict(name='sn%d' % k, site=sn)
    cutoff = 0.0
    if draw(st.integers(0, 5)) == 0:
      cutoff = draw(st.sampled_from([0.5, 5.0, 50.0]))
      a['cutoff'] = mg.fmt(cutoff)
    sensors.append(dict(xml='<touch%s/>' % _attrs(a), kind='touch', obj='site', ref='none', cutoff=cutoff, hist=None,
                        attrs=a))
  info = dict(base_xml=xml, sensors=sensors, state_mode='settle', labels=['touch-family'])
  return mg.GenModel(build_xml(xml, sensors), info)


# --------------------------------------------------------------------------- tendon-actuator-force family

@st.composite
def tendonact_models(draw):
  """A 3-link arm with 2-3 tendons and a mix of tendon / joint / site / body / slider-crank actuators whose target ids
  coincide numerically with the tendon ids (tendon 0 <-> joint 0, site 0, ...), and tendonactuatorfrc sensors on every
  tendon (plus jointactuatorfrc / actuatorfrc sensors), in random order.  Actuation is always enabled and gains are
  non-trivial, so every actuator produces a force when ctrl != 0 (the check's random state sets ctrl in [-2, 2])."""
  jt = [draw(st.sampled_from(['hinge', 'hinge', 'slide'])) for _ in range(3)]
  xml = '<mujoco><option timestep="0.002" gravity="0 0 %s"/><worldbody>' % mg.fmt(draw(st.sampled_from([0.0, -9.81])))
  depth = 0
  for k in range(3):
    ax = [draw(st.integers(-2, 2)) for _ in range(3)]
    if not any(ax):
      ax = [0, 1, 0]
    xml += ('<body name="b%d" pos="%s"><joint name="j%d" type="%s" axis="%s" damping="%s"/>'
            '<geom name="g%d" type="capsule" fromto="0 0 0 .2 0 0" size=".03" contype="0" conaffinity="0" mass="%s"/>'
            '<site name="s%d" pos="%s"/>' % (
                k, mg.fmt([0.2 if k else 0.0, 0, 0.5 if not k else 0.0]), k, jt[k], mg.fmt(ax),
                mg.fmt(draw(mg.num(0, 1))), k, mg.fmt(draw(mg.num(0.3, 3, 1))), k,
                mg.fmt([draw(mg.num(0.02, 0.18)), draw(mg.num(-0.05, 0.05)), draw(mg.num(-0.05, 0.05))])))
    depth += 1
  xml += '</body>' * depth + '<site name="s3" pos="0.1 0.3 0.6"/></worldbody>'
  nt = draw(st.integers(2, 3))
  tx = ''
  for t in range(nt):
    if draw(st.booleans()):
      js = draw(st.lists(st.sampled_from([0, 1, 2]), min_size=1, max_size=3, unique=True))
      tx += '<fixed name="t%d">%s</fixed>' % (t, ''.join('<joint joint="j%d" coef="%s"/>' % (
          j, mg.fmt(draw(mg.num(-2, 2, 1)) or 1.0)) for j in js))
    else:
      a, b = draw(st.lists(st.sampled_from([0, 1, 2, 3]), min_size=2, max_size=2, unique=True))
      tx += '<spatial name="t%d"><site site="s%d"/><site site="s%d"/></spatial>' % (t, a, b)
  xml += '<tendon>%s</tendon>' % tx
  acts = []

  def gain():
    return mg.fmt(draw(mg.num(0.5, 5, 1)) * draw(st.sampled_from([-1, 1])))
  # tendon actuators: at least one on every sensed tendon
  for t in range(nt):
    for _ in range(draw(st.integers(1, 2))):
      acts.append('<general tendon="t%d" gainprm="%s" gear="%s"/>' % (t, gain(), mg.fmt(draw(st.sampled_from([1.0, 1.0, 2.0, -0.5])))))
  # non-tendon actuators whose target id coincides with a tendon id
  for t in range(nt):
    for kind in draw(st.lists(st.sampled_from(['joint', 'joint', 'site', 'jointinparent', 'body', 'slidercrank']),
                              min_size=1, max_size=3, unique=True)):
      if kind == 'joint':
        acts.append('<general joint="j%d" gainprm="%s"/>' % (t, gain()))
      elif kind == 'jointinparent':
        acts.append('<general jointinparent="j%d" gainprm="%s"/>' % (t, gain()))
      elif kind == 'site':
        acts.append('<general site="s%d" gainprm="%s" gear="%s"/>' % (t, gain(), mg.fmt([draw(mg.num(-1, 1, 1)) for _ in range(6)])))
      elif kind == 'body':
        acts.append('<adhesion body="b%d" gain="%s" ctrlrange="0 2"/>' % (max(t - 1, 0), mg.fmt(draw(mg.num(0.5, 5, 1)))))
      else:
        acts.append('<general cranksite="s%d" slidersite="s%d" cranklength="0.3" gainprm="%s"/>' % (t, (t + 1) % 4, gain()))
  # a few actuators on non-coinciding targets
  if draw(st.booleans()):
    acts.append('<motor joint="j2" gear="%s"/>' % gain())
  acts = draw(st.permutations(acts))
  xml += '<actuator>%s</actuator></mujoco>' % ''.join(a.replace('<general ', '<general name="a%d" ' % i, 1).replace(
      '<adhesion ', '<adhesion name="a%d" ' % i, 1).replace('<motor ', '<motor name="a%d" ' % i, 1) for i, a in enumerate(acts))
  cands = []
  for t in range(nt):
    cands += [('tendonactuatorfrc', dict(tendon='t%d' % t), 'tendon')] * 2
  for j in range(3):
    if jt[j] in ('hinge', 'slide'):
      cands.append(('jointactuatorfrc', dict(joint='j%d' % j), 'joint'))
  for i in range(len(acts)):
    cands.append(('actuatorfrc', dict(actuator='a%d' % i), 'actuator'))
  cands += [('tendonpos', dict(tendon='t0'), 'tendon'), ('clock', {}, 'none')]
  n = draw(st.integers(nt + 1, min(9, len(cands))))
  chosen = [('tendonactuatorfrc', dict(tendon='t%d' % t), 'tendon') for t in range(nt)]
  chosen += draw(st.lists(st.sampled_from(cands), min_size=n - nt, max_size=n - nt))
  chosen = draw(st.permutations(chosen))
  sensors = []
  for k, (el, a0, obj) in enumerate(chosen):
    a = dict(name='sn%d' % k)
    a.update(a0)
    cutoff = 0.0
    if draw(st.integers(0, 6)) == 0:
      cutoff = draw(st.sampled_from([0.5, 3.0, 20.0]))
      a['cutoff'] = mg.fmt(cutoff)
    sensors.append(dict(xml='<%s%s/>' % (el, _attrs(a)), kind=el, obj=obj, ref='none', cutoff=cutoff, hist=None, attrs=a))
  info = dict(base_xml=xml, sensors=sensors, family='tendonact', labels=['tendonact-family'])
  return mg.GenModel(build_xml(xml, sensors), info)
