"""Extra generators for the smooth-dynamics checks (C05-C08, C25, C29): modelgen models post-processed with
features modelgen does not draw (gravity compensation, polynomial springs/dampers, free-joint springs, tendon
dead-bands, actuator armature/damping, multi-coefficient damping), or stripped down to conservative systems.

  smooth_models(conservative=False, **modelgen_kwargs) -> strategy of GenModel
"""
import xml.etree.ElementTree as ET

from hypothesis import strategies as st

from . import modelgen as mg

num = mg.num
fmt = mg.fmt


def _walk_bodies(root):
  wb = root.find('worldbody')
  out = []

  def rec(e):
    for b in e.findall('body'):
      out.append(b)
      rec(b)
  rec(wb)
  return out


@st.composite
def smooth_models(draw, conservative=False, gravcomp=True, poly=True, free_passive=True, actuator_inertia=True,
                  deadband=True, strip_damping=False, strip_springs=False, fluid=False, **kw):
  kw.setdefault('contacts', False)
  kw.setdefault('plane', False)
  kw.setdefault('equalities', False)
  kw.setdefault('sensors', False)
  jk = dict(kw.pop('joint_kwargs', None) or {})
  if conservative:
    jk.update(limits=False, frictionloss=False)
    kw['actuators'] = False
    kw['equalities'] = False
  kw['joint_kwargs'] = jk
  gm = draw(mg.models(**kw))
  root = ET.fromstring(gm.xml)
  labels = set(gm.info.get('labels', []))
  bodies = _walk_bodies(root)
  for b in bodies:
    if b.get('mocap') == 'true':
      continue
    if gravcomp and not conservative and draw(st.integers(0, 3)) == 0:
      b.set('gravcomp', fmt(draw(num(0, 1.5))))
      labels.add('gravcomp')
    for j in b.findall('joint'):
      jt = j.get('type')
      if jt == 'free' and free_passive and draw(st.integers(0, 2)) == 0:
        if draw(st.booleans()) and not strip_springs:
          j.set('stiffness', fmt(draw(num(0.5, 20, 1))))
          labels.add('spring:free')
        if draw(st.booleans()) and not conservative:
          j.set('damping', fmt(draw(num(0.01, 1))))
        if draw(st.integers(0, 2)) == 0:
          j.set('armature', fmt(draw(num(0.01, 0.3))))
          labels.add('armature:free')
      if conservative or strip_damping:
        j.attrib.pop('damping', None)
      if strip_springs:
        j.attrib.pop('stiffness', None)
      if j.get('stiffness') is not None:
        labels.add('spring:' + jt)
        if poly and draw(st.integers(0, 2)) == 0:
          j.set('stiffness', '%s %s %s' % (j.get('stiffness'), fmt(draw(num(-2, 5, 1))), fmt(draw(num(0, 10, 1)))))
          labels.add('spring:poly')
      if j.get('damping') is not None:
        labels.add('damping:' + jt)
        if poly and draw(st.integers(0, 2)) == 0:
          j.set('damping', '%s %s %s' % (j.get('damping'), fmt(draw(num(0, 0.5))), fmt(draw(num(0, 0.2)))))
          labels.add('damping:poly')
      if j.get('armature') is not None:
        labels.add('armature')
  ten = root.find('tendon')
  if ten is not None:
    for t in list(ten):
      if conservative:
        for a in ('damping', 'frictionloss', 'limited', 'range'):
          t.attrib.pop(a, None)
      if strip_damping:
        t.attrib.pop('damping', None)
      if strip_springs:
        t.attrib.pop('stiffness', None)
      if t.get('stiffness') is not None:
        labels.add('tendon-spring')
        if deadband and draw(st.integers(0, 2)) == 0:
          lo = draw(num(0.0, 0.6))
          if draw(st.booleans()):
            t.set('springlength', '%s %s' % (fmt(lo), fmt(lo + draw(num(0.0, 0.5)))))
            labels.add('tendon-deadband')
          else:
            t.set('springlength', fmt(lo))
        if poly and draw(st.integers(0, 2)) == 0:
          t.set('stiffness', '%s %s %s' % (t.get('stiffness'), fmt(draw(num(-2, 5, 1))), fmt(draw(num(0, 10, 1)))))
          labels.add('tendon-spring:poly')
      if t.get('damping') is not None:
        labels.add('tendon-damping')
        if poly and draw(st.integers(0, 2)) == 0:
          t.set('damping', '%s %s %s' % (t.get('damping'), fmt(draw(num(0, 0.5))), fmt(draw(num(0, 0.2)))))
          labels.add('tendon-damping:poly')
      if t.get('armature') is not None and float(t.get('armature')) > 0:
        labels.add('tendon-armature')
  act = root.find('actuator')
  if act is not None and actuator_inertia:
    for a in list(act):
      if a.get('joint') is None and a.get('tendon') is None:
        continue
      if draw(st.integers(0, 2)) == 0:
        a.set('armature', fmt(draw(num(0.01, 0.3))))
        labels.add('act-armature')
      if draw(st.integers(0, 2)) == 0:
        if draw(st.booleans()):
          a.set('damping', fmt(draw(num(0.01, 1))))
        else:
          a.set('damping', '%s %s %s' % (fmt(draw(num(0, 1))), fmt(draw(num(0, 0.3))), fmt(draw(num(0, 0.1)))))
        labels.add('act-damping')
  gm.xml = ET.tostring(root, encoding='unicode')
  gm.info['labels'] = sorted(labels)
  return gm


def classify(lib, m):
  """Structural labels measured on the compiled model (what the generator actually reached)."""
  import numpy as np
  e = lib.enums
  out = []
  jt = np.array(m.jnt_type)
  names = {e.mjJNT_FREE: 'free', e.mjJNT_BALL: 'ball', e.mjJNT_SLIDE: 'slide', e.mjJNT_HINGE: 'hinge'}
  for t in set(jt.tolist()):
    out.append('m:jnt:' + names[t])
  par = np.array(m.body_parentid)
  jb = np.array(m.jnt_bodyid)
  # ball below slide / hinge, two joints on one body, branching
  for j in range(m.njnt):
    if jt[j] == e.mjJNT_BALL:
      b = par[jb[j]]
      while b > 0:
        for j2 in range(m.njnt):
          if jb[j2] == b and jt[j2] == e.mjJNT_SLIDE:
            out.append('m:ball-below-slide')
          if jb[j2] == b and jt[j2] == e.mjJNT_HINGE:
            out.append('m:ball-below-hinge')
        b = par[b]
  if np.any(np.array(m.body_jntnum) >= 2):
    out.append('m:multijoint-body')
  movers = [b for b in range(1, m.nbody) if m.body_dofnum[b] > 0]
  kids = {}
  for b in movers:
    p = int(m.body_weldid[par[b]]) if par[b] > 0 else 0
    kids.setdefault(p, []).append(b)
  if any(len(v) >= 2 and p > 0 for p, v in kids.items()):
    out.append('m:branching')
  if np.any(np.array(m.dof_armature) > 0):
    out.append('m:armature')
  if m.ntendon and np.any(np.array(m.tendon_armature) > 0):
    out.append('m:tendon-armature')
  iq = np.array(m.body_iquat)
  if m.nbody > 1 and np.any(np.abs(np.abs(iq[1:, 0]) - 1) > 1e-9):
    out.append('m:offdiag-inertia')
  if np.any(np.array(m.dof_simplenum) > 0):
    out.append('m:simple-dofs')
  return sorted(set(out))


_NOISE = ('geom:', 'jnt:', 'inertial', 'nbody>=3', 'trn:', 'armature', 'multijoint', 'depth>=2', 'damping:', 'spring:',
          'gravcomp', 'tendon:', 'act:motor', 'act:position', 'act:velocity', 'act:general', 'act:damper')


def brief(labels, keep=()):
  """Drop generator labels that duplicate the measured 'm:' labels or carry little information, so that the 60-label
  evidence histogram shows what matters for the check. `keep` = prefixes to keep anyway."""
  out = []
  for l in labels:
    if any(l.startswith(k) for k in keep) or not any(l.startswith(n) for n in _NOISE) or l in ('act:general_dyn', 'act:intvelocity'):
      out.append(l)
  return out


def opt_info(lib, m):
  """Integrator name and disabled-flag dict read back from the compiled model (so that a replay needs only xml + seed)."""
  e = lib.enums
  integ = {e.mjINT_EULER: 'Euler', e.mjINT_RK4: 'RK4', e.mjINT_IMPLICIT: 'implicit', e.mjINT_IMPLICITFAST: 'implicitfast'}[int(m.opt.integrator)]
  bits = int(m.opt.disableflags)
  names = dict(spring=e.mjDSBL_SPRING, damper=e.mjDSBL_DAMPER, gravity=e.mjDSBL_GRAVITY, actuation=e.mjDSBL_ACTUATION,
               eulerdamp=e.mjDSBL_EULERDAMP, warmstart=e.mjDSBL_WARMSTART, contact=e.mjDSBL_CONTACT)
  return integ, {k: 'disable' for k, v in names.items() if bits & v}


def make_replay(main_fn):
  """replay(ck, body) for checks whose cases are (GenModel, state seed): re-runs the check's test on that single case."""
  def replay(ck, body):
    from . import mj
    from .runner import Violation
    c = body['case']['case']
    gm = mg.GenModel(c[0]['xml'], dict(labels=list(c[0].get('labels', []))))

    def run_one(test, strategy, n, name='main', **kw):
      try:
        test((gm, int(c[1])))
      except (Violation, AssertionError, mj.MjError) as e:
        ck.violation('%s: %s' % (type(e).__name__, e), dict(check=name, case=c), bucket=getattr(e, 'bucket', None) or name)
    ck.run_hypothesis = run_one
    ck._replaying = True
    main_fn(ck)
  return replay
